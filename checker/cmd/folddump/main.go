// folddump prints the folded sources (package fold) of a tree: a development aid.
package main

import (
	"fmt"
	"os"

	"hpfscheck/internal/fold"
	"hpfscheck/internal/load"
)

func main() {
	if len(os.Args) < 3 {
		fmt.Println("usage: folddump <repo> <reference_funcs.json>")
		os.Exit(2)
	}
	inv := fold.ReadInventory(os.Args[2])
	env := append(os.Environ(), "GOWORK=off", "GOFLAGS=-mod=mod", "GOPROXY=off")
	r, err := fold.Overlay(os.Args[1], load.ModulePath, env, inv)
	fmt.Println(err, r.Folded, r.Kept)
	for f, b := range r.Overlay {
		fmt.Println("=====", f)
		os.Stdout.Write(b)
	}
}
