// hpfscheck decides structural obligations of hackpadfs properties C01–C20 from source.
package main

import (
	"encoding/json"
	"flag"
	"fmt"
	"os"
	"runtime"
	"runtime/debug"
	"strconv"
	"strings"
	"sync"
	"time"

	"hpfscheck/internal/core"
	"hpfscheck/internal/fold"
	"hpfscheck/internal/load"
	"hpfscheck/internal/rules"
	"hpfscheck/internal/sens"
)

func main() {
	prop := flag.String("property", "", "property id (C01..C20)")
	tier := flag.String("tier", "", "quick|thorough")
	repo := flag.String("repo", "/repo", "repository root")
	verif := flag.String("verif", "/verif", "verif dir (evidence, known findings)")
	only := flag.String("only", "", "re-derive one obligation key only")
	replay := flag.String("replay", "", "replay file written by a previous run")
	dbg := flag.String("debug-invalid", "", "comma-separated function names")
	dbgErr := flag.String("debug-errabs", "", "comma-separated function names")
	writeInv := flag.Bool("write-inventory", false, "write <verif>/reference_funcs.json from the function declarations of -repo (the reference decomposition that new helpers are folded back into) and exit")
	many := flag.String("properties", "", "development aid: 'all' or a comma-separated list; the quick tier of each is run in this one process (programs loaded once) and a line 'RESULT property=<id> rc=<n>' is printed per property")
	flag.Parse()
	load.InventoryFile = *verif + "/reference_funcs.json"
	if *writeInv {
		if err := fold.WriteInventory(*repo, load.InventoryFile); err != nil {
			fmt.Println(err)
			os.Exit(2)
		}
		return
	}
	if os.Getenv("GOMAXPROCS") == "" {
		// many OS threads make the loader spend its time in the kernel on this VM; 4 is the measured optimum
		runtime.GOMAXPROCS(4)
	}
	if *tier == "" {
		*tier = os.Getenv("VERIF_TIER")
	}
	if *tier != "thorough" {
		*tier = "quick"
	}
	var seed int64
	if s := os.Getenv("VERIF_SEED"); s != "" {
		seed, _ = strconv.ParseInt(s, 10, 64)
	}
	if *replay != "" {
		k, err := core.ReplayKey(*replay)
		if err != nil {
			fmt.Println("cannot read replay file:", err)
			os.Exit(2)
		}
		*only = k
	}
	if *dbgErr != "" {
		pr, err := load.Load(*repo, load.Linux)
		if err != nil {
			fmt.Println(err)
			os.Exit(2)
		}
		rules.DebugErrAbs(pr, strings.Split(*dbgErr, ",")...)
		return
	}
	if *dbg != "" {
		pr, err := load.Load(*repo, load.Linux)
		if err != nil {
			fmt.Println(err)
			os.Exit(2)
		}
		rules.DebugInvalid(pr, strings.Split(*dbg, ",")...)
		return
	}
	if *many != "" {
		os.Exit(runMany(*many, *repo, *verif, seed))
	}
	spec := rules.Get(*prop)
	if spec == nil {
		fmt.Fprintf(os.Stderr, "unknown property %q; known: %v\n", *prop, rules.IDs())
		os.Exit(2)
	}
	start := time.Now()
	targets := append([]load.Target{}, spec.Targets...)
	if *tier == "thorough" {
		have := map[load.Target]bool{}
		for _, t := range targets {
			have[t] = true
		}
		for _, t := range []load.Target{load.Linux, load.Windows, load.Wasm, load.Linux32, load.Darwin} {
			if !have[t] {
				targets = append(targets, t)
			}
		}
	}
	progs := make([]*load.Program, len(targets))
	errs := make([]error, len(targets))
	var wg sync.WaitGroup
	for i, t := range targets {
		wg.Add(1)
		go func(i int, t load.Target) {
			defer wg.Done()
			progs[i], errs[i] = load.Load(*repo, t)
		}(i, t)
	}
	wg.Wait()
	var ok []*load.Program
	ctx := core.NewCtx(*prop, *tier, seed, *repo, *verif, nil)
	for i, e := range errs {
		if e != nil {
			ctx.Hard("cannot load %s: %v", targets[i], e)
		} else {
			ok = append(ok, progs[i])
		}
	}
	ctx.Progs = ok
	ctx.Only = *only
	foldInfo(ctx, ok)
	func() {
		defer func() {
			if r := recover(); r != nil {
				ctx.Hard("panic in rules of %s: %v\n%s", *prop, r, debug.Stack())
			}
		}()
		if len(ok) > 0 {
			spec.Run(ctx)
		}
	}()
	if *tier == "thorough" && *only == "" {
		self, _ := os.Executable()
		res, err := sens.Run(self, *prop, *repo, *verif)
		if err != nil {
			ctx.Hard("sensitivity run: %v", err)
		}
		killed, missed, skipped := 0, 0, 0
		silent, falseAlarms := 0, 0
		for _, r := range res {
			switch r.Outcome {
			case "silent":
				silent++
			case "false-alarm":
				falseAlarms++
				if knownNeutralAlarm(*verif, *prop, r.Name) {
					fmt.Printf("neutral variant %q is reported (listed in neutral/KNOWN_ALARMS.json as a limit of the per-function rules): %s\n", r.Name, r.Detail)
				} else {
					ctx.Hard("false alarm: the behaviour-preserving variant %q is reported — %s", r.Name, r.Detail)
				}
			case "killed":
				killed++
			case "missed":
				missed++
				ctx.Hard("sensitivity: variant %q is no longer reported (expected %s): the rule went blind — %s", r.Name, r.Expect, r.Detail)
			default:
				skipped++
			}
		}
		ctx.Info("neutral_variants_silent", silent)
		ctx.Info("neutral_variants_reported", falseAlarms)
		ctx.Info("variants_seeded", len(res))
		ctx.Info("variants_killed", killed)
		ctx.Info("variants_skipped", skipped)
		ctx.Info("variants", res)
		fmt.Printf("sensitivity: %d variants, %d killed, %d missed, %d skipped; behaviour-preserving variants: %d silent, %d reported\n", len(res)-silent-falseAlarms, killed, missed, skipped, silent, falseAlarms)
	}
	os.Exit(ctx.Finish(start))
}

// runMany runs the quick tier of several properties in one process; every target is loaded once and shared.
func runMany(list, repo, verif string, seed int64) int {
	ids := rules.IDs()
	if list != "all" {
		ids = strings.Split(list, ",")
	}
	cache := map[load.Target]*load.Program{}
	errs := map[load.Target]error{}
	worst := 0
	for _, id := range ids {
		spec := rules.Get(id)
		if spec == nil {
			fmt.Fprintf(os.Stderr, "unknown property %q\n", id)
			return 2
		}
		start := time.Now()
		ctx := core.NewCtx(id, "quick", seed, repo, verif, nil)
		var ok []*load.Program
		for _, t := range spec.Targets {
			if _, done := cache[t]; !done && errs[t] == nil {
				cache[t], errs[t] = load.Load(repo, t)
			}
			if errs[t] != nil {
				ctx.Hard("cannot load %s: %v", t, errs[t])
			} else {
				ok = append(ok, cache[t])
			}
		}
		ctx.Progs = ok
		foldInfo(ctx, ok)
		func() {
			defer func() {
				if r := recover(); r != nil {
					ctx.Hard("panic in rules of %s: %v\n%s", id, r, debug.Stack())
				}
			}()
			if len(ok) > 0 {
				spec.Run(ctx)
			}
		}()
		rc := ctx.Finish(start)
		fmt.Printf("RESULT property=%s rc=%d\n", id, rc)
		if rc > worst {
			worst = rc
		}
	}
	return worst
}

// foldInfo records in the evidence which new helpers were folded into their callers before the analysis.
func foldInfo(ctx *core.Ctx, progs []*load.Program) {
	seen := map[string]bool{}
	var folded, kept, notes, renamed []string
	for _, p := range progs {
		for _, f := range p.Folded {
			if !seen["f"+f] {
				seen["f"+f] = true
				folded = append(folded, f)
			}
		}
		for _, f := range p.Renamed {
			if !seen["r"+f] {
				seen["r"+f] = true
				renamed = append(renamed, f)
			}
		}
		for _, f := range p.FoldKept {
			if !seen["k"+f] {
				seen["k"+f] = true
				kept = append(kept, f)
			}
		}
		if p.FoldNote != "" && !seen["n"+p.FoldNote] {
			seen["n"+p.FoldNote] = true
			notes = append(notes, p.FoldNote)
		}
	}
	if len(folded)+len(kept)+len(notes)+len(renamed) > 0 {
		ctx.Info("renamed_functions_given_their_reference_name", renamed)
		ctx.Info("new_helpers_folded_into_callers", folded)
		ctx.Info("new_helpers_left_alone", kept)
		ctx.Info("folding_notes", notes)
		fmt.Printf("normalisation: %d renamed function(s) given their reference name, %d new helper(s) folded into their callers, %d left alone%s\n", len(renamed), len(folded), len(kept), func() string {
			if len(notes) > 0 {
				return "; " + strings.Join(notes, "; ")
			}
			return ""
		}())
	}
}

// knownNeutralAlarm: neutral/KNOWN_ALARMS.json lists, per behaviour-preserving variant, the properties whose check
// still reports it (documented limits of per-function rules: DESIGN.md §6.6).
func knownNeutralAlarm(verif, prop, name string) bool {
	b, err := os.ReadFile(verif + "/neutral/KNOWN_ALARMS.json")
	if err != nil {
		return false
	}
	var m map[string][]string
	if json.Unmarshal(b, &m) != nil {
		return false
	}
	for _, p := range m[strings.TrimPrefix(name, "neutral ")] {
		if p == prop {
			return true
		}
	}
	return false
}
