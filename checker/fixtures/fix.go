// Package fix holds tiny constructs that the checker's engines MUST report (Bad*) and MUST NOT report (Good*).
// It is analysed on every run before /repo: a rule whose expected count on /repo is zero still matches something,
// and a rule that goes blind or over-reports fails the check. Nothing here is ever executed.
package fix

import (
	"errors"
	"io"
	"io/fs"
	"os"
	"path"
	"strings"
	"sync"
	"sync/atomic"
)

// ---------- bounds (E-bound) ----------

type GoodBlob struct {
	bytes  []byte
	length int64
	mu     *sync.Mutex
}

func (b *GoodBlob) Len() int { return int(atomic.LoadInt64(&b.length)) }

func (b *GoodBlob) View(start, end int64) ([]byte, error) {
	if start < 0 || start > int64(b.Len()) {
		return nil, errors.New("start")
	}
	if end < 0 || end > int64(b.Len()) {
		return nil, errors.New("end")
	}
	if start > end {
		return nil, errors.New("order")
	}
	b.mu.Lock()
	defer b.mu.Unlock()
	return b.bytes[start:end], nil
}

type BadBlob struct {
	bytes  []byte
	length int64
	mu     *sync.Mutex
}

func (b *BadBlob) Len() int { return int(atomic.LoadInt64(&b.length)) }

func (b *BadBlob) View(start, end int64) ([]byte, error) {
	if start < 0 || start > int64(b.Len()) {
		return nil, errors.New("start")
	}
	if end < 0 || end > int64(b.Len()) {
		return nil, errors.New("end")
	}
	b.mu.Lock()
	defer b.mu.Unlock()
	return b.bytes[start:end], nil // start > end is not excluded
}

// ---------- dropped errors (E-drop) ----------

func GoodDrop(f fs.FS, name string) error {
	h, err := f.Open(name)
	if err != nil {
		return err
	}
	defer func() { _ = h.Close() }() // read-only handle
	_, err = h.Stat()
	return err
}

func BadDrop(f fs.FS, name string) error {
	h, err := f.Open(name)
	if err != nil {
		return nil // reports success although Open failed
	}
	return h.Close()
}

func BadDiscard(name string) {
	w, _ := os.Create(name)
	_, _ = w.Write([]byte("x"))
	_ = w.Close() // a written handle's Close error is dropped
}

// ---------- name validity (E-valid) ----------

func GoodSink(name string) error {
	if !fs.ValidPath(name) {
		return errors.New("invalid")
	}
	return os.Remove(path.Join("/root", name))
}

func BadSink(name string) error {
	return os.Remove(path.Join("/root", name)) // no gate before the OS call
}

func BadLaunder(f fs.FS, name string) (fs.File, error) {
	return f.Open(path.Clean(name)) // normalised before anybody validated it
}

func GoodDelegate(f fs.FS, name string) (fs.File, error) {
	return f.Open(name) // unchanged: the callee rejects
}

// ---------- nullable field guard (R17.1) ----------

type inner struct{ path string }

type GoodHandle struct{ *inner }

func (h *GoodHandle) Close() error { h.inner = nil; return nil }
func (h *GoodHandle) Name() (string, error) {
	if h.inner == nil {
		return "", fs.ErrClosed
	}
	return h.path, nil
}

type BadHandle struct{ *inner }

func (h *BadHandle) Close() error          { h.inner = nil; return nil }
func (h *BadHandle) Name() (string, error) { return h.path, nil } // nil dereference after Close

// ---------- locksets (E-lock) ----------

type Table struct {
	mu sync.Mutex
	m  map[string]bool
}

func (t *Table) GoodSet(k string) {
	t.mu.Lock()
	t.m[k] = true
	t.mu.Unlock()
}

func (t *Table) BadSet(k string) {
	t.mu.Lock()
	t.mu.Unlock()
	t.m[k] = true // outside the critical section
}

// ---------- paging (R16.x) ----------

type GoodDir struct {
	names  []string
	offset int
}

func (d *GoodDir) Read([]byte) (int, error)   { return 0, io.EOF }
func (d *GoodDir) Close() error               { return nil }
func (d *GoodDir) Stat() (fs.FileInfo, error) { return nil, nil }
func (d *GoodDir) ReadDir(n int) ([]string, error) {
	if n > 0 && d.offset >= len(d.names) {
		return nil, io.EOF
	}
	start := d.offset
	if start > len(d.names) {
		start = len(d.names)
	}
	end := len(d.names)
	if n > 0 && start+n < end {
		end = start + n
	}
	d.offset += end - start
	return d.names[start:end], nil
}

// PulledDir is GoodDir with "cursor = end of the window": right while the cursor lies inside the listing, and pulls a
// cursor that lies beyond the end back to the length (R16.12).
type PulledDir struct {
	names  []string
	offset int
}

func (d *PulledDir) Read([]byte) (int, error)   { return 0, io.EOF }
func (d *PulledDir) Close() error               { return nil }
func (d *PulledDir) Stat() (fs.FileInfo, error) { return nil, nil }
func (d *PulledDir) ReadDir(n int) ([]string, error) {
	if n > 0 && d.offset >= len(d.names) {
		return nil, io.EOF
	}
	start := d.offset
	if start > len(d.names) {
		start = len(d.names)
	}
	end := len(d.names)
	if n > 0 && n < end-start {
		end = start + n
	}
	d.offset = end
	return d.names[start:end], nil
}

type BadDir struct {
	names  []string
	offset int
}

func (d *BadDir) Read([]byte) (int, error)   { return 0, io.EOF }
func (d *BadDir) Close() error               { return nil }
func (d *BadDir) Stat() (fs.FileInfo, error) { return nil, nil }
func (d *BadDir) ReadDir(n int) ([]string, error) {
	start, end := d.offset, d.offset+n
	if n <= 0 {
		start, end = 0, len(d.names)
	} else if end > len(d.names) {
		end = len(d.names)
	}
	d.offset += end - start
	return d.names[start:end], nil // never io.EOF; start may exceed end
}

// ---- route: a view built from a one-time route resolution (R07.4)

type Router interface {
	fs.FS
	Mount(name string) (fs.FS, string)
}

type view struct {
	parent fs.FS
	dir    string
}

func (v *view) Open(name string) (fs.File, error) { return v.parent.Open(v.dir + "/" + name) }

// GoodView wraps the router itself: every later name is routed again.
func GoodView(r Router, dir string) fs.FS { return &view{parent: r, dir: dir} }

// BadView resolves dir once and wraps what it resolved to: names below dir that route elsewhere are lost.
func BadView(r Router, dir string) fs.FS {
	m, sub := r.Mount(dir)
	return &view{parent: m, dir: sub}
}

// ---- pool: handle values must not be recycled (R17.6)

var anyPool sync.Pool

// GoodPool recycles a byte buffer.
func GoodPool(b *[]byte) { anyPool.Put(b) }

// BadPool recycles a handle: the closed handle's owner still holds the pointer.
func BadPool(d *GoodDir) { anyPool.Put(d) }

// ---- read: io.Reader's contract seen from the caller (R08.9 / R10.6 / R12.9)

// GoodReadLoop copies until an error; the bytes that come with io.EOF are written first.
func GoodReadLoop(w io.Writer, r io.Reader, buf []byte) error {
	for {
		n, err := r.Read(buf)
		if n > 0 {
			if _, werr := w.Write(buf[:n]); werr != nil {
				return werr
			}
		}
		if err == io.EOF {
			return nil
		}
		if err != nil {
			return err
		}
	}
}

// GoodFillLoop fills p completely; leaving the loop because the buffer is full is not a short count.
func GoodFillLoop(r io.Reader, p []byte) (total int, err error) {
	for total < len(p) && err == nil {
		var n int
		n, err = r.Read(p[total:])
		total += n
	}
	return total, err
}

// BadSingleRead treats one Read as the whole content.
func BadSingleRead(r io.Reader, size int) ([]byte, error) {
	data := make([]byte, size)
	n, err := r.Read(data)
	if err == io.EOF {
		err = nil
	}
	return data[:n], err
}

// BadShortExit takes a short count for the end of the data.
func BadShortExit(w io.Writer, r io.Reader, buf []byte) error {
	for {
		n, err := r.Read(buf)
		if n > 0 {
			if _, werr := w.Write(buf[:n]); werr != nil {
				return werr
			}
		}
		if err != nil && err != io.EOF {
			return err
		}
		if err != nil || n < len(buf) {
			return nil
		}
	}
}

// BadEOFTail drops the bytes that arrive together with io.EOF.
func BadEOFTail(w io.Writer, r io.Reader, buf []byte) error {
	for {
		n, err := r.Read(buf)
		if err == io.EOF {
			return nil
		}
		if err != nil {
			return err
		}
		if _, err = w.Write(buf[:n]); err != nil {
			return err
		}
	}
}

// ---- eofmap: a truncated stream is not a regular end (R13.10)

// BadEOFMap hides a truncated stream behind io.EOF.
func BadEOFMap(r io.Reader, p []byte) (n int, err error) {
	n, err = io.ReadFull(r, p)
	if err == io.ErrUnexpectedEOF {
		err = io.EOF
	}
	return
}

// BadEOFBreak ends its loop normally on a truncated stream.
func BadEOFBreak(next func() error) error {
	for {
		err := next()
		if err == io.EOF || err == io.ErrUnexpectedEOF {
			break
		}
		if err != nil {
			return err
		}
	}
	return nil
}

// GoodEOFKeep keeps the truncation an error.
func GoodEOFKeep(r io.Reader, p []byte) (int, error) {
	n, err := io.ReadFull(r, p)
	if errors.Is(err, io.ErrUnexpectedEOF) {
		return n, &fs.PathError{Op: "read", Path: "entry", Err: err}
	}
	return n, err
}

// ---- once: run-once evaluation keeps its error (R14.7) ----

type lister interface{ List() ([]string, error) }

type GoodMemo struct {
	src   lister
	once  sync.Once
	names []string
	err   error
}

func (m *GoodMemo) Names() ([]string, error) {
	m.once.Do(func() { m.names, m.err = m.src.List() })
	return m.names, m.err
}

type BadMemo struct {
	src   lister
	once  sync.Once
	names []string
}

func (m *BadMemo) Names() ([]string, error) {
	var err error
	m.once.Do(func() { m.names, err = m.src.List() })
	return m.names, err
}

// ---- notexist: the operation's error comes first (R14.8) ----

type OpResult struct {
	Record interface{}
	Err    error
}

func GoodFirst(results []OpResult) (interface{}, error) {
	if results[0].Err != nil {
		return nil, results[0].Err
	}
	if results[0].Record == nil {
		return nil, fs.ErrNotExist
	}
	return results[0].Record, nil
}

func BadFirst(results []OpResult) (interface{}, error) {
	if results[0].Record == nil {
		return nil, fs.ErrNotExist
	}
	return results[0].Record, results[0].Err
}

// ---- dirnamed: an error names the path that was asked for (R05.8) ----

func BadDirNamed(name string, err error) error {
	parent := path.Dir(name)
	return &fs.PathError{Op: "open", Path: parent, Err: err}
}

func GoodNamed(name string, err error) error {
	return &fs.PathError{Op: "open", Path: name, Err: err}
}

// ---- fold: the test that admits a prefix and the cut that removes it use the same relation (R09.9) ----

func BadFold(p, volume string) (string, bool) {
	if len(p) < len(volume) || !strings.EqualFold(p[:len(volume)], volume) {
		return "", false
	}
	return strings.TrimPrefix(p, volume), true
}

func GoodFold(p, volume string) (string, bool) {
	if !strings.HasPrefix(p, volume) {
		return "", false
	}
	return strings.TrimPrefix(p, volume), true
}

// ---- lockleak: no return with the mutex held (R17.10)

func (t *Table) GoodLeak(k string) error {
	t.mu.Lock()
	defer t.mu.Unlock()
	if k == "" {
		return errors.New("empty key")
	}
	t.m[k] = true
	return nil
}

func (t *Table) BadLeak(k string) error {
	t.mu.Lock()
	if k == "" {
		return errors.New("empty key") // forgot the Unlock
	}
	t.m[k] = true
	t.mu.Unlock()
	return nil
}

// ---- walkloop: every iteration of a collecting loop records its element (R20.16)

func GoodWalk(seen map[string]int, names []string, size func(string) (int, error)) {
	for _, n := range names {
		sz, err := size(n)
		if err != nil {
			sz = -1
		}
		seen[n] = sz
	}
}

func BadWalk(seen map[string]int, names []string, size func(string) (int, error)) {
	for _, n := range names {
		sz, err := size(n)
		if err != nil {
			continue // the element is never recorded
		}
		seen[n] = sz
	}
}

// ---- rangecb: a sync.Map Range callback collects by append, not by index into a slice sized earlier (R15.15)

func GoodRange(m *sync.Map) []string {
	var names []string
	m.Range(func(k, _ interface{}) bool {
		names = append(names, k.(string))
		return true
	})
	return names
}

func BadRange(m *sync.Map) []string {
	count := 0
	m.Range(func(_, _ interface{}) bool { count++; return true })
	names := make([]string, count)
	i := 0
	m.Range(func(k, _ interface{}) bool {
		names[i] = k.(string)
		i++
		return true
	})
	return names
}
