// Package fix holds tiny constructs that the checker's engines MUST report (Bad*) and MUST NOT report (Good*).
// It is analysed on every run before /repo: a rule whose expected count on /repo is zero still matches something,
// and a rule that goes blind or over-reports fails the check. Nothing here is ever executed.
package fix

import (
	"errors"
	"io"
	"io/fs"
	"os"
	"path"
	"sync"
	"sync/atomic"
)

// ---------- bounds (E-bound) ----------

type GoodBlob struct {
	bytes  []byte
	length int64
	mu     *sync.Mutex
}

func (b *GoodBlob) Len() int { return int(atomic.LoadInt64(&b.length)) }

func (b *GoodBlob) View(start, end int64) ([]byte, error) {
	if start < 0 || start > int64(b.Len()) {
		return nil, errors.New("start")
	}
	if end < 0 || end > int64(b.Len()) {
		return nil, errors.New("end")
	}
	if start > end {
		return nil, errors.New("order")
	}
	b.mu.Lock()
	defer b.mu.Unlock()
	return b.bytes[start:end], nil
}

type BadBlob struct {
	bytes  []byte
	length int64
	mu     *sync.Mutex
}

func (b *BadBlob) Len() int { return int(atomic.LoadInt64(&b.length)) }

func (b *BadBlob) View(start, end int64) ([]byte, error) {
	if start < 0 || start > int64(b.Len()) {
		return nil, errors.New("start")
	}
	if end < 0 || end > int64(b.Len()) {
		return nil, errors.New("end")
	}
	b.mu.Lock()
	defer b.mu.Unlock()
	return b.bytes[start:end], nil // start > end is not excluded
}

// ---------- dropped errors (E-drop) ----------

func GoodDrop(f fs.FS, name string) error {
	h, err := f.Open(name)
	if err != nil {
		return err
	}
	defer func() { _ = h.Close() }() // read-only handle
	_, err = h.Stat()
	return err
}

func BadDrop(f fs.FS, name string) error {
	h, err := f.Open(name)
	if err != nil {
		return nil // reports success although Open failed
	}
	return h.Close()
}

func BadDiscard(name string) {
	w, _ := os.Create(name)
	_, _ = w.Write([]byte("x"))
	_ = w.Close() // a written handle's Close error is dropped
}

// ---------- name validity (E-valid) ----------

func GoodSink(name string) error {
	if !fs.ValidPath(name) {
		return errors.New("invalid")
	}
	return os.Remove(path.Join("/root", name))
}

func BadSink(name string) error {
	return os.Remove(path.Join("/root", name)) // no gate before the OS call
}

func BadLaunder(f fs.FS, name string) (fs.File, error) {
	return f.Open(path.Clean(name)) // normalised before anybody validated it
}

func GoodDelegate(f fs.FS, name string) (fs.File, error) {
	return f.Open(name) // unchanged: the callee rejects
}

// ---------- nullable field guard (R17.1) ----------

type inner struct{ path string }

type GoodHandle struct{ *inner }

func (h *GoodHandle) Close() error { h.inner = nil; return nil }
func (h *GoodHandle) Name() (string, error) {
	if h.inner == nil {
		return "", fs.ErrClosed
	}
	return h.path, nil
}

type BadHandle struct{ *inner }

func (h *BadHandle) Close() error          { h.inner = nil; return nil }
func (h *BadHandle) Name() (string, error) { return h.path, nil } // nil dereference after Close

// ---------- locksets (E-lock) ----------

type Table struct {
	mu sync.Mutex
	m  map[string]bool
}

func (t *Table) GoodSet(k string) {
	t.mu.Lock()
	t.m[k] = true
	t.mu.Unlock()
}

func (t *Table) BadSet(k string) {
	t.mu.Lock()
	t.mu.Unlock()
	t.m[k] = true // outside the critical section
}

// ---------- paging (R16.x) ----------

type GoodDir struct {
	names  []string
	offset int
}

func (d *GoodDir) Read([]byte) (int, error)   { return 0, io.EOF }
func (d *GoodDir) Close() error               { return nil }
func (d *GoodDir) Stat() (fs.FileInfo, error) { return nil, nil }
func (d *GoodDir) ReadDir(n int) ([]string, error) {
	if n > 0 && d.offset >= len(d.names) {
		return nil, io.EOF
	}
	start := d.offset
	if start > len(d.names) {
		start = len(d.names)
	}
	end := len(d.names)
	if n > 0 && start+n < end {
		end = start + n
	}
	d.offset = end
	return d.names[start:end], nil
}

type BadDir struct {
	names  []string
	offset int
}

func (d *BadDir) Read([]byte) (int, error)   { return 0, io.EOF }
func (d *BadDir) Close() error               { return nil }
func (d *BadDir) Stat() (fs.FileInfo, error) { return nil, nil }
func (d *BadDir) ReadDir(n int) ([]string, error) {
	start, end := d.offset, d.offset+n
	if n <= 0 {
		start, end = 0, len(d.names)
	} else if end > len(d.names) {
		end = len(d.names)
	}
	d.offset += end - start
	return d.names[start:end], nil // never io.EOF; start may exceed end
}

// ---- route: a view built from a one-time route resolution (R07.4)

type Router interface {
	fs.FS
	Mount(name string) (fs.FS, string)
}

type view struct {
	parent fs.FS
	dir    string
}

func (v *view) Open(name string) (fs.File, error) { return v.parent.Open(v.dir + "/" + name) }

// GoodView wraps the router itself: every later name is routed again.
func GoodView(r Router, dir string) fs.FS { return &view{parent: r, dir: dir} }

// BadView resolves dir once and wraps what it resolved to: names below dir that route elsewhere are lost.
func BadView(r Router, dir string) fs.FS {
	m, sub := r.Mount(dir)
	return &view{parent: m, dir: sub}
}

// ---- pool: handle values must not be recycled (R17.6)

var anyPool sync.Pool

// GoodPool recycles a byte buffer.
func GoodPool(b *[]byte) { anyPool.Put(b) }

// BadPool recycles a handle: the closed handle's owner still holds the pointer.
func BadPool(d *GoodDir) { anyPool.Put(d) }
