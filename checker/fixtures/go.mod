module hpfsfixtures

go 1.18
