// Package core holds obligations, reporting, evidence and known-findings handling.
package core

import (
	"crypto/sha1"
	"encoding/hex"
	"encoding/json"
	"fmt"
	"os"
	"path/filepath"
	"sort"
	"strings"
	"time"

	"hpfscheck/internal/load"
)

// Status of an obligation.
type Status int

const (
	Discharged Status = iota
	Violated
	Undecided
)

func (s Status) String() string {
	switch s {
	case Discharged:
		return "discharged"
	case Violated:
		return "violated"
	default:
		return "undecided"
	}
}

// Obligation is rule × construct.
type Obligation struct {
	Rule    string   `json:"rule"`
	Key     string   `json:"key"`
	Pos     string   `json:"pos"`
	Status  string   `json:"status"`
	Msg     string   `json:"msg,omitempty"`
	Targets []string `json:"targets"`
	Trivial bool     `json:"-"`
	st      Status
}

// Known is an entry of known_findings.json.
type Known struct {
	Property string `json:"property"`
	Key      string `json:"key"`
	Status   string `json:"status"` // known | fixed
	Commit   string `json:"commit,omitempty"`
	What     string `json:"what"`
}

// Ctx is handed to every rule.
type Ctx struct {
	Property string
	Tier     string
	Seed     int64
	Repo     string
	VerifDir string
	Progs    []*load.Program
	Only     string // restrict reporting to one key (replay)

	cur                 *load.Program
	obs                 map[string]*Obligation
	order               []string
	floors              map[string]int
	info                map[string]interface{}
	assume              []string
	hard                []string // hard failures (anchor unresolved, panic …)
	explain             string
	fixFired, fixSilent int
	ruleDocs            map[string]string
	alias               map[string]string // while set: rule ids are renamed through it, obligations of other rules are dropped
}

// WithAlias runs f with rule ids renamed through m: an analysis written for one property is re-used under another
// property's rule ids (the structural condition is necessary for both). Obligations of rules not in m are dropped.
func (c *Ctx) WithAlias(m map[string]string, f func()) {
	old := c.alias
	c.alias = m
	defer func() { c.alias = old }()
	f()
}

// NewCtx creates a context.
func NewCtx(property, tier string, seed int64, repo, verif string, progs []*load.Program) *Ctx {
	return &Ctx{Property: property, Tier: tier, Seed: seed, Repo: repo, VerifDir: verif, Progs: progs,
		obs: map[string]*Obligation{}, floors: map[string]int{}, info: map[string]interface{}{}, ruleDocs: map[string]string{}}
}

// SetProg selects the program subsequent obligations are attributed to.
func (c *Ctx) SetProg(p *load.Program) { c.cur = p }

// Cur returns the current program.
func (c *Ctx) Cur() *load.Program { return c.cur }

// Explain sets the coverage explanation.
func (c *Ctx) Explain(s string) { c.explain = s }

// Assume records an assumption for the evidence file.
func (c *Ctx) Assume(s ...string) {
	for _, a := range s {
		dup := false
		for _, b := range c.assume {
			if a == b {
				dup = true
			}
		}
		if !dup {
			c.assume = append(c.assume, a)
		}
	}
}

// RuleDoc documents a rule id (goes to evidence).
func (c *Ctx) RuleDoc(rule, doc string) { c.ruleDocs[rule] = doc }

// Info records an extra measured key for the evidence.
func (c *Ctx) Info(k string, v interface{}) { c.info[k] = v }

// Hard records a hard failure (unresolved anchor, internal error).
func (c *Ctx) Hard(format string, a ...interface{}) {
	msg := fmt.Sprintf(format, a...)
	if c.cur != nil {
		msg = "[" + c.cur.Target.String() + "] " + msg
	}
	c.hard = append(c.hard, msg)
}

// Floor requires at least n obligations of rule (counted over merged keys).
func (c *Ctx) Floor(rule string, n int) {
	if n > c.floors[rule] {
		c.floors[rule] = n
	}
}

func (c *Ctx) add(rule, key, pos string, st Status, trivial bool, msg string) {
	if c.alias != nil {
		nr, ok := c.alias[rule]
		if !ok {
			return
		}
		rule = nr
	}
	full := rule + "|" + key
	tgt := ""
	if c.cur != nil {
		tgt = c.cur.Target.String()
	}
	o := c.obs[full]
	if o == nil {
		o = &Obligation{Rule: rule, Key: full, Pos: pos, st: st, Msg: msg, Trivial: trivial}
		c.obs[full] = o
		c.order = append(c.order, full)
	} else {
		// worst status wins; keep the message of the worst
		if st > o.st || (st == o.st && o.Msg == "" && msg != "") {
			if st > o.st {
				o.Pos = pos
				o.Msg = msg
			}
			o.st = st
		}
		if !trivial {
			o.Trivial = false
		}
	}
	if tgt != "" {
		has := false
		for _, t := range o.Targets {
			if t == tgt {
				has = true
			}
		}
		if !has {
			o.Targets = append(o.Targets, tgt)
		}
	}
}

// OK records a discharged obligation.
func (c *Ctx) OK(rule, key, pos, msg string) { c.add(rule, key, pos, Discharged, false, msg) }

// OKTrivial records an obligation discharged without needing any fact.
func (c *Ctx) OKTrivial(rule, key, pos, msg string) { c.add(rule, key, pos, Discharged, true, msg) }

// Bad records a violated obligation.
func (c *Ctx) Bad(rule, key, pos, msg string) { c.add(rule, key, pos, Violated, false, msg) }

// Unknown records an undecided obligation (counts as failure).
func (c *Ctx) Unknown(rule, key, pos, msg string) { c.add(rule, key, pos, Undecided, false, msg) }

// Check records OK or Bad depending on cond.
func (c *Ctx) Check(cond bool, rule, key, pos, okMsg, badMsg string) {
	if cond {
		c.OK(rule, key, pos, okMsg)
	} else {
		c.Bad(rule, key, pos, badMsg)
	}
}

// FixtureResult records a fixture self-test outcome.
func (c *Ctx) FixtureResult(name string, wantFire, fired bool) {
	if wantFire == fired {
		if wantFire {
			c.fixFired++
		} else {
			c.fixSilent++
		}
		return
	}
	if wantFire {
		c.hard = append(c.hard, "fixture "+name+" must be reported but was not (rule is dead)")
	} else {
		c.hard = append(c.hard, "fixture "+name+" must stay silent but was reported (rule over-reports)")
	}
}

func loadKnown(verif string) ([]Known, error) {
	b, err := os.ReadFile(filepath.Join(verif, "known_findings.json"))
	if err != nil {
		if os.IsNotExist(err) {
			return nil, nil
		}
		return nil, err
	}
	var ks []Known
	if err := json.Unmarshal(b, &ks); err != nil {
		return nil, fmt.Errorf("known_findings.json: %w", err)
	}
	return ks, nil
}

// Finish merges, prints the report, writes evidence and returns the exit code.
func (c *Ctx) Finish(start time.Time) int {
	known, err := loadKnown(c.VerifDir)
	if err != nil {
		c.hard = append(c.hard, err.Error())
	}
	knownBy := map[string]Known{}
	for _, k := range known {
		if k.Property == c.Property && k.Status == "known" {
			knownBy[k.Key] = k
		}
	}
	// floors
	perRule := map[string]int{}
	for _, k := range c.order {
		perRule[c.obs[k].Rule]++
	}
	for rule, n := range c.floors {
		if perRule[rule] < n {
			c.hard = append(c.hard, fmt.Sprintf("rule %s matched %d constructs, floor is %d (anchors moved or rule went blind)", rule, perRule[rule], n))
		}
	}
	var viol, knownHit, und []*Obligation
	discharged, nontrivial := 0, 0
	for _, k := range c.order {
		o := c.obs[k]
		o.Status = o.st.String()
		sort.Strings(o.Targets)
		if !o.Trivial {
			nontrivial++
		}
		switch o.st {
		case Discharged:
			discharged++
		default:
			if _, ok := knownBy[o.Key]; ok {
				knownHit = append(knownHit, o)
			} else if o.st == Undecided {
				und = append(und, o)
			} else {
				viol = append(viol, o)
			}
		}
	}
	exit := 0
	replayDir := filepath.Join(c.VerifDir, "evidence", c.Property+".replay")
	_ = os.RemoveAll(replayDir)
	emit := func(o *Obligation, kind string) {
		if c.Only != "" && o.Key != c.Only {
			return
		}
		_ = os.MkdirAll(replayDir, 0o755)
		h := sha1.Sum([]byte(o.Key))
		rp := filepath.Join(replayDir, hex.EncodeToString(h[:6])+".json")
		rb, _ := json.MarshalIndent(map[string]interface{}{
			"property": c.Property, "rule": o.Rule, "key": o.Key, "pos": o.Pos, "kind": kind, "msg": o.Msg, "targets": o.Targets,
			"rederive": fmt.Sprintf("/verif/bin/hpfscheck -property %s -only '%s'", c.Property, o.Key),
		}, "", " ")
		_ = os.WriteFile(rp, rb, 0o644)
		fmt.Printf("VIOLATION property=%s replay=%s\n  rule %s %s: %s\n  at %s  [%s]  key=%s\n", c.Property, rp, o.Rule, kind, o.Msg, o.Pos, strings.Join(o.Targets, ","), o.Key)
		exit = 1
	}
	for _, o := range viol {
		emit(o, "violated")
	}
	for _, o := range und {
		emit(o, "undecided")
	}
	for i, h := range c.hard {
		_ = os.MkdirAll(replayDir, 0o755)
		rp := filepath.Join(replayDir, fmt.Sprintf("hard%d.json", i))
		rb, _ := json.MarshalIndent(map[string]interface{}{"property": c.Property, "kind": "hard", "msg": h}, "", " ")
		_ = os.WriteFile(rp, rb, 0o644)
		fmt.Printf("VIOLATION property=%s replay=%s\n  checker failure: %s\n", c.Property, rp, h)
		exit = 1
	}
	for _, o := range knownHit {
		k := knownBy[o.Key]
		fmt.Printf("KNOWN-FINDING: property=%s %s [%s at %s]\n", c.Property, k.What, o.Key, o.Pos)
	}
	// known entries that did not fire are reported as information (stale entry), never a failure
	stale := []string{}
	hit := map[string]bool{}
	for _, o := range knownHit {
		hit[o.Key] = true
	}
	for k := range knownBy {
		if !hit[k] {
			stale = append(stale, k)
		}
	}
	sort.Strings(stale)
	for _, s := range stale {
		fmt.Printf("note: known finding no longer reported by the rules (repaired or construct gone): %s\n", s)
	}

	// evidence
	samples := []interface{}{}
	perRuleSample := map[string]int{}
	for _, k := range c.order {
		o := c.obs[k]
		if o.st != Discharged || perRuleSample[o.Rule] < 3 {
			if len(samples) < 200 {
				samples = append(samples, o)
			}
			perRuleSample[o.Rule]++
		}
	}
	ruleCounts := map[string]interface{}{}
	for r, n := range perRule {
		ruleCounts[r] = map[string]interface{}{"instances": n, "floor": c.floors[r], "doc": c.ruleDocs[r]}
	}
	for r, d := range c.ruleDocs {
		if _, ok := ruleCounts[r]; !ok {
			ruleCounts[r] = map[string]interface{}{"instances": 0, "floor": c.floors[r], "doc": d}
		}
	}
	tg := []string{}
	pk, fnc := 0, 0
	for _, p := range c.Progs {
		tg = append(tg, p.Target.String())
		pk += len(p.Pkgs)
		fnc += len(p.SrcFuncs())
	}
	cov := map[string]interface{}{
		"explanation":         c.explain,
		"evaluations":         len(c.order),
		"distinct_nontrivial": nontrivial,
		"rule":                "one obligation per rule × construct (key = rule|function|construct#ordinal, no line numbers); non-trivial = needed at least one dataflow/dominance/call-graph fact to decide; merged across build targets",
		"obligations":         len(c.order),
		"discharged":          discharged,
		"known_findings":      len(knownHit),
		"violations":          len(viol),
		"undecided":           len(und),
		"hard_failures":       c.hard,
		"samples":             samples,
		"targets":             tg,
		"packages_loaded":     pk,
		"functions_analysed":  fnc,
		"rules":               ruleCounts,
		"fixtures_fired":      c.fixFired,
		"fixtures_silent":     c.fixSilent,
		"checker_cmd":         fmt.Sprintf("/verif/bin/hpfscheck -property %s -tier %s", c.Property, c.Tier),
		"trusted_base":        []string{"go/types, go/ssa, callgraph/vta of golang.org/x/tools v0.29.0", "the rule implementations in /verif/checker"},
		"exhaustive":          false,
	}
	for k, v := range c.info {
		cov[k] = v
	}
	ev := map[string]interface{}{
		"property_id": c.Property,
		"tier":        c.Tier,
		"seed":        c.Seed,
		"level":       "other",
		"coverage":    cov,
		"assumptions": c.assume,
		"wall_s":      time.Since(start).Seconds(),
		"violations":  len(viol) + len(und) + len(c.hard),
	}
	if c.Only == "" {
		_ = os.MkdirAll(filepath.Join(c.VerifDir, "evidence"), 0o755)
		b, _ := json.MarshalIndent(ev, "", " ")
		if err := os.WriteFile(filepath.Join(c.VerifDir, "evidence", c.Property+".json"), append(b, '\n'), 0o644); err != nil {
			fmt.Printf("VIOLATION property=%s replay=-\n  cannot write evidence: %v\n", c.Property, err)
			exit = 1
		}
	}
	fmt.Printf("%s %s: %d obligations, %d discharged, %d known findings, %d violations, %d undecided, %d checker failures; fixtures %d fired / %d silent; %.1fs\n",
		c.Property, c.Tier, len(c.order), discharged, len(knownHit), len(viol), len(und), len(c.hard), c.fixFired, c.fixSilent, time.Since(start).Seconds())
	return exit
}

// ReplayKey reads the obligation key out of a replay file.
func ReplayKey(path string) (string, error) {
	b, err := os.ReadFile(path)
	if err != nil {
		return "", err
	}
	var m map[string]interface{}
	if err := json.Unmarshal(b, &m); err != nil {
		return "", err
	}
	k, _ := m["key"].(string)
	return k, nil
}

// Find returns whether an obligation whose key contains substr exists for rule, and whether it failed.
func (c *Ctx) Find(rule, substr string) (found, failed bool, msg string) {
	for _, k := range c.order {
		o := c.obs[k]
		if o.Rule == rule && strings.Contains(o.Key, substr) {
			found = true
			if o.st != Discharged {
				failed = true
				msg = o.Msg
			}
		}
	}
	return
}
