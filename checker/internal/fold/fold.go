// Package fold normalises the decomposition of the analysed tree before the rules look at it: an unexported function
// that the reference tree does not have (it is not in the committed inventory of function names) and that is only
// called in plain statement positions is folded back into its callers, as source text handed to the loader as an
// overlay. Extracting half of a method into a helper, or merging two duplicated tails into one, moves constructs
// between functions without changing behaviour; the rules are written per function, and after folding they see the
// shape they were written for. Folding is a semantics-preserving source transformation (arguments are bound to fresh
// variables in order, parameters and results become locals, returns become assignments and a jump to the end of the
// folded body); whatever cannot be folded safely is left alone.
package fold

import (
	"bytes"
	"encoding/json"
	"fmt"
	"go/ast"
	"go/parser"
	"go/token"
	"go/types"
	"os"
	"path/filepath"
	"sort"
	"strings"
	"sync"

	"golang.org/x/tools/go/packages"
)

// Key names a function declaration independent of its position: directory relative to the repository, receiver
// type name (empty for functions), function name.
func Key(relDir, recv, name string) string { return relDir + "|" + recv + "|" + name }

func recvName(fd *ast.FuncDecl) string {
	if fd.Recv == nil || len(fd.Recv.List) == 0 {
		return ""
	}
	t := fd.Recv.List[0].Type
	for {
		switch x := t.(type) {
		case *ast.StarExpr:
			t = x.X
			continue
		case *ast.IndexExpr:
			t = x.X
			continue
		case *ast.IndexListExpr:
			t = x.X
			continue
		case *ast.ParenExpr:
			t = x.X
			continue
		case *ast.Ident:
			return x.Name
		}
		return ""
	}
}

// Inventory lists the function declarations of every non-test Go file below repo (all build tags).
func Inventory(repo string) (map[string]bool, error) {
	inv := map[string]bool{}
	lastSigs = map[string]string{}
	fset := token.NewFileSet()
	err := filepath.Walk(repo, func(path string, info os.FileInfo, err error) error {
		if err != nil {
			return err
		}
		if info.IsDir() {
			if n := info.Name(); path != repo && (strings.HasPrefix(n, ".") || n == "testdata" || n == "vendor") {
				return filepath.SkipDir
			}
			return nil
		}
		if !strings.HasSuffix(path, ".go") || strings.HasSuffix(path, "_test.go") {
			return nil
		}
		f, perr := parser.ParseFile(fset, path, nil, parser.SkipObjectResolution)
		if perr != nil {
			return nil // the loader reports syntax errors
		}
		rel, _ := filepath.Rel(repo, filepath.Dir(path))
		for _, d := range f.Decls {
			if fd, ok := d.(*ast.FuncDecl); ok {
				k := Key(filepath.ToSlash(rel), recvName(fd), fd.Name.Name)
				inv[k] = true
				lastSigs[k] = sigOf(fd)
			}
			if gd, ok := d.(*ast.GenDecl); ok && gd.Tok == token.TYPE {
				for _, sp := range gd.Specs {
					if ts, ok := sp.(*ast.TypeSpec); ok && ts.TypeParams == nil {
						k := typeKey(filepath.ToSlash(rel), ts.Name.Name)
						inv[k] = true
						lastSigs[k] = typeSigOf(ts)
					}
				}
			}
		}
		return nil
	})
	return inv, err
}

// typeKey names a type declaration; it cannot collide with a function key (no receiver is called "type ").
func typeKey(relDir, name string) string { return relDir + "|type |" + name }

// typeSigOf: "struct{T1;T2;...}#n1,n2,..." for a struct (embedded fields have the name "-"), the type expression
// otherwise. The part before '#' identifies a renamed type, the part after it gives renamed fields their names back.
func typeSigOf(ts *ast.TypeSpec) string {
	st, ok := ts.Type.(*ast.StructType)
	if !ok {
		return types.ExprString(ts.Type)
	}
	var tys, names []string
	for _, f := range st.Fields.List {
		if len(f.Names) == 0 {
			tys = append(tys, types.ExprString(f.Type))
			names = append(names, "-")
			continue
		}
		for _, n := range f.Names {
			tys = append(tys, types.ExprString(f.Type))
			names = append(names, n.Name)
		}
	}
	return "struct{" + strings.Join(tys, ";") + "}#" + strings.Join(names, ",")
}

// lastSigs holds the signatures (parameter and result types, names dropped) found by the latest Inventory call,
// refSigs those of the committed reference inventory.
var lastSigs = map[string]string{}
var refSigs = map[string]string{}

func sigOf(fd *ast.FuncDecl) string {
	part := func(fl *ast.FieldList) string {
		if fl == nil {
			return ""
		}
		var ts []string
		for _, f := range fl.List {
			n := len(f.Names)
			if n == 0 {
				n = 1
			}
			for i := 0; i < n; i++ {
				ts = append(ts, types.ExprString(f.Type))
			}
		}
		return strings.Join(ts, ",")
	}
	return "(" + part(fd.Type.Params) + ")(" + part(fd.Type.Results) + ")"
}

// ReadInventory reads the committed inventory (a JSON list of keys). A missing file means: no folding.
func ReadInventory(path string) map[string]bool {
	data, err := os.ReadFile(path)
	if err != nil {
		return nil
	}
	var entries []string
	if json.Unmarshal(data, &entries) != nil {
		return nil
	}
	inv := map[string]bool{}
	sigs := map[string]string{}
	for _, e := range entries {
		k, sig := e, ""
		if i := strings.Index(e, " :: "); i >= 0 {
			k, sig = e[:i], e[i+4:]
		}
		inv[k] = true
		sigs[k] = sig
	}
	// the targets of one run read the same file concurrently
	foldMu.Lock()
	refSigs = sigs
	foldMu.Unlock()
	return inv
}

// WriteInventory writes the inventory of repo to path (one "dir|receiver|name :: signature" string per function).
func WriteInventory(repo, path string) error {
	inv, err := Inventory(repo)
	if err != nil {
		return err
	}
	var entries []string
	for k := range inv {
		entries = append(entries, k+" :: "+lastSigs[k])
	}
	sort.Strings(entries)
	data, _ := json.MarshalIndent(entries, "", " ")
	return os.WriteFile(path, append(data, '\n'), 0o644)
}

// NewFunctions reports the unexported functions of repo that the inventory does not list.
func NewFunctions(repo string, inv map[string]bool) []string {
	cur, err := Inventory(repo)
	if err != nil {
		return nil
	}
	var out []string
	for k := range cur {
		name := k[strings.LastIndexByte(k, '|')+1:]
		if strings.Contains(k, "|type |") {
			// a new type is not a helper to fold, but a renamed one (or renamed fields) makes the un-rename pass run
			switch {
			case !inv[k] && !ast.IsExported(name):
				out = append(out, k)
			case inv[k] && refSigs[k] != "" && lastSigs[k] != refSigs[k] && sigShape(lastSigs[k]) == sigShape(refSigs[k]):
				out = append(out, k)
			}
			continue
		}
		if !inv[k] && !ast.IsExported(name) {
			out = append(out, k)
		}
	}
	sort.Strings(out)
	return out
}

// Result of Overlay.
type Result struct {
	Overlay map[string][]byte
	Renamed []string // "new key -> old name" for functions recognised as renamed and given their reference name back
	Folded  []string // "key into N call site(s)"
	Kept    []string // "key: reason" for new functions that were left alone
}

// Overlay computes the folded sources. env is the environment of the go command (GOOS/GOARCH of the target).
func Overlay(repo, modPath string, env []string, inv map[string]bool) (*Result, error) {
	// one fold at a time: the targets of a run are loaded concurrently, the folder keeps its state in the package
	foldMu.Lock()
	defer foldMu.Unlock()
	res := &Result{Overlay: map[string][]byte{}}
	if inv == nil || len(NewFunctions(repo, inv)) == 0 {
		return res, nil
	}
	keptWhy := map[string]string{}
	currentOverlay = res.Overlay
	// (0) a new unexported function with the signature of exactly one function that has disappeared from the same
	// package (same receiver) is that function renamed: it gets its reference name back, so that rules, floors and
	// known-finding keys that name it keep applying
	if renames := detectRenames(repo, inv); !renames.empty() {
		cfg := &packages.Config{
			Mode: packages.NeedName | packages.NeedFiles | packages.NeedCompiledGoFiles | packages.NeedImports | packages.NeedDeps | packages.NeedTypes | packages.NeedSyntax | packages.NeedTypesInfo,
			Dir:  repo,
			Env:  env,
		}
		if pkgs, err := packages.Load(cfg, "./..."); err == nil {
			for _, pk := range pkgs {
				if (pk.PkgPath == modPath || strings.HasPrefix(pk.PkgPath, modPath+"/")) && len(pk.Errors) == 0 && pk.TypesInfo != nil {
					if err := unrename(repo, pk, renames, res); err != nil {
						return res, err
					}
				}
			}
		}
	}
	for round := 0; round < 4; round++ {
		cfg := &packages.Config{
			Mode:    packages.NeedName | packages.NeedFiles | packages.NeedCompiledGoFiles | packages.NeedImports | packages.NeedDeps | packages.NeedTypes | packages.NeedSyntax | packages.NeedTypesInfo,
			Dir:     repo,
			Env:     env,
			Overlay: res.Overlay,
		}
		pkgs, err := packages.Load(cfg, "./...")
		if err != nil {
			return res, err
		}
		progress := false
		for _, pk := range pkgs {
			if pk.PkgPath != modPath && !strings.HasPrefix(pk.PkgPath, modPath+"/") {
				continue
			}
			if len(pk.Errors) > 0 || pk.TypesInfo == nil {
				continue
			}
			n, err := foldPackage(repo, pk, inv, res, keptWhy)
			if err != nil {
				return res, err
			}
			if n > 0 {
				progress = true
			}
		}
		if !progress {
			break
		}
	}
	for k, why := range keptWhy {
		res.Kept = append(res.Kept, k+": "+why)
	}
	sort.Strings(res.Kept)
	sort.Strings(res.Folded)
	return res, nil
}

type candidate struct {
	defers bool // the body defers: foldable into tail calls only (the deferred calls still run when the caller returns, before the caller's own)
	key    string
	fd     *ast.FuncDecl
	file   *ast.File
	obj    *types.Func
}

type site struct {
	cand    *candidate
	call    *ast.CallExpr
	stmt    ast.Stmt // the statement that is replaced
	kind    string   // "expr", "assign", "return", "if"
	file    *ast.File
	encl    *ast.FuncDecl
	negate  bool              // if-cond form `!h()`
	bare    bool              // if-cond form without init
	imports map[string]string // imports the caller's file needs for the folded body: name -> path
	follow  *ast.IfStmt       // "if" kind where the call is an assignment statement and the if is the NEXT statement of the block
}

// rangeEnd: the end of the source range the fold replaces.
func (s *site) rangeEnd() token.Pos {
	if s.kind == "if" && s.follow != nil {
		return s.follow.End()
	}
	return s.stmt.End()
}

type edit struct {
	start, end int
	text       string
}

var counter int

var foldMu sync.Mutex

func foldPackage(repo string, pk *packages.Package, inv map[string]bool, res *Result, keptWhy map[string]string) (int, error) {
	fset := pk.Fset
	info := pk.TypesInfo
	var cands []*candidate
	byObj := map[*types.Func]*candidate{}
	for _, f := range pk.Syntax {
		fname := fset.PositionFor(f.Pos(), false).Filename
		if strings.HasSuffix(fname, "_test.go") {
			continue
		}
		rel, _ := filepath.Rel(repo, filepath.Dir(fname))
		for _, d := range f.Decls {
			fd, ok := d.(*ast.FuncDecl)
			if !ok || fd.Body == nil {
				continue
			}
			key := Key(filepath.ToSlash(rel), recvName(fd), fd.Name.Name)
			if inv[key] || ast.IsExported(fd.Name.Name) {
				continue
			}
			obj, _ := info.Defs[fd.Name].(*types.Func)
			if obj == nil {
				continue
			}
			why := unfoldable(fd, info, obj)
			if why != "" && why != "uses defer" {
				keptWhy[key] = why
				continue
			}
			c := &candidate{key: key, fd: fd, file: f, obj: obj, defers: why == "uses defer"}
			cands = append(cands, c)
			byObj[obj] = c
		}
	}
	if len(cands) == 0 {
		return 0, nil
	}
	// call sites and other references
	sites := map[*candidate][]*site{}
	bad := map[*candidate]string{}
	for _, f := range pk.Syntax {
		var stack []ast.Node
		ast.Inspect(f, func(n ast.Node) bool {
			if n == nil {
				stack = stack[:len(stack)-1]
				return true
			}
			stack = append(stack, n)
			id, ok := n.(*ast.Ident)
			if !ok {
				return true
			}
			fobj, _ := info.Uses[id].(*types.Func)
			c := byObj[fobj]
			if c == nil {
				return true
			}
			// the identifier must be the function of a call in a supported statement position
			s := classify(stack, id, info)
			if s == nil {
				bad[c] = "referenced at " + fset.PositionFor(id.Pos(), false).String() + " in a position that cannot be folded"
				return true
			}
			s.cand, s.file = c, f
			sites[c] = append(sites[c], s)
			return true
		})
	}
	// fold innermost first: candidates whose bodies call no other candidate
	n := 0
	edits := map[string][]edit{}
	addedImports := map[string]bool{}
	touched := map[*ast.FuncDecl]bool{}
	for _, c := range cands {
		if why, isBad := bad[c]; isBad {
			keptWhy[c.key] = why
			continue
		}
		if len(sites[c]) == 0 {
			keptWhy[c.key] = "never called in its package"
			continue
		}
		if c.defers {
			tailOnly := true
			for _, s := range sites[c] {
				if s.kind != "return" {
					tailOnly = false
				}
			}
			if !tailOnly {
				keptWhy[c.key] = "uses defer and is not only called as a tail call"
				continue
			}
		}
		if len(sites[c]) > 4 {
			keptWhy[c.key] = fmt.Sprintf("%d call sites: treated as a primitive of the package", len(sites[c]))
			continue
		}
		callsCand := false
		ast.Inspect(c.fd.Body, func(n ast.Node) bool {
			if id, ok := n.(*ast.Ident); ok {
				if fo, _ := info.Uses[id].(*types.Func); fo != nil && byObj[fo] != nil && bad[byObj[fo]] == "" {
					callsCand = true
				}
			}
			return true
		})
		if callsCand {
			continue // a later round, after the inner helper was folded into this one
		}
		ok := true
		var es []struct {
			file string
			e    edit
		}
		for _, s := range sites[c] {
			if touched[s.encl] {
				ok = false // one fold per enclosing function and round keeps the edits independent
				break
			}
			text, why := render(fset, pk, s)
			if why != "" {
				keptWhy[c.key] = why
				ok = false
				break
			}
			fn := fset.PositionFor(s.stmt.Pos(), false).Filename
			es = append(es, struct {
				file string
				e    edit
			}{fn, edit{fset.PositionFor(s.stmt.Pos(), false).Offset, fset.PositionFor(s.rangeEnd(), false).Offset, text}})
		}
		if !ok {
			continue
		}
		for i, s := range sites[c] {
			touched[s.encl] = true
			edits[es[i].file] = append(edits[es[i].file], es[i].e)
			for name, path := range s.imports {
				k := es[i].file + "|" + name
				if addedImports[k] {
					continue
				}
				addedImports[k] = true
				off := fset.PositionFor(s.file.Name.End(), false).Offset
				edits[es[i].file] = append(edits[es[i].file], edit{off, off, fmt.Sprintf("; import %s %q", name, path)})
			}
		}
		touched[c.fd] = true
		// the declaration itself goes (replaced by as many empty lines): nothing calls it any more, and analysed on its
		// own it would be a function without the context its callers gave it
		{
			start := c.fd.Pos()
			if c.fd.Doc != nil {
				start = c.fd.Doc.Pos()
			}
			so, eo := fset.PositionFor(start, false).Offset, fset.PositionFor(c.fd.End(), false).Offset
			file := fset.PositionFor(start, false).Filename
			srcb := currentOverlay[file]
			if srcb == nil {
				srcb, _ = os.ReadFile(file)
			}
			if srcb != nil && eo <= len(srcb) {
				edits[file] = append(edits[file], edit{so, eo, strings.Repeat("\n", bytes.Count(srcb[so:eo], []byte("\n")))})
			}
		}
		delete(keptWhy, c.key)
		res.Folded = append(res.Folded, fmt.Sprintf("%s into %d call site(s)", c.key, len(sites[c])))
		n++
	}
	for file, el := range edits {
		src := res.Overlay[file]
		if src == nil {
			var err error
			src, err = os.ReadFile(file)
			if err != nil {
				return n, err
			}
		}
		sort.Slice(el, func(i, j int) bool { return el[i].start > el[j].start })
		for _, e := range el {
			if e.start < 0 || e.end > len(src) || e.start > e.end {
				return n, fmt.Errorf("fold: edit out of range in %s", file)
			}
			src = append(append(append([]byte{}, src[:e.start]...), e.text...), src[e.end:]...)
		}
		// the result must parse; otherwise the file is left as it was
		if _, err := parser.ParseFile(token.NewFileSet(), file, src, parser.SkipObjectResolution); err != nil {
			return n, fmt.Errorf("fold: folded source of %s does not parse: %v", file, err)
		}
		res.Overlay[file] = src
	}
	return n, nil
}

// unfoldable: why the function cannot be folded ("" = it can).
func unfoldable(fd *ast.FuncDecl, info *types.Info, obj *types.Func) string {
	sig := obj.Type().(*types.Signature)
	if sig.Variadic() {
		return "variadic"
	}
	if fd.Type.TypeParams != nil || (sig.Recv() != nil && sig.RecvTypeParams() != nil) {
		return "generic"
	}
	why := ""
	depth := 0
	ast.Inspect(fd.Body, func(n ast.Node) bool {
		switch x := n.(type) {
		case *ast.FuncLit:
			_ = x
			// returns inside a literal belong to the literal; a literal capturing parameters is fine (they become locals)
			return true
		case *ast.DeferStmt:
			if why == "" {
				why = "uses defer" // still foldable where every call is a tail call (see foldPackage)
			}
		case *ast.LabeledStmt, *ast.BranchStmt:
			if b, ok := n.(*ast.BranchStmt); ok && b.Label == nil {
				return true
			}
			why = "uses labels"
		case *ast.CallExpr:
			if id, ok := x.Fun.(*ast.Ident); ok && id.Name == "recover" {
				why = "uses recover"
			}
			if id, ok := x.Fun.(*ast.Ident); ok {
				if fo, _ := info.Uses[id].(*types.Func); fo == obj {
					why = "recursive"
				}
			}
			if se, ok := x.Fun.(*ast.SelectorExpr); ok {
				if fo, _ := info.Uses[se.Sel].(*types.Func); fo == obj {
					why = "recursive"
				}
			}
		}
		_ = depth
		return true
	})
	return why
}

// classify finds the statement position of a reference to a candidate; nil if unsupported.
func classify(stack []ast.Node, id *ast.Ident, info *types.Info) *site {
	// stack: ..., stmt, [call], [selector], ident
	i := len(stack) - 2
	if i >= 0 {
		if se, ok := stack[i].(*ast.SelectorExpr); ok && se.Sel == id {
			i--
		}
	}
	if i < 0 {
		return nil
	}
	call, ok := stack[i].(*ast.CallExpr)
	if !ok {
		return nil
	}
	switch f := call.Fun.(type) {
	case *ast.Ident:
		if f != id {
			return nil
		}
	case *ast.SelectorExpr:
		if f.Sel != id {
			return nil
		}
	default:
		return nil
	}
	if call.Ellipsis.IsValid() {
		return nil
	}
	var encl *ast.FuncDecl
	for _, n := range stack {
		if fd, ok := n.(*ast.FuncDecl); ok {
			encl = fd
		}
		if _, ok := n.(*ast.FuncLit); ok {
			return nil // inside a closure: a return there is the closure's
		}
	}
	if encl == nil || i == 0 {
		return nil
	}
	parent := stack[i-1]
	inBlock := func(st ast.Stmt, j int) bool {
		// the statement must sit directly in a block / case clause (so that it can be replaced by a block)
		if j-1 < 0 {
			return false
		}
		switch p := stack[j-1].(type) {
		case *ast.BlockStmt, *ast.CaseClause, *ast.CommClause:
			_ = p
			return true
		}
		return false
	}
	simple := func(e ast.Expr) bool {
		ok := true
		ast.Inspect(e, func(n ast.Node) bool {
			switch n.(type) {
			case nil, *ast.Ident, *ast.BasicLit, *ast.SelectorExpr, *ast.ParenExpr, *ast.StarExpr:
				return true
			}
			ok = false
			return false
		})
		return ok
	}
	switch p := parent.(type) {
	case *ast.CallExpr:
		// an argument of another call whose earlier operands are plain names and literals: the fold is hoisted in
		// front of the statement (nothing that is evaluated before it can observe the difference)
		isArg := false
		for k, a := range p.Args {
			if a == ast.Expr(call) {
				isArg = true
				break
			}
			if !simple(p.Args[k]) {
				return nil
			}
		}
		if !isArg || !simple(p.Fun) || i-2 < 0 {
			return nil
		}
		switch st := stack[i-2].(type) {
		case *ast.ExprStmt:
			if inBlock(st, i-2) {
				return &site{call: call, stmt: st, kind: "nested", encl: encl}
			}
		case *ast.ReturnStmt:
			if len(st.Results) == 1 && inBlock(st, i-2) {
				return &site{call: call, stmt: st, kind: "nested", encl: encl}
			}
		case *ast.AssignStmt:
			if len(st.Rhs) == 1 && st.Rhs[0] == ast.Expr(p) && inBlock(st, i-2) {
				allSimple := true
				for _, l := range st.Lhs {
					if !simple(l) {
						allSimple = false
					}
				}
				if allSimple {
					return &site{call: call, stmt: st, kind: "nested", encl: encl}
				}
			}
		}
		return nil
	case *ast.ExprStmt:
		if inBlock(p, i-1) {
			return &site{call: call, stmt: p, kind: "expr", encl: encl}
		}
	case *ast.ReturnStmt:
		if len(p.Results) == 1 && inBlock(p, i-1) {
			return &site{call: call, stmt: p, kind: "return", encl: encl}
		}
		// `return a.b, h(x)`: one of several results, the ones evaluated before it plain names and selectors: hoisted
		// like an argument of a call
		if len(p.Results) > 1 && inBlock(p, i-1) {
			for _, r := range p.Results {
				if r == ast.Expr(call) {
					return &site{call: call, stmt: p, kind: "nested", encl: encl}
				}
				if !simple(r) {
					return nil
				}
			}
		}
	case *ast.AssignStmt:
		if len(p.Rhs) != 1 || p.Rhs[0] != ast.Expr(call) || (p.Tok != token.DEFINE && p.Tok != token.ASSIGN) {
			return nil
		}
		if inBlock(p, i-1) {
			st := &site{call: call, stmt: p, kind: "assign", encl: encl}
			// x, err = h(...) directly followed by `if <cond> {...}`: folded like an if with an init statement, so that
			// every return of the folded body continues on its own path (render falls back to the plain form)
			var list []ast.Stmt
			switch blk := stack[i-2].(type) {
			case *ast.BlockStmt:
				list = blk.List
			case *ast.CaseClause:
				list = blk.Body
			case *ast.CommClause:
				list = blk.Body
			}
			for k, x := range list {
				if x == ast.Stmt(p) && k+1 < len(list) {
					if ifs, ok := list[k+1].(*ast.IfStmt); ok && ifs.Init == nil {
						st.follow = ifs
					}
				}
			}
			return st
		}
		// if v := h(); cond { ... }
		if i-2 >= 0 {
			if ifs, ok := stack[i-2].(*ast.IfStmt); ok && ifs.Init == ast.Stmt(p) && inBlock(ifs, i-2) {
				return &site{call: call, stmt: ifs, kind: "if", encl: encl}
			}
		}
	case *ast.IfStmt:
		if p.Init == nil && p.Cond == ast.Expr(call) && inBlock(p, i-1) {
			return &site{call: call, stmt: p, kind: "if", encl: encl, bare: true}
		}
	case *ast.UnaryExpr:
		if p.Op == token.NOT && i-2 >= 0 {
			if ifs, ok := stack[i-2].(*ast.IfStmt); ok && ifs.Init == nil && ifs.Cond == ast.Expr(p) && inBlock(ifs, i-2) {
				return &site{call: call, stmt: ifs, kind: "if", encl: encl, bare: true, negate: true}
			}
		}
	}
	return nil
}

// render produces the text that replaces the site's statement.
func render(fset *token.FileSet, pk *packages.Package, s *site) (string, string) {
	if s.kind == "assign" && s.follow != nil {
		s.kind = "if"
		if text, why := render1(fset, pk, s); why == "" {
			return text, ""
		}
		s.kind, s.follow = "assign", nil
	}
	return render1(fset, pk, s)
}

func render1(fset *token.FileSet, pk *packages.Package, s *site) (string, string) {
	info := pk.TypesInfo
	c := s.cand
	calleeFile := fset.PositionFor(c.fd.Pos(), false).Filename
	callerFile := fset.PositionFor(s.stmt.Pos(), false).Filename
	// names and lines for //line directives: as the rules should report them (earlier folds already carry directives)
	calleeName, callerName := fset.Position(c.fd.Body.Lbrace).Filename, fset.Position(s.rangeEnd()).Filename
	read := func(file string) []byte {
		if b, ok := currentOverlay[file]; ok {
			return b
		}
		b, _ := os.ReadFile(file)
		return b
	}
	calleeSrc, callerSrc := read(calleeFile), read(callerFile)
	if calleeSrc == nil || callerSrc == nil {
		return "", "source not readable"
	}
	text := func(b []byte, n ast.Node) string {
		return string(b[fset.PositionFor(n.Pos(), false).Offset:fset.PositionFor(n.End(), false).Offset])
	}
	sig := c.obj.Type().(*types.Signature)
	nres := sig.Results().Len()

	// (0) for an if-fold the caller's branches are copied to every return of the folded body: whatever the folded body
	// declares under a name those branches (or the assignment's targets) use is renamed first
	renames := map[int]string{} // byte offset of an identifier of the callee -> its new name
	renamed := map[string]string{}
	if s.kind == "if" {
		var ifs *ast.IfStmt
		var as *ast.AssignStmt
		if s.follow != nil {
			ifs, as = s.follow, s.stmt.(*ast.AssignStmt)
		} else {
			ifs = s.stmt.(*ast.IfStmt)
			if !s.bare {
				as, _ = ifs.Init.(*ast.AssignStmt)
			}
		}
		outer := map[string]bool{}
		note := func(n ast.Node) {
			if n == nil {
				return
			}
			ast.Inspect(n, func(m ast.Node) bool {
				if id, ok := m.(*ast.Ident); ok && info.Uses[id] != nil {
					if obj := info.Uses[id]; obj.Pos() < ifs.Pos() || obj.Pos() > ifs.End() {
						outer[id.Name] = true
					}
				}
				return true
			})
		}
		note(ifs.Body)
		if ifs.Else != nil {
			note(ifs.Else)
		}
		if !s.bare {
			note(ifs.Cond)
		}
		if as != nil {
			for _, e := range as.Lhs {
				if id, ok := e.(*ast.Ident); ok && id.Name != "_" {
					outer[id.Name] = true
				}
			}
		}
		ast.Inspect(c.fd, func(m ast.Node) bool {
			id, ok := m.(*ast.Ident)
			if !ok || !outer[id.Name] {
				return true
			}
			obj := info.Defs[id]
			if obj == nil {
				obj = info.Uses[id]
			}
			if obj == nil || obj.Pos() < c.fd.Pos() || obj.Pos() > c.fd.End() {
				return true
			}
			if _, isVar := obj.(*types.Var); !isVar {
				return true
			}
			if v := obj.(*types.Var); v.IsField() {
				return true
			}
			counter++
			nn, ok := renamed[fmt.Sprint(obj.Pos())]
			if !ok {
				nn = fmt.Sprintf("%s_inl%d", id.Name, counter)
				renamed[fmt.Sprint(obj.Pos())] = nn
			}
			renames[fset.PositionFor(id.Pos(), false).Offset] = nn
			return true
		})
	}
	cslice := func(from, to int) string {
		if len(renames) == 0 {
			return string(calleeSrc[from:to])
		}
		var offs []int
		for o := range renames {
			if o >= from && o < to {
				offs = append(offs, o)
			}
		}
		sort.Ints(offs)
		var out strings.Builder
		pos := from
		for _, o := range offs {
			out.Write(calleeSrc[pos:o])
			out.WriteString(renames[o])
			// skip the old identifier
			e := o
			for e < to && (calleeSrc[e] == '_' || calleeSrc[e] >= '0' && calleeSrc[e] <= '9' || calleeSrc[e] >= 'a' && calleeSrc[e] <= 'z' || calleeSrc[e] >= 'A' && calleeSrc[e] <= 'Z' || calleeSrc[e] >= 0x80) {
				e++
			}
			pos = e
		}
		out.Write(calleeSrc[pos:to])
		return out.String()
	}
	ctext := func(n ast.Node) string {
		return cslice(fset.PositionFor(n.Pos(), false).Offset, fset.PositionFor(n.End(), false).Offset)
	}
	cname := func(id *ast.Ident) string {
		if nn, ok := renames[fset.PositionFor(id.Pos(), false).Offset]; ok {
			return nn
		}
		return id.Name
	}

	// (1) identifiers of the callee that denote package-level or universe objects must mean the same at the call site,
	// imported package names must be imported under the same name in the caller's file
	callerScope := pk.Types.Scope().Innermost(s.stmt.Pos())
	if callerScope == nil {
		return "", "no scope at the call site"
	}
	why := ""
	checkIdent := func(id *ast.Ident) {
		obj := info.Uses[id]
		if obj == nil {
			return
		}
		if pn, ok := obj.(*types.PkgName); ok {
			_, found := callerScope.LookupParent(id.Name, s.stmt.Pos())
			if fpn, ok := found.(*types.PkgName); !ok || fpn.Imported() != pn.Imported() {
				if found == nil {
					// the caller's file gets the import (on the line of its package clause, so that no line moves)
					if s.imports == nil {
						s.imports = map[string]string{}
					}
					s.imports[id.Name] = pn.Imported().Path()
					return
				}
				why = "the caller's file does not import " + pn.Imported().Path() + " as " + id.Name
			}
			return
		}
		if obj.Parent() == pk.Types.Scope() || obj.Parent() == types.Universe {
			if _, found := callerScope.LookupParent(id.Name, s.stmt.Pos()); found != obj {
				why = "identifier " + id.Name + " means something else at the call site"
			}
		}
	}
	ast.Inspect(c.fd, func(n ast.Node) bool {
		if se, ok := n.(*ast.SelectorExpr); ok {
			ast.Inspect(se.X, func(m ast.Node) bool {
				if id, ok := m.(*ast.Ident); ok {
					checkIdent(id)
				}
				return true
			})
			return false
		}
		if id, ok := n.(*ast.Ident); ok {
			checkIdent(id)
		}
		return true
	})
	if why != "" {
		return "", why
	}

	counter++
	tag := fmt.Sprintf("inl%d", counter)
	var b bytes.Buffer
	line := func(file string, ln int) { fmt.Fprintf(&b, "\n//line %s:%d\n", file, ln) }

	// (2) arguments, receiver first, bound in order to fresh names
	type bind struct{ name, typ, tmp string }
	var binds []bind
	k := 0
	if c.fd.Recv != nil && len(c.fd.Recv.List) == 1 {
		se, ok := s.call.Fun.(*ast.SelectorExpr)
		if !ok {
			return "", "method called without a selector"
		}
		// the receiver expression must have the receiver's declared type (no implicit & or *)
		rt := info.TypeOf(se.X)
		if rt == nil || !types.Identical(rt, sig.Recv().Type()) {
			return "", "receiver needs an implicit address or dereference"
		}
		name := "_"
		if len(c.fd.Recv.List[0].Names) == 1 {
			name = cname(c.fd.Recv.List[0].Names[0])
		}
		k++
		tmp := fmt.Sprintf("%s_a%d", tag, k)
		fmt.Fprintf(&b, "var %s %s = %s; ", tmp, ctext(c.fd.Recv.List[0].Type), text(callerSrc, se.X))
		binds = append(binds, bind{name, ctext(c.fd.Recv.List[0].Type), tmp})
	}
	ai := 0
	for _, fl := range c.fd.Type.Params.List {
		names := fl.Names
		if len(names) == 0 {
			names = []*ast.Ident{{Name: "_"}}
		}
		for _, nm := range names {
			if ai >= len(s.call.Args) {
				return "", "argument count"
			}
			k++
			tmp := fmt.Sprintf("%s_a%d", tag, k)
			fmt.Fprintf(&b, "var %s %s = %s; ", tmp, ctext(fl.Type), text(callerSrc, s.call.Args[ai]))
			binds = append(binds, bind{cname(nm), ctext(fl.Type), tmp})
			ai++
		}
	}
	if ai != len(s.call.Args) {
		return "", "argument count"
	}
	params := func() string {
		var pb strings.Builder
		for _, bd := range binds {
			if bd.name == "_" {
				fmt.Fprintf(&pb, "_ = %s; ", bd.tmp)
				continue
			}
			fmt.Fprintf(&pb, "var %s %s = %s; _ = %s; ", bd.name, bd.typ, bd.tmp, bd.name)
		}
		return pb.String()
	}
	// named results become locals of the folded body
	var resNames, resTypes []string
	named := false
	if c.fd.Type.Results != nil {
		for _, fl := range c.fd.Type.Results.List {
			if len(fl.Names) == 0 {
				resNames = append(resNames, "")
				resTypes = append(resTypes, ctext(fl.Type))
				continue
			}
			for _, nm := range fl.Names {
				named = true
				resNames = append(resNames, cname(nm))
				resTypes = append(resTypes, ctext(fl.Type))
			}
		}
	}
	namedDecl := ""
	if named {
		for i, nm := range resNames {
			if nm == "" || nm == "_" {
				resNames[i] = fmt.Sprintf("%s_n%d", tag, i)
			}
			namedDecl += fmt.Sprintf("var %s %s; _ = %s; ", resNames[i], resTypes[i], resNames[i])
		}
	}

	// (3) the body with its returns rewritten
	var rets []*ast.ReturnStmt
	ast.Inspect(c.fd.Body, func(n ast.Node) bool {
		if _, ok := n.(*ast.FuncLit); ok {
			return false
		}
		if r, ok := n.(*ast.ReturnStmt); ok {
			rets = append(rets, r)
		}
		return true
	})
	bodyStart := fset.PositionFor(c.fd.Body.Lbrace, false).Offset + 1
	bodyEnd := fset.PositionFor(c.fd.Body.Rbrace, false).Offset
	bodyWith := func(repl func(r *ast.ReturnStmt) string) string {
		var out strings.Builder
		pos := bodyStart
		sorted := append([]*ast.ReturnStmt{}, rets...)
		sort.Slice(sorted, func(i, j int) bool { return sorted[i].Pos() < sorted[j].Pos() })
		for _, r := range sorted {
			rs, re := fset.PositionFor(r.Pos(), false).Offset, fset.PositionFor(r.End(), false).Offset
			out.WriteString(cslice(pos, rs))
			out.WriteString(repl(r))
			fmt.Fprintf(&out, "\n//line %s:%d\n", fset.Position(r.End()).Filename, fset.Position(r.End()).Line)
			pos = re
		}
		out.WriteString(cslice(pos, bodyEnd))
		return out.String()
	}
	retValues := func(r *ast.ReturnStmt) string {
		if len(r.Results) == 0 {
			return strings.Join(resNames, ", ")
		}
		var vs []string
		for _, e := range r.Results {
			vs = append(vs, ctext(e))
		}
		return strings.Join(vs, ", ")
	}
	fallsOff := nres == 0
	calleeLine := fset.Position(c.fd.Body.Lbrace).Line
	nextLine := fset.Position(s.rangeEnd()).Line
	switch s.kind {
	case "return":
		// tail call: the body's returns are the caller's returns — only where the result types are identical (a typed
		// nil pointer returned through an interface result would otherwise become an untyped nil)
		var enclSig *types.Signature
		if fo, _ := info.Defs[s.encl.Name].(*types.Func); fo != nil {
			enclSig = fo.Type().(*types.Signature)
		}
		if enclSig == nil || enclSig.Results().Len() != nres {
			return "", "tail call with different results"
		}
		for i := 0; i < nres; i++ {
			if !types.Identical(enclSig.Results().At(i).Type(), sig.Results().At(i).Type()) {
				return "", "tail call with different result types"
			}
		}
		hdr := b.String()
		b.Reset()
		b.WriteString("{ " + hdr + "{ " + params() + namedDecl)
		line(calleeName, calleeLine)
		b.WriteString(bodyWith(func(r *ast.ReturnStmt) string {
			if len(r.Results) == 0 && nres > 0 {
				return "return " + strings.Join(resNames, ", ")
			}
			return ctext(r)
		}))
		b.WriteString("\n} }")
		line(callerName, nextLine)
		return b.String(), ""
	case "expr":
		var body string
		if len(rets) == 0 {
			body = cslice(bodyStart, bodyEnd)
		} else {
			body = bodyWith(func(r *ast.ReturnStmt) string {
				if len(r.Results) == 0 {
					return "break " + tag
				}
				blanks := strings.TrimSuffix(strings.Repeat("_, ", nres), ", ")
				return "{ " + blanks + " = " + retValues(r) + "; break " + tag + " }"
			})
		}
		hdr := b.String()
		b.Reset()
		b.WriteString("{ " + hdr)
		if len(rets) > 0 {
			b.WriteString(tag + ": switch { default: ")
		}
		b.WriteString("{ " + params() + namedDecl)
		line(calleeName, calleeLine)
		b.WriteString(body)
		b.WriteString("\n}")
		if len(rets) > 0 {
			b.WriteString(" }")
		}
		b.WriteString(" }")
		line(callerName, nextLine)
		_ = fallsOff
		return b.String(), ""
	case "nested":
		if nres != 1 {
			return "", "result count"
		}
		{
			t := tag + "_v"
			body := bodyWith(func(r *ast.ReturnStmt) string {
				return "{ " + t + " = " + retValues(r) + "; break " + tag + " }"
			})
			hdr := b.String()
			b.Reset()
			b.WriteString("var " + t + " " + resTypes[0] + "; ")
			b.WriteString("{ " + hdr + tag + ": switch { default: { " + params() + namedDecl)
			line(calleeName, calleeLine)
			b.WriteString(body)
			b.WriteString("\n} } }; ")
			so := fset.PositionFor(s.stmt.Pos(), false).Offset
			cs, ce := fset.PositionFor(s.call.Pos(), false).Offset, fset.PositionFor(s.call.End(), false).Offset
			eo := fset.PositionFor(s.stmt.End(), false).Offset
			line(callerName, fset.Position(s.stmt.Pos()).Line)
			b.WriteString(string(callerSrc[so:cs]) + t + string(callerSrc[ce:eo]))
			line(callerName, nextLine)
			return b.String(), ""
		}
	case "assign":
		as := s.stmt.(*ast.AssignStmt)
		if nres == 0 || len(as.Lhs) != nres {
			return "", "result count"
		}
		var tmps []string
		decl := ""
		for i := 0; i < nres; i++ {
			t := fmt.Sprintf("%s_r%d", tag, i)
			tmps = append(tmps, t)
			decl += fmt.Sprintf("var %s %s; ", t, resTypes[i])
		}
		body := bodyWith(func(r *ast.ReturnStmt) string {
			return "{ " + strings.Join(tmps, ", ") + " = " + retValues(r) + "; break " + tag + " }"
		})
		hdr := b.String()
		b.Reset()
		b.WriteString(decl)
		b.WriteString("{ " + hdr + tag + ": switch { default: { " + params() + namedDecl)
		line(calleeName, calleeLine)
		b.WriteString(body)
		b.WriteString("\n} } }; ")
		var lhs []string
		for _, e := range as.Lhs {
			lhs = append(lhs, text(callerSrc, e))
		}
		b.WriteString(strings.Join(lhs, ", ") + " " + as.Tok.String() + " " + strings.Join(tmps, ", "))
		line(callerName, nextLine)
		return b.String(), ""
	case "if":
		var ifs *ast.IfStmt
		var as *ast.AssignStmt
		if s.follow != nil {
			ifs, as = s.follow, s.stmt.(*ast.AssignStmt)
		} else {
			ifs = s.stmt.(*ast.IfStmt)
			if !s.bare {
				as = ifs.Init.(*ast.AssignStmt)
			}
		}
		if nres == 0 {
			return "", "void function in a condition"
		}
		var lhs []string
		predecl := ""
		var bindStmt func(vals string) string
		cond := ""
		if s.bare {
			if nres != 1 {
				return "", "result count"
			}
			v := tag + "_c"
			lhs = []string{v}
			bindStmt = func(vals string) string { return "var " + v + " " + resTypes[0] + " = " + vals + "; _ = " + v + "; " }
			cond = v
			if s.negate {
				cond = "!" + v
			}
		} else {
			if len(as.Lhs) != nres {
				return "", "result count"
			}
			tok := as.Tok.String()
			var used []string
			for i, e := range as.Lhs {
				lhs = append(lhs, text(callerSrc, e))
				id, isIdent := e.(*ast.Ident)
				if isIdent && id.Name != "_" {
					used = append(used, id.Name)
				}
				// an assignment statement followed by the if: what it declares must stay visible after the if
				if s.follow != nil && as.Tok == token.DEFINE && isIdent && id.Name != "_" && info.Defs[id] != nil {
					predecl += "var " + id.Name + " " + resTypes[i] + "; _ = " + id.Name + "; " // the if that used it may be decided away
				}
			}
			if s.follow != nil {
				tok = "="
			}
			keep := ""
			if len(used) > 0 && tok == ":=" {
				keep = strings.TrimSuffix(strings.Repeat("_, ", len(used)), ", ") + " = " + strings.Join(used, ", ") + "; "
			}
			bindStmt = func(vals string) string { return strings.Join(lhs, ", ") + " " + tok + " " + vals + "; " + keep }
			cond = text(callerSrc, ifs.Cond)
		}
		thenText := text(callerSrc, ifs.Body)
		elseBody := ""
		if ifs.Else != nil {
			elseBody = text(callerSrc, ifs.Else)
		}
		// the branches are replicated at every return of the folded body: they must not contain a break that would now
		// leave the folded body instead of the caller's loop, and must not mention a name that is declared where the
		// return stands
		if hasLooseBreak(ifs.Body) || (ifs.Else != nil && hasLooseBreak(ifs.Else)) {
			return "", "the branches of the if contain an unlabeled break"
		}
		assigned := map[string]bool{}
		ast.Inspect(c.fd.Body, func(n ast.Node) bool {
			switch x := n.(type) {
			case *ast.AssignStmt:
				for _, l := range x.Lhs {
					if id, ok := l.(*ast.Ident); ok {
						assigned[id.Name] = true
					}
				}
			case *ast.IncDecStmt:
				if id, ok := x.X.(*ast.Ident); ok {
					assigned[id.Name] = true
				}
			case *ast.UnaryExpr:
				if id, ok := x.X.(*ast.Ident); ok && x.Op == token.AND {
					assigned[id.Name] = true
				}
			case *ast.RangeStmt:
				for _, l := range []ast.Expr{x.Key, x.Value} {
					if id, ok := l.(*ast.Ident); ok {
						assigned[id.Name] = true
					}
				}
			}
			return true
		})
		sameArg := map[string]bool{} // parameter name == the caller's identifier passed for it, never assigned in the body
		for i, bd := range binds {
			var arg ast.Expr
			off := 0
			if c.fd.Recv != nil && len(c.fd.Recv.List) == 1 {
				off = 1
				if i == 0 {
					arg = s.call.Fun.(*ast.SelectorExpr).X
				}
			}
			if arg == nil && i-off >= 0 && i-off < len(s.call.Args) {
				arg = s.call.Args[i-off]
			}
			if id, ok := arg.(*ast.Ident); ok && id.Name == bd.name && !assigned[bd.name] {
				sameArg[bd.name] = true
			}
		}
		// names the caller's statement uses that are declared outside of it
		outer := map[string]bool{}
		collect := func(n ast.Node) {
			ast.Inspect(n, func(m ast.Node) bool {
				if se, ok := m.(*ast.SelectorExpr); ok {
					ast.Inspect(se.X, func(q ast.Node) bool {
						if id, ok := q.(*ast.Ident); ok && info.Uses[id] != nil {
							if obj := info.Uses[id]; obj.Pos() < ifs.Pos() || obj.Pos() > ifs.End() {
								outer[id.Name] = true
							}
						}
						return true
					})
					return false
				}
				if id, ok := m.(*ast.Ident); ok && info.Uses[id] != nil {
					if obj := info.Uses[id]; obj.Pos() < ifs.Pos() || obj.Pos() > ifs.End() {
						outer[id.Name] = true
					}
				}
				return true
			})
		}
		collect(ifs.Body)
		if ifs.Else != nil {
			collect(ifs.Else)
		}
		if !s.bare {
			collect(ifs.Cond)
			for _, e := range as.Lhs {
				if id, ok := e.(*ast.Ident); ok && id.Name != "_" && (as.Tok == token.ASSIGN || info.Defs[id] == nil || s.follow != nil) {
					outer[id.Name] = true // assigned to: must reach the caller's variable
				}
			}
		}
		// names visible at a return of the folded body that are the body's own
		fnScope := pk.Types.Scope().Innermost(c.fd.Body.Lbrace + 1)
		declaredAt := func(r *ast.ReturnStmt) string {
			for sc := pk.Types.Scope().Innermost(r.Pos()); sc != nil; sc = sc.Parent() {
				for _, nm := range sc.Names() {
					if outer[nm] && !sameArg[nm] {
						if obj := sc.Lookup(nm); obj != nil && obj.Pos() < r.Pos() {
							return nm
						}
					}
				}
				if sc == fnScope || sc.Parent() == nil || sc.Parent() == pk.Types.Scope() {
					break
				}
				if fs := sc.Parent(); fs != nil && fs == pk.Types.Scope() {
					break
				}
			}
			// parameters, receiver and named results live in the function's scope
			for _, bd := range binds {
				if outer[bd.name] && !sameArg[bd.name] {
					return bd.name
				}
			}
			for _, nm := range resNames {
				if named && outer[nm] {
					return nm
				}
			}
			return ""
		}
		_ = declaredAt // clashing names of the folded body were renamed above
		// the condition is decided statically where the returned value is a literal (or built in place)
		condValue := func(r *ast.ReturnStmt) (val, known bool) {
			if len(r.Results) != nres {
				return false, false
			}
			if s.bare {
				if id, ok := r.Results[0].(*ast.Ident); ok && (id.Name == "true" || id.Name == "false") && info.Uses[id] != nil && info.Uses[id].Parent() == types.Universe {
					return (id.Name == "true") != s.negate, true
				}
				return false, false
			}
			// `v, ok := h(); if [!]ok {…}` where the helper returns the literal true/false in that position
			{
				cond, neg := ifs.Cond, false
				if pe, isP := cond.(*ast.ParenExpr); isP {
					cond = pe.X
				}
				if ue, isU := cond.(*ast.UnaryExpr); isU && ue.Op == token.NOT {
					cond, neg = ue.X, true
				}
				if ci, isI := cond.(*ast.Ident); isI {
					for i, e := range as.Lhs {
						if id, isId := e.(*ast.Ident); isId && id.Name == ci.Name && i < len(r.Results) {
							if lit, isL := r.Results[i].(*ast.Ident); isL && (lit.Name == "true" || lit.Name == "false") && info.Uses[lit] != nil && info.Uses[lit].Parent() == types.Universe {
								return (lit.Name == "true") != neg, true
							}
						}
					}
					return false, false
				}
			}
			be, ok := ifs.Cond.(*ast.BinaryExpr)
			if !ok || (be.Op != token.NEQ && be.Op != token.EQL) {
				return false, false
			}
			x, y := be.X, be.Y
			if id, ok := x.(*ast.Ident); ok && id.Name == "nil" {
				x, y = y, x
			}
			xi, ok1 := x.(*ast.Ident)
			yi, ok2 := y.(*ast.Ident)
			if !ok1 || !ok2 || yi.Name != "nil" {
				return false, false
			}
			idx := -1
			for i, e := range as.Lhs {
				if id, ok := e.(*ast.Ident); ok && id.Name == xi.Name {
					idx = i
				}
			}
			if idx < 0 {
				return false, false
			}
			isNil, known := nilness(pk, c.fd, r, r.Results[idx], 0)
			if !known {
				return false, false
			}
			return isNil == (be.Op == token.EQL), true
		}
		body := bodyWith(func(r *ast.ReturnStmt) string {
			if val, known := condValue(r); known {
				branch := thenText
				if !val {
					branch = elseBody
				}
				return "{ " + bindStmt(retValues(r)) + branch + "; break " + tag + " }"
			}
			els := ""
			if elseBody != "" {
				els = " else " + elseBody
			}
			return "{ " + bindStmt(retValues(r)) + "if " + cond + " " + thenText + els + "; break " + tag + " }"
		})
		hdr := b.String()
		b.Reset()
		b.WriteString(predecl + "{ " + hdr + tag + ": switch { default: { " + params() + namedDecl)
		line(calleeName, calleeLine)
		b.WriteString(body)
		b.WriteString("\n} } }")
		line(callerName, nextLine)
		return b.String(), ""
	}
	return "", "unsupported position"
}

// currentOverlay is the overlay of the running Overlay call (render reads folded sources of earlier rounds).
var currentOverlay = map[string][]byte{}

// hasLooseBreak: an unlabeled break that is not inside a for/switch/select of the node itself.
func hasLooseBreak(n ast.Node) bool {
	found := false
	var walk func(n ast.Node, inBreakable bool)
	walk = func(n ast.Node, inBreakable bool) {
		ast.Inspect(n, func(m ast.Node) bool {
			if m == nil || found {
				return false
			}
			switch x := m.(type) {
			case *ast.FuncLit:
				return false
			case *ast.ForStmt, *ast.RangeStmt, *ast.SwitchStmt, *ast.TypeSwitchStmt, *ast.SelectStmt:
				if m != n {
					walk(m, true)
					return false
				}
				if !inBreakable {
					// n itself is breakable: everything below is inside it
					inBreakable = true
				}
			case *ast.BranchStmt:
				if x.Tok == token.BREAK && x.Label == nil && !inBreakable {
					found = true
				}
			}
			return true
		})
	}
	walk(n, false)
	return found
}

// nilness decides syntactically whether the expression e, returned by r inside fd, is nil: the literal nil; a value
// built in place (&T{...}, errors.New, fmt.Errorf) is not; a call of a function of the package that returns nil only
// for a nil argument ("wrap") is not nil where its argument is a sentinel (a package-level Err* variable) or the
// variable of an enclosing `if x != nil`.
func nilness(pk *packages.Package, fd *ast.FuncDecl, r *ast.ReturnStmt, e ast.Expr, depth int) (isNil, known bool) {
	info := pk.TypesInfo
	switch x := e.(type) {
	case *ast.Ident:
		if x.Name == "nil" && info.Uses[x] != nil && info.Uses[x].Parent() == types.Universe {
			return true, true
		}
		if nonNilHere(pk, fd, r, x) {
			return false, true
		}
	case *ast.UnaryExpr:
		if _, ok := x.X.(*ast.CompositeLit); ok && x.Op == token.AND {
			return false, true
		}
	case *ast.CallExpr:
		var fo *types.Func
		switch f := x.Fun.(type) {
		case *ast.Ident:
			fo, _ = info.Uses[f].(*types.Func)
		case *ast.SelectorExpr:
			fo, _ = info.Uses[f.Sel].(*types.Func)
		}
		if fo == nil {
			return false, false
		}
		if fo.Pkg() != nil && (fo.Pkg().Path() == "errors" && fo.Name() == "New" || fo.Pkg().Path() == "fmt" && fo.Name() == "Errorf") {
			return false, true
		}
		if fo.Pkg() != pk.Types || depth > 1 {
			return false, false
		}
		// a wrapper of the package: which parameters make its result non-nil
		var wd *ast.FuncDecl
		for _, f := range pk.Syntax {
			for _, d := range f.Decls {
				if d2, ok := d.(*ast.FuncDecl); ok && info.Defs[d2.Name] == types.Object(fo) {
					wd = d2
				}
			}
		}
		if wd == nil || wd.Body == nil {
			return false, false
		}
		pi := 0
		for _, fl := range wd.Type.Params.List {
			names := fl.Names
			if len(names) == 0 {
				names = []*ast.Ident{{Name: "_"}}
			}
			for _, nm := range names {
				if pi < len(x.Args) && nm.Name != "_" && wrapsNonNil(pk, wd, nm.Name) {
					if n, k := nilness(pk, fd, r, x.Args[pi], depth+1); k && !n {
						return false, true
					}
				}
				pi++
			}
		}
	case *ast.SelectorExpr:
		// a sentinel of another package: pkg.ErrX
		if id, ok := x.X.(*ast.Ident); ok {
			if _, isPkg := info.Uses[id].(*types.PkgName); isPkg && strings.HasPrefix(x.Sel.Name, "Err") {
				if v, ok := info.Uses[x.Sel].(*types.Var); ok && v.Parent() == v.Pkg().Scope() {
					return false, true
				}
			}
		}
	}
	return false, false
}

// nonNilHere: identifier x is a package-level Err* sentinel, or the return stands in the then-branch of an enclosing
// `if x != nil` (x not assigned in that branch before it).
func nonNilHere(pk *packages.Package, fd *ast.FuncDecl, r *ast.ReturnStmt, x *ast.Ident) bool {
	info := pk.TypesInfo
	if v, ok := info.Uses[x].(*types.Var); ok && v.Pkg() != nil && v.Parent() == v.Pkg().Scope() && strings.HasPrefix(x.Name, "Err") {
		return true
	}
	found := false
	var stack []ast.Node
	ast.Inspect(fd.Body, func(n ast.Node) bool {
		if n == nil {
			stack = stack[:len(stack)-1]
			return true
		}
		stack = append(stack, n)
		if n != ast.Node(r) {
			return true
		}
		for i := len(stack) - 2; i >= 1; i-- {
			blk, ok := stack[i].(*ast.BlockStmt)
			if !ok {
				continue
			}
			ifs, ok := stack[i-1].(*ast.IfStmt)
			if !ok || ifs.Body != blk {
				continue
			}
			be, ok := ifs.Cond.(*ast.BinaryExpr)
			if !ok || be.Op != token.NEQ {
				continue
			}
			l, lok := be.X.(*ast.Ident)
			rr, rok := be.Y.(*ast.Ident)
			if lok && rok && rr.Name == "nil" && l.Name == x.Name && info.Uses[l] == info.Uses[x] {
				// not reassigned between the test and the return
				re := false
				ast.Inspect(blk, func(m ast.Node) bool {
					if a, ok := m.(*ast.AssignStmt); ok && a.Pos() < r.Pos() {
						for _, lh := range a.Lhs {
							if id, ok := lh.(*ast.Ident); ok && info.Uses[id] == info.Uses[x] && a.Tok == token.ASSIGN {
								re = true
							}
						}
					}
					return true
				})
				if !re {
					found = true
				}
			}
		}
		return true
	})
	return found
}

// wrapsNonNil: every `return nil` of wd (single error result) stands in the then-branch of `if <param> == nil`, and
// every other return hands back the parameter, a value built in place, or another such wrapper of it.
func wrapsNonNil(pk *packages.Package, wd *ast.FuncDecl, param string) bool {
	if wd.Type.Results == nil || len(wd.Type.Results.List) != 1 || len(wd.Type.Results.List[0].Names) > 1 {
		return false
	}
	ok := true
	n := 0
	var stack []ast.Node
	ast.Inspect(wd.Body, func(m ast.Node) bool {
		if m == nil {
			stack = stack[:len(stack)-1]
			return true
		}
		stack = append(stack, m)
		if _, isLit := m.(*ast.FuncLit); isLit {
			ok = false
			return true
		}
		if a, isA := m.(*ast.AssignStmt); isA {
			for _, lh := range a.Lhs {
				if id, isID := lh.(*ast.Ident); isID && id.Name == param {
					ok = false
				}
			}
		}
		r, isRet := m.(*ast.ReturnStmt)
		if !isRet {
			return true
		}
		n++
		if len(r.Results) != 1 {
			ok = false
			return true
		}
		switch e := r.Results[0].(type) {
		case *ast.Ident:
			switch {
			case e.Name == param:
			case e.Name == "nil":
				guarded := false
				for i := len(stack) - 2; i >= 1; i-- {
					blk, isB := stack[i].(*ast.BlockStmt)
					ifs, isI := stack[i-1].(*ast.IfStmt)
					if !isB || !isI || ifs.Body != blk {
						continue
					}
					if be, isBE := ifs.Cond.(*ast.BinaryExpr); isBE && be.Op == token.EQL {
						l, lok := be.X.(*ast.Ident)
						rr, rok := be.Y.(*ast.Ident)
						if lok && rok && l.Name == param && rr.Name == "nil" {
							guarded = true
						}
					}
				}
				if !guarded {
					ok = false
				}
			default:
				ok = false
			}
		case *ast.UnaryExpr:
			if _, isCL := e.X.(*ast.CompositeLit); !isCL || e.Op != token.AND {
				ok = false
			}
		default:
			ok = false
		}
		return true
	})
	return ok && n > 0
}

// renameSet is what the un-rename pass restores: functions and types by key, and the field names of structs.
type renameSet struct {
	funcs  map[string]string   // new function key -> reference name
	types  map[string]string   // new type key -> reference name
	fields map[string][]string // current type key -> reference field names by position ("-" = embedded)
}

func (r renameSet) empty() bool { return len(r.funcs)+len(r.types)+len(r.fields) == 0 }

func sigShape(sig string) string {
	if i := strings.IndexByte(sig, '#'); i >= 0 {
		return sig[:i]
	}
	return sig
}

func sigNames(sig string) []string {
	if i := strings.IndexByte(sig, '#'); i >= 0 {
		return strings.Split(sig[i+1:], ",")
	}
	return nil
}

// detectRenames compares the tree with the reference inventory: an unexported type (function) that is new and has the
// shape (signature) of exactly one type (function of the same receiver) that disappeared from the same directory is
// that one renamed; a struct whose field types are unchanged and whose field names differ had fields renamed.
func detectRenames(repo string, inv map[string]bool) renameSet {
	rs := renameSet{funcs: map[string]string{}, types: map[string]string{}, fields: map[string][]string{}}
	cur, err := Inventory(repo)
	if err != nil {
		return rs
	}
	curSigs := lastSigs
	taken := map[string]bool{}
	var added []string
	for k := range cur {
		if !inv[k] {
			added = append(added, k)
		}
	}
	sort.Strings(added)
	split := func(k string) (dir, recv, name string, ok bool) {
		p := strings.Split(k, "|")
		if len(p) != 3 {
			return "", "", "", false
		}
		return p[0], p[1], p[2], true
	}
	// types first
	typeOld := map[string]string{} // dir|newName -> oldName
	for _, nk := range added {
		dir, recv, name, ok := split(nk)
		if !ok || recv != "type " || ast.IsExported(name) {
			continue
		}
		var match []string
		for ok2 := range inv {
			d2, r2, n2, ok3 := split(ok2)
			if !ok3 || cur[ok2] || taken[ok2] || r2 != "type " || d2 != dir || ast.IsExported(n2) {
				continue
			}
			if refSigs[ok2] != "" && sigShape(refSigs[ok2]) == sigShape(curSigs[nk]) {
				match = append(match, ok2)
			}
		}
		if len(match) == 1 {
			_, _, oldName, _ := split(match[0])
			rs.types[nk] = oldName
			typeOld[dir+"|"+name] = oldName
			taken[match[0]] = true
			if rn, cn := sigNames(refSigs[match[0]]), sigNames(curSigs[nk]); len(rn) == len(cn) && strings.Join(rn, ",") != strings.Join(cn, ",") {
				rs.fields[nk] = rn
			}
		}
	}
	// fields of types that kept their name
	for k := range cur {
		_, recv, _, ok := split(k)
		if !ok || recv != "type " || !inv[k] || refSigs[k] == "" || refSigs[k] == curSigs[k] {
			continue
		}
		if sigShape(refSigs[k]) == sigShape(curSigs[k]) {
			if rn, cn := sigNames(refSigs[k]), sigNames(curSigs[k]); len(rn) == len(cn) {
				rs.fields[k] = rn
			}
		}
	}
	// functions and methods (the receiver read through the type renames)
	for _, nk := range added {
		dir, recv, name, ok := split(nk)
		if !ok || recv == "type " || ast.IsExported(name) {
			continue
		}
		refRecv := recv
		if o, isRenamed := typeOld[dir+"|"+recv]; isRenamed {
			refRecv = o
		}
		if inv[Key(dir, refRecv, name)] {
			continue // the method of a renamed type: it is back once the type is
		}
		var match []string
		for ok2 := range inv {
			d2, r2, n2, ok3 := split(ok2)
			if !ok3 || r2 == "type " || d2 != dir || r2 != refRecv || ast.IsExported(n2) || taken[ok2] {
				continue
			}
			// gone from the tree (under the current receiver name as well)
			if cur[ok2] || cur[Key(dir, recv, n2)] {
				continue
			}
			if refSigs[ok2] != "" && refSigs[ok2] == curSigs[nk] {
				match = append(match, ok2)
			}
		}
		if len(match) == 1 {
			_, _, oldName, _ := split(match[0])
			rs.funcs[nk] = oldName
			taken[match[0]] = true
		}
	}
	return rs
}

// unrename rewrites every identifier that denotes a renamed function, type or field of pk back to its reference name.
func unrename(repo string, pk *packages.Package, rs renameSet, res *Result) error {
	fset := pk.Fset
	info := pk.TypesInfo
	objs := map[types.Object]string{}
	relOf := func(pos token.Pos) string {
		rel, _ := filepath.Rel(repo, filepath.Dir(fset.PositionFor(pos, false).Filename))
		return filepath.ToSlash(rel)
	}
	for _, f := range pk.Syntax {
		if strings.HasSuffix(fset.PositionFor(f.Pos(), false).Filename, "_test.go") {
			continue
		}
		for _, d := range f.Decls {
			switch x := d.(type) {
			case *ast.FuncDecl:
				nk := Key(relOf(x.Pos()), recvName(x), x.Name.Name)
				old, ok := rs.funcs[nk]
				if !ok {
					continue
				}
				obj := info.Defs[x.Name]
				if obj == nil {
					continue
				}
				if x.Recv == nil {
					if pk.Types.Scope().Lookup(old) != nil {
						continue
					}
				} else if fo, isF := obj.(*types.Func); isF {
					if sig, isSig := fo.Type().(*types.Signature); isSig && sig.Recv() != nil {
						if o, _, _ := types.LookupFieldOrMethod(sig.Recv().Type(), true, pk.Types, old); o != nil {
							continue
						}
					}
				}
				objs[obj] = old
				res.Renamed = append(res.Renamed, nk+" -> "+old)
			case *ast.GenDecl:
				if x.Tok != token.TYPE {
					continue
				}
				for _, sp := range x.Specs {
					ts, ok := sp.(*ast.TypeSpec)
					if !ok {
						continue
					}
					tk := typeKey(relOf(ts.Pos()), ts.Name.Name)
					tn, _ := info.Defs[ts.Name].(*types.TypeName)
					if tn == nil {
						continue
					}
					if old, ok := rs.types[tk]; ok && pk.Types.Scope().Lookup(old) == nil {
						objs[tn] = old
						res.Renamed = append(res.Renamed, tk+" -> "+old)
						// embedded fields are named after their type
						for _, f2 := range pk.Syntax {
							ast.Inspect(f2, func(n ast.Node) bool {
								st, ok := n.(*ast.StructType)
								if !ok {
									return true
								}
								for _, fl := range st.Fields.List {
									if len(fl.Names) != 0 {
										continue
									}
									t := fl.Type
									if se, ok := t.(*ast.StarExpr); ok {
										t = se.X
									}
									if id, ok := t.(*ast.Ident); ok && info.Uses[id] == types.Object(tn) {
										if fv, ok := info.Implicits[fl].(*types.Var); ok {
											objs[fv] = old
										} else if named, ok := info.TypeOf(st).(*types.Struct); ok {
											for i := 0; i < named.NumFields(); i++ {
												if named.Field(i).Embedded() && named.Field(i).Name() == tn.Name() {
													objs[named.Field(i)] = old
												}
											}
										}
									}
								}
								return true
							})
						}
					}
					if names, ok := rs.fields[tk]; ok {
						if st, ok := tn.Type().Underlying().(*types.Struct); ok && st.NumFields() == len(names) {
							for i := 0; i < st.NumFields(); i++ {
								if names[i] != "-" && !st.Field(i).Embedded() && st.Field(i).Name() != names[i] {
									objs[st.Field(i)] = names[i]
									res.Renamed = append(res.Renamed, tk+"."+st.Field(i).Name()+" -> "+names[i])
								}
							}
						}
					}
				}
			}
		}
	}
	if len(objs) == 0 {
		return nil
	}
	edits := map[string][]edit{}
	for _, f := range pk.Syntax {
		ast.Inspect(f, func(n ast.Node) bool {
			id, ok := n.(*ast.Ident)
			if !ok {
				return true
			}
			obj := info.Defs[id]
			if obj == nil {
				obj = info.Uses[id]
			}
			if old, ok := objs[obj]; ok && id.Name != old {
				file := fset.PositionFor(id.Pos(), false).Filename
				edits[file] = append(edits[file], edit{fset.PositionFor(id.Pos(), false).Offset, fset.PositionFor(id.End(), false).Offset, old})
			}
			return true
		})
	}
	for file, el := range edits {
		src := res.Overlay[file]
		if src == nil {
			var err error
			if src, err = os.ReadFile(file); err != nil {
				return err
			}
		}
		sort.Slice(el, func(i, j int) bool { return el[i].start > el[j].start })
		for _, e := range el {
			src = append(append(append([]byte{}, src[:e.start]...), e.text...), src[e.end:]...)
		}
		res.Overlay[file] = src
	}
	return nil
}
