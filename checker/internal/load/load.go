// Package load type-checks /repo for one build target and builds SSA + call graph.
package load

import (
	"fmt"
	"go/ast"
	"go/token"
	"go/types"
	"os"
	"sort"
	"strings"
	"sync"

	"golang.org/x/tools/go/callgraph"
	"golang.org/x/tools/go/callgraph/cha"
	"golang.org/x/tools/go/callgraph/vta"
	"golang.org/x/tools/go/packages"
	"golang.org/x/tools/go/ssa"
	"golang.org/x/tools/go/ssa/ssautil"

	"hpfscheck/internal/fold"
)

// ModulePath is the import path prefix of the analysed module.
const ModulePath = "github.com/hack-pad/hackpadfs"

// Target is a GOOS/GOARCH pair.
type Target struct{ GOOS, GOARCH string }

func (t Target) String() string { return t.GOOS + "/" + t.GOARCH }

// Standard targets.
var (
	Linux   = Target{"linux", "amd64"}
	Windows = Target{"windows", "amd64"}
	Wasm    = Target{"js", "wasm"}
	Linux32 = Target{"linux", "386"}
	Darwin  = Target{"darwin", "arm64"}
)

// InventoryFile is the committed list of the reference tree's function declarations (set by main from the -verif
// directory). Unexported functions of the analysed tree that are not in it are folded back into their callers before
// type-checking (package fold); an empty name or a missing file disables that.
var InventoryFile string

// Program is one loaded, type-checked, SSA-built view of the repository.
type Program struct {
	// Folded lists the new helpers that were folded into their callers, FoldKept those that were left alone (with the
	// reason), FoldNote a failure of the folded sources to type-check (the tree was then analysed as it is).
	Folded   []string
	Renamed  []string
	FoldKept []string
	FoldNote string

	Target  Target
	Repo    string
	ModPath string
	Fset    *token.FileSet
	Pkgs    []*packages.Package // module packages, sorted by path
	ByPath  map[string]*packages.Package
	Prog    *ssa.Program
	SSAPkgs map[string]*ssa.Package

	cgOnce  sync.Once
	cg      *callgraph.Graph
	chaOnce sync.Once
	chaG    *callgraph.Graph

	allOnce sync.Once
	all     map[*ssa.Function]bool

	srcFuncs []*ssa.Function
}

// Load loads ./... of repo for target. Any type error is a hard failure.
func Load(repo string, t Target) (*Program, error) {
	return LoadModule(repo, ModulePath, t)
}

// LoadModule loads ./... of the module rooted at dir whose import path (prefix) is modPath.
func LoadModule(repo, modPath string, t Target) (*Program, error) {
	env := []string{}
	for _, kv := range os.Environ() {
		k := kv
		if i := strings.IndexByte(kv, '='); i >= 0 {
			k = kv[:i]
		}
		switch k {
		case "GOWORK", "GOOS", "GOARCH", "GOFLAGS", "GOPROXY", "GOSUMDB", "GOTOOLCHAIN", "CGO_ENABLED":
			continue
		}
		env = append(env, kv)
	}
	env = append(env, "GOWORK=off", "GOOS="+t.GOOS, "GOARCH="+t.GOARCH, "GOFLAGS=-mod=mod",
		"GOPROXY=off", "GOSUMDB=off", "GOTOOLCHAIN=local", "CGO_ENABLED=0")
	cfg := &packages.Config{
		Mode:  packages.LoadAllSyntax,
		Dir:   repo,
		Env:   env,
		Tests: false,
	}
	var foldRes *fold.Result
	foldNote := ""
	if modPath == ModulePath && InventoryFile != "" {
		if inv := fold.ReadInventory(InventoryFile); inv != nil {
			r, ferr := fold.Overlay(repo, modPath, env, inv)
			switch {
			case ferr != nil:
				foldNote = "folding new helpers failed, the tree is analysed as it is: " + ferr.Error()
			case len(r.Overlay) > 0:
				foldRes = r
				cfg.Overlay = r.Overlay
			default:
				foldRes = r
			}
		}
	}
	collect := func(pkgs []*packages.Package) []string {
		var errs []string
		packages.Visit(pkgs, nil, func(p *packages.Package) {
			for _, e := range p.Errors {
				errs = append(errs, e.Error())
			}
		})
		return errs
	}
	pkgs, err := packages.Load(cfg, "./...")
	if err == nil && cfg.Overlay != nil && len(collect(pkgs)) > 0 {
		// the folded sources do not type-check (a shape the folder does not handle): analyse the tree as it is
		es := collect(pkgs)
		foldNote = "the folded sources do not type-check (" + es[0] + "), the tree is analysed as it is"
		foldRes.Folded = nil
		cfg.Overlay = nil
		pkgs, err = packages.Load(cfg, "./...")
	}
	if err != nil {
		return nil, fmt.Errorf("load %s: %w", t, err)
	}
	if len(pkgs) == 0 {
		return nil, fmt.Errorf("load %s: zero packages", t)
	}
	errs := collect(pkgs)
	if len(errs) > 0 {
		sort.Strings(errs)
		if len(errs) > 10 {
			errs = errs[:10]
		}
		return nil, fmt.Errorf("load %s: type/load errors:\n  %s", t, strings.Join(errs, "\n  "))
	}
	p := &Program{Target: t, Repo: repo, ModPath: modPath, ByPath: map[string]*packages.Package{}, SSAPkgs: map[string]*ssa.Package{}}
	p.FoldNote = foldNote
	if foldRes != nil {
		p.Folded, p.FoldKept, p.Renamed = foldRes.Folded, foldRes.Kept, foldRes.Renamed
	}
	sort.Slice(pkgs, func(i, j int) bool { return pkgs[i].PkgPath < pkgs[j].PkgPath })
	for _, pk := range pkgs {
		if pk.PkgPath == modPath || strings.HasPrefix(pk.PkgPath, modPath+"/") {
			p.Pkgs = append(p.Pkgs, pk)
			p.ByPath[pk.PkgPath] = pk
		}
	}
	if len(p.Pkgs) == 0 {
		return nil, fmt.Errorf("load %s: no packages of module %s under %s", t, modPath, repo)
	}
	p.Fset = pkgs[0].Fset
	prog, _ := ssautil.AllPackages(pkgs, ssa.InstantiateGenerics)
	prog.Build()
	p.Prog = prog
	for _, pk := range p.Pkgs {
		sp := prog.Package(pk.Types)
		if sp == nil {
			return nil, fmt.Errorf("load %s: no SSA package for %s", t, pk.PkgPath)
		}
		p.SSAPkgs[pk.PkgPath] = sp
	}
	return p, nil
}

// AllFunctions returns every function of the program (incl. stdlib).
func (p *Program) AllFunctions() map[*ssa.Function]bool {
	p.allOnce.Do(func() { p.all = ssautil.AllFunctions(p.Prog) })
	return p.all
}

// CallGraph returns the VTA call graph (over CHA).
func (p *Program) CallGraph() *callgraph.Graph {
	p.cgOnce.Do(func() {
		p.cg = vta.CallGraph(p.AllFunctions(), p.CHA())
	})
	return p.cg
}

// CHA returns the CHA call graph.
func (p *Program) CHA() *callgraph.Graph {
	p.chaOnce.Do(func() { p.chaG = cha.CallGraph(p.Prog) })
	return p.chaG
}

// InModule reports whether fn is declared in a (non-test) file of the module.
func (p *Program) InModule(fn *ssa.Function) bool {
	if fn == nil {
		return false
	}
	pk := fn.Package()
	if pk == nil {
		if fn.Origin() != nil {
			pk = fn.Origin().Package()
		}
		if pk == nil && fn.Parent() != nil {
			return p.InModule(fn.Parent())
		}
		if pk == nil {
			return false
		}
	}
	path := pk.Pkg.Path()
	return path == p.ModPath || strings.HasPrefix(path, p.ModPath+"/")
}

// SrcFuncs returns all source functions of the module (declared functions, methods and
// anonymous functions nested in them), sorted by position.
func (p *Program) SrcFuncs() []*ssa.Function {
	if p.srcFuncs != nil {
		return p.srcFuncs
	}
	seen := map[*ssa.Function]bool{}
	var out []*ssa.Function
	var add func(fn *ssa.Function)
	add = func(fn *ssa.Function) {
		if fn == nil || seen[fn] {
			return
		}
		seen[fn] = true
		if fn.Blocks != nil && fn.Synthetic == "" {
			out = append(out, fn)
		}
		for _, a := range fn.AnonFuncs {
			add(a)
		}
	}
	for _, pk := range p.Pkgs {
		sp := p.SSAPkgs[pk.PkgPath]
		for _, m := range sp.Members {
			switch m := m.(type) {
			case *ssa.Function:
				add(m)
			case *ssa.Type:
				for _, T := range []types.Type{m.Type(), types.NewPointer(m.Type())} {
					ms := p.Prog.MethodSets.MethodSet(T)
					for i := 0; i < ms.Len(); i++ {
						fn := p.Prog.MethodValue(ms.At(i))
						if fn != nil && fn.Synthetic == "" {
							add(fn)
						}
					}
				}
			}
		}
		if init := sp.Func("init"); init != nil {
			for _, a := range init.AnonFuncs {
				add(a)
			}
		}
	}
	sort.Slice(out, func(i, j int) bool {
		pi, pj := p.Fset.Position(out[i].Pos()), p.Fset.Position(out[j].Pos())
		if pi.Filename != pj.Filename {
			return pi.Filename < pj.Filename
		}
		if pi.Line != pj.Line {
			return pi.Line < pj.Line
		}
		return pi.Column < pj.Column
	})
	p.srcFuncs = out
	return out
}

// Pos renders a position relative to the repository root.
func (p *Program) Pos(pos token.Pos) string {
	if !pos.IsValid() {
		return "-"
	}
	ps := p.Fset.Position(pos)
	f := strings.TrimPrefix(ps.Filename, p.Repo+"/")
	return fmt.Sprintf("%s:%d", f, ps.Line)
}

// Pkg returns the types.Package for a module-relative path ("" = root, "keyvalue", …).
func (p *Program) Pkg(rel string) *packages.Package {
	path := p.ModPath
	if rel != "" {
		path += "/" + rel
	}
	return p.ByPath[path]
}

// SSAPkg returns the SSA package for a module-relative path.
func (p *Program) SSAPkg(rel string) *ssa.Package {
	path := p.ModPath
	if rel != "" {
		path += "/" + rel
	}
	return p.SSAPkgs[path]
}

// Named looks up a named type in a module package.
func (p *Program) Named(rel, name string) *types.Named {
	pk := p.Pkg(rel)
	if pk == nil {
		return nil
	}
	obj := pk.Types.Scope().Lookup(name)
	if obj == nil {
		return nil
	}
	tn, ok := obj.(*types.TypeName)
	if !ok {
		return nil
	}
	n, _ := tn.Type().(*types.Named)
	return n
}

// Func looks up a package-level function.
func (p *Program) Func(rel, name string) *ssa.Function {
	sp := p.SSAPkg(rel)
	if sp == nil {
		return nil
	}
	return sp.Func(name)
}

// Method looks up a method (pointer or value receiver) of a named type of the module.
func (p *Program) Method(rel, typ, name string) *ssa.Function {
	n := p.Named(rel, typ)
	if n == nil {
		return nil
	}
	var wrapper *ssa.Function
	for _, T := range []types.Type{types.NewPointer(n), n} {
		sel := p.Prog.MethodSets.MethodSet(T).Lookup(n.Obj().Pkg(), name)
		if sel != nil {
			fn := p.Prog.MethodValue(sel)
			if fn != nil {
				if fn.Synthetic == "" {
					return fn // the declared function
				}
				if wrapper == nil {
					wrapper = fn
				}
			}
		}
	}
	return wrapper
}

// Global returns the ssa.Global for a package-level var.
func (p *Program) Global(rel, name string) *ssa.Global {
	sp := p.SSAPkg(rel)
	if sp == nil {
		return nil
	}
	g, _ := sp.Members[name].(*ssa.Global)
	return g
}

// FuncName renders a function compactly: pkg.(*T).M or pkg.F or parent$1.
func FuncName(fn *ssa.Function) string {
	if fn == nil {
		return "<nil>"
	}
	s := fn.String()
	s = strings.ReplaceAll(s, ModulePath+"/", "")
	s = strings.ReplaceAll(s, ModulePath, "hackpadfs")
	return s
}

// Files returns the syntax of all module packages.
func (p *Program) Files() []*ast.File {
	var out []*ast.File
	for _, pk := range p.Pkgs {
		out = append(out, pk.Syntax...)
	}
	return out
}
