package rules

import (
	"fmt"
	"go/token"
	"go/types"
	"sort"
	"strings"

	"golang.org/x/tools/go/ssa"

	"hpfscheck/internal/core"
	"hpfscheck/internal/load"
	"hpfscheck/internal/ssax"
)

func init() {
	register(&Spec{ID: "C01", Targets: []load.Target{load.Linux, load.Windows, load.Wasm}, Run: runC01})
}

func runC01(c *core.Ctx) {
	runFixtures(c, "valid")
	c.Explain("Differential equivalence with package os over histories is not decidable statically. Decided, exhaustively over a finite space: (R01.1) the flag decision table of the key-value FS's OpenFile — for all 48 flag values (3 access modes x O_APPEND/O_CREATE/O_EXCL/O_TRUNC, constants of the loaded target) x {target missing with parent a directory / parent missing / parent a regular file; target a regular file; target a directory} = 240 cells the single feasible path through the function is followed by evaluating its flag tests as constants and its look-up tests from the situation, and the outcome (handle kind by control dependence of the wrapper constructed, create reached, truncate reached, or the sentinel of the returned error) must equal the reference table of os.OpenFile; a test the evaluator cannot classify makes the cell undecided (= failure); (R01.2) permission masking: every value that reaches the mode of a newly built record from a perm/mode parameter of Mkdir, MkdirAll, OpenFile crosses '& const' with const within ModePerm, Chmod's stored mode crosses '& const' within ModePerm|Setuid|Setgid|Sticky, and directory records are or-ed with ModeDir — invisible to the suite, which compares modes under a zero mask. (R01.3) every strings.HasPrefix relating two names in package keyvalue (Rename's 'moved into itself' guard) uses a prefix ending in '/' — os compares path elements, so Rename(\"lib\", \"lib64/lib\") must not be refused; (R01.4) every nil return of the key-value MkdirAll lies on a path that passed the success edge of the ancestor classifier (which answers a regular file anywhere in the chain, the leaf included, with ErrNotDir) or an IsDir()-true test of a look-up of the path — os.MkdirAll succeeds only if the path is a directory afterwards; (R01.5) Rename stores the record it loaded under the new name and constructs no record of its own — a fresh record loses what the old one carried (the modification time set by Chtimes, which os.Rename keeps); (R01.6) on every path on which OpenFile returns a handle, the flag parameter was stored into the handle's record (field store or constructor argument) — a handle that loses O_APPEND writes at its offset instead of the end; R01.1 also evaluates, one level deep, the flag tests inside the handle's Truncate that OpenFile calls for O_TRUNC. Existence/kind preconditions of the other mutations are C03's. (R01.7/R01.8) the create-site analyses of R03.1/R03.5 under this property; (R01.9) the in-memory listing compares child names with constants only; (R01.10) no store to the modification-time field is reachable from Chmod, Stat, Rename, reads, seeks, ReadDir or Close; (R01.11) the by-name look-up classifies the ancestors of a missing name (known finding). (R01.12) times are compared with IsZero/Equal, never with ==. (R01.13) Rename stores a directory under the new name only on the edge where that name was found absent; (R01.14) no by-name method returns a constant nil before its look-up. (R01.15) the whole-file write helper (the fallback mem and keyvalue use) reaches no Chmod/Chtimes/Chown: os.WriteFile uses perm only when it creates the file. (R01.16) = R08.8 under C01. NOT claimed: results, data and trees equal to os over histories; Rename/Remove/RemoveAll semantics beyond C03; modification times.")
	c.Assume("reference table of os.OpenFile semantics frozen in the checker (documented in DESIGN.md §3 C01)")
	c.RuleDoc("R01.1", "OpenFile flag decision table, exhaustive over 240 cells")
	c.RuleDoc("R01.2", "permission masking on create and chmod")
	c.RuleDoc("R01.3", "name relations in the key-value FS are tested on path-element boundaries")
	c.RuleDoc("R01.5", "Rename moves the record it loaded, it constructs none")
	c.RuleDoc("R01.6", "the flag OpenFile was called with reaches the handle it returns on every path")
	c.RuleDoc("R01.7", "an entry is created only below an existing directory (os: ENOTDIR / ENOENT) — the analysis of R03.1")
	c.RuleDoc("R01.8", "a record is stored under a path only where that path was found absent or not a directory (os: rename of a file onto a directory fails) — the analysis of R03.5")
	c.RuleDoc("R01.9", "the in-memory listing compares child names with constants only")
	c.RuleDoc("R01.13", "Rename stores a directory under the new name only where the new name is absent")
	c.RuleDoc("R01.16", "the OpenFile helper takes the fs.Open shortcut only for flag == O_RDONLY (= R08.8)")
	c.RuleDoc("R01.15", "the whole-file write helper changes no attribute of the file it writes")
	c.RuleDoc("R01.14", "a by-name method returns a constant nil only after the name was looked up")
	c.RuleDoc("R01.12", "times are compared with IsZero/Equal, never with == (a zero time in another zone means 'leave unchanged')")
	c.RuleDoc("R01.11", "a name that leads through a regular file fails as in os (ENOTDIR), so RemoveAll of it fails too (= R05.7)")
	c.RuleDoc("R01.10", "Chmod, Stat, Rename, reads, seeks, ReadDir and Close never store a modification time")
	c.RuleDoc("R01.4", "MkdirAll reports success only after the path's ancestors and the path itself were classified")
	for _, p := range c.Progs {
		c.SetProg(p)
		sh := findKVShape(p)
		if sh == nil || sh.methods["OpenFile"] == nil {
			c.Hard("anchor: keyvalue.FS.OpenFile")
			continue
		}
		r01Table(c, p, sh)
		r01Perm(c, p, sh)
		boundaryTests(c, p, "R01.3", "keyvalue")
		r01MkdirAll(c, p, sh)
		r01RenameCarriesRecord(c, p, sh)
		r01FlagReachesHandle(c, p, sh, "R01.6")
		if sh.saveFn != nil && len(sh.setFns) > 0 && len(sh.ctorFns) > 0 {
			r03Creates(c, p, sh, "R01.7", "R01.8")
		} else {
			c.Hard("anchor: keyvalue.FS shape (set functions, constructors, save)")
		}
		r01ListingFilter(c, p)
		r01ModTimeWriters(c, p, sh)
		r01TimesComparedByValue(c, p)
		r01DirOntoAbsentOnly(c, p, sh)
		r01SuccessAfterLookup(c, p, sh)
		r01WriteKeepsAttributes(c, p)
		// R01.16 (= R08.8): the OpenFile helper (what callers of mem reach) takes the fs.Open shortcut only for flag == O_RDONLY
		c.WithAlias(map[string]string{"R08.8": "R01.16"}, func() { r08OpenFallback(c, p) })
		if p.Target == load.Linux {
			r05NotDirThroughFile(c, p, "R01.11")
		}
	}
	c.Floor("R01.1", 240)
	c.Floor("R01.2", 4)
	c.Floor("R01.3", 1)
	c.Floor("R01.4", 1)
	c.Floor("R01.5", 1)
	c.Floor("R01.6", 1)
	c.Floor("R01.7", 5)
	c.Floor("R01.8", 5)
	c.Floor("R01.9", 1)
	c.Floor("R01.10", 10)
	c.Floor("R01.12", 1)
	c.Floor("R01.13", 1)
	c.Floor("R01.14", 3)
	c.Floor("R01.15", 1)
	c.Floor("R01.16", 1)
}

type openSituation struct {
	target string // missing | file | dir
	parent string // dir | missing | file (only when target missing)
}

type openOutcome struct {
	handle   string // readOnly | writeOnly | readWrite | ""
	errClass string // "" (nil) | sentinel | "?"
	created  bool
	trunc    bool
	decided  bool
	why      string
}

func (o openOutcome) String() string {
	if !o.decided {
		return "undecided: " + o.why
	}
	if o.errClass != "" {
		return "error " + o.errClass
	}
	s := o.handle
	if o.created {
		s += "+create"
	}
	if o.trunc {
		s += "+truncate"
	}
	return s
}

func r01Table(c *core.Ctx, p *load.Program, sh *kvShape) {
	fn := sh.methods["OpenFile"]
	nameP, flagP := fn.Params[1], fn.Params[2]
	K := func(n string) int64 { return constOf(p, n) }
	rd, wr, rw := K("FlagReadOnly"), K("FlagWriteOnly"), K("FlagReadWrite")
	ap, cr, ex, tr := K("FlagAppend"), K("FlagCreate"), K("FlagExclusive"), K("FlagTruncate")
	if wr == 0 || rw == 0 || cr == 0 || ex == 0 || tr == 0 || ap == 0 {
		c.Hard("anchor: open flag constants")
		return
	}
	// wrapper types by method sets: a read-only wrapper has no Write, a write-only wrapper has no ReadAt
	kindOfType := func(t types.Type) string {
		w, r := hasMethods(t, "Write"), hasMethods(t, "ReadAt")
		switch {
		case w && r:
			return "readWrite"
		case w:
			return "writeOnly"
		case r:
			return "readOnly"
		}
		return "?"
	}
	truncFn := map[*ssa.Function]bool{}
	if ft := p.Named("keyvalue", "file"); ft != nil {
		truncFn[methodsOf(p, ft)["Truncate"]] = true
	}
	situations := []openSituation{{"missing", "dir"}, {"missing", "missing"}, {"missing", "file"}, {"file", ""}, {"dir", ""}}
	cells := 0
	var mismatches []string
	for _, am := range []int64{rd, wr, rw} {
		for bits := 0; bits < 16; bits++ {
			flag := am
			if bits&1 != 0 {
				flag |= ap
			}
			if bits&2 != 0 {
				flag |= cr
			}
			if bits&4 != 0 {
				flag |= ex
			}
			if bits&8 != 0 {
				flag |= tr
			}
			for _, sit := range situations {
				cells++
				got := r01Eval(sh, fn, nameP, flagP, flag, sit, kindOfType, truncFn)
				want := r01Reference(flag, am, rd, wr, rw, cr, ex, tr, sit)
				key := fmt.Sprintf("keyvalue.FS.OpenFile|am=%d%s|%s/%s", am, flagName(flag, ap, cr, ex, tr), sit.target, sit.parent)
				switch {
				case !got.decided:
					c.Unknown("R01.1", key, p.Pos(fn.Pos()), "cell undecided: "+got.why)
				case got.String() == want.String():
					c.OK("R01.1", key, p.Pos(fn.Pos()), got.String())
				default:
					mismatches = append(mismatches, key)
					c.Bad("R01.1", key, p.Pos(fn.Pos()), fmt.Sprintf("OpenFile(flags%s, target %s, parent %s): the code yields [%s], os.OpenFile yields [%s]", flagName(flag, ap, cr, ex, tr), sit.target, orDash(sit.parent), got, want))
				}
			}
		}
	}
	c.Info("flag_cells_"+p.Target.GOOS, cells)
	c.Info("exhaustive", true)
}

func orDash(s string) string {
	if s == "" {
		return "-"
	}
	return s
}

func flagName(flag, ap, cr, ex, tr int64) string {
	var s []string
	if flag&ap != 0 {
		s = append(s, "APPEND")
	}
	if flag&cr != 0 {
		s = append(s, "CREATE")
	}
	if flag&ex != 0 {
		s = append(s, "EXCL")
	}
	if flag&tr != 0 {
		s = append(s, "TRUNC")
	}
	if len(s) == 0 {
		return ""
	}
	return "|" + strings.Join(s, "|")
}

// r01Reference: os.OpenFile semantics for the clauses the code decides by flag tests.
func r01Reference(flag, am, rd, wr, rw, cr, ex, tr int64, sit openSituation) openOutcome {
	kind := map[int64]string{rd: "readOnly", wr: "writeOnly", rw: "readWrite"}[am]
	o := openOutcome{decided: true}
	switch sit.target {
	case "missing":
		if flag&cr == 0 {
			o.errClass = "ErrNotExist"
			return o
		}
		switch sit.parent {
		case "missing":
			o.errClass = "ErrNotExist"
		case "file":
			o.errClass = "ErrNotDir"
		default:
			o.handle, o.created, o.trunc = kind, true, flag&tr != 0
		}
	case "file":
		if flag&cr != 0 && flag&ex != 0 {
			o.errClass = "ErrExist"
			return o
		}
		o.handle, o.trunc = kind, flag&tr != 0
	case "dir":
		switch {
		case flag&cr != 0 && flag&ex != 0:
			o.errClass = "ErrExist"
		case am != rd || flag&cr != 0:
			o.errClass = "ErrIsDir"
		case flag&tr != 0:
			o.errClass = "ErrIsDir" // truncating a directory
		default:
			o.handle = kind
		}
	}
	return o
}

// r01Eval follows the single feasible path of OpenFile for a concrete flag value and look-up situation.
func r01Eval(sh *kvShape, fn *ssa.Function, nameP, flagP *ssa.Parameter, flag int64, sit openSituation, kindOfType func(types.Type) string, truncFn map[*ssa.Function]bool) openOutcome {
	out := openOutcome{}
	// which look-up a value belongs to
	assoc := func(v ssa.Value) string {
		lp := sh.lookupPathOf(v, 0)
		if lp == nil {
			return ""
		}
		if lp == ssa.Value(nameP) {
			return "target"
		}
		if pathDirOf(lp) == ssa.Value(nameP) {
			return "parent"
		}
		return ""
	}
	intOf := func(s *ssax.PathState, v ssa.Value) (int64, bool) {
		v = ssax.StripIntConv(s.Resolve(v))
		if k, ok := ssax.ConstInt(v); ok {
			return k, true
		}
		if v == ssa.Value(flagP) {
			return flag, true
		}
		if bo, ok := v.(*ssa.BinOp); ok {
			return 0, false && bo != nil
		}
		return 0, false
	}
	var evalInt func(s *ssax.PathState, v ssa.Value) (int64, bool)
	evalInt = func(s *ssax.PathState, v ssa.Value) (int64, bool) {
		if k, ok := intOf(s, v); ok {
			return k, true
		}
		v = ssax.StripIntConv(s.Resolve(v))
		if bo, ok := v.(*ssa.BinOp); ok {
			x, ok1 := evalInt(s, bo.X)
			y, ok2 := evalInt(s, bo.Y)
			if !ok1 || !ok2 {
				return 0, false
			}
			switch bo.Op {
			case token.AND:
				return x & y, true
			case token.OR:
				return x | y, true
			case token.AND_NOT:
				return x &^ y, true
			}
		}
		return 0, false
	}
	paths := 0
	var results []openOutcome
	undecidedWhy := ""
	calleeErr := ""
	ssax.EnumPaths(fn, fn.Blocks[0], 0, nil, ssax.PathHooks{
		EvalCond: func(s *ssax.PathState, cond ssa.Value) (bool, bool) {
			// integer comparisons over the flag
			if bo, ok := cond.(*ssa.BinOp); ok {
				x, ok1 := evalInt(s, bo.X)
				y, ok2 := evalInt(s, bo.Y)
				if ok1 && ok2 {
					switch bo.Op {
					case token.EQL:
						return x == y, true
					case token.NEQ:
						return x != y, true
					}
				}
				// err == nil / err != nil of a look-up
				if v, eq, isNil := ssax.NilTest(bo); isNil {
					switch assoc(s.Resolve(v)) {
					case "target":
						found := sit.target != "missing"
						return found == eq, true
					case "parent":
						found := sit.parent != "missing"
						return found == eq, true
					}
					// errors of anything else (store writes, truncation of a regular file): fault-free evaluation —
					// except an error built from one that is known non-nil on this path (a wrapping call around the
					// look-up's error or around a sentinel), which is non-nil
					if ssax.IsErrorType(v.Type()) {
						rv := s.Resolve(v)
						if ssax.IsNilConst(rv) {
							return eq, true
						}
						if cl := callProducing(rv); cl != nil && !(sit.target == "dir" && s.Counts["truncdir"] == 1) {
							for _, a := range cl.Call.Args {
								if !ssax.IsErrorType(a.Type()) {
									continue
								}
								ra := s.Resolve(a)
								nonNil := false
								switch assoc(ra) {
								case "target":
									nonNil = sit.target == "missing"
								case "parent":
									nonNil = sit.parent == "missing"
								}
								if u, ok := ssax.Unwrap(ra).(*ssa.UnOp); ok {
									if _, isGlobal := u.X.(*ssa.Global); isGlobal {
										nonNil = true // a sentinel
									}
								}
								if nonNil {
									return !eq, true
								}
							}
							return eq, true
						}
					}
				}
			}
			if ev, sent, ok := isErrorsIs(cond); ok {
				who := assoc(s.Resolve(ev))
				missing := (who == "target" && sit.target == "missing") || (who == "parent" && sit.parent == "missing")
				if who != "" {
					return missing && sent == "ErrNotExist", true
				}
			}
			if cl, ok := cond.(*ssa.Call); ok && (isIsDirCall(cl) || isKindCall(cl, "IsRegular")) {
				// x.IsDir() / x.Mode().IsRegular() ...: whose look-up produced x
				recvOf := func(cl *ssa.Call) ssa.Value {
					if cl.Call.IsInvoke() {
						return cl.Call.Value
					} else if len(cl.Call.Args) > 0 {
						return cl.Call.Args[0]
					}
					return nil
				}
				who := ""
				for v, i := recvOf(cl), 0; v != nil && i < 3 && who == ""; i++ {
					v = s.Resolve(v)
					who = assoc(v)
					inner, isCall := v.(*ssa.Call)
					if !isCall {
						break
					}
					v = recvOf(inner)
				}
				want := "dir"
				if !isIsDirCall(cl) {
					want = "file"
				}
				switch who {
				case "target":
					if sit.target == "missing" && s.Counts["created"] == 1 {
						return want == "file", true // the record this call has just created is a regular file
					}
					return sit.target == want, true
				case "parent":
					return sit.parent == want, true
				}
			}
			return false, false
		},
		Branch: func(s *ssax.PathState, cond ssa.Value, taken bool) {
			// reached only for conditions EvalCond could not decide
			if undecidedWhy == "" {
				undecidedWhy = fmt.Sprintf("cannot classify the test %s (%T)", cond.Name(), cond)
			}
			s.Counts["undecided"] = 1
		},
		Instr: func(s *ssax.PathState, ins ssa.Instruction) {
			cl, ok := ins.(*ssa.Call)
			if !ok {
				return
			}
			callee := ssax.StaticCallee(cl)
			if callee == sh.saveFn && callee != nil {
				base := cl.Call.Args[0]
				if b, _, ok := ssax.FieldLoad(base); ok {
					base = b
				}
				if ctor, ok := s.Resolve(base).(*ssa.Call); ok && sh.ctorFns[ssax.StaticCallee(ctor)] {
					s.Counts["created"] = 1
				}
			}
			if truncFn[callee] || (callee != nil && callee.Name() == "TruncateFile") {
				s.Counts["trunc"] = 1
				// the callee's own flag tests, evaluated for this cell's flag (one level deep)
				if truncFn[callee] && sit.target != "dir" {
					if cls := r01CalleeErr(callee, flag, sit); cls != "" {
						calleeErr = cls
						s.Counts["calleeerr"] = 1
					}
				}
				// truncating a directory handle fails with ErrIsDir (guard in the file's Truncate, R02.2)
				if sit.target == "dir" {
					s.Counts["truncdir"] = 1
				}
			}
		},
		End: func(s *ssax.PathState, last ssa.Instruction) {
			paths++
			r := last.(*ssa.Return)
			o := openOutcome{decided: s.Counts["undecided"] == 0, why: undecidedWhy, created: s.Counts["created"] == 1, trunc: s.Counts["trunc"] == 1}
			ev := s.Resolve(r.Results[1])
			if !ssax.IsNilConst(ev) {
				if s.Counts["truncdir"] == 1 {
					o.errClass = "ErrIsDir"
				} else if s.Counts["calleeerr"] == 1 && callProducing(ev) != nil {
					o.errClass = calleeErr + " (from the handle's Truncate under this flag)"
				} else if cl := callProducing(ev); cl != nil && s.Counts["trunc"] == 1 && sit.target != "dir" {
					// wrapperErr(open, name, Truncate(0)): nil when truncation of a regular file succeeds
					o.errClass = ""
				} else {
					info := classifyErr(ev)
					var ss []string
					for k := range info.Sentinels {
						if k != "nil" {
							ss = append(ss, k)
						}
					}
					sort.Strings(ss)
					o.errClass = strings.Join(ss, ",")
					// wrapperErr(op, name, err) of a look-up error: the class is the look-up's
					if strings.Contains(o.errClass, "?") {
						o.errClass = r01LookupErrClass(sh, s, ev, nameP, sit)
					}
				}
			}
			if o.errClass == "" {
				fv := s.Resolve(r.Results[0])
				if mi, ok := fv.(*ssa.MakeInterface); ok {
					o.handle = kindOfType(mi.X.Type())
				} else {
					o.handle = "?"
				}
				if o.errClass == "" && o.created {
					o.trunc = s.Counts["trunc"] == 1
				}
			} else {
				o.created, o.trunc = false, false
			}
			results = append(results, o)
		},
	})
	if len(results) != 1 {
		out.decided = false
		out.why = fmt.Sprintf("%d feasible paths for a fully determined cell (%s)", len(results), undecidedWhy)
		// all paths agree?
		if len(results) > 1 {
			same := true
			for _, r := range results[1:] {
				if r.String() != results[0].String() {
					same = false
				}
			}
			if same && results[0].decided {
				return results[0]
			}
		}
		return out
	}
	return results[0]
}

// r01CalleeErr evaluates a method of the opened handle (Truncate) for the cell's flag: tests of the handle's flag
// field are constants, size is the constant argument 0, the handle is open and a regular file, every other error
// is assumed nil (fault-free). If the unique fully decided path returns a non-nil error, its class is returned.
func r01CalleeErr(callee *ssa.Function, flag int64, sit openSituation) string {
	if callee == nil || callee.Blocks == nil || len(callee.Params) == 0 {
		return ""
	}
	recv := callee.Params[0]
	isFlagLoad := func(v ssa.Value) bool {
		b, idx, ok := ssax.FieldLoad(v)
		if !ok || b != ssa.Value(recv) {
			return false
		}
		st, ok := recv.Type().(*types.Pointer)
		if !ok {
			return false
		}
		str, ok := st.Elem().Underlying().(*types.Struct)
		return ok && idx < str.NumFields() && str.Field(idx).Name() == "flag"
	}
	var evalInt func(s *ssax.PathState, v ssa.Value) (int64, bool)
	evalInt = func(s *ssax.PathState, v ssa.Value) (int64, bool) {
		v = ssax.StripIntConv(s.Resolve(v))
		if k, ok := ssax.ConstInt(v); ok {
			return k, true
		}
		if isFlagLoad(v) {
			return flag, true
		}
		if len(callee.Params) > 1 && v == ssa.Value(callee.Params[1]) {
			return 0, true // Truncate(0)
		}
		if bo, ok := v.(*ssa.BinOp); ok {
			x, ok1 := evalInt(s, bo.X)
			y, ok2 := evalInt(s, bo.Y)
			if ok1 && ok2 {
				switch bo.Op {
				case token.AND:
					return x & y, true
				case token.OR:
					return x | y, true
				case token.AND_NOT:
					return x &^ y, true
				}
			}
		}
		return 0, false
	}
	var classes []string
	undecidedPaths := 0
	ssax.EnumPaths(callee, callee.Blocks[0], 0, nil, ssax.PathHooks{
		EvalCond: func(s *ssax.PathState, cond ssa.Value) (bool, bool) {
			if bo, ok := cond.(*ssa.BinOp); ok {
				x, ok1 := evalInt(s, bo.X)
				y, ok2 := evalInt(s, bo.Y)
				if ok1 && ok2 {
					switch bo.Op {
					case token.EQL:
						return x == y, true
					case token.NEQ:
						return x != y, true
					case token.LSS:
						return x < y, true
					case token.LEQ:
						return x <= y, true
					case token.GTR:
						return x > y, true
					case token.GEQ:
						return x >= y, true
					}
				}
				if v, eq, isNil := ssax.NilTest(bo); isNil {
					if ssax.IsErrorType(v.Type()) {
						return eq, true // fault-free
					}
					return !eq, true // pointers of an open handle are set
				}
			}
			if cl, ok := cond.(*ssa.Call); ok && isIsDirCall(cl) {
				return false, true
			}
			return false, false
		},
		Branch: func(s *ssax.PathState, cond ssa.Value, taken bool) { s.Counts["undecided"] = 1 },
		End: func(s *ssax.PathState, last ssa.Instruction) {
			if s.Counts["undecided"] == 1 {
				undecidedPaths++
				return
			}
			r := last.(*ssa.Return)
			ev := s.Resolve(r.Results[len(r.Results)-1])
			if ssax.IsNilConst(ev) || callProducing(ev) != nil && classifyErr(ev).Sentinels["nil"] {
				classes = append(classes, "")
				return
			}
			info := classifyErr(ev)
			var ss []string
			for k := range info.Sentinels {
				if k != "nil" {
					ss = append(ss, k)
				}
			}
			sort.Strings(ss)
			classes = append(classes, strings.Join(ss, ","))
		},
	})
	if undecidedPaths == 0 && len(classes) == 1 {
		return classes[0]
	}
	return ""
}

// r01LookupErrClass: the returned error wraps the error of a look-up: its class follows from the situation.
func r01LookupErrClass(sh *kvShape, s *ssax.PathState, ev ssa.Value, nameP *ssa.Parameter, sit openSituation) string {
	// find an argument of the wrapping call that is a look-up's error
	var find func(v ssa.Value, d int) string
	find = func(v ssa.Value, d int) string {
		if d > 6 || v == nil {
			return "?"
		}
		v = s.Resolve(v)
		if lp := sh.lookupPathOf(v, 0); lp != nil {
			if lp == ssa.Value(nameP) && sit.target == "missing" {
				return "ErrNotExist"
			}
			if pathDirOf(lp) == ssa.Value(nameP) && sit.parent == "missing" {
				return "ErrNotExist"
			}
			return "?"
		}
		switch x := v.(type) {
		case *ssa.Call:
			for _, a := range x.Call.Args {
				if ssax.IsErrorType(a.Type()) {
					if r := find(a, d+1); r != "?" {
						return r
					}
				}
			}
		case *ssa.Extract:
			return find(x.Tuple, d+1)
		case *ssa.MakeInterface:
			return find(x.X, d+1)
		}
		return "?"
	}
	return find(ev, 0)
}

// ---- R01.2 ----

func r01Perm(c *core.Ctx, p *load.Program, sh *kvShape) {
	modePerm := int64(0o777)
	chmodBits := modePerm | int64(1<<23) | int64(1<<22) | int64(1<<20) // Setuid | Setgid | Sticky (io/fs bit positions)
	modeDir := int64(1) << 31
	// every NewBaseFileRecord call in package keyvalue: the mode argument
	for _, fn := range pkgFuncs(p, "keyvalue") {
		ord := ordinals{}
		ssax.Instrs(fn, func(ins ssa.Instruction) {
			cl, ok := ins.(*ssa.Call)
			if !ok {
				return
			}
			callee := ssax.StaticCallee(cl)
			if callee == nil || callee.Name() != "NewBaseFileRecord" {
				return
			}
			key := fname(fn) + "|" + ord.next("record-mode")
			bits, why := userBits(p, fn, cl.Call.Args[2], 0, map[ssa.Value]bool{})
			if why != "" {
				c.Bad("R01.2", key, p.Pos(cl.Pos()), fmt.Sprintf("%s: the mode of a new record %s — caller-supplied bits outside the permission bits (e.g. ModeDir, ModeSymlink) could be stored", fname(fn), why))
				return
			}
			c.Check(bits&^modePerm == 0, "R01.2", key, p.Pos(cl.Pos()), fmt.Sprintf("caller-controlled bits of a new record's mode are within %#o", modePerm),
				fmt.Sprintf("%s: caller-controlled bits %#o of a new record's mode exceed ModePerm", fname(fn), bits))
			// no permission bit comes from a constant: os creates with exactly the permissions asked for (perm 0 stays 0)
			kb := constBits(p, fn, cl.Call.Args[2], 0, map[ssa.Value]bool{})
			c.Check(kb&modePerm == 0, "R01.2", key+"|no-default-permissions", p.Pos(cl.Pos()), "no permission bit of a new record's mode comes from a constant",
				fmt.Sprintf("%s: permission bits %#o of a new record's mode can come from a constant instead of the caller's perm: a file created with other permissions than asked for (e.g. perm 0 replaced by a default) differs from what os.OpenFile/os.Mkdir create", fname(fn), kb&modePerm))
		})
		// modeOverride stores (chmod)
		ssax.Instrs(fn, func(ins ssa.Instruction) {
			st, ok := ins.(*ssa.Store)
			if !ok {
				return
			}
			a, ok := st.Addr.(*ssa.Alloc)
			if !ok || !strings.HasSuffix(typeString(a.Type()), "FileMode") {
				return
			}
			// the cell whose address is stored into a *FileMode field
			isOverride := false
			if a.Referrers() != nil {
				for _, r := range *a.Referrers() {
					if s2, ok := r.(*ssa.Store); ok && s2.Val == ssa.Value(a) {
						if fa, ok := s2.Addr.(*ssa.FieldAddr); ok {
							if _, isPtr := fa.Type().(*types.Pointer).Elem().(*types.Pointer); isPtr {
								isOverride = true
							}
						}
					}
				}
			}
			if !isOverride {
				return
			}
			key := fname(fn) + "|" + ord.next("chmod-mode")
			bits, why := userBits(p, fn, st.Val, 0, map[ssa.Value]bool{})
			if why != "" {
				c.Bad("R01.2", key, p.Pos(st.Pos()), fmt.Sprintf("%s: the chmod mode %s", fname(fn), why))
				return
			}
			c.Check(bits&^chmodBits == 0, "R01.2", key, p.Pos(st.Pos()), "caller-controlled bits of a chmod are within ModePerm|ModeSetuid|ModeSetgid|ModeSticky",
				fmt.Sprintf("%s: Chmod lets the caller change mode bits %#o outside permission/setuid/setgid/sticky (e.g. turn a file into a directory)", fname(fn), bits&^chmodBits))
		})
	}
	// directory records carry ModeDir: the constructor used by Mkdir/MkdirAll ors it in
	for _, name := range []string{"Mkdir", "MkdirAll"} {
		fn := sh.methods[name]
		if fn == nil {
			continue
		}
		ok := false
		ssax.Instrs(fn, func(ins ssa.Instruction) {
			cl, isC := ins.(*ssa.Call)
			if !isC || !sh.ctorFns[ssax.StaticCallee(cl)] {
				return
			}
			if orsConst(p, ssax.StaticCallee(cl), modeDir, 0) {
				ok = true
			}
		})
		c.Check(ok, "R01.2", fname(fn)+"|dir-bit", p.Pos(fn.Pos()), "directory records are built with ModeDir or-ed in",
			fmt.Sprintf("%s builds its record without ModeDir: the new entry is a regular file", fname(fn)))
	}
}

// orsConst: callee (or the constructor it forwards to) computes a mode as (… | K) where K has bit `bit`.
func orsConst(p *load.Program, fn *ssa.Function, bit int64, depth int) bool {
	if fn == nil || fn.Blocks == nil || depth > 2 {
		return false
	}
	found := false
	ssax.Instrs(fn, func(ins ssa.Instruction) {
		if bo, ok := ins.(*ssa.BinOp); ok && bo.Op == token.OR {
			for _, side := range []ssa.Value{bo.X, bo.Y} {
				if k, ok := ssax.ConstInt(side); ok && k&bit != 0 {
					found = true
				}
			}
		}
	})
	return found
}

// userBits: the set of bits of v that a caller-supplied parameter can influence ("" why) —
// a parameter contributes all bits, '& K' restricts to K, '|' unions, constants and loaded record modes contribute none.
func userBits(p *load.Program, fn *ssa.Function, v ssa.Value, depth int, seen map[ssa.Value]bool) (int64, string) {
	const all = int64(-1)
	if depth > 10 || seen[v] {
		return 0, ""
	}
	seen[v] = true
	switch x := v.(type) {
	case *ssa.Const:
		return 0, ""
	case *ssa.Parameter:
		// propagate to the callers of an unexported function: every argument must be masked there
		if fn.Object() != nil && !fn.Object().Exported() {
			idx := paramIndex(fn, x)
			bits := int64(0)
			sites := 0
			for _, caller := range p.SrcFuncs() {
				var why string
				ssax.Instrs(caller, func(ins ssa.Instruction) {
					if cl, ok := ins.(*ssa.Call); ok && ssax.StaticCallee(cl) == fn && idx < len(cl.Call.Args) {
						sites++
						b, w := userBits(p, caller, cl.Call.Args[idx], depth+1, map[ssa.Value]bool{})
						bits |= b
						if w != "" {
							why = w
						}
					}
				})
				if why != "" {
					return 0, why
				}
			}
			if sites > 0 {
				return bits, ""
			}
		}
		return all, ""
	case *ssa.BinOp:
		a, w1 := userBits(p, fn, x.X, depth+1, seen)
		b, w2 := userBits(p, fn, x.Y, depth+1, seen)
		if w1 != "" {
			return 0, w1
		}
		if w2 != "" {
			return 0, w2
		}
		switch x.Op {
		case token.AND:
			if k, ok := ssax.ConstInt(x.Y); ok {
				return a & k, ""
			}
			if k, ok := ssax.ConstInt(x.X); ok {
				return b & k, ""
			}
			return a & b, ""
		case token.AND_NOT:
			if k, ok := ssax.ConstInt(x.Y); ok {
				return a &^ k, ""
			}
			return a, ""
		case token.OR, token.XOR:
			return a | b, ""
		}
		return a | b, ""
	case *ssa.UnOp:
		if x.Op == token.XOR { // ^x
			return userBits(p, fn, x.X, depth+1, seen)
		}
		return 0, "" // loads: record modes, not caller input
	case *ssa.Call:
		return 0, "" // Mode() of a loaded record
	case *ssa.Convert:
		return userBits(p, fn, x.X, depth+1, seen)
	case *ssa.ChangeType:
		return userBits(p, fn, x.X, depth+1, seen)
	case *ssa.Phi:
		bits := int64(0)
		for _, e := range x.Edges {
			b, w := userBits(p, fn, e, depth+1, seen)
			if w != "" {
				return 0, w
			}
			bits |= b
		}
		return bits, ""
	}
	return 0, fmt.Sprintf("is computed by %T, which the analysis does not track", v)
}

// r01MkdirAll (R01.4): success of MkdirAll implies the classifier's verdict.
func r01MkdirAll(c *core.Ctx, p *load.Program, sh *kvShape) {
	fn := sh.methods["MkdirAll"]
	if fn == nil || len(fn.Params) < 2 {
		c.Hard("anchor: keyvalue.FS.MkdirAll")
		return
	}
	pathP := ssa.Value(fn.Params[1])
	var classifierErrs []ssa.Value
	ssax.Instrs(fn, func(ins ssa.Instruction) {
		cl, ok := ins.(*ssa.Call)
		if !ok {
			return
		}
		callee := ssax.StaticCallee(cl)
		if callee == nil || !p.InModule(callee) || !isAncestorClassifier(p, callee) {
			return
		}
		uses := false
		for _, a := range cl.Call.Args {
			if a == pathP {
				uses = true
			}
		}
		if ev := ssax.ErrorValueOf(cl); uses && ev != nil {
			classifierErrs = append(classifierErrs, ev)
		}
	})
	key := fname(fn) + "|success-implies-directory"
	if len(classifierErrs) == 0 {
		c.Bad("R01.4", key, p.Pos(fn.Pos()), fmt.Sprintf("%s does not classify the ancestors of its path (no call of a function that walks path.Dir and can answer ErrNotDir)", fname(fn)))
		return
	}
	var badRet ssa.Instruction
	complete := ssax.EnumPaths(fn, fn.Blocks[0], 0, nil, ssax.PathHooks{
		Branch: func(s *ssax.PathState, cond ssa.Value, taken bool) {
			cnd, val := ssax.StripNot(cond, taken)
			if x, eq, ok := ssax.NilTest(cnd); ok && eq == val {
				for _, ev := range classifierErrs {
					if s.Resolve(x) == ev || x == ev {
						s.Counts["classified"] = 1
					}
				}
			}
			if cl, ok := cnd.(*ssa.Call); ok && val && isIsDirCall(cl) {
				var recv ssa.Value
				if cl.Call.IsInvoke() {
					recv = cl.Call.Value
				} else if len(cl.Call.Args) > 0 {
					recv = cl.Call.Args[0]
				}
				if lp := sh.lookupPathOf(recv, 0); lp != nil && lp == pathP {
					s.Counts["classified"] = 1
				}
			}
		},
		End: func(s *ssax.PathState, last ssa.Instruction) {
			r, ok := last.(*ssa.Return)
			if !ok || len(r.Results) == 0 {
				return
			}
			ev := s.Resolve(r.Results[len(r.Results)-1])
			if (ssax.IsNilConst(ev) || s.NilOf(ev) == ssax.IsNil) && s.Counts["classified"] == 0 && badRet == nil {
				badRet = r
			}
		},
	})
	switch {
	case !complete:
		c.Unknown("R01.4", key, p.Pos(fn.Pos()), "path enumeration exceeded its cap")
	case badRet != nil:
		c.Bad("R01.4", key, p.Pos(badRet.Pos()), fmt.Sprintf("%s returns nil on a path that never passed the ancestor classifier's success edge nor an IsDir() test of the path: MkdirAll succeeds although the path (or an ancestor) may be a regular file — os.MkdirAll fails with ENOTDIR", fname(fn)))
	default:
		c.OK("R01.4", key, p.Pos(fn.Pos()), "every nil return follows the classifier's success (a regular file anywhere in the chain is answered with ErrNotDir)")
	}
}

// constBits: the bits of v that may be set by a constant (as opposed to a caller-supplied parameter or a loaded mode).
func constBits(p *load.Program, fn *ssa.Function, v ssa.Value, depth int, seen map[ssa.Value]bool) int64 {
	if depth > 10 || seen[v] {
		return 0
	}
	seen[v] = true
	switch x := v.(type) {
	case *ssa.Const:
		k, _ := ssax.ConstInt(x)
		return k
	case *ssa.Parameter:
		if fn.Object() != nil && !fn.Object().Exported() {
			idx := paramIndex(fn, x)
			bits := int64(0)
			for _, caller := range p.SrcFuncs() {
				ssax.Instrs(caller, func(ins ssa.Instruction) {
					if cl, ok := ins.(*ssa.Call); ok && ssax.StaticCallee(cl) == fn && idx < len(cl.Call.Args) {
						bits |= constBits(p, caller, cl.Call.Args[idx], depth+1, map[ssa.Value]bool{})
					}
				})
			}
			return bits
		}
		return 0
	case *ssa.BinOp:
		a := constBits(p, fn, x.X, depth+1, seen)
		b := constBits(p, fn, x.Y, depth+1, seen)
		switch x.Op {
		case token.AND:
			// (perm & K): K only masks; a constant on one side does not set bits of the other
			if _, ok := ssax.ConstInt(x.Y); ok {
				return a & b
			}
			if _, ok := ssax.ConstInt(x.X); ok {
				return a & b
			}
			return a & b
		case token.AND_NOT:
			if k, ok := ssax.ConstInt(x.Y); ok {
				return a &^ k
			}
			return a
		default:
			return a | b
		}
	case *ssa.Convert:
		return constBits(p, fn, x.X, depth+1, seen)
	case *ssa.ChangeType:
		return constBits(p, fn, x.X, depth+1, seen)
	case *ssa.Phi:
		bits := int64(0)
		for _, e := range x.Edges {
			bits |= constBits(p, fn, e, depth+1, seen)
		}
		return bits
	}
	return 0
}

// r01RenameCarriesRecord (R01.5)
func r01RenameCarriesRecord(c *core.Ctx, p *load.Program, sh *kvShape) {
	fn := sh.methods["Rename"]
	if fn == nil {
		c.Hard("anchor: keyvalue.FS.Rename")
		return
	}
	var ctor *ssa.Call
	ssax.Instrs(fn, func(ins ssa.Instruction) {
		if cl, ok := ins.(*ssa.Call); ok && sh.ctorFns[ssax.StaticCallee(cl)] {
			ctor = cl
		}
	})
	key := fname(fn) + "|moves-the-loaded-record"
	if ctor != nil {
		c.Bad("R01.5", key, p.Pos(ctor.Pos()), fmt.Sprintf("%s builds a new record with %s instead of moving the one it loaded: whatever the old record carried beyond path, kind and permissions — the modification time set by Chtimes — is replaced, where os.Rename keeps it", fname(fn), ssax.CallName(ctor)))
	} else {
		c.OK("R01.5", key, p.Pos(fn.Pos()), "no record is constructed in Rename; the loaded record is stored under the new name (R03.1 checks where)")
	}
}

// r01FlagReachesHandle (R01.6)
func r01FlagReachesHandle(c *core.Ctx, p *load.Program, sh *kvShape, rule string) {
	fn := sh.methods["OpenFile"]
	if fn == nil || len(fn.Params) < 3 {
		return
	}
	flagP := ssa.Value(fn.Params[2])
	key := fname(fn) + "|flag-reaches-handle"
	var badRet *ssa.Return
	complete := ssax.EnumPaths(fn, fn.Blocks[0], 0, nil, ssax.PathHooks{
		Instr: func(s *ssax.PathState, ins ssa.Instruction) {
			switch x := ins.(type) {
			case *ssa.Store:
				if fa, ok := x.Addr.(*ssa.FieldAddr); ok && ssax.FieldName(fa) == "flag" && s.Resolve(x.Val) == flagP {
					s.Counts["flag"] = 1
				}
			case *ssa.Call:
				if sh.ctorFns[ssax.StaticCallee(x)] {
					for _, a := range x.Call.Args {
						if s.Resolve(a) == flagP {
							s.Counts["flag"] = 1
						}
					}
				}
			}
		},
		End: func(s *ssax.PathState, last ssa.Instruction) {
			r, ok := last.(*ssa.Return)
			if !ok || len(r.Results) < 2 {
				return
			}
			h := s.Resolve(r.Results[0])
			if ssax.IsNilConst(h) {
				return
			}
			if s.Counts["flag"] == 0 && badRet == nil {
				badRet = r
			}
		},
		MaxPaths: 20000,
	})
	switch {
	case !complete:
		c.Unknown(rule, key, p.Pos(fn.Pos()), "path enumeration exceeded its cap")
	case badRet != nil:
		c.Bad(rule, key, p.Pos(badRet.Pos()), fmt.Sprintf("%s returns a handle at %s on a path on which the flag it was called with was neither stored into the handle's record nor passed to its constructor: the handle forgets O_APPEND (and the access mode kept in the record) — a later Write goes to the handle's offset instead of the end of the file", fname(fn), p.Pos(badRet.Pos())))
	default:
		c.OK(rule, key, p.Pos(fn.Pos()), "on every path that returns a handle the flag was stored into its record or passed to its constructor")
	}
}

// ---- R01.9: the in-memory store lists a key as a child by its position only ----

// r01ListingFilter: in the listing function of the in-memory record (ReadDirNames), a child name — the remainder of a
// key after the directory prefix was cut off — is compared for (in)equality only with constants ("." for the root's own
// record). A comparison with a variable string (the directory's own path, another key) hides the child that happens
// to carry that name: the tree differs from os for one unusual name.
func r01ListingFilter(c *core.Ctx, p *load.Program) {
	recI := ifaceOf(p, "keyvalue", "FileRecord")
	var fns []*ssa.Function
	if recI != nil {
		for _, n := range implementers(p, recI) {
			if n.Obj().Pkg() == nil || !strings.HasSuffix(n.Obj().Pkg().Path(), "/mem") {
				continue
			}
			if m := methodsOf(p, n)["ReadDirNames"]; m != nil {
				fns = append(fns, m)
			}
		}
	}
	if len(fns) == 0 {
		c.Hard("anchor: ReadDirNames of the in-memory FileRecord")
		return
	}
	for _, fn := range fns {
		all := append([]*ssa.Function{fn}, fn.AnonFuncs...)
		trimmed := 0
		var bad *ssa.BinOp
		for _, f := range all {
			ssax.Instrs(f, func(ins ssa.Instruction) {
				if cl, ok := ins.(*ssa.Call); ok && (ssax.CalleeIs(cl, "strings", "TrimPrefix") || ssax.CalleeIs(cl, "strings", "CutPrefix")) {
					trimmed++
				}
				bo, ok := ins.(*ssa.BinOp)
				if !ok || bo.Op != token.EQL && bo.Op != token.NEQ || !isStr(bo.X.Type()) {
					return
				}
				rel := func(v ssa.Value) bool { return derivesFromTrim(v, 0, map[ssa.Value]bool{}) }
				konst := func(v ssa.Value) bool { _, ok := v.(*ssa.Const); return ok }
				if rel(bo.X) && !konst(bo.Y) && !rel(bo.Y) || rel(bo.Y) && !konst(bo.X) && !rel(bo.X) {
					bad = bo
				}
			})
		}
		key := fname(fn) + "|child-name-compared-with-constants-only"
		switch {
		case trimmed == 0:
			c.Hard("anchor: %s cuts no directory prefix off the keys (strings.TrimPrefix)", fname(fn))
		case bad != nil:
			c.Bad("R01.9", key, p.Pos(bad.Pos()), fmt.Sprintf("%s compares a child name (a key with the directory prefix cut off) with a variable string: the child that happens to carry that name (a directory 'src' containing 'src/src') is left out of the listing, so ReadDir omits it and Remove of the non-empty directory succeeds — os lists it and refuses the Remove", fname(fn)))
		default:
			c.OK("R01.9", key, p.Pos(fn.Pos()), "child names are compared with constants only")
		}
	}
}

func derivesFromTrim(v ssa.Value, depth int, seen map[ssa.Value]bool) bool {
	if v == nil || depth > 10 || seen[v] {
		return false
	}
	seen[v] = true
	switch x := v.(type) {
	case *ssa.Call:
		return ssax.CalleeIs(x, "strings", "TrimPrefix") || ssax.CalleeIs(x, "strings", "CutPrefix")
	case *ssa.Extract:
		return derivesFromTrim(x.Tuple, depth+1, seen)
	case *ssa.Phi:
		for _, e := range x.Edges {
			if derivesFromTrim(e, depth+1, seen) {
				return true
			}
		}
	case *ssa.UnOp:
		if x.Op == token.MUL {
			if a, ok := x.X.(*ssa.Alloc); ok {
				stores, _ := ssax.CellStores(a)
				for _, st := range stores {
					if derivesFromTrim(st.Val, depth+1, seen) {
						return true
					}
				}
			}
		}
	}
	return false
}

// ---- R01.10: who may change a modification time ----

// r01ModTimeWriters: the modification-time field of a key-value handle is the field Chtimes stores its argument into.
// No store to it is reachable (static calls inside package keyvalue) from the operations that leave the modification
// time alone in package os: Chmod (by path and by handle), Stat, Rename, the read and seek methods, ReadDir, Close.
func r01ModTimeWriters(c *core.Ctx, p *load.Program, sh *kvShape) {
	cht := sh.methods["Chtimes"]
	if cht == nil {
		c.Hard("anchor: keyvalue.FS.Chtimes")
		return
	}
	var field *types.Var
	ssax.Instrs(cht, func(ins ssa.Instruction) {
		st, ok := ins.(*ssa.Store)
		if !ok {
			return
		}
		fa, ok := st.Addr.(*ssa.FieldAddr)
		if !ok {
			return
		}
		if _, isParam := st.Val.(*ssa.Parameter); isParam && strings.HasSuffix(st.Val.Type().String(), "time.Time") {
			field = fieldVarOf(fa)
		}
	})
	if field == nil {
		c.Hard("anchor: the field Chtimes stores the modification time into")
		return
	}
	writes := map[*ssa.Function]token.Pos{}
	for _, fn := range pkgFuncs(p, "keyvalue") {
		ssax.Instrs(fn, func(ins ssa.Instruction) {
			if st, ok := ins.(*ssa.Store); ok {
				if fa, ok := st.Addr.(*ssa.FieldAddr); ok && fieldVarOf(fa) == field {
					writes[fn] = st.Pos()
				}
			}
		})
	}
	var reach func(fn *ssa.Function, seen map[*ssa.Function]bool) (*ssa.Function, []string)
	reach = func(fn *ssa.Function, seen map[*ssa.Function]bool) (*ssa.Function, []string) {
		if seen[fn] {
			return nil, nil
		}
		seen[fn] = true
		if _, ok := writes[fn]; ok {
			return fn, []string{fname(fn)}
		}
		var hit *ssa.Function
		var trail []string
		ssax.InstrsDeep(fn, func(_ *ssa.Function, ins ssa.Instruction) {
			if hit != nil {
				return
			}
			ci, ok := ins.(ssa.CallInstruction)
			if !ok {
				return
			}
			if callee := ssax.StaticCallee(ci); callee != nil && p.InModule(callee) && callee.Blocks != nil {
				if h, t := reach(callee, seen); h != nil {
					hit, trail = h, append([]string{fname(fn)}, t...)
				}
			}
		})
		return hit, trail
	}
	fileT := p.Named("keyvalue", "file")
	var fm map[string]*ssa.Function
	if fileT != nil {
		fm = methodSetFuncs(p, fileT)
	}
	type ent struct {
		name string
		fn   *ssa.Function
	}
	var ents []ent
	for _, n := range []string{"Chmod", "Stat", "Rename"} {
		ents = append(ents, ent{"FS." + n, sh.methods[n]})
	}
	for _, n := range []string{"Chmod", "Stat", "Read", "ReadAt", "Seek", "ReadDir", "Close"} {
		ents = append(ents, ent{"file." + n, fm[n]})
	}
	for _, e := range ents {
		if e.fn == nil {
			c.Hard("anchor: keyvalue %s", e.name)
			continue
		}
		key := "keyvalue." + e.name + "|keeps-modtime"
		if h, trail := reach(e.fn, map[*ssa.Function]bool{}); h != nil {
			c.Bad("R01.10", key, p.Pos(writes[h]), fmt.Sprintf("keyvalue %s reaches a store to the modification time (%s): in package os this operation leaves the modification time alone, so a time set through Chtimes is replaced by the current time", e.name, strings.Join(trail, " -> ")))
		} else {
			c.OK("R01.10", key, p.Pos(e.fn.Pos()), "no store to the modification-time field is reachable")
		}
	}
}

func fieldVarOf(fa *ssa.FieldAddr) *types.Var {
	t := fa.X.Type()
	if pt, ok := t.Underlying().(*types.Pointer); ok {
		t = pt.Elem()
	}
	st, ok := t.Underlying().(*types.Struct)
	if !ok || fa.Field >= st.NumFields() {
		return nil
	}
	return st.Field(fa.Field)
}

// r01TimesComparedByValue (R01.12): a time.Time is never compared with == or != in the key-value and in-memory file
// systems: the struct carries a location pointer, so the zero time of another zone is IsZero() but != time.Time{} —
// os.Chtimes leaves a zero time's field unchanged, the struct comparison takes it for a real time (year 1).
func r01TimesComparedByValue(c *core.Ctx, p *load.Program) {
	bad := ""
	n := 0
	for _, rel := range []string{"keyvalue", "mem"} {
		for _, fn := range pkgFuncs(p, rel) {
			ssax.Instrs(fn, func(ins ssa.Instruction) {
				switch x := ins.(type) {
				case *ssa.BinOp:
					if (x.Op == token.EQL || x.Op == token.NEQ) && strings.HasSuffix(x.X.Type().String(), "time.Time") {
						bad = p.Pos(x.Pos()) + " in " + fname(fn)
					}
				case ssa.CallInstruction:
					if callee := ssax.StaticCallee(x); callee != nil && callee.Signature.Recv() != nil && strings.HasSuffix(callee.Signature.Recv().Type().String(), "time.Time") && (callee.Name() == "IsZero" || callee.Name() == "Equal") {
						n++
					}
				}
			})
		}
	}
	key := "keyvalue|times-compared-with-IsZero-or-Equal"
	switch {
	case bad != "":
		c.Bad("R01.12", key, bad, fmt.Sprintf("a time.Time is compared with == / != at %s: a zero time that carries a location is IsZero() but not equal to time.Time{} — Chtimes(name, atime, time.Time{}.In(zone)) sets the modification time to year 1 where os.Chtimes leaves it unchanged", bad))
	case n == 0:
		c.Hard("anchor: no IsZero/Equal test of a time in keyvalue/mem (the 'unset override' test is gone)")
	default:
		c.OK("R01.12", key, "", "times are tested with IsZero/Equal only")
	}
}

// r01DirOntoAbsentOnly (R01.13): in Rename a DIRECTORY record is stored under the new name only where the look-up of
// the new name answered ErrNotExist: os.Rename refuses a directory onto an existing regular file (ENOTDIR) and onto a
// non-empty directory; replacing the file's record by the directory loses the file and moves the children below it.
func r01DirOntoAbsentOnly(c *core.Ctx, p *load.Program, sh *kvShape) {
	root := sh.methods["Rename"]
	if root == nil || len(root.Params) < 3 {
		c.Hard("anchor: keyvalue.FS.Rename")
		return
	}
	n := 0
	for _, body := range opBodies(root) {
		fn := body.fn
		newname := body.param(root.Params[2])
		if newname == nil || (body.call != nil && hasKey(sh.setFns, fn)) {
			continue // the store primitives forward the name, they are not part of the operation's logic
		}
		ord := ordinals{}
		ssax.Instrs(fn, func(ins ssa.Instruction) {
			cl, ok := ins.(*ssa.Call)
			if !ok {
				return
			}
			callee := ssax.StaticCallee(cl)
			if callee == nil || !hasKey(sh.setFns, callee) {
				return
			}
			pi := sh.setFns[callee]
			if cl.Call.Args[pi] != ssa.Value(newname) || ssax.IsNilConst(cl.Call.Args[pi+1]) {
				return
			}
			// the file branch (IsDir() of the old info known false) moves a file: judged by R01.8/R03.5
			fileBranch, absent := false, false
			for _, f := range ssax.FactsAtInstr(cl) {
				if ic, ok := f.Cond.(*ssa.Call); ok && isIsDirCall(ic) && !f.Val {
					fileBranch = true
				}
				if ev, sent, is := isErrorsIs(f.Cond); is && f.Val && sent == "ErrNotExist" {
					if lp := sh.lookupPathOf(ev, 0); lp != nil && lp == ssa.Value(newname) {
						absent = true
					}
				}
			}
			if fileBranch {
				return
			}
			n++
			key := fname(fn) + "|" + ord.next("directory-stored-only-where-the-new-name-is-absent")
			c.Check(absent, "R01.13", key, p.Pos(cl.Pos()), "the directory record is stored on the ErrNotExist edge of the look-up of the new name",
				fmt.Sprintf("%s stores a directory's record under the new name on a path on which the new name was not found absent: a directory renamed onto an existing regular file replaces the file's record (os: ENOTDIR, tree unchanged) and its children move below what was a file", fname(fn)))
		})
	}
	if n == 0 {
		c.Hard("anchor: store of the directory record under the new name in keyvalue.FS.Rename")
	}
}

// r01SuccessAfterLookup (R01.14): an exported by-name method of the key-value FS returns a constant nil error only
// after the name was handed to some function of the package (a look-up): a shortcut that answers "nothing to do"
// before looking the name up succeeds on names that do not exist, where os fails with ENOENT/ENOTDIR.
func r01SuccessAfterLookup(c *core.Ctx, p *load.Program, sh *kvShape) {
	var names []string
	for n := range sh.methods {
		names = append(names, n)
	}
	sort.Strings(names)
	cnt := 0
	for _, mn := range names {
		fn := sh.methods[mn]
		if fn.Object() == nil || !fn.Object().Exported() || len(fn.Params) < 2 || !isStr(fn.Params[1].Type()) {
			continue
		}
		eidx := ssax.ErrorResultIndex(fn.Signature)
		if eidx < 0 {
			continue
		}
		name := fn.Params[1]
		var uses []ssa.Instruction
		ssax.Instrs(fn, func(ins ssa.Instruction) {
			cl, ok := ins.(*ssa.Call)
			if !ok {
				return
			}
			callee := ssax.StaticCallee(cl)
			if callee == nil || !p.InModule(callee) || callee.Name() == "ValidPath" {
				return
			}
			for _, a := range cl.Call.Args {
				if a == ssa.Value(name) || dependsOnArgs(a, name, 0) {
					uses = append(uses, ins)
				}
			}
		})
		bad := ""
		rets := 0
		for _, r := range ssax.Returns(fn) {
			if !ssax.IsNilConst(resolveSpilled(r.Results[eidx], r)) {
				continue
			}
			rets++
			dominated := false
			for _, u := range uses {
				if ssax.Dominates(u, r) {
					dominated = true
				}
			}
			if !dominated {
				bad = p.Pos(r.Pos())
			}
		}
		if rets == 0 {
			continue
		}
		cnt++
		key := fname(fn) + "|constant-success-only-after-the-name-was-looked-up"
		c.Check(bad == "", "R01.14", key, p.Pos(fn.Pos()), "every 'return nil' follows a call that received the name",
			fmt.Sprintf("%s returns nil at %s before the name was handed to any function of the package: the operation succeeds on names that do not exist (or lie below a regular file), where os fails with ENOENT/ENOTDIR", fname(fn), bad))
	}
	if cnt < 3 {
		c.Hard("anchor: by-name methods of keyvalue.FS with a constant nil return (found %d)", cnt)
	}
}

func dependsOnArgs(v ssa.Value, root ssa.Value, d int) bool {
	if v == nil || d > 6 {
		return false
	}
	if v == root {
		return true
	}
	switch x := v.(type) {
	case *ssa.Call:
		for _, a := range x.Call.Args {
			if dependsOnArgs(a, root, d+1) {
				return true
			}
		}
	case *ssa.Slice:
		return dependsOnArgs(x.X, root, d+1)
	case *ssa.Alloc:
		if x.Referrers() != nil {
			for _, r := range *x.Referrers() {
				if ia, ok := r.(*ssa.IndexAddr); ok && ia.Referrers() != nil {
					for _, rr := range *ia.Referrers() {
						if st, ok := rr.(*ssa.Store); ok && dependsOnArgs(st.Val, root, d+1) {
							return true
						}
					}
				}
			}
		}
	case *ssa.Phi:
		for _, e := range x.Edges {
			if dependsOnArgs(e, root, d+1) {
				return true
			}
		}
	}
	return false
}

// r01WriteKeepsAttributes (R01.15): hackpadfs.WriteFullFile's fallback (open with O_CREATE|O_TRUNC, write, close) —
// the implementation mem and keyvalue get — reaches no operation that sets attributes (Chmod, Chtimes, Chown and their
// *File forms), in itself or in the module functions it calls (two levels). os.WriteFile applies perm only when it
// creates the file: re-writing an existing 0600 file with perm 0644 leaves it 0600.
func r01WriteKeepsAttributes(c *core.Ctx, p *load.Program) {
	fn := p.Func("", "WriteFullFile")
	if fn == nil {
		c.Hard("anchor: hackpadfs.WriteFullFile")
		return
	}
	attr := map[string]bool{"Chmod": true, "ChmodFile": true, "Chtimes": true, "ChtimesFile": true, "Chown": true, "ChownFile": true}
	bad := ""
	seen := map[*ssa.Function]bool{}
	var visit func(f *ssa.Function, d int)
	visit = func(f *ssa.Function, d int) {
		if f == nil || seen[f] || f.Blocks == nil || d > 2 {
			return
		}
		seen[f] = true
		ssax.InstrsDeep(f, func(_ *ssa.Function, ins ssa.Instruction) {
			ci, ok := ins.(ssa.CallInstruction)
			if !ok {
				return
			}
			if m := ssax.InvokeMethod(ci); m != nil && attr[m.Name()] && bad == "" {
				bad = m.Name() + " at " + p.Pos(ins.Pos())
			}
			if callee := ssax.StaticCallee(ci); callee != nil && p.InModule(callee) {
				if attr[callee.Name()] && bad == "" {
					bad = callee.Name() + " at " + p.Pos(ins.Pos())
				}
				visit(callee, d+1)
			}
		})
	}
	visit(fn, 0)
	c.Check(bad == "", "R01.15", "hackpadfs.WriteFullFile|sets-no-attributes", p.Pos(fn.Pos()), "no Chmod/Chtimes/Chown reachable from the whole-file write",
		fmt.Sprintf("hackpadfs.WriteFullFile reaches %s: writing an existing file replaces its permission bits (or times) with the call's arguments, where os.WriteFile uses perm only for a file it creates — a 0600 file re-written with perm 0644 must stay 0600", bad))
}
