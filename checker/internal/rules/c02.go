package rules

import (
	"fmt"
	"go/token"
	"go/types"
	"sort"
	"strings"

	"golang.org/x/tools/go/ssa"

	"hpfscheck/internal/core"
	"hpfscheck/internal/load"
	"hpfscheck/internal/ssax"
)

func init() { register(&Spec{ID: "C02", Targets: []load.Target{load.Linux}, Run: runC02}) }

func runC02(c *core.Ctx) {
	runFixtures(c, "bounds", "drop")
	c.Explain("Bytes, offsets and EOF timing are values and not decidable statically. Decided mechanisms: (R02.1) access-mode capability: no method of the read-only handle wrapper reaches a content mutator (blob.Set/Grow/Truncate), no method of the write-only wrapper reaches a content reader (blob.View/Slice), over the static call graph — a read-only handle can never change contents, a write-only handle can never read them; (R02.2) directory guard as sibling agreement: every byte-I/O method of the file type that touches the content blob (read, write, truncate) has an IsDir() guard before the blob access whose taken edge returns an ErrIsDir-class error; (R02.3) live size: in the methods that compare an offset/size parameter with the file size, the size is the length of the content loaded in that call (a Size() of the record cached at open time is flagged), so every handle sees the current size; (R02.4) validate before mutate: on every path of the write and truncate methods the first content mutator is dominated by the rejection of a negative offset/size. (R02.5) a write method that redirects its offset to the content length under the O_APPEND test hands the redirected offset back (result or handle field), so the handle's position ends at the new end of file; (R02.6) every content mutation of a write is dominated by 'the data is not empty' — an empty write beyond the end must not grow the file; (R02.7) the handle's Stat loads the content before returning a regular file's info, so Size() is current; (R02.8) a method that passes its own offset parameter to the write primitive (a positioned write) does so only below a test of the append flag whose other side returns an error — os.File refuses WriteAt on an O_APPEND handle, and silently appending instead would put the bytes somewhere else than asked; (R02.9 = R01.6) the flag reaches the handle on every path of OpenFile; (R02.10) in Seek every store into the handle's offset is dominated by the rejection of a negative value of what is stored — a failed Seek must leave the position unchanged; (R02.11) the in-memory store's set stores the contents blob it is given itself, not a copy: handles of one file see each other's writes because they share that blob; (R02.12) in every handle method that changes the content blob and then writes the record back, the path on which the write-back fails changes the blob again (restores it) before returning — 'a call that fails leaves the contents unchanged' (known finding: it does not). (R02.13) OpenFile constructs a record only on the edge where the look-up failed; (R02.14) a Grow amount equals the tested target minus the current length on every path; (R02.15) positioned methods, Truncate, Stat and Chmod reach no store to the offset; (R02.16) write methods never store the caller's buffer. (R02.15, extended) no exported method of the file system reaches a store to a handle's offset; (R02.17) the sequential methods store the offset on every path after their positioned call. (R02.18) the window a positioned read selects starts at or before the content's end by dominating comparisons. (R02.19) no O_APPEND test is reachable from Truncate; (R02.20) positioned methods return a constant-nil error only after the offset/size was compared or handed on. NOT claimed: transferred bytes, offsets, EOF exactness, zero fill, O_APPEND placement, coherence beyond R02.3.")
	c.Assume("the static call graph is complete for these wrappers (they call the inner *file statically)")
	c.RuleDoc("R02.1", "access-mode wrappers cannot reach forbidden content operations")
	c.RuleDoc("R02.2", "directory guard on every byte-I/O method")
	c.RuleDoc("R02.3", "size compared against parameters is the live content length")
	c.RuleDoc("R02.4", "negative offset/size rejected before the first mutation")
	c.RuleDoc("R02.5", "an offset redirected by O_APPEND is handed back to the caller that advances the handle")
	c.RuleDoc("R02.6", "an empty write mutates nothing")
	c.RuleDoc("R02.9", "the flag OpenFile was called with reaches the handle on every path (= R01.6)")
	c.RuleDoc("R02.10", "Seek stores the new offset only after rejecting a negative one")
	c.RuleDoc("R02.11", "the in-memory store keeps the blob it is given (handles share it)")
	c.RuleDoc("R02.13", "OpenFile constructs a record only where the name was not found: the handle of an existing file wraps the stored record")
	c.RuleDoc("R02.14", "the content grows by exactly the tested target minus its current length")
	c.RuleDoc("R02.15", "positioned methods, Truncate, Stat and Chmod never store the handle's offset")
	c.RuleDoc("R02.17", "a sequential read/write stores the offset on every path after its positioned call")
	c.RuleDoc("R02.18", "the window of the content a positioned read selects starts at or before the end of the content (an offset past the end answers EOF, not a bounds error)")
	c.RuleDoc("R02.19", "Truncate reaches no test of the O_APPEND flag (ftruncate ignores O_APPEND)")
	c.RuleDoc("R02.20", "a positioned method succeeds only on a path that tested its offset/size or handed it to the method that does")
	c.RuleDoc("R02.16", "write methods copy the caller's bytes, they never store the buffer")
	c.RuleDoc("R02.12", "a mutation whose write-back fails is undone")
	c.RuleDoc("R02.8", "a positioned write refuses a handle opened with O_APPEND")
	c.RuleDoc("R02.7", "a handle's Stat loads the content, so the size it reports is current")
	for _, p := range c.Progs {
		c.SetProg(p)
		fileT := p.Named("keyvalue", "file")
		if fileT == nil {
			c.Hard("anchor: keyvalue.file")
			continue
		}
		r02Wrappers(c, p, fileT)
		r02Methods(c, p, fileT)
		r02StatLive(c, p, fileT)
		r02PositionedAppend(c, p, fileT)
		if sh := findKVShape(p); sh != nil {
			r01FlagReachesHandle(c, p, sh, "R02.9")
			r02ExistingKeepsRecord(c, p, sh)
		}
		r02GrowExact(c, p, fileT)
		r02OffsetWriters(c, p, fileT)
		r02SequentialAdvances(c, p, fileT)
		r02WindowStartsInside(c, p, fileT)
		r02TruncateIgnoresAppend(c, p, fileT)
		r02OffsetValidatedOnSuccess(c, p)
		r02NoAdopt(c, p, fileT, "R02.16")
		r02SeekValidates(c, p, fileT)
		r02FailedSaveRestores(c, p, fileT)
		r02StoreKeepsBlob(c, p)
	}
	c.Floor("R02.1", 2)
	c.Floor("R02.2", 3)
	c.Floor("R02.3", 3)
	c.Floor("R02.4", 2)
	c.Floor("R02.5", 1)
	c.Floor("R02.6", 1)
	c.Floor("R02.7", 1)
	c.Floor("R02.8", 1)
	c.Floor("R02.9", 1)
	c.Floor("R02.10", 1)
	c.Floor("R02.11", 1)
	c.Floor("R02.13", 1)
	c.Floor("R02.14", 2)
	c.Floor("R02.15", 5)
	c.Floor("R02.16", 3)
	c.Floor("R02.17", 2)
	c.Floor("R02.18", 1)
	c.Floor("R02.19", 1)
	c.Floor("R02.20", 8)
}

func blobFuncs(p *load.Program, names ...string) map[*ssa.Function]bool {
	out := map[*ssa.Function]bool{}
	for _, n := range names {
		if fn := p.Func("keyvalue/blob", n); fn != nil {
			out[fn] = true
		}
	}
	return out
}

// reachStatic: functions reachable from fn through static calls (module only).
func reachStatic(p *load.Program, fn *ssa.Function, seen map[*ssa.Function][]string, path []string) {
	if fn == nil || fn.Blocks == nil {
		return
	}
	if _, ok := seen[fn]; ok {
		return
	}
	seen[fn] = append([]string{}, path...)
	ssax.Instrs(fn, func(ins ssa.Instruction) {
		if ci, ok := ins.(ssa.CallInstruction); ok {
			if callee := ssax.StaticCallee(ci); callee != nil && p.InModule(callee) {
				reachStatic(p, callee, seen, append(path, fname(callee)))
			}
		}
	})
}

func r02Wrappers(c *core.Ctx, p *load.Program, fileT *types.Named) {
	mut := blobFuncs(p, "Set", "Grow", "Truncate")
	rd := blobFuncs(p, "View", "Slice")
	if len(mut) != 3 || len(rd) != 2 {
		c.Hard("anchor: blob.Set/Grow/Truncate/View/Slice")
		return
	}
	n := 0
	for _, w := range wrapperTypes(p, fileT) {
		ms := methodsOf(p, w)
		hasW, hasR := ms["Write"] != nil, ms["ReadAt"] != nil
		var forbidden map[*ssa.Function]bool
		what := ""
		switch {
		case hasR && !hasW:
			forbidden, what = mut, "read-only"
		case hasW && !hasR:
			forbidden, what = rd, "write-only"
		default:
			continue
		}
		n++
		var bad []string
		var names []string
		for name := range ms {
			names = append(names, name)
		}
		sort.Strings(names)
		for _, name := range names {
			seen := map[*ssa.Function][]string{}
			reachStatic(p, ms[name], seen, []string{fname(ms[name])})
			for f, path := range seen {
				if forbidden[f] {
					bad = append(bad, strings.Join(path, " -> "))
				}
			}
		}
		sort.Strings(bad)
		key := typeKey(w) + "|capability"
		if len(bad) == 0 {
			c.OK("R02.1", key, p.Pos(w.Obj().Pos()), fmt.Sprintf("%d methods of the %s wrapper reach none of the forbidden content operations", len(ms), what))
		} else {
			c.Bad("R02.1", key, p.Pos(w.Obj().Pos()), fmt.Sprintf("the %s handle wrapper %s reaches a forbidden content operation: %s — a handle opened %s could %s the file's contents", what, typeKey(w), bad[0], what, map[string]string{"read-only": "change", "write-only": "read"}[what]))
		}
	}
	if n < 2 {
		c.Hard("anchor: expected a read-only and a write-only wrapper of keyvalue.file, found %d", n)
	}
}

func r02Methods(c *core.Ctx, p *load.Program, fileT *types.Named) {
	blobOps := blobFuncs(p, "Set", "Grow", "Truncate", "View", "Slice")
	mut := blobFuncs(p, "Set", "Grow", "Truncate")
	ms := methodsOf(p, fileT)
	var names []string
	for n := range ms {
		names = append(names, n)
	}
	sort.Strings(names)
	for _, name := range names {
		fn := ms[name]
		// methods that touch the content blob directly
		var ops []*ssa.Call
		ssax.Instrs(fn, func(ins ssa.Instruction) {
			if cl, ok := ins.(*ssa.Call); ok && blobOps[ssax.StaticCallee(cl)] {
				ops = append(ops, cl)
			}
		})
		if len(ops) == 0 {
			// R02.3 also covers methods that only compute with the size (Seek)
			r02LiveSize(c, p, fileT, fn)
			continue
		}
		// ---- R02.2 ----
		key := typeKey(fileT) + "." + name + "|dir-guard"
		var guard *ssa.If
		guardClass := ""
		for _, b := range fn.Blocks {
			ifi, ok := b.Instrs[len(b.Instrs)-1].(*ssa.If)
			if !ok {
				continue
			}
			cnd, val := ssax.StripNot(ifi.Cond, true)
			cl, ok := cnd.(*ssa.Call)
			if !ok || !isIsDirCall(cl) {
				continue
			}
			succ := b.Succs[0]
			if !val {
				succ = b.Succs[1]
			}
			if _, ev, isErr := blockReturnsError(succ); isErr {
				guard = ifi
				guardClass = classifyErr(ev).String()
				if classifyErr(ev).only("ErrIsDir", false) {
					guardClass = "ErrIsDir"
				}
			}
		}
		switch {
		case guard == nil:
			c.Bad("R02.2", key, p.Pos(fn.Pos()), fmt.Sprintf("%s touches the content blob without a directory guard that fails: byte I/O through a directory handle must fail with ErrIsDir", fname(fn)))
		case guardClass != "ErrIsDir":
			c.Bad("R02.2", key, p.Pos(guard.Pos()), fmt.Sprintf("%s: the directory guard returns %s instead of an ErrIsDir-class error: reading a directory handle as bytes must fail (os answers EISDIR)", fname(fn), guardClass))
		default:
			bad := ""
			for _, op := range ops {
				if !guard.Block().Dominates(op.Block()) {
					bad = p.Pos(op.Pos())
				}
			}
			c.Check(bad == "", "R02.2", key, p.Pos(guard.Pos()), "IsDir guard with ErrIsDir dominates every content operation",
				fmt.Sprintf("%s: the content operation at %s is not dominated by the directory guard", fname(fn), bad))
		}
		// ---- R02.3 ----
		r02LiveSize(c, p, fileT, fn)
		// ---- R02.4 ----
		var firstMut []*ssa.Call
		for _, op := range ops {
			if mut[ssax.StaticCallee(op)] {
				firstMut = append(firstMut, op)
			}
		}
		if len(firstMut) == 0 {
			continue
		}
		// ---- R02.6: a write of nothing changes nothing (no growth beyond the end) ----
		for _, prm := range fn.Params[1:] {
			if _, isI := prm.Type().Underlying().(*types.Interface); !isI || !hasMethods(prm.Type(), "Len", "Bytes") {
				continue
			}
			k6 := typeKey(fileT) + "." + name + "|empty-write-before-mutate:" + prm.Name()
			bad := ""
			for _, m := range firstMut {
				if !nonEmptyAt(m, prm) {
					bad = p.Pos(m.Pos())
				}
			}
			c.Check(bad == "", "R02.6", k6, p.Pos(fn.Pos()), fmt.Sprintf("every content mutation is dominated by '%s is not empty'", prm.Name()),
				fmt.Sprintf("%s: the content mutation at %s can run for an empty %s: a zero-length write at an offset beyond the end grows the file, where os.File leaves the size unchanged", fname(fn), bad, prm.Name()))
		}
		// ---- R02.5: an offset redirected to the end of the file (O_APPEND) is handed back to the caller ----
		r02AppendOffset(c, p, fileT, fn)
		for _, prm := range fn.Params[1:] {
			bt, ok := prm.Type().Underlying().(*types.Basic)
			if !ok || bt.Kind() != types.Int64 {
				continue
			}
			k4 := typeKey(fileT) + "." + name + "|validate-before-mutate:" + prm.Name()
			bad := ""
			for _, m := range firstMut {
				if !nonNegAt(m, prm) {
					bad = p.Pos(m.Pos())
				}
			}
			c.Check(bad == "", "R02.4", k4, p.Pos(fn.Pos()), fmt.Sprintf("every content mutation is dominated by the rejection of a negative %s", prm.Name()),
				fmt.Sprintf("%s: the content mutation at %s can run with a negative %s: the call fails later but has already changed the file (e.g. grown it)", fname(fn), bad, prm.Name()))
		}
	}
}

// nonNegAt: a dominating fact says v (the parameter, or the phi it flows into) is >= 0.
func nonNegAt(at ssa.Instruction, prm *ssa.Parameter) bool {
	derived := func(v ssa.Value) bool {
		v = ssax.StripIntConv(v)
		if v == ssa.Value(prm) {
			return true
		}
		if ph, ok := v.(*ssa.Phi); ok {
			for _, e := range ph.Edges {
				if ssax.StripIntConv(e) == ssa.Value(prm) {
					return true
				}
			}
		}
		return false
	}
	for _, f := range ssax.FactsAtInstr(at) {
		bo, ok := f.Cond.(*ssa.BinOp)
		if !ok {
			continue
		}
		b := ssax.NewBounds([]ssax.Fact{f}, func(v ssa.Value) (ssax.Term, bool) {
			if k, ok := ssax.ConstInt(ssax.StripIntConv(v)); ok {
				return ssax.Term{IsConst: true, Const: k}, true
			}
			if derived(v) {
				return ssax.Term{Sym: "p"}, true
			}
			return ssax.Term{Sym: "v:" + v.Name()}, true
		})
		_ = bo
		if b.LE(ssax.Term{IsConst: true}, ssax.Term{Sym: "p"}, 0) {
			return true
		}
	}
	return false
}

func r02LiveSize(c *core.Ctx, p *load.Program, fileT *types.Named, fn *ssa.Function) {
	// Size() calls on the record (static callee named Size with a receiver in package keyvalue) whose result is
	// combined (compare / add / sub) with a value derived from an integer parameter
	var params []*ssa.Parameter
	for _, prm := range fn.Params[1:] {
		if bt, ok := prm.Type().Underlying().(*types.Basic); ok && bt.Info()&types.IsInteger != 0 {
			params = append(params, prm)
		}
	}
	if len(params) == 0 {
		return
	}
	isParamDerived := func(v ssa.Value) bool {
		return dependsOn(v, func(x ssa.Value) bool {
			for _, prm := range params {
				if x == ssa.Value(prm) {
					return true
				}
			}
			return false
		})
	}
	stale := ""
	uses := 0
	ssax.Instrs(fn, func(ins ssa.Instruction) {
		bo, ok := ins.(*ssa.BinOp)
		if !ok {
			return
		}
		for _, pair := range [][2]ssa.Value{{bo.X, bo.Y}, {bo.Y, bo.X}} {
			sz, other := ssax.StripIntConv(pair[0]), pair[1]
			cl, ok := sz.(*ssa.Call)
			if !ok {
				continue
			}
			if cl.Call.IsInvoke() && cl.Call.Method.Name() == "Len" && isParamDerived(other) {
				uses++ // live length of the loaded blob
			}
			callee := ssax.StaticCallee(cl)
			if callee != nil && callee.Name() == "Size" && callee.Signature.Recv() != nil && strings.HasSuffix(pkgPathOf(callee), "/keyvalue") && isParamDerived(other) {
				uses++
				// accepted only when the content was loaded successfully before (then the record's Size is live)
				okLoaded := false
				for _, f := range ssax.FactsAtInstr(cl) {
					if x, eq, isN := ssax.NilTest(f.Cond); isN && eq == f.Val {
						if dc := callProducing(x); dc != nil {
							if dcal := ssax.StaticCallee(dc); dcal != nil && dcal.Name() == "Data" {
								okLoaded = true
							}
						}
					}
				}
				if !okLoaded && stale == "" {
					stale = p.Pos(cl.Pos())
				}
			}
		}
	})
	if uses == 0 {
		return
	}
	key := typeKey(fileT) + "." + fn.Name() + "|live-size"
	c.Check(stale == "", "R02.3", key, p.Pos(fn.Pos()), fmt.Sprintf("%d size comparison(s) use the length of the content loaded in this call", uses),
		fmt.Sprintf("%s compares a parameter with the record's Size() at %s without having loaded the content in this call: the size is the one cached when the handle was opened, so data appended through another handle is invisible (ReadFull returns 5 of 11 bytes)", fname(fn), stale))
}

var _ = token.ADD

// nonEmptyAt: a dominating fact says Len() of the blob parameter is not zero.
func nonEmptyAt(at ssa.Instruction, prm *ssa.Parameter) bool {
	for _, f := range ssax.FactsAtInstr(at) {
		bo, ok := f.Cond.(*ssa.BinOp)
		if !ok {
			continue
		}
		isLen := func(v ssa.Value) bool {
			v = ssax.StripIntConv(v)
			cl, ok := v.(*ssa.Call)
			if !ok {
				return false
			}
			if cl.Call.IsInvoke() && cl.Call.Method.Name() == "Len" && cl.Call.Value == ssa.Value(prm) {
				return true
			}
			if b, ok := cl.Call.Value.(*ssa.Builtin); ok && b.Name() == "len" && len(cl.Call.Args) == 1 && cl.Call.Args[0] == ssa.Value(prm) {
				return true
			}
			return false
		}
		zero := func(v ssa.Value) bool { k, ok := ssax.ConstInt(v); return ok && k == 0 }
		var lenSide, other ssa.Value
		switch {
		case isLen(bo.X):
			lenSide, other = bo.X, bo.Y
		case isLen(bo.Y):
			lenSide, other = bo.Y, bo.X
		default:
			continue
		}
		_ = lenSide
		if !zero(other) {
			continue
		}
		switch bo.Op {
		case token.EQL:
			if !f.Val {
				return true
			}
		case token.NEQ, token.GTR:
			if f.Val && (bo.Op == token.NEQ || isLen(bo.X)) {
				return true
			}
		case token.LEQ:
			if !f.Val && isLen(bo.X) {
				return true
			}
		}
	}
	return false
}

// r02AppendOffset (R02.5): in a method that redirects an offset parameter to the content length under a test of the
// append flag, the redirected offset (the phi of the parameter and the length) reaches a result of the method or a
// store into the handle — otherwise the caller advances the handle from the stale offset and the next read or write
// through an O_APPEND handle happens in the middle of the file.
func r02AppendOffset(c *core.Ctx, p *load.Program, fileT *types.Named, fn *ssa.Function) {
	appendK := constOf(p, "FlagAppend")
	if appendK == 0 {
		return
	}
	for _, prm := range fn.Params[1:] {
		bt, ok := prm.Type().Underlying().(*types.Basic)
		if !ok || bt.Kind() != types.Int64 {
			continue
		}
		// the phi merging the parameter with another value, below a test of flag&FlagAppend
		var redirected *ssa.Phi
		ssax.Instrs(fn, func(ins ssa.Instruction) {
			ph, ok := ins.(*ssa.Phi)
			if !ok || redirected != nil {
				return
			}
			hasParam := false
			for _, e := range ph.Edges {
				if e == ssa.Value(prm) {
					hasParam = true
				}
			}
			if !hasParam {
				return
			}
			// one predecessor ends in a test involving & FlagAppend
			for _, pb := range ph.Block().Preds {
				for _, cand := range append([]*ssa.BasicBlock{pb}, pb.Preds...) {
					if ifi, ok := cand.Instrs[len(cand.Instrs)-1].(*ssa.If); ok && mentionsConst(ifi.Cond, appendK, 0) {
						redirected = ph
					}
				}
			}
		})
		if redirected == nil {
			continue
		}
		key := typeKey(fileT) + "." + fn.Name() + "|append-offset-handed-back:" + prm.Name()
		handed := false
		if redirected.Referrers() != nil {
			for _, r := range *redirected.Referrers() {
				switch x := r.(type) {
				case *ssa.Return:
					handed = true
				case *ssa.Store:
					if _, ok := x.Addr.(*ssa.FieldAddr); ok && x.Val == ssa.Value(redirected) {
						handed = true
					}
				case *ssa.Phi:
					// spilled results (named results / defer): the phi flows into the result cell
					if x.Referrers() != nil {
						for _, rr := range *x.Referrers() {
							if _, ok := rr.(*ssa.Return); ok {
								handed = true
							}
						}
					}
				}
			}
		}
		// … and whoever advances the handle's position after calling this method does so from the offset it returned
		if handed {
			for _, caller := range methodsOf(p, fileT) {
				if caller == fn || caller.Blocks == nil {
					continue
				}
				crecv := recvParam(caller)
				ssax.Instrs(caller, func(ins ssa.Instruction) {
					cl, ok := ins.(*ssa.Call)
					if !ok || ssax.StaticCallee(cl) != fn {
						return
					}
					ssax.Instrs(caller, func(i2 ssa.Instruction) {
						st, ok := i2.(*ssa.Store)
						if !ok {
							return
						}
						fa, ok := st.Addr.(*ssa.FieldAddr)
						if !ok || fa.X != ssa.Value(crecv) || ssax.FieldName(fa) != "offset" || !ssax.Dominates(cl, st) {
							return
						}
						usesReturned := dependsOn(st.Val, func(v ssa.Value) bool {
							ex, ok := v.(*ssa.Extract)
							if !ok || ex.Tuple != ssa.Value(cl) {
								return false
							}
							bt, isB := ex.Type().Underlying().(*types.Basic)
							return isB && bt.Kind() == types.Int64
						})
						k2 := typeKey(fileT) + "." + caller.Name() + "|advances-from-returned-offset"
						c.Check(usesReturned, "R02.5", k2, p.Pos(st.Pos()), "the handle's position is advanced from the offset the write was made at",
							fmt.Sprintf("%s advances the handle's offset without using the offset %s returned: on a handle opened with O_APPEND the write went to the end of the file, but the position is advanced from where the handle stood before", fname(caller), fname(fn)))
					})
				})
			}
		}
		// an empty write hands back the offset it was given, not the end of the file: os.File does not move the position
		// of an O_APPEND handle for a write of nothing (path-sensitive: all Len() tests of the data agree on one path)
		{
			isLenZero := func(cond ssa.Value) (bool, bool) { // (is such a test, polarity: true means "cond true <=> empty")
				bo, ok := cond.(*ssa.BinOp)
				if !ok || (bo.Op != token.EQL && bo.Op != token.NEQ) {
					return false, false
				}
				for _, side := range []ssa.Value{bo.X, bo.Y} {
					if cl, ok := ssax.StripIntConv(side).(*ssa.Call); ok && cl.Call.IsInvoke() && cl.Call.Method.Name() == "Len" {
						if _, isParam := cl.Call.Value.(*ssa.Parameter); isParam {
							return true, bo.Op == token.EQL
						}
					}
				}
				return false, false
			}
			var badRet *ssa.Return
			ssax.EnumPaths(fn, fn.Blocks[0], 0, nil, ssax.PathHooks{
				EvalCond: func(s *ssax.PathState, cond ssa.Value) (bool, bool) {
					if is, pol := isLenZero(cond); is && s.Counts["len"] != 0 {
						empty := s.Counts["len"] == 1
						return empty == pol, true
					}
					return false, false
				},
				Branch: func(s *ssax.PathState, cond ssa.Value, taken bool) {
					if is, pol := isLenZero(cond); is {
						if taken == pol {
							s.Counts["len"] = 1 // empty
						} else {
							s.Counts["len"] = 2
						}
					}
				},
				End: func(s *ssax.PathState, last ssa.Instruction) {
					r, ok := last.(*ssa.Return)
					if !ok || s.Counts["len"] != 1 || badRet != nil {
						return
					}
					for _, rv := range r.Results {
						if rv == ssa.Value(redirected) && s.Resolve(rv) != ssa.Value(prm) {
							badRet = r
						}
					}
				},
			})
			if badRet != nil {
				c.Bad("R02.5", typeKey(fileT)+"."+fn.Name()+"|empty-write-keeps-offset", p.Pos(badRet.Pos()), fmt.Sprintf("%s answers an empty write with the offset already redirected to the end of the file: Write(nil) on a handle opened with O_APPEND moves the handle's position to the end, and the next Read returns EOF where os.File still reads from the old position", fname(fn)))
			} else {
				c.OK("R02.5", typeKey(fileT)+"."+fn.Name()+"|empty-write-keeps-offset", p.Pos(fn.Pos()), "an empty write returns the offset it was given on every path")
			}
		}
		c.Check(handed, "R02.5", key, p.Pos(redirected.Pos()), "the offset the write was made at is returned (or stored in the handle)",
			fmt.Sprintf("%s moves %s to the end of the file for a handle opened with O_APPEND but never hands that offset back: the caller advances the handle's position from the stale offset, so after an append the next sequential read or write happens in the middle of the file (os.File leaves the offset at the new end)", fname(fn), prm.Name()))
	}
}

// mentionsConst: v's operand tree contains the integer constant k.
func mentionsConst(v ssa.Value, k int64, d int) bool {
	if d > 5 || v == nil {
		return false
	}
	if c, ok := ssax.ConstInt(v); ok && c == k {
		return true
	}
	switch x := v.(type) {
	case *ssa.BinOp:
		return mentionsConst(x.X, k, d+1) || mentionsConst(x.Y, k, d+1)
	case *ssa.UnOp:
		return mentionsConst(x.X, k, d+1)
	case *ssa.Convert:
		return mentionsConst(x.X, k, d+1)
	}
	return false
}

// r02StatLive (R02.7): the handle's Stat loads the content on every path that returns an info for a non-directory,
// so that the size it reports is the file's current size (the record's cached size is the size at open time).
func r02StatLive(c *core.Ctx, p *load.Program, fileT *types.Named) {
	fn := methodsOf(p, fileT)["Stat"]
	if fn == nil || fn.Blocks == nil {
		c.Hard("anchor: keyvalue.file.Stat")
		return
	}
	key := typeKey(fileT) + ".Stat|loads-content"
	var badRet *ssa.Return
	ssax.EnumPaths(fn, fn.Blocks[0], 0, nil, ssax.PathHooks{
		Instr: func(s *ssax.PathState, ins ssa.Instruction) {
			if cl, ok := ins.(*ssa.Call); ok {
				if callee := ssax.StaticCallee(cl); callee != nil && callee.Name() == "Data" {
					s.Counts["loaded"] = 1
				}
			}
		},
		Branch: func(s *ssax.PathState, cond ssa.Value, taken bool) {
			cnd, val := ssax.StripNot(cond, taken)
			if cl, ok := cnd.(*ssa.Call); ok && isIsDirCall(cl) && val {
				s.Counts["isdir"] = 1
			}
		},
		End: func(s *ssax.PathState, last ssa.Instruction) {
			r, ok := last.(*ssa.Return)
			if !ok || len(r.Results) < 2 {
				return
			}
			ev := s.Resolve(r.Results[1])
			if (ssax.IsNilConst(ev) || s.NilOf(ev) == ssax.IsNil) && s.Counts["loaded"] == 0 && s.Counts["isdir"] == 0 && badRet == nil {
				badRet = r
			}
		},
	})
	if badRet != nil {
		c.Bad("R02.7", key, p.Pos(badRet.Pos()), fmt.Sprintf("%s returns the handle's info without loading the content: Size() is then the size recorded when the handle was opened, not the file's current size after another handle grew or shrank it", fname(fn)))
	} else {
		c.OK("R02.7", key, p.Pos(fn.Pos()), "the content is loaded before the info of a regular file is returned")
	}
}

// r02PositionedAppend (R02.8)
func r02PositionedAppend(c *core.Ctx, p *load.Program, fileT *types.Named) {
	appendK := constOf(p, "FlagAppend")
	ms := methodsOf(p, fileT)
	// the write primitive: the method with the O_APPEND redirect
	var prim *ssa.Function
	for _, fn := range ms {
		if fn.Blocks == nil {
			continue
		}
		found := false
		ssax.Instrs(fn, func(ins ssa.Instruction) {
			if ifi, ok := ins.(*ssa.If); ok && mentionsConst(ifi.Cond, appendK, 0) {
				// and it mutates content
				found = true
			}
		})
		mut := blobFuncs(p, "Set", "Grow")
		mutates := false
		ssax.Instrs(fn, func(ins ssa.Instruction) {
			if cl, ok := ins.(*ssa.Call); ok && mut[ssax.StaticCallee(cl)] {
				mutates = true
			}
		})
		if found && mutates {
			prim = fn
		}
	}
	if prim == nil || appendK == 0 {
		c.Hard("anchor: keyvalue.file write primitive with the O_APPEND redirect")
		return
	}
	var names []string
	for n := range ms {
		names = append(names, n)
	}
	sort.Strings(names)
	for _, name := range names {
		fn := ms[name]
		if fn == prim || fn.Blocks == nil {
			continue
		}
		ssax.Instrs(fn, func(ins ssa.Instruction) {
			cl, ok := ins.(*ssa.Call)
			if !ok || ssax.StaticCallee(cl) != prim {
				return
			}
			positioned := false
			for _, a := range cl.Call.Args {
				if prm, ok := a.(*ssa.Parameter); ok {
					if bt, ok := prm.Type().Underlying().(*types.Basic); ok && bt.Kind() == types.Int64 {
						positioned = true
					}
				}
			}
			if !positioned {
				return
			}
			key := typeKey(fileT) + "." + name + "|positioned-write-refuses-append"
			// path-sensitive: on every path to the call the append flag was tested, or the handle is known closed
			// (the primitive then answers ErrClosed itself)
			guarded, reached := true, false
			ssax.EnumPaths(fn, fn.Blocks[0], 0, nil, ssax.PathHooks{
				Branch: func(s *ssax.PathState, cond ssa.Value, taken bool) {
					cnd, val := ssax.StripNot(cond, taken)
					// only the edge on which the append flag is known clear counts: (flag & K) != 0 false, or == 0 true
					if bo, ok := cnd.(*ssa.BinOp); ok && (bo.Op == token.NEQ || bo.Op == token.EQL) && mentionsConst(cnd, appendK, 0) {
						zero := func(v ssa.Value) bool { k, isC := ssax.ConstInt(v); return isC && k == 0 }
						if zero(bo.X) || zero(bo.Y) {
							if (bo.Op == token.EQL) == val {
								s.Counts["flag"] = 1
							}
						}
					}
					if x, eq, ok := ssax.NilTest(cnd); ok && eq == val {
						if _, _, isField := ssax.FieldLoad(x); isField {
							s.Counts["closed"] = 1
						}
					}
				},
				Instr: func(s *ssax.PathState, i2 ssa.Instruction) {
					if i2 == ssa.Instruction(cl) {
						reached = true
						if s.Counts["flag"] == 0 && s.Counts["closed"] == 0 {
							guarded = false
						}
					}
				},
			})
			guarded = guarded && reached
			c.Check(guarded, "R02.8", key, p.Pos(cl.Pos()), "the positioned write is made only where the append flag was tested",
				fmt.Sprintf("%s passes its offset to the write primitive without testing the append flag: on a handle opened with O_APPEND the bytes are appended instead of written at the offset asked for, and the call reports success — os.File refuses WriteAt on such a handle", fname(fn)))
		})
	}
}

// r02SeekValidates (R02.10)
func r02SeekValidates(c *core.Ctx, p *load.Program, fileT *types.Named) {
	fn := methodsOf(p, fileT)["Seek"]
	if fn == nil || fn.Blocks == nil {
		c.Hard("anchor: keyvalue.file.Seek")
		return
	}
	recv := recvParam(fn)
	ord := ordinals{}
	ssax.Instrs(fn, func(ins ssa.Instruction) {
		st, ok := ins.(*ssa.Store)
		if !ok {
			return
		}
		fa, ok := st.Addr.(*ssa.FieldAddr)
		if !ok || fa.X != ssa.Value(recv) || ssax.FieldName(fa) != "offset" {
			return
		}
		key := typeKey(fileT) + ".Seek|" + ord.next("offset-store")
		v := st.Val
		nonNeg := false
		for _, f := range ssax.FactsAtInstr(st) {
			bo, ok := f.Cond.(*ssa.BinOp)
			if !ok {
				continue
			}
			zeroY := func() bool { k, ok := ssax.ConstInt(bo.Y); return ok && k == 0 }
			if bo.X == v && zeroY() {
				if (bo.Op == token.LSS && !f.Val) || (bo.Op == token.GEQ && f.Val) {
					nonNeg = true
				}
			}
		}
		c.Check(nonNeg, "R02.10", key, p.Pos(st.Pos()), "the stored offset was tested non-negative on this path",
			fmt.Sprintf("%s stores the new offset before (or without) rejecting a negative one: a Seek that fails with 'negative position' leaves the handle at that negative offset, and the next Read/Write through it fails — os.File leaves the position unchanged", fname(fn)))
	})
}

// r02StoreKeepsBlob (R02.11)
func r02StoreKeepsBlob(c *core.Ctx, p *load.Program) {
	set := p.Method("mem", "store", "set")
	if set == nil || set.Blocks == nil {
		c.Hard("anchor: mem.(*store).set")
		return
	}
	var blobP *ssa.Parameter
	for _, prm := range set.Params {
		if hasMethods(prm.Type(), "Len", "Bytes") {
			blobP = prm
		}
	}
	if blobP == nil {
		c.Hard("anchor: mem.(*store).set has no blob parameter")
		return
	}
	key := "mem.store.set|keeps-the-blob"
	kept, other := false, ""
	ssax.Instrs(set, func(ins ssa.Instruction) {
		st, ok := ins.(*ssa.Store)
		if !ok {
			return
		}
		fa, ok := st.Addr.(*ssa.FieldAddr)
		if !ok || !hasMethods(st.Val.Type(), "Len", "Bytes") {
			return
		}
		_ = fa
		isRecordsOwn := func(v ssa.Value) bool {
			// the record's own blob: the first result of Data() invoked on the record parameter
			if ex, ok := v.(*ssa.Extract); ok && ex.Index == 0 {
				if cl, ok := ex.Tuple.(*ssa.Call); ok && cl.Call.IsInvoke() && cl.Call.Method.Name() == "Data" {
					_, isParam := cl.Call.Value.(*ssa.Parameter)
					return isParam
				}
			}
			return false
		}
		if st.Val == ssa.Value(blobP) || isRecordsOwn(st.Val) {
			kept = true
		} else if _, isConst := st.Val.(*ssa.Const); !isConst {
			other = p.Pos(st.Pos())
		}
	})
	c.Check(kept && other == "", "R02.11", key, p.Pos(set.Pos()), "the record's data is the blob passed in (the contents argument or the source record's own Data())",
		fmt.Sprintf("mem.(*store).set stores something else than the contents blob it was given (%s): the record no longer shares the blob that open handles mutate in place, so a handle opened between two writes of another handle keeps reading the old bytes and size", other))
}

// r02FailedSaveRestores (R02.12)
func r02FailedSaveRestores(c *core.Ctx, p *load.Program, fileT *types.Named) {
	mut := blobFuncs(p, "Set", "Grow", "Truncate")
	var saveFn *ssa.Function
	if fd := p.Named("keyvalue", "fileData"); fd != nil {
		saveFn = methodsOf(p, fd)["save"]
	}
	if saveFn == nil {
		c.Hard("anchor: keyvalue.fileData.save")
		return
	}
	ms := methodsOf(p, fileT)
	var names []string
	for n := range ms {
		names = append(names, n)
	}
	sort.Strings(names)
	for _, name := range names {
		fn := ms[name]
		if fn.Blocks == nil {
			continue
		}
		var firstMut *ssa.Call
		ssax.Instrs(fn, func(ins ssa.Instruction) {
			if cl, ok := ins.(*ssa.Call); ok && mut[ssax.StaticCallee(cl)] && firstMut == nil {
				firstMut = cl
			}
		})
		if firstMut == nil {
			continue
		}
		for _, b := range fn.Blocks {
			for idx, ins := range b.Instrs {
				sv, ok := ins.(*ssa.Call)
				if !ok || ssax.StaticCallee(sv) != saveFn {
					continue
				}
				key := typeKey(fileT) + "." + name + "|failed-write-back-restores"
				init := ssax.NewPathState()
				init.SetNil(sv, ssax.NonNil)
				restored := true
				ssax.EnumPaths(fn, b, idx+1, init, ssax.PathHooks{
					Instr: func(s *ssax.PathState, i2 ssa.Instruction) {
						if cl, ok := i2.(*ssa.Call); ok && mut[ssax.StaticCallee(cl)] {
							s.Counts["undo"] = 1
						}
					},
					End: func(s *ssax.PathState, _ ssa.Instruction) {
						if s.Counts["undo"] == 0 {
							restored = false
						}
					},
				})
				c.Check(restored, "R02.12", key, p.Pos(sv.Pos()), "the failing write-back is followed by a restoring mutation",
					fmt.Sprintf("%s changes the content blob (at %s) before it writes the record back, and returns the write-back's error without undoing the change: the call fails, yet this handle — and, where the store shares blobs, every other handle — reads the new bytes and size ('a call that fails leaves the contents unchanged')", fname(fn), p.Pos(firstMut.Pos())))
			}
		}
	}
}

// ---- R02.13: the handle of an existing file wraps the stored record ----

// r02ExistingKeepsRecord: in the key-value FS's OpenFile every call of a record constructor (newFile/newDir) lies on
// the "look-up failed" edge of the look-up of the name. On the edge where the file exists the handle must wrap the
// record that was found — handles opened earlier share its content blob; a fresh record (e.g. for O_TRUNC) cuts them
// off: they keep reading the old bytes and their next write-back resurrects them.
func r02ExistingKeepsRecord(c *core.Ctx, p *load.Program, sh *kvShape) {
	fn := sh.methods["OpenFile"]
	if fn == nil {
		c.Hard("anchor: keyvalue.FS.OpenFile")
		return
	}
	ord := ordinals{}
	n := 0
	ssax.Instrs(fn, func(ins ssa.Instruction) {
		cl, ok := ins.(*ssa.Call)
		if !ok || !sh.ctorFns[ssax.StaticCallee(cl)] {
			return
		}
		n++
		key := fname(fn) + "|" + ord.next("constructs-record-only-when-absent")
		var pval ssa.Value
		for _, a := range cl.Call.Args {
			if isStr(a.Type()) {
				pval = a
			}
		}
		isNil, known := false, false
		for _, f := range ssax.FactsAtInstr(cl) {
			x, eq, ok := ssax.NilTest(f.Cond)
			if !ok || !ssax.IsErrorType(x.Type()) || pval == nil {
				continue
			}
			if lp := sh.lookupPathOf(x, 0); lp != nil && lp == pval {
				isNil, known = eq == f.Val, true
			}
		}
		c.Check(known && !isNil, "R02.13", key, p.Pos(cl.Pos()), "the record is constructed on the edge where the look-up of the name failed",
			fmt.Sprintf("%s constructs a new record at %s on a path where the look-up of the name may have succeeded: the handle of an existing file must wrap the stored record (whose content blob the handles opened earlier share) — with a fresh record those handles keep the old bytes, never see later writes, and their next write-back overwrites the new contents", fname(fn), p.Pos(cl.Pos())))
	})
	if n == 0 {
		c.Hard("anchor: record constructor call in keyvalue.FS.OpenFile")
	}
}

// ---- R02.14: a file grows to exactly the end of the write ----

type linForm struct {
	k     int64
	atoms map[string]int64
}

func (l linForm) add(o linForm, sign int64) linForm {
	r := linForm{k: l.k + sign*o.k, atoms: map[string]int64{}}
	for a, v := range l.atoms {
		r.atoms[a] = v
	}
	for a, v := range o.atoms {
		r.atoms[a] += sign * v
		if r.atoms[a] == 0 {
			delete(r.atoms, a)
		}
	}
	return r
}

func (l linForm) equal(o linForm) bool {
	d := l.add(o, -1)
	return d.k == 0 && len(d.atoms) == 0
}

// linOf: v as an integer linear form on this path. Len() of one receiver value is one atom (no CSE in go/ssa).
func linOf(ps *ssax.PathState, v ssa.Value, depth int) linForm {
	return linOfWith(ps, v, depth, nil)
}

// linOfWith: like linOf, with a caller-supplied naming of atoms (values that denote one quantity, e.g. every load of
// one field, get one name).
func linOfWith(ps *ssax.PathState, v ssa.Value, depth int, atom func(ssa.Value) (string, bool)) linForm {
	v = ps.Resolve(v)
	if atom != nil {
		if a, ok := atom(v); ok {
			return linForm{atoms: map[string]int64{a: 1}}
		}
	}
	if depth < 12 {
		switch x := v.(type) {
		case *ssa.Convert:
			if b, ok := x.X.Type().Underlying().(*types.Basic); ok && b.Info()&types.IsInteger != 0 {
				return linOfWith(ps, x.X, depth+1, atom)
			}
		case *ssa.Const:
			if k, ok := ssax.ConstInt(x); ok {
				return linForm{k: k, atoms: map[string]int64{}}
			}
		case *ssa.BinOp:
			switch x.Op {
			case token.ADD:
				return linOfWith(ps, x.X, depth+1, atom).add(linOfWith(ps, x.Y, depth+1, atom), 1)
			case token.SUB:
				return linOfWith(ps, x.X, depth+1, atom).add(linOfWith(ps, x.Y, depth+1, atom), -1)
			}
		case *ssa.Call:
			// len(x[lo:hi]) = hi - lo
			if b, ok := x.Call.Value.(*ssa.Builtin); ok && b.Name() == "len" && len(x.Call.Args) == 1 {
				if sl, ok := ps.Resolve(x.Call.Args[0]).(*ssa.Slice); ok && sl.Low != nil && sl.High != nil {
					return linOfWith(ps, sl.High, depth+1, atom).add(linOfWith(ps, sl.Low, depth+1, atom), -1)
				}
			}
			if x.Call.IsInvoke() && x.Call.Method.Name() == "Len" && len(x.Call.Args) == 0 {
				return linForm{atoms: map[string]int64{fmt.Sprintf("Len(%p)", ps.Resolve(x.Call.Value)): 1}}
			}
		}
	}
	return linForm{atoms: map[string]int64{fmt.Sprintf("%p", v): 1}}
}

// r02GrowExact: every blob.Grow(data, amount) in a handle method is made under a dominating test "L < T" where L is
// data.Len(), and amount equals T - L as a linear form on every path to the call (phis resolved per path).
func r02GrowExact(c *core.Ctx, p *load.Program, fileT *types.Named) {
	grow := p.Func("keyvalue/blob", "Grow")
	if grow == nil {
		c.Hard("anchor: blob.Grow")
		return
	}
	for _, fn := range methodList(p, fileT) {
		ord := ordinals{}
		for _, b := range fn.Blocks {
			for _, ins := range b.Instrs {
				cl, ok := ins.(*ssa.Call)
				if !ok || ssax.StaticCallee(cl) != grow || len(cl.Call.Args) != 2 {
					continue
				}
				key := fname(fn) + "|" + ord.next("grow-amount")
				data, amt := cl.Call.Args[0], cl.Call.Args[1]
				paths, okPaths := 0, 0
				why := ""
				complete := ssax.EnumPaths(fn, fn.Blocks[0], 0, ssax.NewPathState(), ssax.PathHooks{
					Instr: func(ps *ssax.PathState, i2 ssa.Instruction) {
						if i2 != ssa.Instruction(cl) {
							return
						}
						if ps.Counts["seen"] == 1 {
							return
						}
						ps.Counts["seen"] = 1
						paths++
						a := linOf(ps, amt, 0)
						lenAtom := fmt.Sprintf("Len(%p)", ps.Resolve(data))
						for _, f := range ssax.FactsAtInstr(cl) {
							bo, ok := f.Cond.(*ssa.BinOp)
							if !ok {
								continue
							}
							var lo, hi ssa.Value
							switch {
							case bo.Op == token.LSS && f.Val, bo.Op == token.GEQ && !f.Val:
								lo, hi = bo.X, bo.Y
							case bo.Op == token.GTR && f.Val, bo.Op == token.LEQ && !f.Val:
								lo, hi = bo.Y, bo.X
							default:
								continue
							}
							l := linOf(ps, lo, 0)
							if len(l.atoms) != 1 || l.atoms[lenAtom] != 1 || l.k != 0 {
								continue
							}
							if a.equal(linOf(ps, hi, 0).add(l, -1)) {
								okPaths++
								return
							}
							why = "the amount differs from 'target - current length'"
						}
						if why == "" {
							why = "no dominating test compares the current length with the target"
						}
					},
				})
				switch {
				case !complete:
					c.Unknown("R02.14", key, p.Pos(cl.Pos()), "path enumeration exceeded its cap")
				case paths > 0 && paths == okPaths:
					c.OK("R02.14", key, p.Pos(cl.Pos()), "on every path the amount is the tested target minus the content's current length")
				default:
					c.Bad("R02.14", key, p.Pos(cl.Pos()), fmt.Sprintf("%s grows the content at %s by an amount that is not, on every path, the difference between the end the operation needs and the content's current length (%s; %d of %d paths agree): a write that starts inside the file and ends beyond its end leaves spurious zero bytes after the data, and size, EOF position and O_APPEND offsets are shifted", fname(fn), p.Pos(cl.Pos()), why, okPaths, paths))
				}
			}
		}
	}
}

func methodList(p *load.Program, n *types.Named) []*ssa.Function {
	m := methodsOf(p, n)
	var names []string
	for k := range m {
		names = append(names, k)
	}
	sort.Strings(names)
	var out []*ssa.Function
	for _, k := range names {
		if m[k] != nil && m[k].Blocks != nil {
			out = append(out, m[k])
		}
	}
	return out
}

// ---- R02.15: who may move a handle's offset ----

// r02OffsetWriters: the offset field is the one Seek stores into. The positioned and stateless methods of the handle
// (ReadAt, ReadBlobAt, WriteAt, WriteBlobAt, Truncate, Stat, Chmod, Sync) reach no store to it.
func r02OffsetWriters(c *core.Ctx, p *load.Program, fileT *types.Named) {
	ms := methodsOf(p, fileT)
	seek := ms["Seek"]
	if seek == nil {
		c.Hard("anchor: keyvalue.file.Seek")
		return
	}
	var field *types.Var
	ssax.Instrs(seek, func(ins ssa.Instruction) {
		if st, ok := ins.(*ssa.Store); ok {
			if fa, ok := st.Addr.(*ssa.FieldAddr); ok && fa.X == ssa.Value(recvParam(seek)) {
				field = fieldVarOf(fa)
			}
		}
	})
	if field == nil {
		c.Hard("anchor: the offset field Seek stores into")
		return
	}
	writes := map[*ssa.Function]token.Pos{}
	for _, fn := range pkgFuncs(p, "keyvalue") {
		ssax.Instrs(fn, func(ins ssa.Instruction) {
			if st, ok := ins.(*ssa.Store); ok {
				if fa, ok := st.Addr.(*ssa.FieldAddr); ok && fieldVarOf(fa) == field {
					writes[fn] = st.Pos()
				}
			}
		})
	}
	var reach func(fn *ssa.Function, seen map[*ssa.Function]bool) *ssa.Function
	reach = func(fn *ssa.Function, seen map[*ssa.Function]bool) *ssa.Function {
		if seen[fn] {
			return nil
		}
		seen[fn] = true
		if _, ok := writes[fn]; ok {
			return fn
		}
		var hit *ssa.Function
		ssax.InstrsDeep(fn, func(_ *ssa.Function, ins ssa.Instruction) {
			if ci, ok := ins.(ssa.CallInstruction); ok && hit == nil {
				if callee := ssax.StaticCallee(ci); callee != nil && p.InModule(callee) && callee.Blocks != nil {
					hit = reach(callee, seen)
				}
			}
		})
		return hit
	}
	n := 0
	for _, name := range []string{"ReadAt", "ReadBlobAt", "WriteAt", "WriteBlobAt", "Truncate", "Stat", "Chmod", "Sync"} {
		fn := ms[name]
		if fn == nil {
			continue
		}
		n++
		key := typeKey(fileT) + "." + name + "|keeps-offset"
		if h := reach(fn, map[*ssa.Function]bool{}); h != nil {
			c.Bad("R02.15", key, p.Pos(writes[h]), fmt.Sprintf("%s.%s reaches a store to the handle's offset (in %s): os.File's positioned operations and ftruncate never move the offset — after Write(\"hello world\"); Truncate(5) the next Write must land at offset 11 behind a gap of zero bytes, and Seek(0, SeekCurrent) must still report 11", typeKey(fileT), name, fname(h)))
		} else {
			c.OK("R02.15", key, p.Pos(fn.Pos()), "no store to the offset field is reachable")
		}
	}
	if n < 5 {
		c.Hard("anchor: positioned methods of keyvalue.file (found %d)", n)
	}
	// a handle starts at offset 0 whatever its flags: no method of the file system itself positions a handle
	if fsT := p.Named("keyvalue", "FS"); fsT != nil {
		for _, fn := range methodList(p, fsT) {
			if fn.Object() == nil || !fn.Object().Exported() {
				continue
			}
			key := fname(fn) + "|keeps-offset"
			if h := reach(fn, map[*ssa.Function]bool{}); h != nil {
				c.Bad("R02.15", key, p.Pos(writes[h]), fmt.Sprintf("%s reaches a store to a handle's offset (in %s): os.File starts every handle at offset 0 — O_APPEND only redirects writes — so a read-write append handle must read the file from its start and Seek(0, SeekCurrent) must report 0 before the first write", fname(fn), fname(h)))
			} else {
				c.OK("R02.15", key, p.Pos(fn.Pos()), "no store to the offset field is reachable")
			}
		}
	}
}

// ---- R02.16: written bytes are copied, the caller's blob is never adopted ----

// r02NoAdopt: a blob.Blob (or []byte) parameter of a write method of the handle is only measured (Len), passed as the
// source of blob.Set, wrapped (blob.NewBytes) or handed to another write method that obeys the same rule; it is never
// stored into a field. io.Writer: "Write must not retain p" — the tar reader recycles the buffer it wrote from.
func r02NoAdopt(c *core.Ctx, p *load.Program, fileT *types.Named, rule string) {
	blobI := ifaceOf(p, "keyvalue/blob", "Blob")
	isSrc := func(t types.Type) bool {
		if blobI != nil && types.Identical(t.Underlying(), blobI) {
			return true
		}
		if sl, ok := t.Underlying().(*types.Slice); ok {
			if b, ok := sl.Elem().Underlying().(*types.Basic); ok && b.Kind() == types.Uint8 {
				return true
			}
		}
		return false
	}
	memo := map[*ssa.Parameter]string{}
	var adopt func(prm *ssa.Parameter, depth int) string
	var flows func(v ssa.Value, fn *ssa.Function, depth int, seen map[ssa.Value]bool) string
	flows = func(v ssa.Value, fn *ssa.Function, depth int, seen map[ssa.Value]bool) string {
		if seen[v] || depth > 6 {
			return ""
		}
		seen[v] = true
		refs := v.Referrers()
		if refs == nil {
			return ""
		}
		for _, r := range *refs {
			switch x := r.(type) {
			case *ssa.Store:
				if x.Val == v {
					if _, isLocal := x.Addr.(*ssa.Alloc); !isLocal {
						return p.Pos(x.Pos())
					}
				}
			case *ssa.MakeInterface, *ssa.ChangeInterface, *ssa.ChangeType, *ssa.Phi:
				if w := flows(x.(ssa.Value), fn, depth, seen); w != "" {
					return w
				}
			case ssa.CallInstruction:
				callee := ssax.StaticCallee(x)
				if callee == nil || !p.InModule(callee) || callee.Blocks == nil {
					continue
				}
				if pkgPathOf(callee) == mod+"/keyvalue/blob" && callee.Name() == "NewBytes" {
					// a wrapper around the same bytes: follow it
					if cv, ok := x.(*ssa.Call); ok {
						if w := flows(cv, fn, depth, seen); w != "" {
							return w
						}
					}
					continue
				}
				for i, a := range x.Common().Args {
					if a == v && i < len(callee.Params) && fileT != nil && callee.Signature.Recv() != nil && strings.HasSuffix(callee.Signature.Recv().Type().String(), "keyvalue.file") {
						if w := adopt(callee.Params[i], depth+1); w != "" {
							return w
						}
					}
				}
			}
		}
		return ""
	}
	adopt = func(prm *ssa.Parameter, depth int) string {
		if w, ok := memo[prm]; ok {
			return w
		}
		memo[prm] = ""
		w := flows(prm, prm.Parent(), depth, map[ssa.Value]bool{})
		memo[prm] = w
		return w
	}
	n := 0
	for _, fn := range methodList(p, fileT) {
		if fn.Object() == nil || !fn.Object().Exported() {
			continue
		}
		for i, prm := range fn.Params {
			if i == 0 || !isSrc(prm.Type()) || !strings.HasPrefix(fn.Name(), "Write") {
				continue
			}
			n++
			key := fname(fn) + "|copies-" + prm.Name()
			if w := adopt(prm, 0); w != "" {
				c.Bad(rule, key, w, fmt.Sprintf("%s: the caller's buffer %s is stored at %s instead of being copied into the file's content: the caller may reuse it after Write returns (io.Writer must not retain p; the tar reader returns its buffer to a pool), and the file's bytes then change under it", fname(fn), prm.Name(), w))
			} else {
				c.OK(rule, key, p.Pos(fn.Pos()), "the written bytes are only measured and copied")
			}
		}
	}
	if n < 3 {
		c.Hard("anchor: write methods of keyvalue.file taking a buffer (found %d)", n)
	}
}

// r02SequentialAdvances (R02.17): a sequential method of the handle (Read, ReadBlob, Write, WriteBlob) hands the
// handle's offset to its positioned sibling and then stores the offset again on EVERY path to a return — also on
// the path where the sibling reported an error: io.EOF may come together with the last bytes, and bytes that were
// delivered must be behind the offset (otherwise the next Read returns them again and a Write overwrites the start).
func r02SequentialAdvances(c *core.Ctx, p *load.Program, fileT *types.Named) {
	ms := methodsOf(p, fileT)
	seek := ms["Seek"]
	if seek == nil {
		c.Hard("anchor: keyvalue.file.Seek")
		return
	}
	var field *types.Var
	ssax.Instrs(seek, func(ins ssa.Instruction) {
		if st, ok := ins.(*ssa.Store); ok {
			if fa, ok := st.Addr.(*ssa.FieldAddr); ok && fa.X == ssa.Value(recvParam(seek)) {
				field = fieldVarOf(fa)
			}
		}
	})
	if field == nil {
		c.Hard("anchor: the offset field Seek stores into")
		return
	}
	n := 0
	for _, name := range []string{"Read", "ReadBlob", "Write", "WriteBlob"} {
		fn := ms[name]
		if fn == nil || fn.Blocks == nil {
			continue
		}
		// the call that receives the current offset
		var call ssa.Instruction
		var blk *ssa.BasicBlock
		idx := 0
		for _, b := range fn.Blocks {
			for i, ins := range b.Instrs {
				cl, ok := ins.(*ssa.Call)
				if !ok || call != nil {
					continue
				}
				for _, a := range cl.Call.Args {
					if u, ok := a.(*ssa.UnOp); ok && u.Op == token.MUL {
						if fa, ok := u.X.(*ssa.FieldAddr); ok && fieldVarOf(fa) == field {
							call, blk, idx = ins, b, i
						}
					}
				}
			}
		}
		if call == nil {
			continue // pure delegation to another sequential method (Write -> WriteBlob)
		}
		n++
		key := typeKey(fileT) + "." + name + "|offset-stored-on-every-path"
		bad := ""
		ssax.EnumPaths(fn, blk, idx+1, ssax.NewPathState(), ssax.PathHooks{
			Instr: func(ps *ssax.PathState, ins ssa.Instruction) {
				if st, ok := ins.(*ssa.Store); ok {
					if fa, ok := st.Addr.(*ssa.FieldAddr); ok && fieldVarOf(fa) == field {
						ps.Counts["stored"] = 1
					}
				}
			},
			End: func(ps *ssax.PathState, last ssa.Instruction) {
				if _, ok := last.(*ssa.Return); ok && ps.Counts["stored"] == 0 && bad == "" {
					bad = p.Pos(last.Pos())
				}
			},
		})
		c.Check(bad == "", "R02.17", key, p.Pos(fn.Pos()), "every return after the positioned call follows a store of the offset",
			fmt.Sprintf("%s.%s returns at %s without having stored the handle's offset after the positioned call: when that call delivers bytes together with an error (the last bytes with io.EOF) the offset stays in front of them — Seek(0, SeekCurrent) reports the old position, the next Read returns the same bytes again, a Write overwrites the start of the file", typeKey(fileT), name, bad))
	}
	if n < 2 {
		c.Hard("anchor: sequential methods of keyvalue.file that pass the offset on (found %d)", n)
	}
}

// r02WindowStartsInside (R02.18): where a method of the file handle selects a window of the content with blob.View or
// blob.Slice and the window's start comes from a parameter, the dominating comparisons entail start <= Len(content).
// An offset past the end is an ordinary request that answers (0, io.EOF); handed on to the blob it comes back as a
// bounds error instead. An end-of-content test that is an equality ("nothing remaining") leaves offsets beyond it
// unguarded.
func r02WindowStartsInside(c *core.Ctx, p *load.Program, fileT *types.Named) {
	for _, fn := range methodList(p, fileT) {
		ord := ordinals{}
		ssax.Instrs(fn, func(ins ssa.Instruction) {
			cl, ok := ins.(*ssa.Call)
			if !ok || len(cl.Call.Args) != 3 || !(ssax.CalleeIs(cl, mod+"/keyvalue/blob", "View") || ssax.CalleeIs(cl, mod+"/keyvalue/blob", "Slice")) {
				return
			}
			start := ssax.StripIntConv(cl.Call.Args[1])
			if _, isParam := start.(*ssa.Parameter); !isParam {
				return
			}
			src := cl.Call.Args[0]
			canon := func(v ssa.Value) (ssax.Term, bool) {
				v = ssax.StripIntConv(v)
				if k, ok := ssax.ConstInt(v); ok {
					return ssax.Term{IsConst: true, Const: k}, true
				}
				switch x := v.(type) {
				case *ssa.Parameter:
					return ssax.Term{Sym: paramSym(x)}, true
				case *ssa.Call:
					if m := ssax.InvokeMethod(x); m != nil && m.Name() == "Len" && x.Call.Value == src {
						return ssax.Term{Sym: "LEN(content)"}, true
					}
				}
				return ssax.Term{Sym: "v:" + v.Name()}, true
			}
			key := fname(fn) + "|" + ord.next("window-start")
			b := ssax.NewBounds(ssax.FactsAtInstr(cl), canon)
			t, _ := canon(start)
			c.Check(b.LE(t, ssax.Term{Sym: "LEN(content)"}, 0), "R02.18", key, p.Pos(cl.Pos()), "the window's start is at most the content length by dominating guards",
				fmt.Sprintf("%s selects a window of the content starting at its offset parameter, and no dominating comparison bounds that offset by the content's length: a read at an offset past the end reaches the blob, which answers a bounds error where the file must answer (0, io.EOF)", fname(fn)))
		})
	}
}

// r02TruncateIgnoresAppend (R02.19): no function reachable from the handle's Truncate (package keyvalue, three levels)
// branches on the O_APPEND bit. Growing a file "by writing its new last byte" through the positioned-write path sends
// that byte to the current end on an O_APPEND handle: the file grows by one byte instead of to the requested size.
func r02TruncateIgnoresAppend(c *core.Ctx, p *load.Program, fileT *types.Named) {
	appendK := constOf(p, "FlagAppend")
	fn := methodsOf(p, fileT)["Truncate"]
	if fn == nil || appendK == 0 {
		c.Hard("anchor: keyvalue.file.Truncate / FlagAppend")
		return
	}
	bad := ""
	seen := map[*ssa.Function]bool{}
	var visit func(f *ssa.Function, d int)
	visit = func(f *ssa.Function, d int) {
		if f == nil || seen[f] || f.Blocks == nil || d > 3 || f.Pkg != fn.Pkg {
			return
		}
		seen[f] = true
		for _, b := range f.Blocks {
			if ifi, ok := b.Instrs[len(b.Instrs)-1].(*ssa.If); ok && mentionsConst(ifi.Cond, appendK, 0) && bad == "" {
				bad = fname(f) + " at " + p.Pos(ifi.Cond.Pos())
			}
			for _, ins := range b.Instrs {
				if ci, ok := ins.(ssa.CallInstruction); ok {
					visit(ssax.StaticCallee(ci), d+1)
				}
			}
		}
	}
	visit(fn, 0)
	c.Check(bad == "", "R02.19", typeKey(fileT)+".Truncate|independent-of-O_APPEND", p.Pos(fn.Pos()), "no test of the append flag is reachable from Truncate",
		fmt.Sprintf("%s reaches a test of the O_APPEND flag (%s): Truncate(size) on a handle opened with O_APPEND would be redirected like a write — the file grows by what the redirected write adds instead of to 'size' (ftruncate ignores O_APPEND)", fname(fn), bad))
}

// r02OffsetValidatedOnSuccess (R02.20): in ReadAt / WriteAt / ReadBlobAt / WriteBlobAt / Truncate of every handle
// type of package keyvalue, each path to a return whose error is the constant nil has passed a comparison of the
// int64 offset/size parameter, or a call that receives it (the method that validates it). A short-cut return in front
// ("empty buffer: nothing to do") answers (0, nil) for a negative offset and on a closed handle, where os.File fails.
func r02OffsetValidatedOnSuccess(c *core.Ctx, p *load.Program) {
	want := map[string]bool{"ReadAt": true, "WriteAt": true, "ReadBlobAt": true, "WriteBlobAt": true, "Truncate": true}
	for _, fn := range pkgFuncs(p, "keyvalue") {
		if fn.Parent() != nil || fn.Signature.Recv() == nil || !want[fn.Name()] || fn.Blocks == nil || fn.Synthetic != "" {
			continue
		}
		eidx := ssax.ErrorResultIndex(fn.Signature)
		var prm *ssa.Parameter
		for _, q := range fn.Params[1:] {
			if bt, ok := q.Type().Underlying().(*types.Basic); ok && bt.Kind() == types.Int64 {
				prm = q
			}
		}
		if eidx < 0 || prm == nil {
			continue
		}
		uses := func(v ssa.Value) bool { return dependsOn(v, func(x ssa.Value) bool { return x == ssa.Value(prm) }) }
		bad := ""
		complete := ssax.EnumPaths(fn, fn.Blocks[0], 0, ssax.NewPathState(), ssax.PathHooks{
			Branch: func(ps *ssax.PathState, cond ssa.Value, taken bool) {
				if bo, ok := cond.(*ssa.BinOp); ok && (uses(bo.X) || uses(bo.Y)) {
					ps.Counts["validated"] = 1
				}
			},
			Instr: func(ps *ssax.PathState, ins ssa.Instruction) {
				if ci, ok := ins.(ssa.CallInstruction); ok {
					for _, a := range ci.Common().Args {
						if uses(a) {
							ps.Counts["validated"] = 1
						}
					}
				}
			},
			End: func(ps *ssax.PathState, last ssa.Instruction) {
				r, ok := last.(*ssa.Return)
				if !ok || bad != "" || ps.Counts["validated"] == 1 {
					return
				}
				if e := ps.Resolve(resolveSpilledOnPath(r.Results[eidx], r, ps)); ssax.IsNilConst(e) {
					bad = p.Pos(r.Pos())
				}
			},
		})
		key := fname(fn) + "|success-only-after-the-offset-was-examined"
		switch {
		case !complete:
			c.Unknown("R02.20", key, p.Pos(fn.Pos()), "path enumeration exceeded its cap")
		default:
			c.Check(bad == "", "R02.20", key, p.Pos(fn.Pos()), "every nil-error return follows a test of the offset/size or the call that makes it",
				fmt.Sprintf("%s returns success at %s on a path that neither examined %s nor handed it on: a negative %s (and a closed handle) is answered with (0, nil) where os.File fails", fname(fn), bad, prm.Name(), prm.Name()))
		}
	}
}
