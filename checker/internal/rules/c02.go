package rules

import (
	"fmt"
	"go/token"
	"go/types"
	"sort"
	"strings"

	"golang.org/x/tools/go/ssa"

	"hpfscheck/internal/core"
	"hpfscheck/internal/load"
	"hpfscheck/internal/ssax"
)

func init() { register(&Spec{ID: "C02", Targets: []load.Target{load.Linux}, Run: runC02}) }

func runC02(c *core.Ctx) {
	runFixtures(c, "bounds", "drop")
	c.Explain("Bytes, offsets and EOF timing are values and not decidable statically. Decided mechanisms: (R02.1) access-mode capability: no method of the read-only handle wrapper reaches a content mutator (blob.Set/Grow/Truncate), no method of the write-only wrapper reaches a content reader (blob.View/Slice), over the static call graph — a read-only handle can never change contents, a write-only handle can never read them; (R02.2) directory guard as sibling agreement: every byte-I/O method of the file type that touches the content blob (read, write, truncate) has an IsDir() guard before the blob access whose taken edge returns an ErrIsDir-class error; (R02.3) live size: in the methods that compare an offset/size parameter with the file size, the size is the length of the content loaded in that call (a Size() of the record cached at open time is flagged), so every handle sees the current size; (R02.4) validate before mutate: on every path of the write and truncate methods the first content mutator is dominated by the rejection of a negative offset/size. NOT claimed: transferred bytes, offsets, EOF exactness, zero fill, O_APPEND placement, coherence beyond R02.3.")
	c.Assume("the static call graph is complete for these wrappers (they call the inner *file statically)")
	c.RuleDoc("R02.1", "access-mode wrappers cannot reach forbidden content operations")
	c.RuleDoc("R02.2", "directory guard on every byte-I/O method")
	c.RuleDoc("R02.3", "size compared against parameters is the live content length")
	c.RuleDoc("R02.4", "negative offset/size rejected before the first mutation")
	for _, p := range c.Progs {
		c.SetProg(p)
		fileT := p.Named("keyvalue", "file")
		if fileT == nil {
			c.Hard("anchor: keyvalue.file")
			continue
		}
		r02Wrappers(c, p, fileT)
		r02Methods(c, p, fileT)
	}
	c.Floor("R02.1", 2)
	c.Floor("R02.2", 3)
	c.Floor("R02.3", 3)
	c.Floor("R02.4", 2)
}

func blobFuncs(p *load.Program, names ...string) map[*ssa.Function]bool {
	out := map[*ssa.Function]bool{}
	for _, n := range names {
		if fn := p.Func("keyvalue/blob", n); fn != nil {
			out[fn] = true
		}
	}
	return out
}

// reachStatic: functions reachable from fn through static calls (module only).
func reachStatic(p *load.Program, fn *ssa.Function, seen map[*ssa.Function][]string, path []string) {
	if fn == nil || fn.Blocks == nil {
		return
	}
	if _, ok := seen[fn]; ok {
		return
	}
	seen[fn] = append([]string{}, path...)
	ssax.Instrs(fn, func(ins ssa.Instruction) {
		if ci, ok := ins.(ssa.CallInstruction); ok {
			if callee := ssax.StaticCallee(ci); callee != nil && p.InModule(callee) {
				reachStatic(p, callee, seen, append(path, fname(callee)))
			}
		}
	})
}

func r02Wrappers(c *core.Ctx, p *load.Program, fileT *types.Named) {
	mut := blobFuncs(p, "Set", "Grow", "Truncate")
	rd := blobFuncs(p, "View", "Slice")
	if len(mut) != 3 || len(rd) != 2 {
		c.Hard("anchor: blob.Set/Grow/Truncate/View/Slice")
		return
	}
	n := 0
	for _, w := range wrapperTypes(p, fileT) {
		ms := methodsOf(p, w)
		hasW, hasR := ms["Write"] != nil, ms["ReadAt"] != nil
		var forbidden map[*ssa.Function]bool
		what := ""
		switch {
		case hasR && !hasW:
			forbidden, what = mut, "read-only"
		case hasW && !hasR:
			forbidden, what = rd, "write-only"
		default:
			continue
		}
		n++
		var bad []string
		var names []string
		for name := range ms {
			names = append(names, name)
		}
		sort.Strings(names)
		for _, name := range names {
			seen := map[*ssa.Function][]string{}
			reachStatic(p, ms[name], seen, []string{fname(ms[name])})
			for f, path := range seen {
				if forbidden[f] {
					bad = append(bad, strings.Join(path, " -> "))
				}
			}
		}
		sort.Strings(bad)
		key := typeKey(w) + "|capability"
		if len(bad) == 0 {
			c.OK("R02.1", key, p.Pos(w.Obj().Pos()), fmt.Sprintf("%d methods of the %s wrapper reach none of the forbidden content operations", len(ms), what))
		} else {
			c.Bad("R02.1", key, p.Pos(w.Obj().Pos()), fmt.Sprintf("the %s handle wrapper %s reaches a forbidden content operation: %s — a handle opened %s could %s the file's contents", what, typeKey(w), bad[0], what, map[string]string{"read-only": "change", "write-only": "read"}[what]))
		}
	}
	if n < 2 {
		c.Hard("anchor: expected a read-only and a write-only wrapper of keyvalue.file, found %d", n)
	}
}

func r02Methods(c *core.Ctx, p *load.Program, fileT *types.Named) {
	blobOps := blobFuncs(p, "Set", "Grow", "Truncate", "View", "Slice")
	mut := blobFuncs(p, "Set", "Grow", "Truncate")
	ms := methodsOf(p, fileT)
	var names []string
	for n := range ms {
		names = append(names, n)
	}
	sort.Strings(names)
	for _, name := range names {
		fn := ms[name]
		// methods that touch the content blob directly
		var ops []*ssa.Call
		ssax.Instrs(fn, func(ins ssa.Instruction) {
			if cl, ok := ins.(*ssa.Call); ok && blobOps[ssax.StaticCallee(cl)] {
				ops = append(ops, cl)
			}
		})
		if len(ops) == 0 {
			// R02.3 also covers methods that only compute with the size (Seek)
			r02LiveSize(c, p, fileT, fn)
			continue
		}
		// ---- R02.2 ----
		key := typeKey(fileT) + "." + name + "|dir-guard"
		var guard *ssa.If
		guardClass := ""
		for _, b := range fn.Blocks {
			ifi, ok := b.Instrs[len(b.Instrs)-1].(*ssa.If)
			if !ok {
				continue
			}
			cnd, val := ssax.StripNot(ifi.Cond, true)
			cl, ok := cnd.(*ssa.Call)
			if !ok || !isIsDirCall(cl) {
				continue
			}
			succ := b.Succs[0]
			if !val {
				succ = b.Succs[1]
			}
			if _, ev, isErr := blockReturnsError(succ); isErr {
				guard = ifi
				guardClass = classifyErr(ev).String()
				if classifyErr(ev).only("ErrIsDir", false) {
					guardClass = "ErrIsDir"
				}
			}
		}
		switch {
		case guard == nil:
			c.Bad("R02.2", key, p.Pos(fn.Pos()), fmt.Sprintf("%s touches the content blob without a directory guard that fails: byte I/O through a directory handle must fail with ErrIsDir", fname(fn)))
		case guardClass != "ErrIsDir":
			c.Bad("R02.2", key, p.Pos(guard.Pos()), fmt.Sprintf("%s: the directory guard returns %s instead of an ErrIsDir-class error: reading a directory handle as bytes must fail (os answers EISDIR)", fname(fn), guardClass))
		default:
			bad := ""
			for _, op := range ops {
				if !guard.Block().Dominates(op.Block()) {
					bad = p.Pos(op.Pos())
				}
			}
			c.Check(bad == "", "R02.2", key, p.Pos(guard.Pos()), "IsDir guard with ErrIsDir dominates every content operation",
				fmt.Sprintf("%s: the content operation at %s is not dominated by the directory guard", fname(fn), bad))
		}
		// ---- R02.3 ----
		r02LiveSize(c, p, fileT, fn)
		// ---- R02.4 ----
		var firstMut []*ssa.Call
		for _, op := range ops {
			if mut[ssax.StaticCallee(op)] {
				firstMut = append(firstMut, op)
			}
		}
		if len(firstMut) == 0 {
			continue
		}
		for _, prm := range fn.Params[1:] {
			bt, ok := prm.Type().Underlying().(*types.Basic)
			if !ok || bt.Kind() != types.Int64 {
				continue
			}
			k4 := typeKey(fileT) + "." + name + "|validate-before-mutate:" + prm.Name()
			bad := ""
			for _, m := range firstMut {
				if !nonNegAt(m, prm) {
					bad = p.Pos(m.Pos())
				}
			}
			c.Check(bad == "", "R02.4", k4, p.Pos(fn.Pos()), fmt.Sprintf("every content mutation is dominated by the rejection of a negative %s", prm.Name()),
				fmt.Sprintf("%s: the content mutation at %s can run with a negative %s: the call fails later but has already changed the file (e.g. grown it)", fname(fn), bad, prm.Name()))
		}
	}
}

// nonNegAt: a dominating fact says v (the parameter, or the phi it flows into) is >= 0.
func nonNegAt(at ssa.Instruction, prm *ssa.Parameter) bool {
	derived := func(v ssa.Value) bool {
		v = ssax.StripIntConv(v)
		if v == ssa.Value(prm) {
			return true
		}
		if ph, ok := v.(*ssa.Phi); ok {
			for _, e := range ph.Edges {
				if ssax.StripIntConv(e) == ssa.Value(prm) {
					return true
				}
			}
		}
		return false
	}
	for _, f := range ssax.FactsAtInstr(at) {
		bo, ok := f.Cond.(*ssa.BinOp)
		if !ok {
			continue
		}
		b := ssax.NewBounds([]ssax.Fact{f}, func(v ssa.Value) (ssax.Term, bool) {
			if k, ok := ssax.ConstInt(ssax.StripIntConv(v)); ok {
				return ssax.Term{IsConst: true, Const: k}, true
			}
			if derived(v) {
				return ssax.Term{Sym: "p"}, true
			}
			return ssax.Term{Sym: "v:" + v.Name()}, true
		})
		_ = bo
		if b.LE(ssax.Term{IsConst: true}, ssax.Term{Sym: "p"}, 0) {
			return true
		}
	}
	return false
}

func r02LiveSize(c *core.Ctx, p *load.Program, fileT *types.Named, fn *ssa.Function) {
	// Size() calls on the record (static callee named Size with a receiver in package keyvalue) whose result is
	// combined (compare / add / sub) with a value derived from an integer parameter
	var params []*ssa.Parameter
	for _, prm := range fn.Params[1:] {
		if bt, ok := prm.Type().Underlying().(*types.Basic); ok && bt.Info()&types.IsInteger != 0 {
			params = append(params, prm)
		}
	}
	if len(params) == 0 {
		return
	}
	isParamDerived := func(v ssa.Value) bool {
		return dependsOn(v, func(x ssa.Value) bool {
			for _, prm := range params {
				if x == ssa.Value(prm) {
					return true
				}
			}
			return false
		})
	}
	stale := ""
	uses := 0
	ssax.Instrs(fn, func(ins ssa.Instruction) {
		bo, ok := ins.(*ssa.BinOp)
		if !ok {
			return
		}
		for _, pair := range [][2]ssa.Value{{bo.X, bo.Y}, {bo.Y, bo.X}} {
			sz, other := ssax.StripIntConv(pair[0]), pair[1]
			cl, ok := sz.(*ssa.Call)
			if !ok {
				continue
			}
			if cl.Call.IsInvoke() && cl.Call.Method.Name() == "Len" && isParamDerived(other) {
				uses++ // live length of the loaded blob
			}
			callee := ssax.StaticCallee(cl)
			if callee != nil && callee.Name() == "Size" && callee.Signature.Recv() != nil && strings.HasSuffix(pkgPathOf(callee), "/keyvalue") && isParamDerived(other) {
				uses++
				// accepted only when the content was loaded successfully before (then the record's Size is live)
				okLoaded := false
				for _, f := range ssax.FactsAtInstr(cl) {
					if x, eq, isN := ssax.NilTest(f.Cond); isN && eq == f.Val {
						if dc := callProducing(x); dc != nil {
							if dcal := ssax.StaticCallee(dc); dcal != nil && dcal.Name() == "Data" {
								okLoaded = true
							}
						}
					}
				}
				if !okLoaded && stale == "" {
					stale = p.Pos(cl.Pos())
				}
			}
		}
	})
	if uses == 0 {
		return
	}
	key := typeKey(fileT) + "." + fn.Name() + "|live-size"
	c.Check(stale == "", "R02.3", key, p.Pos(fn.Pos()), fmt.Sprintf("%d size comparison(s) use the length of the content loaded in this call", uses),
		fmt.Sprintf("%s compares a parameter with the record's Size() at %s without having loaded the content in this call: the size is the one cached when the handle was opened, so data appended through another handle is invisible (ReadFull returns 5 of 11 bytes)", fname(fn), stale))
}

var _ = token.ADD
