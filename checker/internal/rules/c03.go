package rules

import (
	"fmt"
	"go/token"
	"go/types"
	"strings"

	"golang.org/x/tools/go/ssa"

	"hpfscheck/internal/core"
	"hpfscheck/internal/load"
	"hpfscheck/internal/ssax"
)

func init() { register(&Spec{ID: "C03", Targets: []load.Target{load.Linux}, Run: runC03}) }

// kvShape: the key-value FS type and its record-store primitives, found structurally.
type kvShape struct {
	named     *types.Named
	methods   map[string]*ssa.Function
	setFns    map[*ssa.Function]int // functions storing a record: index of the path parameter (record param follows)
	lookupFns map[*ssa.Function]bool
	ctorFns   map[*ssa.Function]bool // construct a fresh *file (newFile/newDir)
	saveFn    *ssa.Function
}

func findKVShape(p *load.Program) *kvShape {
	n := p.Named("keyvalue", "FS")
	if n == nil {
		return nil
	}
	sh := &kvShape{named: n, methods: methodsOf(p, n), setFns: map[*ssa.Function]int{}, lookupFns: map[*ssa.Function]bool{}, ctorFns: map[*ssa.Function]bool{}}
	recI := ifaceOf(p, "keyvalue", "FileRecord")
	fileT := p.Named("keyvalue", "file")
	for _, m := range sh.methods {
		if m.Object() == nil || m.Object().Exported() {
			continue
		}
		// set functions: (…, path string, record FileRecord, …) error
		for i, prm := range m.Params {
			if isStr(prm.Type()) && i+1 < len(m.Params) && recI != nil && types.Identical(m.Params[i+1].Type().Underlying(), recI) {
				sh.setFns[m] = i
			}
		}
		// constructors: return a freshly allocated *file
		if fileT != nil && m.Signature.Results().Len() == 1 && constructs(m, fileT) {
			sh.ctorFns[m] = true
		}
		// lookups: (path) (*file, error) or (paths...) ([]*file, []error)
		if m.Signature.Results().Len() == 2 && !sh.ctorFns[m] {
			r0 := m.Signature.Results().At(0).Type().String()
			if strings.HasSuffix(r0, "keyvalue.file") {
				sh.lookupFns[m] = true
			}
		}
	}
	// a constructor that only calls another constructor (newDir -> newFile)
	for _, m := range sh.methods {
		if sh.ctorFns[m] || m.Signature.Results().Len() != 1 {
			continue
		}
		for _, r := range ssax.Returns(m) {
			if cl, ok := r.Results[0].(*ssa.Call); ok && sh.ctorFns[ssax.StaticCallee(cl)] {
				sh.ctorFns[m] = true
			}
		}
	}
	sh.lookupFns[sh.methods["Stat"]] = true
	if fd := p.Named("keyvalue", "fileData"); fd != nil {
		sh.saveFn = methodsOf(p, fd)["save"]
	}
	return sh
}

func runC03(c *core.Ctx) {
	runFixtures(c, "drop", "valid")
	c.Explain("The tree invariant over reachable states is not decidable statically; decided are the preconditions that keep a flat path->record map a tree, on every path of the key-value FS (mem.FS delegates to it): (R03.1) every create site — a save of a record constructed in the operation (Mkdir, MkdirAll, OpenFile with create) or a store of a loaded record under another path (Rename's destination) — is dominated by a successful look-up of path.Dir(p) AND its IsDir()-true edge, or p is the root constant, or the path comes from the ancestor walk whose classifier answers a non-directory with ErrNotDir and which is replayed parent-first; (R03.2) every delete site and Rename's source and destination are dominated by a 'not the root' fact; (R03.3) before Rename's first store there is a test relating both names (other than equality) whose taken edge returns a *LinkError — a directory is never moved into its own subtree; (R03.4) on every path deleting a directory the listing was fetched and found empty; (R03.5) every create site is reached only on paths on which the target path itself was looked up and found absent (failed look-up, errors.Is(err, ErrNotExist)) or not a directory — an existing directory is never overwritten by another record, which would leave its children below a non-directory; (R03.6) every strings.HasPrefix between names in packages keyvalue, mem, mount and the root package tests a prefix ending in '/' (or a constant on an element boundary): routing, listing and the subtree guard match whole path elements, so 'ab' is never treated as inside 'a'; (R03.7) every mode stored back into an existing record (Chmod by path and by handle) copies io/fs.ModeType from the previous mode — bitwise abstraction over &, &^, | with constants — so a directory cannot become a regular file above its children; (R03.8) in Rename no recursive child move is reachable after the source record was deleted and every child move follows the store of the destination record, so a fault between the steps leaves two well-formed directories; (R03.9) mount.FS.Rename scans the mount table for mount points below the old name before moving it (known finding: it does not). (R03.10) the generic Sub view joins base and name with path.Join; (R03.11) it owns Remove/RemoveAll and refuses its own root. (R03.12) the AddMount analysis of R06.4: a mount point is a valid name other than the root whose directory exists. (R03.13) Rename deletes no record but the source's. NOT claimed: the invariant itself in every reachable state, agreement of listing/Stat/Open, mount and Sub compositions (their only namespace write is AddMount, C06), termination.")
	c.Assume("A3: listing names are single valid elements", "A6: partial correctness")
	c.RuleDoc("R03.1", "parent is a directory before any create")
	c.RuleDoc("R03.2", "root is never deleted, moved or replaced")
	c.RuleDoc("R03.3", "no rename into own subtree")
	c.RuleDoc("R03.4", "directories are deleted only when empty")
	c.RuleDoc("R03.6", "every prefix test between names in keyvalue, mem, mount and the helpers is on a path-element boundary")
	c.RuleDoc("R03.7", "a mode update keeps the record's type bits")
	c.RuleDoc("R03.12", "a mount point is a valid name other than the root whose directory exists (= R06.4)")
	c.RuleDoc("R03.11", "the generic Sub view never removes its own root")
	c.RuleDoc("R03.10", "the generic Sub view joins base and name with path.Join, so every entry its root lists can be Stat'ed and opened (= R08.10)")
	c.RuleDoc("R03.9", "the mount file system does not move an ancestor of a mount point")
	c.RuleDoc("R03.13", "Rename deletes no record but the source's")
	c.RuleDoc("R03.8", "directory rename: destination record first, children next, source record last")
	c.RuleDoc("R03.5", "a record is stored under a path only where that path was found absent or not a directory")
	for _, p := range c.Progs {
		c.SetProg(p)
		sh := findKVShape(p)
		if sh == nil || sh.saveFn == nil || len(sh.setFns) == 0 || len(sh.ctorFns) == 0 {
			c.Hard("anchor: keyvalue.FS shape (set functions, constructors, save)")
			continue
		}
		r03Creates(c, p, sh, "R03.1", "R03.5")
		r03Deletes(c, p, sh)
		r03Subtree(c, p, sh)
		boundaryTests(c, p, "R03.6", "keyvalue", "mem", "mount", "")
		r03KindKept(c, p, "R03.7")
		r03RenameOrder(c, p, sh)
		r03MountAncestors(c, p)
		// R03.10: the generic Sub view maps a listed name to base/name with path.Join — "./name" (base ".") cannot be Stat'ed
		r08SubViewJoins(c, p, "R03.10")
		r03SubRootKept(c, p)
		// R03.12 (= R06.4): a mount is added only at a valid name other than "." whose directory exists — a mount at
		// "." captures the root directory alone: its listing shows entries that cannot be Stat'ed
		c.WithAlias(map[string]string{"R06.4": "R03.12"}, func() { r06AddMount(c, p) })
	}
	c.Floor("R03.1", 5)
	c.Floor("R03.2", 3)
	c.Floor("R03.3", 1)
	c.Floor("R03.4", 1)
	c.Floor("R03.5", 5)
	c.Floor("R03.6", 3)
	c.Floor("R03.7", 2)
	c.Floor("R03.8", 1)
	c.Floor("R03.9", 1)
	c.Floor("R03.10", 2)
	c.Floor("R03.11", 2)
	c.Floor("R03.12", 1)
	c.Floor("R03.13", 1)
}

// pathDirOf: v is path.Dir(x); returns x.
func pathDirOf(v ssa.Value) ssa.Value {
	if cl, ok := v.(*ssa.Call); ok && ssax.CalleeIs(cl, "path", "Dir") {
		return cl.Call.Args[0]
	}
	return nil
}

// lookupPathOf: the path a looked-up value (file, info, error) was looked up with. Handles direct calls
// L(path) and the parallel-slice form L(paths...)[k].
func (sh *kvShape) lookupPathOf(v ssa.Value, depth int) ssa.Value {
	if v == nil || depth > 8 {
		return nil
	}
	switch x := v.(type) {
	case *ssa.Extract:
		if cl, ok := x.Tuple.(*ssa.Call); ok {
			return sh.lookupPathOf(cl, depth+1)
		}
	case *ssa.Call:
		callee := ssax.StaticCallee(x)
		if callee != nil && sh.lookupFns[callee] {
			for _, a := range x.Call.Args {
				if isStr(a.Type()) {
					return a
				}
			}
		}
		// file.info(), info via method on looked-up file
		if callee != nil && callee.Signature.Recv() != nil && len(x.Call.Args) > 0 {
			return sh.lookupPathOf(x.Call.Args[0], depth+1)
		}
		if x.Call.IsInvoke() {
			return sh.lookupPathOf(x.Call.Value, depth+1)
		}
	case *ssa.UnOp:
		if x.Op == token.MUL {
			switch a := x.X.(type) {
			case *ssa.IndexAddr:
				k, ok := ssax.ConstInt(a.Index)
				if !ok {
					return nil
				}
				// slice result of a variadic look-up
				if ex, ok := a.X.(*ssa.Extract); ok {
					if cl, ok := ex.Tuple.(*ssa.Call); ok && sh.lookupFns[ssax.StaticCallee(cl)] {
						return variadicElemAt(cl.Call.Args[len(cl.Call.Args)-1], k)
					}
				}
			case *ssa.FieldAddr:
				return sh.lookupPathOf(a.X, depth+1)
			}
		}
	case *ssa.MakeInterface:
		return sh.lookupPathOf(x.X, depth+1)
	case *ssa.Phi:
		// all edges must agree
		var res ssa.Value
		for _, e := range x.Edges {
			r := sh.lookupPathOf(e, depth+1)
			if r == nil {
				continue
			}
			if res != nil && res != r {
				return nil
			}
			res = r
		}
		return res
	}
	return nil
}

// variadicElemAt: element k of a []string built as literal / append(literal, x…) (possibly a phi of both).
func variadicElemAt(sl ssa.Value, k int64) ssa.Value {
	switch x := sl.(type) {
	case *ssa.Slice:
		el := variadicElems(x)
		if int(k) < len(el) {
			return el[k]
		}
	case *ssa.Call:
		if b, ok := x.Call.Value.(*ssa.Builtin); ok && b.Name() == "append" {
			base := variadicLen(x.Call.Args[0])
			if base < 0 {
				return nil
			}
			if k < base {
				return variadicElemAt(x.Call.Args[0], k)
			}
			el := variadicElems(x.Call.Args[1])
			if int(k-base) < len(el) {
				return el[k-base]
			}
		}
	case *ssa.Phi:
		for _, e := range x.Edges {
			if r := variadicElemAt(e, k); r != nil {
				return r // the edge on which index k exists
			}
		}
	}
	return nil
}

func variadicLen(sl ssa.Value) int64 {
	if s, ok := sl.(*ssa.Slice); ok {
		return int64(len(variadicElems(s)))
	}
	return -1
}

// parentIsDirAt: at instruction `at`, path.Dir(pval) was looked up successfully and found to be a directory.
func (sh *kvShape) parentIsDirAt(at ssa.Instruction, pval ssa.Value) (found, isDir bool) {
	for _, f := range ssax.FactsAtInstr(at) {
		// successful look-up
		if x, eq, ok := ssax.NilTest(f.Cond); ok && eq == f.Val {
			if lp := sh.lookupPathOf(x, 0); lp != nil && pathDirOf(lp) == pval {
				found = true
			}
		}
		if cl, ok := f.Cond.(*ssa.Call); ok && f.Val && cl.Call.IsInvoke() && cl.Call.Method.Name() == "IsDir" {
			if lp := sh.lookupPathOf(cl.Call.Value, 0); lp != nil && pathDirOf(lp) == pval {
				isDir = true
			}
		}
	}
	return
}

func isRootFact(at ssa.Instruction, pval ssa.Value, wantRoot bool) bool {
	for _, f := range ssax.FactsAtInstr(at) {
		bo, ok := f.Cond.(*ssa.BinOp)
		if !ok || (bo.Op != token.EQL && bo.Op != token.NEQ) {
			continue
		}
		var other ssa.Value
		if bo.X == pval {
			other = bo.Y
		} else if bo.Y == pval {
			other = bo.X
		} else {
			continue
		}
		if s, ok := ssax.ConstString(other); ok && s == "." {
			isEq := (bo.Op == token.EQL) == f.Val
			if isEq == wantRoot {
				return true
			}
		}
	}
	return false
}

func r03Creates(c *core.Ctx, p *load.Program, sh *kvShape, ruleParent, ruleAbsent string) {
	for _, fn := range pkgFuncs(p, "keyvalue") {
		ord := ordinals{}
		ssax.Instrs(fn, func(ins ssa.Instruction) {
			cl, ok := ins.(*ssa.Call)
			if !ok {
				return
			}
			callee := ssax.StaticCallee(cl)
			var pval ssa.Value
			kind := ""
			switch {
			case callee == sh.saveFn && callee != nil:
				// save of a record constructed here?
				base := cl.Call.Args[0]
				if b, _, ok := ssax.FieldLoad(base); ok {
					base = b
				}
				ctor, ok := base.(*ssa.Call)
				if !ok || !sh.ctorFns[ssax.StaticCallee(ctor)] {
					return // update of a loaded record
				}
				for _, a := range ctor.Call.Args {
					if isStr(a.Type()) {
						pval = a
					}
				}
				kind = "save-new"
			case callee != nil && len(sh.setFns) > 0 && hasKey(sh.setFns, callee):
				pi := sh.setFns[callee]
				rec := cl.Call.Args[pi+1]
				if ssax.IsNilConst(rec) {
					return // delete site
				}
				pval = cl.Call.Args[pi]
				// stored under the path it was loaded from (update) or another one (create)?
				if lp := sh.lookupPathOf(rec, 0); lp != nil && lp == pval {
					return
				}
				if _, isParam := pval.(*ssa.Parameter); !isParam {
					return // generic forwarding inside the primitives (save -> setFile -> setFileTxn)
				}
				if fn.Object() == nil || !fn.Object().Exported() {
					// a helper an exported method hands its name parameters to carries out that method's stores
					if _, hb := bodyOf(sh.methods, fn); hb == nil || sh.setFns[fn] != 0 || hasKey(sh.setFns, fn) {
						return
					}
				}
				kind = "store-elsewhere"
			default:
				return
			}
			if pval == nil {
				return
			}
			key := fname(fn) + "|" + ord.next("create:"+kind)
			found, isDir := sh.parentIsDirAt(cl, pval)
			// in a helper body, what the exported method established before it called the helper counts as well
			var upCall *ssa.Call
			var upVal ssa.Value
			if prm, isParam := pval.(*ssa.Parameter); isParam && (fn.Object() == nil || !fn.Object().Exported()) {
				if _, hb := bodyOf(sh.methods, fn); hb != nil {
					for rp, bp := range hb.params {
						if bp == prm {
							upCall, upVal = hb.call, rp
						}
					}
				}
			}
			upParentOK := func() bool {
				if upCall == nil {
					return false
				}
				f2, d2 := sh.parentIsDirAt(upCall, upVal)
				return f2 && d2 || isRootFact(upCall, upVal, true) || isRootOrParentChecked(sh, upCall, upVal)
			}
			switch {
			case upParentOK():
				c.OK(ruleParent, key, p.Pos(cl.Pos()), "the calling method looked path.Dir(p) up and found a directory before it handed p to this helper")
			case found && isDir:
				c.OK(ruleParent, key, p.Pos(cl.Pos()), "path.Dir(p) looked up successfully and IsDir() on this path")
			case isRootFact(cl, pval, true):
				c.OK(ruleParent, key, p.Pos(cl.Pos()), "p is the root")
			case sh.ancestorWalk(p, fn, pval):
				c.OK(ruleParent, key, p.Pos(cl.Pos()), "p comes from the ancestor walk (non-directory ancestors answered with ErrNotDir), replayed parent-first")
			case isRootOrParentChecked(sh, cl, pval):
				c.OK(ruleParent, key, p.Pos(cl.Pos()), "either p is the root or its parent was looked up and is a directory, on every path")
			default:
				c.Bad(ruleParent, key, p.Pos(cl.Pos()), fmt.Sprintf("%s creates an entry at %s without a dominating 'parent exists (found=%v) and is a directory (isDir=%v)' check: an entry below a missing path or a regular file is unreachable from the root's listings", fname(fn), vname(pval), found, isDir))
			}
			// R03.5: what is overwritten is not a directory (its children would become entries below a non-directory)
			switch {
			case sh.ancestorWalk(p, fn, pval):
				c.OK(ruleAbsent, key, p.Pos(cl.Pos()), "p was classified missing by the ancestor walk")
			case absentOrNotDirChecked(sh, cl, pval) || (upCall != nil && absentOrNotDirChecked(sh, upCall, upVal)):
				c.OK(ruleAbsent, key, p.Pos(cl.Pos()), "on every path p was looked up and found absent or not a directory before the record is stored")
			default:
				c.Bad(ruleAbsent, key, p.Pos(cl.Pos()), fmt.Sprintf("%s stores a record at %s on a path on which %s was not looked up and found absent or a non-directory: an existing directory is overwritten and its children become entries below a non-directory, unreachable from any listing", fname(fn), vname(pval), vname(pval)))
			}
		})
	}
}

func hasKey(m map[*ssa.Function]int, f *ssa.Function) bool { _, ok := m[f]; return ok }

// absentOrNotDirChecked: on every path reaching `at`, a look-up of pval itself failed (non-nil error edge or
// errors.Is(err, ErrNotExist) true edge) or its IsDir() was found false.
func absentOrNotDirChecked(sh *kvShape, at *ssa.Call, pval ssa.Value) bool {
	fn := at.Parent()
	ok := true
	reached := false
	ssax.EnumPaths(fn, fn.Blocks[0], 0, nil, ssax.PathHooks{
		Branch: func(s *ssax.PathState, cond ssa.Value, taken bool) {
			cnd, val := ssax.StripNot(cond, taken)
			if x, eq, isN := ssax.NilTest(cnd); isN && eq != val && ssax.IsErrorType(x.Type()) {
				if lp := sh.lookupPathOf(x, 0); lp != nil && lp == pval {
					s.Counts["failed"] = 1 // the look-up failed: absent only once the failure is known to be ErrNotExist
				}
			}
			if e, sent, isE := isErrorsIs(cnd); isE && !val && sent == "ErrNotExist" {
				if lp := sh.lookupPathOf(e, 0); lp != nil && lp == pval {
					s.Counts["otherfailure"] = 1
				}
			}
			if e, sent, isE := isErrorsIs(cnd); isE && val && sent == "ErrNotExist" {
				if lp := sh.lookupPathOf(e, 0); lp != nil && lp == pval {
					s.Counts["absent"] = 1
				}
			}
			if cl, isC := cnd.(*ssa.Call); isC && !val && cl.Call.IsInvoke() && cl.Call.Method.Name() == "IsDir" {
				if lp := sh.lookupPathOf(cl.Call.Value, 0); lp != nil && lp == pval {
					s.Counts["notdir"] = 1
				}
			}
		},
		Instr: func(s *ssax.PathState, ins ssa.Instruction) {
			if ins == ssa.Instruction(at) {
				reached = true
				if s.Counts["absent"] == 0 && s.Counts["notdir"] == 0 {
					ok = false
				}
			}
		},
	})
	return ok && reached
}

// isRootOrParentChecked: path-sensitive form of the disjunction "p == root OR parent looked up and IsDir".
func isRootOrParentChecked(sh *kvShape, at *ssa.Call, pval ssa.Value) bool {
	fn := at.Parent()
	ok := true
	reached := false
	ssax.EnumPaths(fn, fn.Blocks[0], 0, nil, ssax.PathHooks{
		Branch: func(s *ssax.PathState, cond ssa.Value, taken bool) {
			cnd, val := ssax.StripNot(cond, taken)
			if bo, isB := cnd.(*ssa.BinOp); isB && (bo.Op == token.EQL || bo.Op == token.NEQ) {
				var other ssa.Value
				if bo.X == pval {
					other = bo.Y
				} else if bo.Y == pval {
					other = bo.X
				}
				if other != nil {
					if str, isC := ssax.ConstString(other); isC && str == "." && ((bo.Op == token.EQL) == val) {
						s.Counts["root"] = 1
					}
				}
			}
			if x, eq, isN := ssax.NilTest(cnd); isN && eq == val {
				if lp := sh.lookupPathOf(x, 0); lp != nil && pathDirOf(lp) == pval {
					s.Counts["found"] = 1
				}
			}
			if cl, isC := cnd.(*ssa.Call); isC && val && cl.Call.IsInvoke() && cl.Call.Method.Name() == "IsDir" {
				if lp := sh.lookupPathOf(cl.Call.Value, 0); lp != nil && pathDirOf(lp) == pval {
					s.Counts["isdir"] = 1
				}
			}
		},
		Instr: func(s *ssax.PathState, ins ssa.Instruction) {
			if ins == ssa.Instruction(at) {
				reached = true
				if s.Counts["root"] == 0 && !(s.Counts["found"] == 1 && s.Counts["isdir"] == 1) {
					ok = false
				}
			}
		},
	})
	return ok && reached
}

// ancestorWalk: pval is an element of the result of a function that walks path.Dir upwards and classifies each
// ancestor with a function that can answer ErrNotDir; the caller iterates that result from the end (parent first).
func (sh *kvShape) ancestorWalk(p *load.Program, fn *ssa.Function, pval ssa.Value) bool {
	u, ok := pval.(*ssa.UnOp)
	if !ok {
		return false
	}
	ia, ok := u.X.(*ssa.IndexAddr)
	if !ok {
		return false
	}
	ex, ok := ia.X.(*ssa.Extract)
	if !ok {
		return false
	}
	wc, ok := ex.Tuple.(*ssa.Call)
	if !ok {
		return false
	}
	walker := ssax.StaticCallee(wc)
	if walker == nil || walker.Blocks == nil {
		return false
	}
	if !isAncestorClassifier(p, walker) {
		return false
	}
	// the index decreases: i = len-1 … 0 (phi with a decrement)
	idx := ia.Index
	// `for r := len(x); r > 0; r-- { x[r-1] }` counts down as well
	if bo, ok := idx.(*ssa.BinOp); ok && bo.Op == token.SUB {
		if _, isConst := bo.Y.(*ssa.Const); isConst {
			idx = bo.X
		}
	}
	if ph, ok := idx.(*ssa.Phi); ok {
		for _, e := range ph.Edges {
			if bo, ok := e.(*ssa.BinOp); ok && bo.Op == token.SUB && bo.X == ssa.Value(ph) {
				return true
			}
		}
	}
	return false
}

// isAncestorClassifier: walker (or a module function it calls, two levels) walks path.Dir upwards and can answer
// a non-directory with ErrNotDir.
func isAncestorClassifier(p *load.Program, walker *ssa.Function) bool {
	hasDir, hasNotDir := false, false
	var visit func(f *ssa.Function, d int)
	seen := map[*ssa.Function]bool{}
	visit = func(f *ssa.Function, d int) {
		if f == nil || seen[f] || d > 2 || f.Blocks == nil {
			return
		}
		seen[f] = true
		ssax.Instrs(f, func(ins ssa.Instruction) {
			if cl, ok := ins.(*ssa.Call); ok {
				if ssax.CalleeIs(cl, "path", "Dir") {
					hasDir = true
				}
				if callee := ssax.StaticCallee(cl); callee != nil && p.InModule(callee) {
					visit(callee, d+1)
				}
			}
			if uu, ok := ins.(*ssa.UnOp); ok {
				if g := ssax.GlobalLoad(uu); g != nil && sentinelOfGlobal(g) == "ErrNotDir" {
					hasNotDir = true
				}
			}
		})
	}
	visit(walker, 0)
	return hasDir && hasNotDir
}

func r03Deletes(c *core.Ctx, p *load.Program, sh *kvShape) {
	for _, fn := range pkgFuncs(p, "keyvalue") {
		if fn.Object() == nil || !fn.Object().Exported() {
			continue
		}
		ord := ordinals{}
		ssax.Instrs(fn, func(ins ssa.Instruction) {
			cl, ok := ins.(*ssa.Call)
			if !ok {
				return
			}
			callee := ssax.StaticCallee(cl)
			if callee == nil || !hasKey(sh.setFns, callee) {
				return
			}
			pi := sh.setFns[callee]
			pval := cl.Call.Args[pi]
			isDelete := ssax.IsNilConst(cl.Call.Args[pi+1])
			if _, isParam := pval.(*ssa.Parameter); !isParam {
				return
			}
			what := "replaced"
			if isDelete {
				what = "deleted"
			}
			key := fname(fn) + "|" + ord.next("not-root:"+what)
			if isRootFact(cl, pval, false) {
				c.OK("R03.2", key, p.Pos(cl.Pos()), fmt.Sprintf("%s is known not to be the root here", vname(pval)))
			} else {
				c.Bad("R03.2", key, p.Pos(cl.Pos()), fmt.Sprintf("%s: the record at %s is %s without a dominating '%s != \".\"' check: the root directory can be removed or overwritten, after which nothing is reachable", fname(fn), vname(pval), what, vname(pval)))
			}
			if !isDelete {
				return
			}
			// R03.4: deleting a directory requires an empty listing on that path
			r03Empty(c, p, fn, cl, key)
		})
	}
}

func r03Empty(c *core.Ctx, p *load.Program, fn *ssa.Function, del *ssa.Call, baseKey string) {
	// only for operations that delete what they looked up as possibly-a-directory without moving it (Remove)
	if fn.Name() != "Remove" {
		return
	}
	bad := false
	reached := false
	ssax.EnumPaths(fn, fn.Blocks[0], 0, nil, ssax.PathHooks{
		Branch: func(s *ssax.PathState, cond ssa.Value, taken bool) {
			cnd, val := ssax.StripNot(cond, taken)
			if cl, ok := cnd.(*ssa.Call); ok && isIsDirCall(cl) {
				if val {
					s.Counts["isdir"] = 1
				} else {
					s.Counts["notdir"] = 1
				}
			}
			if bo, ok := cnd.(*ssa.BinOp); ok {
				l, isLen := bo.X.(*ssa.Call)
				k, isC := ssax.ConstInt(bo.Y)
				if isLen && isLenCall(l) && isC && k == 0 {
					empty := (bo.Op == token.GTR && !val) || (bo.Op == token.EQL && val) || (bo.Op == token.NEQ && !val) || (bo.Op == token.LEQ && val)
					if empty {
						s.Counts["empty"] = 1
					}
				}
			}
		},
		Instr: func(s *ssax.PathState, ins ssa.Instruction) {
			if ins == ssa.Instruction(del) {
				reached = true
				if s.Counts["notdir"] == 0 && s.Counts["empty"] == 0 {
					bad = true
				}
			}
		},
	})
	c.Check(reached && !bad, "R03.4", fname(fn)+"|empty-before-delete", p.Pos(del.Pos()), "on every path the entry is not a directory or its listing was found empty",
		fmt.Sprintf("%s deletes an entry that may be a directory without having found its listing empty on that path: the children become unreachable orphans", fname(fn)))
}

func isIsDirCall(cl *ssa.Call) bool {
	if cl.Call.IsInvoke() {
		return cl.Call.Method.Name() == "IsDir"
	}
	callee := ssax.StaticCallee(cl)
	return callee != nil && callee.Name() == "IsDir"
}

// isKindCall: a call of the method name (IsRegular, ...) on a FileMode / FileInfo / record value.
func isKindCall(cl *ssa.Call, name string) bool {
	if cl.Call.IsInvoke() {
		return cl.Call.Method.Name() == name
	}
	callee := ssax.StaticCallee(cl)
	return callee != nil && callee.Name() == name && callee.Signature.Recv() != nil
}

func r03Subtree(c *core.Ctx, p *load.Program, sh *kvShape) {
	fn := sh.methods["Rename"]
	if fn == nil {
		c.Hard("anchor: keyvalue.FS.Rename")
		return
	}
	oldP, newP := fn.Params[1], fn.Params[2]
	var guard *ssa.If
	for _, b := range fn.Blocks {
		ifi, ok := b.Instrs[len(b.Instrs)-1].(*ssa.If)
		if !ok {
			continue
		}
		cl, ok := ifi.Cond.(*ssa.Call)
		if !ok {
			continue
		}
		dOld, dNew := false, false
		for _, a := range cl.Call.Args {
			if dependsOnDeep(a, oldP) {
				dOld = true
			}
			if dependsOnDeep(a, newP) {
				dNew = true
			}
		}
		if !dOld || !dNew {
			continue
		}
		if _, ev, isErr := blockReturnsError(b.Succs[0]); isErr && classifyErr(ev).Wrap["LinkError"] {
			guard = ifi
		}
	}
	key := fname(fn) + "|subtree-guard"
	if guard == nil {
		c.Bad("R03.3", key, p.Pos(fn.Pos()), fmt.Sprintf("%s has no test relating the old and the new name (other than equality) that fails with a *LinkError: Rename(\"a\", \"a/b\") moves a directory into itself and orphans its children", fname(fn)))
		return
	}
	// dominates every store
	bad := ""
	ssax.Instrs(fn, func(ins ssa.Instruction) {
		if cl, ok := ins.(*ssa.Call); ok {
			if callee := ssax.StaticCallee(cl); callee != nil && hasKey(sh.setFns, callee) {
				if !guard.Block().Dominates(cl.Block()) {
					bad = p.Pos(cl.Pos())
				}
			}
		}
	})
	c.Check(bad == "", "R03.3", key, p.Pos(guard.Pos()), "a relational test of both names fails with *LinkError before any store",
		fmt.Sprintf("%s: the store at %s is reachable without passing the own-subtree test", fname(fn), bad))
}

// forEachChmodStore: every store of a freshly computed FileMode into a cell whose address becomes a record's
// mode override (the chmod idiom of package keyvalue: newMode := …; rec.modeOverride = &newMode).
func forEachChmodStore(p *load.Program, f func(fn *ssa.Function, st *ssa.Store)) {
	for _, fn := range pkgFuncs(p, "keyvalue") {
		ssax.Instrs(fn, func(ins ssa.Instruction) {
			st, ok := ins.(*ssa.Store)
			if !ok {
				return
			}
			a, ok := st.Addr.(*ssa.Alloc)
			if !ok || !strings.HasSuffix(typeString(a.Type()), "FileMode") || a.Referrers() == nil {
				return
			}
			for _, r := range *a.Referrers() {
				if s2, ok := r.(*ssa.Store); ok && s2.Val == ssa.Value(a) {
					if fa, ok := s2.Addr.(*ssa.FieldAddr); ok {
						if pt, ok := fa.Type().(*types.Pointer); ok {
							if _, isPtr := pt.Elem().(*types.Pointer); isPtr {
								f(fn, st)
								return
							}
						}
					}
				}
			}
		})
	}
}

// keptBits abstracts a mode expression bitwise: old = bits certainly copied from the record's previous mode
// (any FileMode that is neither a parameter nor a constant: Mode() of the loaded record, a field load),
// zero = bits certainly zero.
func keptBits(v ssa.Value, depth int) (old, zero int64) {
	if depth > 10 {
		return 0, 0
	}
	switch x := v.(type) {
	case *ssa.Const:
		k, _ := ssax.ConstInt(x)
		return 0, ^k
	case *ssa.Parameter:
		return 0, 0
	case *ssa.Convert:
		return keptBits(x.X, depth+1)
	case *ssa.ChangeType:
		return keptBits(x.X, depth+1)
	case *ssa.Phi:
		old, zero = -1, -1
		for _, e := range x.Edges {
			o, z := keptBits(e, depth+1)
			old &= o
			zero &= z
		}
		return old, zero
	case *ssa.BinOp:
		ox, zx := keptBits(x.X, depth+1)
		oy, zy := keptBits(x.Y, depth+1)
		kx, xc := ssax.ConstInt(x.X)
		ky, yc := ssax.ConstInt(x.Y)
		switch x.Op {
		case token.AND:
			switch {
			case yc:
				return ox & ky, zx | ^ky
			case xc:
				return oy & kx, zy | ^kx
			}
			return 0, zx | zy
		case token.AND_NOT:
			if yc {
				return ox &^ ky, zx | ky
			}
			return 0, zx
		case token.OR:
			return (ox & zy) | (oy & zx), zx & zy
		}
		return 0, 0
	case *ssa.UnOp:
		if x.Op == token.XOR {
			return 0, 0
		}
		return -1, 0 // load of a stored mode
	case *ssa.Call:
		return -1, 0 // Mode() of the record
	}
	return 0, 0
}

// r03KindKept (R03.7): an update of an existing record's mode keeps its type bits — a directory stays a directory.
func r03KindKept(c *core.Ctx, p *load.Program, rule string) {
	const modeType = int64(1)<<31 | 1<<27 | 1<<25 | 1<<24 | 1<<26 | 1<<21 | 1<<19 // io/fs.ModeType
	ords := map[*ssa.Function]*ordinals{}
	forEachChmodStore(p, func(fn *ssa.Function, st *ssa.Store) {
		if ords[fn] == nil {
			ords[fn] = &ordinals{}
		}
		key := fname(fn) + "|" + ords[fn].next("mode-update")
		old, _ := keptBits(st.Val, 0)
		c.Check(old&modeType == modeType, rule, key, p.Pos(st.Pos()), "the type bits of the stored mode are copied from the record's previous mode",
			fmt.Sprintf("%s: the new mode of an existing record does not keep the previous mode's type bits (kept bits %#x, io/fs.ModeType %#x): a directory whose mode is changed is saved as a regular file and its children become entries below a non-directory", fname(fn), uint32(old), uint32(modeType)))
	})
}

// r03RenameOrder (R03.8): in Rename, the source record outlives its children and the destination record precedes
// them — no child move (recursive Rename call) is reachable after the deletion of the source, and every child move
// follows a store of the destination record. A fault between the steps then leaves two well-formed directories.
func r03RenameOrder(c *core.Ctx, p *load.Program, sh *kvShape) {
	root := sh.methods["Rename"]
	if root == nil || len(root.Params) < 3 {
		c.Hard("anchor: keyvalue.FS.Rename")
		return
	}
	recursive := 0
	var afterDelete, beforeDest ssa.Instruction
	complete := true
	var strayDelete ssa.Instruction
	deletes := 0
	// the directory move may live in Rename itself or in a helper Rename hands both names to
	for _, body := range opBodies(root) {
		fn := body.fn
		op, np := body.param(root.Params[1]), body.param(root.Params[2])
		if op == nil || np == nil || (body.call != nil && hasKey(sh.setFns, fn)) {
			continue
		}
		oldP, newP := ssa.Value(op), ssa.Value(np)
		hasRec := false
		ssax.Instrs(fn, func(ins ssa.Instruction) {
			if cl, ok := ins.(*ssa.Call); ok && ssax.StaticCallee(cl) == root {
				hasRec = true
			}
		})
		if hasRec {
			ok := ssax.EnumPaths(fn, fn.Blocks[0], 0, nil, ssax.PathHooks{
				Instr: func(s *ssax.PathState, ins ssa.Instruction) {
					cl, ok := ins.(*ssa.Call)
					if !ok {
						return
					}
					callee := ssax.StaticCallee(cl)
					if callee == nil {
						return
					}
					if pi, isSet := sh.setFns[callee]; isSet {
						rec := cl.Call.Args[pi+1]
						switch {
						case ssax.IsNilConst(rec) && cl.Call.Args[pi] == oldP:
							s.Counts["deleted"] = 1
						case !ssax.IsNilConst(rec) && cl.Call.Args[pi] == newP:
							s.Counts["dest"] = 1
						}
					}
					if callee == root {
						recursive++
						if s.Counts["deleted"] == 1 && afterDelete == nil {
							afterDelete = ins
						}
						if s.Counts["dest"] == 0 && beforeDest == nil {
							beforeDest = ins
						}
					}
				},
			})
			complete = complete && ok
		}
		// R03.13: the only record Rename deletes is the one at the source name
		ssax.Instrs(fn, func(ins ssa.Instruction) {
			cl, ok := ins.(*ssa.Call)
			if !ok {
				return
			}
			if pi, isSet := sh.setFns[ssax.StaticCallee(cl)]; isSet && ssax.StaticCallee(cl) != nil && ssax.IsNilConst(cl.Call.Args[pi+1]) {
				deletes++
				if cl.Call.Args[pi] != oldP && strayDelete == nil {
					strayDelete = ins
				}
			}
		})
	}
	fn := root
	if strayDelete != nil {
		c.Bad("R03.13", fname(fn)+"|deletes-only-the-source", p.Pos(strayDelete.Pos()), fmt.Sprintf("%s deletes the record of a name other than the source it was asked to move: removing the destination directory's record (an 'undo' after a child failed to move) leaves the children already moved there as entries below a directory that does not exist, reachable by Stat but listed nowhere", fname(fn)))
	} else {
		c.OK("R03.13", fname(fn)+"|deletes-only-the-source", p.Pos(fn.Pos()), fmt.Sprintf("%d deletion(s), each of the source name", deletes))
	}
	key := fname(fn) + "|children-between-dest-and-source"
	switch {
	case !complete:
		c.Unknown("R03.8", key, p.Pos(fn.Pos()), "path enumeration exceeded its cap")
	case recursive == 0:
		c.Bad("R03.8", key, p.Pos(fn.Pos()), fmt.Sprintf("%s moves no children (no recursive call found): the rule cannot locate the directory move", fname(fn)))
	case afterDelete != nil:
		c.Bad("R03.8", key, p.Pos(afterDelete.Pos()), fmt.Sprintf("%s moves a child after the source directory's record was deleted: if that move fails (store fault) the children not yet moved stay below a directory that no longer exists", fname(fn)))
	case beforeDest != nil:
		c.Bad("R03.8", key, p.Pos(beforeDest.Pos()), fmt.Sprintf("%s moves a child before the destination directory's record was stored: the child is an entry below a missing directory until (and unless) the record follows", fname(fn)))
	default:
		c.OK("R03.8", key, p.Pos(fn.Pos()), "every child move happens after the destination record was stored and before the source record is deleted")
	}
}

// r03MountAncestors (R03.9): the mount file system refuses to move a directory that has a mount point at or below it:
// before Rename delegates, the old name is compared with the mount table (a scan of the table in which a stored
// mount path is tested against the name as prefix). Otherwise the mount point keeps resolving (Stat succeeds) but
// its parent no longer exists and no listing contains it.
func r03MountAncestors(c *core.Ctx, p *load.Program) {
	if p.Method("mount", "FS", "Rename") == nil {
		c.Hard("anchor: mount.(*FS).Rename")
		return
	}
	for _, op := range []string{"Rename", "RemoveAll"} {
		r03MountAncestorOp(c, p, op)
	}
}

func r03MountAncestorOp(c *core.Ctx, p *load.Program, op string) {
	rn := p.Method("mount", "FS", op)
	key := "mount.FS." + op + "|refuses-ancestor-of-mount-point"
	if rn == nil {
		// no method of its own: the package-level helper routes the name with Mount() to the file system holding it,
		// which knows nothing about the mount table
		pos := ""
		if n := p.Named("mount", "FS"); n != nil {
			pos = p.Pos(n.Obj().Pos())
		}
		c.Bad("R03.9", key, pos, "mount.FS has no "+op+" of its own: hackpadfs."+op+"(mfs, \"a\") with a file system mounted at a/m is routed to the file system that holds \"a\", which removes a and a/m — Stat(\"a/m\") still resolves through the mount, but a does not exist and no directory lists the mount point")
		return
	}
	// a Range over the mount table (directly or in a callee that receives a name parameter of Rename) whose
	// callback tests HasPrefix(<stored mount path>, name + "/") or equality of a stored path with the name
	checks := false
	var visit func(fn *ssa.Function, d int)
	seen := map[*ssa.Function]bool{}
	visit = func(fn *ssa.Function, d int) {
		if fn == nil || seen[fn] || d > 2 || fn.Blocks == nil {
			return
		}
		seen[fn] = true
		ssax.InstrsDeep(fn, func(f *ssa.Function, ins ssa.Instruction) {
			cl, ok := ins.(*ssa.Call)
			if !ok {
				return
			}
			if ssax.CalleeIs(cl, "strings", "HasPrefix") && f.Parent() != nil {
				// inside a Range callback: first argument is the stored key (type-asserted from the callback's parameter)
				if ta, ok := ssax.Unwrap(cl.Call.Args[0]).(*ssa.TypeAssert); ok {
					if _, isParam := ta.X.(*ssa.Parameter); isParam && endsInSlash(cl.Call.Args[1]) {
						checks = true
					}
				}
			}
			if callee := ssax.StaticCallee(cl); callee != nil && p.InModule(callee) && callee != fn {
				visit(callee, d+1)
			}
		})
	}
	visit(rn, 0)
	c.Check(checks, "R03.9", key, p.Pos(rn.Pos()), "Rename scans the mount table for mount points below the old name before it moves anything",
		"mount.FS."+op+" never compares the old name with the mount table: Rename(\"p\", \"q\") with a file system mounted at p/a succeeds in the underlying file system — Stat(\"p/a\") still resolves through the mount, but p does not exist and no directory lists the mount point (the helpers' Remove/RemoveAll of an ancestor behave alike)")
}

// r03SubRootKept (R03.11): the generic Sub view (the fallback of hackpadfs.Sub, used by mem and keyvalue) has its own
// Remove and RemoveAll, and each hands the name on (Mount / the helper of the same name) only where the name is known
// not to be "." — through the MountFS branch of the helpers Remove(view, ".") resolves to the base directory in the
// parent and removes it: afterwards the root of the view does not exist.
func r03SubRootKept(c *core.Ctx, p *load.Program) {
	n := p.Named("", "subFS")
	if n == nil {
		c.Hard("anchor: hackpadfs.subFS")
		return
	}
	ms := methodsOf(p, n)
	for _, op := range []string{"Remove", "RemoveAll"} {
		key := "hackpadfs.subFS." + op + "|root-of-the-view-is-kept"
		fn := ms[op]
		if fn == nil || fn.Blocks == nil {
			c.Bad("R03.11", key, p.Pos(n.Obj().Pos()), fmt.Sprintf("the generic Sub view has no %s of its own: hackpadfs.%s(view, \".\") takes the MountFS branch, Mount(\".\") resolves to the base directory in the parent file system and that directory is removed — afterwards Stat(view, \".\") fails, the root of the view does not exist", op, op))
			continue
		}
		if len(fn.Params) < 2 {
			c.Hard("anchor: parameters of subFS.%s", op)
			continue
		}
		name := fn.Params[1]
		bad := ""
		calls := 0
		ssax.Instrs(fn, func(ins ssa.Instruction) {
			ci, ok := ins.(ssa.CallInstruction)
			if !ok {
				return
			}
			uses := false
			for _, a := range ci.Common().Args {
				if a == ssa.Value(name) {
					uses = true
				}
			}
			callee := ssax.StaticCallee(ci)
			if !uses || callee == nil || !p.InModule(callee) || callee.Name() == "stripErrPathPrefix" {
				return
			}
			calls++
			if !isRootFact(ins, name, false) {
				bad = p.Pos(ins.Pos())
			}
		})
		switch {
		case calls == 0:
			c.Hard("anchor: subFS.%s hands its name to no function of the module", op)
		case bad != "":
			c.Bad("R03.11", key, bad, fmt.Sprintf("%s hands the name on at %s without having excluded \".\": the base directory of the view is removed in the parent file system and the root of the view stops existing", fname(fn), bad))
		default:
			c.OK("R03.11", key, p.Pos(fn.Pos()), "the name is handed on only where it is known not to be the root of the view")
		}
	}
}
