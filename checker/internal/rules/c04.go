package rules

import (
	"fmt"
	"go/ast"
	"go/token"
	"go/types"
	"sort"
	"strconv"
	"strings"

	"golang.org/x/tools/go/ssa"

	"hpfscheck/internal/core"
	"hpfscheck/internal/load"
	"hpfscheck/internal/ssax"
)

func init() { register(&Spec{ID: "C04", Targets: allTargets, Run: runC04}) }

func runC04(c *core.Ctx) {
	runFixtures(c, "valid")
	c.Explain("'For all strings' collapses to 'on every path the gate dominates the effect'. Decided from source on linux, windows and js/wasm builds, for every function of the module with a string or []string parameter (entry points = exported functions and methods): (R04.1) no value derived from a name parameter reaches a primitive sink — a Store/Transaction call made outside the Store/Transaction implementations, any stdlib os function, an insertion into the mount table — unless the parameter is known to satisfy ValidPath there (dominating ValidPath-true edge; success or ErrNotExist edge of a rejecting call that received the name unchanged; memo hit in a table whose every insertion key is valid; exit of a loop that returns on the first invalid element); (R04.2) no transformed value (path.Join/Dir/Clean, Trim*, slicing, concatenation) derived from a possibly-invalid name is passed as a path to a file-system interface or returned as the sub-path of a Mount implementation — passing the name unchanged is delegation and is the callee's obligation (A1); (R04.3) under the assumption 'this name is invalid' every reachable return of an FS method carries an ErrInvalid-class error (built from ErrInvalid, or the error of a rejecting call on the unchanged name, possibly wrapped), for each name of two-name operations independently; (R04.4) every construction of an ErrInvalid error in a function that has a name in scope is control-dependent on a ValidPath-false edge, a comparison of a name with a constant, or a relational test between two names — never on a test of the characters of a name; (R04.5) only package os imports path/filepath, no other package uses a constant separator other than \"/\" on names, and on targets whose separator is not '/' the OS mapping rejects names containing it. (R04.6) prefix tests between names in keyvalue and mount are on element boundaries. (R04.7) hackpadfs.ValidPath returns exactly io/fs.ValidPath of its argument. (R04.8) = R18.6: a refusal leaves no transaction open; (R04.9) nothing looks for the substring \"..\" in a name. NOT claimed: 'state unchanged' beyond 'no sink executed'; foreign FS implementations (A1).")
	c.Assume("A1: a method invoked through an io/fs.FS / hackpadfs.*FS interface value rejects names that are not ValidPath with an ErrInvalid-class error before any effect (proved here for every FS type of the module; io/fs contract for foreign ones)",
		"A2: path.Dir/Base/Join/Clean of valid paths are valid; stdlib behaves as documented",
		"A3: names returned by a directory listing are single valid path elements",
		"handle-remembered paths and receiver configuration (struct fields) are not name sources; they are validated where they are set (R07.1)")
	c.RuleDoc("R04.1", "gate before primitive sink, per function × name parameter (interprocedural summaries)")
	c.RuleDoc("R04.2", "no transformed possibly-invalid name handed to a file system / returned by Mount")
	c.RuleDoc("R04.3", "invalid name => ErrInvalid-class error on every reachable return")
	c.RuleDoc("R04.4", "ErrInvalid only under allowed guard kinds")
	c.RuleDoc("R04.8", "no path of package keyvalue leaves a transaction open (= R18.6)")
	c.RuleDoc("R04.9", "no substring test for \"..\" on a name")
	c.RuleDoc("R04.7", "hackpadfs.ValidPath answers exactly what io/fs.ValidPath answers")
	c.RuleDoc("R04.6", "no valid name is refused because it merely starts with another name (element-boundary prefix tests)")
	c.RuleDoc("R04.5", "separator discipline")
	for _, p := range c.Progs {
		c.SetProg(p)
		va := newValidAnalysis(p)
		rounds := va.solve()
		c.Info("summary_fixpoint_rounds_"+p.Target.GOOS, rounds)
		r04Entries(c, p, va)
		r04Mounts(c, p, va)
		r04RejectClass(c, p, va)
		r04Converse(c, p)
		r04Separators(c, p)
		// R04.6 (converse): a name relation that refuses names is tested on element boundaries: "log.1" is not below "log"
		boundaryTests(c, p, "R04.6", "keyvalue", "mount", "")
		r04PredicateIsTheStandardOne(c, p)
		// R04.8 (= R18.6): a refusal of an invalid name must not leave a transaction open (the in-memory store stays locked:
		// "changes nothing" includes not wedging the file system)
		if txnI := ifaceOf(p, "keyvalue", "Transaction"); txnI != nil {
			c.WithAlias(map[string]string{"R18.6": "R04.8"}, func() { r18Pairing(c, p, txnI) })
		}
		r04NoSubstringDotDot(c, p, "R04.9")
	}
	c.Floor("R04.1", 60)
	c.Floor("R04.2", 2)
	c.Floor("R04.3", 40)
	c.Floor("R04.4", 8)
	c.Floor("R04.5", 2)
	c.Floor("R04.6", 2)
	c.Floor("R04.7", 1)
	c.Floor("R04.8", 4)
	c.Floor("R04.9", 1)
}

func staticCallerCount(p *load.Program) map[*ssa.Function]int {
	n := map[*ssa.Function]int{}
	for _, fn := range p.SrcFuncs() {
		ssax.Instrs(fn, func(ins ssa.Instruction) {
			if ci, ok := ins.(ssa.CallInstruction); ok {
				if callee := ssax.StaticCallee(ci); callee != nil {
					n[callee]++
				}
			}
		})
	}
	return n
}

func r04Entries(c *core.Ctx, p *load.Program, va *validAnalysis) {
	callers := staticCallerCount(p)
	var fns []*ssa.Function
	for fn := range va.sum {
		fns = append(fns, fn)
	}
	sort.Slice(fns, func(i, j int) bool { return fname(fns[i]) < fname(fns[j]) })
	sinkCount := 0
	for _, fn := range fns {
		if skipPkgForNames(fn) || va.prims[fn] {
			continue
		}
		for _, u := range va.uses[fn] {
			if u.kind == "prim" {
				sinkCount++
			}
		}
		entry := isEntry(fn) || callers[fn] == 0
		for i, s := range va.sum[fn] {
			if s == nil {
				continue
			}
			prm := fn.Params[i]
			key := fname(fn) + "|param:" + prm.Name()
			pos := p.Pos(fn.Pos())
			touches := s.pass || s.prim != "" || s.xform != "" || hasUse(va.uses[fn], i)
			switch {
			case s.prim == "" && s.xform == "":
				if touches {
					c.OK("R04.1", key, pos, "every sink / path operand reached by this name is gated or receives it unchanged")
				} else {
					c.OKTrivial("R04.1", key, pos, "name reaches no sink")
				}
			case !entry:
				c.OK("R04.1", key, pos, "obligation propagated to the callers (unexported, all callers known)")
			default:
				if s.prim != "" {
					c.Bad("R04.1", key, pos, fmt.Sprintf("%s: an invalid %s is not rejected before an effect: %s", fname(fn), prm.Name(), s.prim))
				}
				if s.xform != "" {
					c.Bad("R04.2", key, pos, fmt.Sprintf("%s: a possibly invalid %s is normalised and then used as a path: %s", fname(fn), prm.Name(), s.xform))
				}
			}
		}
	}
	c.Info("primitive_sink_uses_reached_by_names_"+p.Target.GOOS, sinkCount)
}

func hasUse(us []useRec, param int) bool {
	for _, u := range us {
		if u.param == param {
			return true
		}
	}
	return false
}

// r04Mounts: Mount implementations return the name itself or a sub-path computed under validity.
func r04Mounts(c *core.Ctx, p *load.Program, va *validAnalysis) {
	mI := ifaceOf(p, "", "MountFS")
	if mI == nil {
		c.Hard("anchor: hackpadfs.MountFS")
		return
	}
	for _, n := range implementers(p, mI) {
		fn := methodsOf(p, n)["Mount"]
		if fn == nil {
			continue // promoted from an embedded type that is checked itself
		}
		s := va.summary(fn)
		key := typeKey(n) + ".Mount|subpath"
		if len(s) < 2 || s[1] == nil || len(s[1].ret) < 2 {
			c.Hard("R04.2: unexpected signature of %s", fname(fn))
			continue
		}
		if s[1].ret[1] == tTransformed {
			c.Bad("R04.2", key, p.Pos(fn.Pos()), fmt.Sprintf("%s: the returned sub-path is a normalised form of a possibly invalid name (e.g. \"mnt/\" becomes the mount's root \".\"); an invalid name must be passed through unchanged so that the target file system rejects it", fname(fn)))
		} else {
			c.OK("R04.2", key, p.Pos(fn.Pos()), "sub-path is the name itself or computed where the name is known valid")
		}
	}
}

// ---- R04.3 ----

// fsEntryMethods: methods of FS types of the module that implement a method of io/fs.FS or a hackpadfs.*FS interface.
func fsEntryMethods(p *load.Program) []*ssa.Function {
	fsI := stdIface(p, "io/fs", "FS")
	if fsI == nil {
		return nil
	}
	// method names of the hackpadfs.*FS interfaces
	names := map[string]bool{"Open": true}
	sc := p.Pkg("").Types.Scope()
	for _, n := range sc.Names() {
		tn, ok := sc.Lookup(n).(*types.TypeName)
		if !ok || !strings.HasSuffix(n, "FS") {
			continue
		}
		it, ok := tn.Type().Underlying().(*types.Interface)
		if !ok {
			continue
		}
		for i := 0; i < it.NumExplicitMethods(); i++ {
			names[it.ExplicitMethod(i).Name()] = true
		}
	}
	var out []*ssa.Function
	for _, n := range implementers(p, fsI) {
		if strings.HasPrefix(typeKey(n), "fstest.") {
			continue
		}
		ms := methodsOf(p, n)
		var mn []string
		for m := range ms {
			mn = append(mn, m)
		}
		sort.Strings(mn)
		for _, m := range mn {
			if names[m] && m != "Mount" {
				out = append(out, ms[m])
			}
		}
	}
	return out
}

func r04RejectClass(c *core.Ctx, p *load.Program, va *validAnalysis) {
	// greatest fixpoint of InvalidClass over module functions
	type fp struct {
		fn *ssa.Function
		i  int
	}
	type res struct {
		bad string
		inc bool
	}
	results := map[fp]res{}
	for round := 0; round < 8; round++ {
		changed := false
		var fns []*ssa.Function
		for fn := range va.sum {
			fns = append(fns, fn)
		}
		sort.Slice(fns, func(i, j int) bool { return fname(fns[i]) < fname(fns[j]) })
		for _, fn := range fns {
			sums := va.sum[fn]
			if fn.Blocks == nil || errLikeIndex(fn.Signature) < 0 {
				continue
			}
			for i, s := range sums {
				if s == nil {
					continue
				}
				if _, isSlice := fn.Params[i].Type().Underlying().(*types.Slice); isSlice {
					continue
				}
				bad, inc := va.invalidClassCheck(fn, i)
				results[fp{fn, i}] = res{bad, inc}
				nv, nu := bad == "", inc
				if nv != s.invCls || nu != s.invUnknown {
					s.invCls, s.invUnknown = nv, nu
					changed = true
				}
			}
		}
		if !changed {
			break
		}
	}
	inconclusive := []string{}
	for _, fn := range fsEntryMethods(p) {
		for i, prm := range fn.Params {
			if i == 0 || !isStringish(prm.Type()) {
				continue
			}
			if bt, ok := prm.Type().Underlying().(*types.Basic); !ok || bt.Kind() != types.String {
				continue
			}
			if errLikeIndex(fn.Signature) < 0 {
				continue
			}
			key := fname(fn) + "|invalid:" + prm.Name()
			r, ok := results[fp{fn, i}]
			if !ok {
				r.bad, r.inc = va.invalidClassCheck(fn, i)
			}
			switch {
			case r.bad != "":
				c.Bad("R04.3", key, p.Pos(fn.Pos()), fmt.Sprintf("%s with an invalid %s: %s", fname(fn), prm.Name(), r.bad))
			case r.inc:
				inconclusive = append(inconclusive, key)
				c.OKTrivial("R04.3", key, p.Pos(fn.Pos()), "inconclusive: no wrong return found, but the class or feasibility of some return depends on results the analysis does not track (not claimed for this method)")
			default:
				c.OK("R04.3", key, p.Pos(fn.Pos()), "with this name invalid every reachable return carries an ErrInvalid-class error")
			}
		}
	}
	c.Info("r04_3_inconclusive_"+p.Target.GOOS, inconclusive)
}

// tri-state verdicts
const (
	vOK = iota
	vUnknown
	vBad
)

func worse(a, b int) int {
	if a > b {
		return a
	}
	return b
}

// errLikeIndex: index of the last result if it is error, *PathError or *LinkError.
func errLikeIndex(sig *types.Signature) int {
	n := sig.Results().Len()
	if n == 0 {
		return -1
	}
	t := sig.Results().At(n - 1).Type()
	if ssax.IsErrorType(t) || isErrPtr(t) {
		return n - 1
	}
	return -1
}

func errLikeValueOf(c *ssa.Call) ssa.Value {
	idx := errLikeIndex(c.Call.Signature())
	if idx < 0 {
		return nil
	}
	if c.Call.Signature().Results().Len() == 1 {
		return c
	}
	if e := ssax.ExtractOf(c, idx); e != nil {
		return e
	}
	return nil
}

// invalidClassCheck enumerates the paths of fn under the assumption "parameter pi is not a valid path".
// Returns "" and inconclusive=false if every reachable return carries an ErrInvalid-class error; a description of
// the offending return otherwise; inconclusive=true when no return is wrong but the feasibility or class of some
// path depends on values the analysis does not track (results of calls that are not known to reject).
func (va *validAnalysis) invalidClassCheck(fn *ssa.Function, pi int) (string, bool) {
	lv := va.levels(fn, pi)
	eidx := errLikeIndex(fn.Signature)
	if eidx < 0 {
		return "", false
	}
	bad := ""
	inconclusive := false
	// calls that, given the invalid name unchanged, fail with an ErrInvalid-class error
	callClass := func(c *ssa.Call) int { // vOK: fails ErrInvalid-class; vUnknown: received the root but is not known to; vBad: unrelated
		cc := c.Common()
		tainted := false
		for _, a := range cc.Args {
			if lv[a] > tNone {
				tainted = true
			}
		}
		// a look-up made with a name that was only derived from the root (path.Dir, path.Join, Clean…): its outcome
		// says nothing about the root's validity, and its error — not-exist, not-a-directory — is not ErrInvalid-class
		onlyTransformed := tainted
		for _, a := range cc.Args {
			if lv[a] == tUnchanged {
				onlyTransformed = false
			}
		}
		if cc.IsInvoke() {
			if va.isFSIface(cc.Value.Type()) {
				for _, a := range cc.Args {
					if isStringish(a.Type()) && lv[a] == tUnchanged {
						return vOK
					}
				}
				if onlyTransformed {
					return vBad
				}
			}
			if tainted {
				return vUnknown
			}
			return vBad
		}
		callee := cc.StaticCallee()
		if callee == nil || !va.p.InModule(callee) || callee.Blocks == nil {
			if tainted {
				return vUnknown
			}
			return vBad
		}
		if alwaysInvalidClass(callee, 0) {
			return vOK // its error, when non-nil, is ErrInvalid-class whatever the argument
		}
		sums := va.summary(callee)
		for i, a := range cc.Args {
			if lv[a] == tUnchanged && i < len(sums) && sums[i] != nil && sums[i].invCls && !sums[i].invUnknown && sums[i].reject {
				if _, isSlice := a.Type().Underlying().(*types.Slice); !isSlice {
					return vOK
				}
			}
		}
		if onlyTransformed && va.isLookup(callee) {
			return vBad
		}
		if tainted {
			return vUnknown
		}
		return vBad
	}
	invCall := func(c *ssa.Call) bool {
		if callClass(c) != vOK {
			return false
		}
		// must actually fail on this (invalid) root: the root is passed unchanged
		for _, a := range c.Call.Args {
			if lv[a] == tUnchanged {
				return true
			}
		}
		return false
	}
	var class func(s *ssax.PathState, v ssa.Value, depth int) int
	class = func(s *ssax.PathState, v ssa.Value, depth int) int {
		if depth > 6 {
			return vUnknown
		}
		v = s.Resolve(v)
		switch x := v.(type) {
		case *ssa.Const:
			return vBad
		case *ssa.MakeInterface:
			if g := ssax.GlobalLoad(x.X); g != nil {
				switch sentinelOfGlobal(g) {
				case "ErrInvalid":
					return vOK
				case "ErrNotImplemented":
					return vOK // exempt: the operation does not exist on this file system, no name was looked at (C08 governs it)
				}
				return vBad
			}
			if a, ok := x.X.(*ssa.Alloc); ok {
				return class(s, a, depth+1)
			}
			return class(s, x.X, depth+1)
		case *ssa.Alloc:
			if n := namedOfPtr(x.Type()); n != nil && (n.Obj().Name() == "PathError" || n.Obj().Name() == "LinkError") {
				sts := fieldStores(x, "Err")
				if len(sts) == 0 {
					return vUnknown
				}
				r := vOK
				for _, st := range sts {
					r = worse(r, class(s, st.Val, depth+1))
				}
				return r
			}
			return vBad
		case *ssa.UnOp:
			if g := ssax.GlobalLoad(x); g != nil {
				if sentinelOfGlobal(g) == "ErrInvalid" {
					return vOK
				}
				return vBad
			}
			if x.Op == token.MUL {
				// err.Err of an ErrInvalid-class *PathError (os.Rename builds a LinkError from pathErr.Err)
				if fa, ok := x.X.(*ssa.FieldAddr); ok && ssax.FieldName(fa) == "Err" {
					return class(s, fa.X, depth+1)
				}
				if derivesFromTaintedCall(x, lv) {
					return vUnknown
				}
			}
			return vBad
		case *ssa.Extract:
			if cl, ok := x.Tuple.(*ssa.Call); ok {
				cc := callClass(cl)
				if cc == vOK {
					return vOK
				}
				if r, ok := va.wrapperPreserves3(cl, func(arg ssa.Value) int { return class(s, arg, depth+1) }); ok {
					return r
				}
				return cc
			}
			return vBad
		case *ssa.Call:
			cc := callClass(x)
			if cc == vOK {
				return vOK
			}
			if r, ok := va.wrapperPreserves3(x, func(arg ssa.Value) int { return class(s, arg, depth+1) }); ok {
				return r
			}
			return cc
		case *ssa.Phi:
			r := vOK
			for _, e := range x.Edges {
				r = worse(r, class(s, e, depth+1))
			}
			return r
		case *ssa.TypeAssert:
			return class(s, x.X, depth+1)
		case *ssa.ChangeInterface:
			return class(s, x.X, depth+1)
		}
		return vBad
	}
	complete := ssax.EnumPaths(fn, fn.Blocks[0], 0, nil, ssax.PathHooks{
		Instr: func(s *ssax.PathState, ins ssa.Instruction) {
			// the error of an invCall is non-nil on this path
			if cl, ok := ins.(*ssa.Call); ok && invCall(cl) {
				if ev := errLikeValueOf(cl); ev != nil {
					s.SetNil(ev, ssax.NonNil)
				}
			}
		},
		EvalCond: func(s *ssax.PathState, cond ssa.Value) (bool, bool) {
			if cl, ok := cond.(*ssa.Call); ok && isValidPathCall(cl) && lv[cl.Call.Args[0]] == tUnchanged {
				return false, true
			}
			// a memo table whose every key is valid cannot hit for an invalid name
			if ex, ok := cond.(*ssa.Extract); ok && ex.Index == 1 {
				if mc, ok := ex.Tuple.(*ssa.Call); ok && ssax.CalleeIs(mc, "sync", "(*Map).Load") && len(mc.Call.Args) == 2 {
					key := mc.Call.Args[1]
					if mi, ok := key.(*ssa.MakeInterface); ok {
						key = mi.X
					}
					if lv[key] == tUnchanged {
						if cls := lockClass(mc.Call.Args[0]); cls != "" && va.memoInsertKeysValid(cls) {
							return false, true
						}
					}
				}
			}
			if ev, sent, ok := isErrorsIs(cond); ok {
				r := s.Resolve(ev)
				if s.NilOf(r) == ssax.IsNil {
					return false, true
				}
				// the error of an invCall is ErrInvalid-class: errors.Is(e, <other sentinel>) is false
				if cl := callProducing(r); cl != nil && invCall(cl) && sent != "" && sent != "ErrInvalid" {
					return false, true
				}
			}
			return false, false
		},
		Branch: func(s *ssax.PathState, cond ssa.Value, taken bool) {
			cnd, _ := ssax.StripNot(cond, taken)
			var ops []ssa.Value
			switch x := cnd.(type) {
			case *ssa.BinOp:
				ops = []ssa.Value{x.X, x.Y}
			case *ssa.Call:
				ops = x.Call.Args
			default:
				ops = []ssa.Value{cnd}
			}
			for _, o := range ops {
				if derivesFromTaintedCall(s.Resolve(o), lv) {
					if cl := callProducing(s.Resolve(o)); cl != nil {
						if invCall(cl) {
							continue
						}
						// a memo-table look-up with a name-derived key: both outcomes are genuinely possible
						// (a hit for an invalid spelling is exactly the defect to find), not an untracked value
						if ssax.CalleeIs(cl, "sync", "(*Map).Load") {
							continue
						}
						// a look-up with a derived name (parent directory…): both outcomes are possible whatever the
						// root's validity; its error class is judged where it is returned
						if callClass(cl) == vBad {
							continue
						}
					}
					s.Counts["opaque"] = 1
				}
			}
		},
		End: func(s *ssax.PathState, last ssa.Instruction) {
			r := last.(*ssa.Return)
			e := resolveSpilledOnPath(r.Results[eidx], r, s)
			v := class(s, e, 0)
			if v == vOK {
				return
			}
			if v == vUnknown || s.Counts["opaque"] > 0 {
				inconclusive = true
				return
			}
			if bad != "" {
				return
			}
			what := "an error that is not ErrInvalid-class"
			if ssax.IsNilConst(s.Resolve(e)) || s.NilOf(e) == ssax.IsNil {
				what = "nil (success)"
			} else if info := classifyErr(s.Resolve(e)); len(info.Sentinels) > 0 {
				what = "an error of class " + info.String()
			}
			bad = fmt.Sprintf("the return at %s yields %s instead of an error matching ErrInvalid", va.p.Pos(r.Pos()), what)
		},
		MaxPaths: 20000,
	})
	if !complete && bad == "" {
		return "", true
	}
	return bad, inconclusive && bad == ""
}

// derivesFromTaintedCall: v is (an element/field/extract/phi of) the result of a call that received a root-derived value.
func derivesFromTaintedCall(v ssa.Value, lv map[ssa.Value]tlevel) bool {
	seen := map[ssa.Value]bool{}
	var walk func(x ssa.Value, d int) bool
	walk = func(x ssa.Value, d int) bool {
		if x == nil || seen[x] || d > 10 {
			return false
		}
		seen[x] = true
		switch y := x.(type) {
		case *ssa.Call:
			for _, a := range y.Call.Args {
				if lv[a] > tNone {
					return true
				}
			}
			return false
		case *ssa.Extract:
			return walk(y.Tuple, d+1)
		case *ssa.UnOp:
			return walk(y.X, d+1)
		case *ssa.IndexAddr:
			return walk(y.X, d+1)
		case *ssa.Index:
			return walk(y.X, d+1)
		case *ssa.FieldAddr:
			return walk(y.X, d+1)
		case *ssa.Field:
			return walk(y.X, d+1)
		case *ssa.Phi:
			for _, e := range y.Edges {
				if walk(e, d+1) {
					return true
				}
			}
		case *ssa.TypeAssert:
			return walk(y.X, d+1)
		case *ssa.MakeInterface:
			return walk(y.X, d+1)
		case *ssa.ChangeInterface:
			return walk(y.X, d+1)
		case *ssa.Alloc:
			stores, _ := ssax.CellStores(y)
			for _, st := range stores {
				if walk(st.Val, d+1) {
					return true
				}
			}
		}
		return false
	}
	return walk(v, 0)
}

// wrapperPreserves3 is wrapperPreserves with tri-state argument verdicts.
func (va *validAnalysis) wrapperPreserves3(c *ssa.Call, argV func(ssa.Value) int) (int, bool) {
	res := vOK
	shape := va.wrapperPreserves(c, func(a ssa.Value) bool {
		res = worse(res, argV(a))
		return true
	})
	if !shape {
		return vBad, false
	}
	return res, true
}

// wrapperPreserves: call to a module function whose error result is nil or wraps/forwards one of its error
// arguments class-preservingly (wrapperErr, stripErrPathPrefix, wrapErr, ignoreErrExist…): the class of the result is
// the class of that argument.
func (va *validAnalysis) wrapperPreserves(c *ssa.Call, argOK func(ssa.Value) bool) bool {
	if va.wpDepth > 4 {
		return false
	}
	va.wpDepth++
	defer func() { va.wpDepth-- }()
	callee := ssax.StaticCallee(c)
	if callee == nil || !va.p.InModule(callee) || callee.Blocks == nil {
		return false
	}
	eidx := ssax.ErrorResultIndex(callee.Signature)
	if eidx < 0 {
		return false
	}
	// which error-typed parameters can the result derive from?
	derives := map[int]bool{}
	okShape := true
	var from func(v ssa.Value, depth int) bool
	from = func(v ssa.Value, depth int) bool {
		if depth > 8 {
			return false
		}
		switch x := v.(type) {
		case *ssa.Const:
			return x.IsNil()
		case *ssa.Parameter:
			for i, q := range callee.Params {
				if q == x && (ssax.IsErrorType(q.Type()) || isErrPtr(q.Type())) {
					derives[i] = true
					return true
				}
			}
			return false
		case *ssa.Phi:
			for _, e := range x.Edges {
				if !from(e, depth+1) {
					return false
				}
			}
			return true
		case *ssa.MakeInterface:
			if a, ok := x.X.(*ssa.Alloc); ok {
				sts := fieldStores(a, "Err")
				if len(sts) == 0 {
					// struct copy *e : errCopy := *e
					return fromCopy(a, from, depth)
				}
				for _, st := range sts {
					if !from(st.Val, depth+1) {
						return false
					}
				}
				return true
			}
			return from(x.X, depth+1)
		case *ssa.UnOp:
			if x.Op == token.MUL {
				if fa, ok := x.X.(*ssa.FieldAddr); ok && ssax.FieldName(fa) == "Err" {
					return from(fa.X, depth+1)
				}
				if a, ok := x.X.(*ssa.Alloc); ok {
					stores, _ := ssax.CellStores(a)
					if len(stores) == 0 {
						return false
					}
					for _, st := range stores {
						if !from(st.Val, depth+1) {
							return false
						}
					}
					return true
				}
			}
			return false
		case *ssa.TypeAssert:
			return from(x.X, depth+1)
		case *ssa.Extract:
			if ta, ok := x.Tuple.(*ssa.TypeAssert); ok {
				return from(ta.X, depth+1)
			}
			if cl, ok := x.Tuple.(*ssa.Call); ok {
				return va.wrapperPreserves(cl, func(arg ssa.Value) bool { return from(arg, depth+1) })
			}
			return false
		case *ssa.Call:
			return va.wrapperPreserves(x, func(arg ssa.Value) bool { return from(arg, depth+1) })
		case *ssa.ChangeInterface:
			return from(x.X, depth+1)
		case *ssa.Alloc:
			sts := fieldStores(x, "Err")
			if len(sts) == 0 {
				return fromCopy(x, from, depth)
			}
			for _, st := range sts {
				if !from(st.Val, depth+1) {
					return false
				}
			}
			return true
		}
		return false
	}
	for _, r := range ssax.Returns(callee) {
		if !from(resolveSpilled(r.Results[eidx], r), 0) {
			okShape = false
		}
	}
	if !okShape || len(derives) == 0 {
		return false
	}
	for i := range derives {
		if i >= len(c.Call.Args) || !argOK(c.Call.Args[i]) {
			return false
		}
	}
	return true
}

func isErrPtr(t types.Type) bool {
	n := namedOfPtr(t)
	return n != nil && (n.Obj().Name() == "PathError" || n.Obj().Name() == "LinkError")
}

// fromCopy: alloc initialised by copying *src (errCopy := *e) — derives from src.
func fromCopy(a *ssa.Alloc, from func(ssa.Value, int) bool, depth int) bool {
	if a.Referrers() == nil {
		return false
	}
	for _, r := range *a.Referrers() {
		if st, ok := r.(*ssa.Store); ok && st.Addr == ssa.Value(a) {
			if u, ok := st.Val.(*ssa.UnOp); ok && u.Op == token.MUL {
				return from(u.X, depth+1)
			}
		}
	}
	return false
}

// ---- R04.4 ----

func r04Converse(c *core.Ctx, p *load.Program) {
	fileI := stdIface(p, "io/fs", "File")
	isFileMethod := func(fn *ssa.Function) bool {
		if fn.Signature.Recv() == nil || fileI == nil {
			return false
		}
		t := fn.Signature.Recv().Type()
		return types.Implements(t, fileI)
	}
	for _, fn := range p.SrcFuncs() {
		root := fn
		for root.Parent() != nil {
			root = root.Parent()
		}
		if skipPkgForNames(root) || isFileMethod(root) {
			continue
		}
		// OS-path conversions are not FS names
		switch fname(root) {
		case "(*os.FS).FromOSPath", "(*os.FS).fromOSPath", "(*os.FS).SubVolume":
			continue
		}
		var names []*ssa.Parameter
		for _, prm := range root.Params {
			if isStringish(prm.Type()) {
				names = append(names, prm)
			}
		}
		if len(names) == 0 {
			continue
		}
		ord := ordinals{}
		ssax.Instrs(fn, func(ins ssa.Instruction) {
			u, ok := ins.(*ssa.UnOp)
			if !ok {
				return
			}
			g := ssax.GlobalLoad(u)
			if g == nil || sentinelOfGlobal(g) != "ErrInvalid" {
				return
			}
			key := fname(fn) + "|" + ord.next("ErrInvalid")
			kind := allowedInvalidGuard(u.Block(), names, 0)
			if kind != "" {
				c.OK("R04.4", key, p.Pos(u.Pos()), "ErrInvalid constructed under guard: "+kind)
			} else {
				c.Bad("R04.4", key, p.Pos(u.Pos()), fmt.Sprintf("%s: an ErrInvalid error is constructed under a guard that is neither a failed ValidPath, a comparison of a name with a constant, nor a relation between two names — a valid name (e.g. one containing '\\\\' or ':') could be refused as invalid", fname(fn)))
			}
		})
	}
}

// allowedInvalidGuard: the block is control-dependent on an allowed guard kind; returns its description.
func allowedInvalidGuard(b *ssa.BasicBlock, names []*ssa.Parameter, depth int) string {
	isName := func(v ssa.Value) bool {
		for _, n := range names {
			if v == ssa.Value(n) {
				return true
			}
		}
		// values derived from a name by path functions / element of the name slice
		return false
	}
	kindOf := func(cond ssa.Value, val bool) string {
		cnd, v := ssax.StripNot(cond, val)
		if cl, ok := cnd.(*ssa.Call); ok && isValidPathCall(cl) && !v {
			return "ValidPath false"
		}
		if bo, ok := cnd.(*ssa.BinOp); ok && (bo.Op == token.EQL || bo.Op == token.NEQ) {
			_, cx := bo.X.(*ssa.Const)
			_, cy := bo.Y.(*ssa.Const)
			if (cx && isStringish(bo.Y.Type())) || (cy && isStringish(bo.X.Type())) {
				return "name compared with a constant"
			}
			if isName(bo.X) && isName(bo.Y) {
				return "relation between two names"
			}
		}
		if cl, ok := cnd.(*ssa.Call); ok {
			// relational helper taking two names (HasPrefix(new, old+"/"))
			n := 0
			for _, a := range cl.Call.Args {
				if dependsOn(a, isName) {
					n++
				}
			}
			if n >= 2 {
				return "relation between two names"
			}
		}
		return ""
	}
	for _, f := range ssax.FactsAt(b) {
		if k := kindOf(f.Cond, f.Val); k != "" {
			return k
		}
	}
	if depth < 2 && len(b.Preds) > 1 {
		all := ""
		for _, pr := range b.Preds {
			ifi, ok := pr.Instrs[len(pr.Instrs)-1].(*ssa.If)
			if !ok {
				if k := allowedInvalidGuard(pr, names, depth+1); k != "" {
					all = k
					continue
				}
				return ""
			}
			k := kindOf(ifi.Cond, pr.Succs[0] == b)
			if k == "" {
				k = allowedInvalidGuard(pr, names, depth+1)
			}
			if k == "" {
				return ""
			}
			all = k
		}
		return all
	}
	return ""
}

// ---- R04.5 ----

func r04Separators(c *core.Ctx, p *load.Program) {
	var offenders []string
	for _, pk := range p.Pkgs {
		rel := strings.TrimPrefix(strings.TrimPrefix(pk.PkgPath, mod), "/")
		for _, f := range pk.Syntax {
			for _, im := range f.Imports {
				path, _ := strconv.Unquote(im.Path.Value)
				if path == "path/filepath" && rel != "os" {
					offenders = append(offenders, p.Pos(im.Pos())+" imports path/filepath")
				}
			}
			if rel == "os" || rel == "fstest" || strings.HasPrefix(rel, "internal/assert") {
				continue
			}
			ast.Inspect(f, func(n ast.Node) bool {
				call, ok := n.(*ast.CallExpr)
				if !ok {
					return true
				}
				sel, ok := call.Fun.(*ast.SelectorExpr)
				if !ok {
					return true
				}
				id, ok := sel.X.(*ast.Ident)
				if !ok {
					return true
				}
				pn, ok := pk.TypesInfo.Uses[id].(*types.PkgName)
				if !ok || pn.Imported().Path() != "strings" {
					return true
				}
				for _, a := range call.Args {
					tv, ok := pk.TypesInfo.Types[a]
					if !ok || tv.Value == nil {
						continue
					}
					s := tv.Value.ExactString()
					if strings.Contains(s, `\\`) || strings.Contains(s, ":") {
						offenders = append(offenders, p.Pos(call.Pos())+" strings."+sel.Sel.Name+" with separator-like constant "+s)
					}
				}
				return true
			})
		}
	}
	c.Check(len(offenders) == 0, "R04.5", "separator-scan", "-", "only package os imports path/filepath; no other package splits names on '\\' or ':'",
		"names are split or matched on a byte other than '/' outside package os: "+strings.Join(offenders, "; "))
	// OS mapping on targets whose separator is not '/'
	if p.Target.GOOS == "windows" {
		fn := p.Method("os", "FS", "toOSPath")
		if fn == nil {
			c.Hard("anchor: os.(*FS).toOSPath")
			return
		}
		// a guard that rejects names containing the OS separator before the '/' -> separator replacement
		found := false
		ssax.Instrs(fn, func(ins ssa.Instruction) {
			cl, ok := ins.(*ssa.Call)
			if !ok {
				return
			}
			callee := ssax.StaticCallee(cl)
			if callee == nil || callee.Pkg == nil || callee.Pkg.Pkg.Path() != "strings" {
				return
			}
			if strings.HasPrefix(callee.Name(), "Contains") || strings.HasPrefix(callee.Name(), "Index") {
				found = true
			}
		})
		c.Check(found, "R04.5", "os.toOSPath|separator-reject", p.Pos(fn.Pos()), "names containing the OS separator are rejected",
			"(*os.FS).toOSPath on GOOS=windows replaces '/' by '\\' without rejecting or escaping names that already contain '\\': the valid name \"a\\\\b\" addresses a\\b (two elements) — a backslash inside an element is treated as a separator")
	}
}

// DebugInvalid prints the invalid-class verdict of selected functions (development aid).
func DebugInvalid(p *load.Program, names ...string) {
	va := newValidAnalysis(p)
	va.solve()
	if f := p.Func("", "stripErrPathPrefix"); f != nil {
		fmt.Println("nilReflecting(strip) =", nilReflecting(f))
		for _, r := range ssax.Returns(f) {
			e := resolveSpilled(r.Results[0], r)
			fmt.Printf("  ret %s: %T %v nonnil=%v\n", p.Pos(r.Pos()), e, e, definitelyNonNilErr(e))
		}
	}
	debugReject = true
	for _, fn := range p.SrcFuncs() {
		for _, n := range names {
			if fname(fn) == n {
				va.recompute(fn)
			}
		}
	}
	debugReject = false
	for round := 0; round < 4; round++ {
		for fn, sums := range va.sum {
			for i, s := range sums {
				if s == nil || ssax.ErrorResultIndex(fn.Signature) < 0 {
					continue
				}
				bad, inc := va.invalidClassCheck(fn, i)
				s.invCls, s.invUnknown = bad == "", inc
			}
		}
	}
	for _, fn := range p.SrcFuncs() {
		for _, n := range names {
			if fname(fn) == n {
				for i, s := range va.summary(fn) {
					if s != nil {
						fmt.Printf("%s param %d: reject=%v invCls=%v pass=%v prim=%q xform=%q ret=%v\n   verdict: %s\n", n, i, s.reject, s.invCls, s.pass, s.prim, s.xform, s.ret, fmt.Sprint(va.invalidClassCheck(fn, i)))
					}
				}
			}
		}
	}
}

var alwaysInvMemo = map[*ssa.Function]bool{}

// alwaysInvalidClass: every error fn can return is nil or ErrInvalid-class (rootedPath/toOSPath style validators).
func alwaysInvalidClass(fn *ssa.Function, depth int) bool {
	if v, ok := alwaysInvMemo[fn]; ok {
		return v
	}
	if fn == nil || fn.Blocks == nil || depth > 3 {
		return false
	}
	eidx := errLikeIndex(fn.Signature)
	if eidx < 0 {
		return false
	}
	alwaysInvMemo[fn] = false
	ok, any := true, false
	for _, r := range ssax.Returns(fn) {
		e := resolveSpilled(r.Results[eidx], r)
		if ssax.IsNilConst(e) {
			continue
		}
		any = true
		if cl := callProducing(e); cl != nil {
			if callee := ssax.StaticCallee(cl); callee != nil && alwaysInvalidClass(callee, depth+1) {
				continue
			}
			ok = false
			continue
		}
		info := classifyErr(e)
		if _, isAlloc := e.(*ssa.Alloc); isAlloc {
			info = classifyErr(e)
		}
		if !info.only("ErrInvalid", false) {
			ok = false
		}
	}
	alwaysInvMemo[fn] = ok && any
	return ok && any
}

// isLookup: a module method that answers a name with (value, error) — an FS-level method of a file-system type or an
// unexported look-up of one (getFile, Stat…): its error for a valid-looking derived name is not-exist/not-dir class.
func (va *validAnalysis) isLookup(callee *ssa.Function) bool {
	if callee == nil || callee.Signature.Recv() == nil {
		return false
	}
	if errLikeIndex(callee.Signature) < 0 {
		return false
	}
	rt := callee.Signature.Recv().Type()
	if fsI := stdIface(va.p, "io/fs", "FS"); fsI != nil && (types.Implements(rt, fsI) || types.Implements(types.NewPointer(rt), fsI)) {
		return true
	}
	return false
}

// r04PredicateIsTheStandardOne (R04.7): every gate of the module asks hackpadfs.ValidPath; the class of names that is
// refused is io/fs.ValidPath's, no narrower and no wider: every return of hackpadfs.ValidPath is the result of
// io/fs.ValidPath applied to its parameter. An extra refusal ("also NUL and broken UTF-8, in one pass" — which refuses a
// correctly encoded U+FFFD as well) makes valid names fail with ErrInvalid in every file system at once.
func r04PredicateIsTheStandardOne(c *core.Ctx, p *load.Program) {
	fn := p.Func("", "ValidPath")
	if fn == nil || len(fn.Params) != 1 {
		c.Hard("anchor: hackpadfs.ValidPath")
		return
	}
	bad := ""
	n := 0
	for _, r := range ssax.Returns(fn) {
		n++
		v := resolveSpilled(r.Results[0], r)
		cl, ok := v.(*ssa.Call)
		if !ok || !ssax.CalleeIs(cl, "io/fs", "ValidPath") || len(cl.Call.Args) != 1 || cl.Call.Args[0] != ssa.Value(fn.Params[0]) {
			bad = p.Pos(r.Pos())
		}
	}
	c.Check(bad == "" && n > 0, "R04.7", "hackpadfs.ValidPath|is-io/fs.ValidPath", p.Pos(fn.Pos()), "every return is io/fs.ValidPath(path)",
		fmt.Sprintf("hackpadfs.ValidPath returns at %s something other than io/fs.ValidPath of its argument: the predicate behind every gate of the module is narrower or wider than the io/fs one — names io/fs calls valid (a correctly encoded U+FFFD, say) fail with ErrInvalid in every file system, or invalid ones pass", bad))
}

// r04NoSubstringDotDot (R04.9 / R07.13): nothing in the module tests a name for the SUBSTRING "..": `notes..bak` and
// `..hidden` are valid names (ValidPath looks at whole elements); a gate widened with strings.Contains(name, "..")
// refuses them with ErrInvalid in one layer while the layer below accepts them.
func r04NoSubstringDotDot(c *core.Ctx, p *load.Program, rule string) {
	bad := ""
	for _, rel := range []string{"", "mount", "keyvalue", "mem", "cache", "tar", "os"} {
		for _, fn := range pkgFuncs(p, rel) {
			ssax.Instrs(fn, func(ins ssa.Instruction) {
				cl, ok := ins.(*ssa.Call)
				if !ok || bad != "" {
					return
				}
				callee := ssax.StaticCallee(cl)
				if callee == nil || callee.Pkg == nil || callee.Pkg.Pkg.Path() != "strings" {
					return
				}
				switch callee.Name() {
				case "Contains", "Index", "Count", "LastIndex":
				default:
					return
				}
				for _, a := range cl.Call.Args {
					if s, ok := ssax.ConstString(a); ok && strings.Contains(s, "..") && !strings.Contains(s, "/") {
						bad = fname(fn) + " at " + p.Pos(cl.Pos())
					}
				}
			})
		}
	}
	c.Check(bad == "", rule, "module|no-substring-test-for-dot-dot", "-", "no strings.Contains/Index/Count with \"..\"",
		fmt.Sprintf("%s looks for the substring \"..\" in a name: names such as notes..bak or ..hidden are valid (only a whole element \"..\" is not), so this layer refuses with ErrInvalid what the file system below accepts — a file written through another route cannot be opened here", bad))
}
