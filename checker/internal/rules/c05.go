package rules

import (
	"fmt"
	"go/token"
	"sort"
	"strings"

	"golang.org/x/tools/go/ssa"

	"hpfscheck/internal/core"
	"hpfscheck/internal/load"
	"hpfscheck/internal/ssax"
)

func init() { register(&Spec{ID: "C05", Targets: allTargets, Run: runC05}) }

func runC05(c *core.Ctx) {
	c.Explain("Structural clauses of C05 decided from source by an abstract interpretation of error values (nil / *PathError or *LinkError with the provenance of each path field / error of a file-system interface call with the provenance of the path it was given / raw), with per-function summaries substituted at call sites, on linux, windows and js/wasm builds, for every method of every FS type that implements an io/fs.FS / hackpadfs.*FS method and every package-level helper taking an FS: (R05.1) no raw error (bare sentinel, errors.New/fmt.Errorf, store/record/handler/io error) is returned: every possibly non-nil error is a *PathError (single-name operations) or *LinkError (Rename, Symlink), the error of an interface call that received the caller's name, or such an error passed through a translator; (R05.2) path fields come from the caller's name (the parameter, or a path derived from it), never the empty constant, a Mount sub-path (inner namespace), an OS path, a base name or an untracked string; an error of a call made with an inner or OS path must pass through the translator with the (name, subPath) pair of the Mount call that produced the inner path; LinkError.Old/New come from the old/new parameter respectively; (R05.3) the mount translator can produce a path longer than its input (it concatenates a name-derived prefix) — a trim-only translator cannot be right for a real mount point; (R05.4 = R08.3, checked under C08). NOT claimed: that the path equals the one package os would name; sentinel agreement with os per situation; correctness of the translator's string arithmetic beyond R05.3.")
	c.Assume("A1: an interface-dispatched FS method returns *PathError/*LinkError naming the path it was given", "A2: standard os functions return *PathError/*LinkError/*SyscallError naming the OS path they were given",
		"errors of File methods (handle.Stat/Close/Read…) are the handle's own and accepted as they are")
	c.RuleDoc("R05.1", "typed errors only (no raw error leaves an FS-level entry point)")
	c.RuleDoc("R05.2", "path fields in the caller's namespace; inner/OS-namespace errors translated with the right pair")
	c.RuleDoc("R05.3", "mount translator is expansive")
	for _, p := range c.Progs {
		c.SetProg(p)
		eng := newErrEngine(p)
		entries := append([]*ssa.Function{}, fsEntryMethods(p)...)
		for _, h := range helperFuncs(p) {
			if len(h.Params) > 0 && eng.isFSIface(h.Params[0].Type()) {
				entries = append(entries, h)
			}
		}
		sort.Slice(entries, func(i, j int) bool { return fname(entries[i]) < fname(entries[j]) })
		n := 0
		for _, fn := range entries {
			if errLikeIndex(fn.Signature) < 0 {
				continue
			}
			if strings.HasPrefix(fname(fn), "(*internal/mounttest.") {
				continue // pure forwards to the helpers, which are entries themselves
			}
			n++
			r05Entry(c, p, eng, fn)
		}
		if n < 60 {
			c.Hard("anchor: expected >= 60 FS-level entry points, found %d", n)
		}
		r05Expansive(c, p, eng)
	}
	c.Floor("R05.1", 60)
	c.Floor("R05.2", 60)
	c.Floor("R05.3", 1)
}

func nameParamIdx(fn *ssa.Function) []int {
	var out []int
	for i, prm := range fn.Params {
		if isStr(prm.Type()) {
			out = append(out, i)
		}
	}
	return out
}

func r05Entry(c *core.Ctx, p *load.Program, eng *errEngine, fn *ssa.Function) {
	sum := eng.summary(fn)
	isLink := fn.Name() == "Rename" || fn.Name() == "Symlink"
	names := nameParamIdx(fn)
	var raw, ns []string
	okProv := func(n strProv, wantParam int) (bool, string) {
		s := string(n)
		switch {
		case strings.HasPrefix(s, "param:"), strings.HasPrefix(s, "pderived:"):
			if wantParam >= 0 && paramOf(n) != fmt.Sprint(wantParam) && paramOf(n) != "translated" {
				return false, fmt.Sprintf("comes from parameter #%s, expected #%d", paramOf(n), wantParam)
			}
			return true, ""
		case s == "handle", s == "listing", s == "errfield:caller":
			return true, ""
		case s == "const:":
			return false, "is the empty string"
		case strings.HasPrefix(s, "const:"):
			return false, "is a constant"
		case s == "inner", s == "errfield:inner":
			return false, "is a path of the inner (mounted) file system's namespace"
		case s == "os", s == "errfield:os":
			return false, "is an absolute OS path"
		case s == "basename":
			return false, "is only the base name (FileInfo.Name())"
		}
		return false, "has untracked provenance (" + s + ")"
	}
	for _, a := range sum {
		switch a.Kind {
		case "nil", "fileiface":
		case "raw", "errparam":
			d := a.Desc
			if a.Kind == "errparam" {
				d = "an error parameter"
			}
			raw = append(raw, fmt.Sprintf("%s (at %s)", d, p.Pos(a.Pos)))
		case "typed":
			if a.T == "any" {
				// translated error of a delegate: typed by A1/A2
			} else if isLink && a.T != "LinkError" {
				raw = append(raw, fmt.Sprintf("a *PathError where a *LinkError is required (at %s)", p.Pos(a.Pos)))
			}
			if a.T != "any" && !isLink && a.T != "PathError" {
				raw = append(raw, fmt.Sprintf("a *LinkError from a single-name operation (at %s)", p.Pos(a.Pos)))
			}
			for i, n := range a.NS {
				want := -1
				if a.T == "LinkError" && len(names) >= 2 && i < 2 {
					want = names[i]
				}
				if ok, why := okProv(n, want); !ok {
					f := "Path"
					if a.T == "LinkError" {
						f = []string{"Old", "New"}[i%2]
					}
					ns = append(ns, fmt.Sprintf("%s.%s %s (at %s)", a.T, f, why, p.Pos(a.Pos)))
				}
			}
		case "iface":
			for _, n := range a.NS {
				s := string(n)
				if strings.HasPrefix(s, "param:") || strings.HasPrefix(s, "pderived:") || s == "handle" || s == "listing" || strings.HasPrefix(s, "const:") {
					continue
				}
				_, why := okProv(n, -1)
				ns = append(ns, fmt.Sprintf("the error of %s, called with a path that %s, is returned untranslated (at %s)", a.Desc, why, p.Pos(a.Pos)))
			}
		}
	}
	key := fname(fn)
	pos := p.Pos(fn.Pos())
	if len(raw) == 0 {
		c.OK("R05.1", key+"|typed", pos, fmt.Sprintf("%d abstract error value(s), all typed or delegated", len(sum)))
	} else {
		c.Bad("R05.1", key+"|typed", pos, fmt.Sprintf("%s can return an error that is not a *PathError/*LinkError in the caller's terms: %s", fname(fn), dedup(raw)))
	}
	if len(ns) == 0 {
		c.OK("R05.2", key+"|namespace", pos, "every path field / delegated path is in the caller's namespace")
	} else {
		c.Bad("R05.2", key+"|namespace", pos, fmt.Sprintf("%s can return an error that does not name the caller's path: %s", fname(fn), dedup(ns)))
	}
}

func r05Expansive(c *core.Ctx, p *load.Program, eng *errEngine) {
	n := 0
	for _, fn := range p.SrcFuncs() {
		if k, _ := eng.translator(fn); fn.Parent() != nil || k != "mount" {
			continue
		}
		// must actually rebuild path fields from the old error's paths (not just any (error,string,string) function)
		if _, ei := eng.translator(fn); !rebuiltFromOld(fn, fn.Params[ei]) {
			continue
		}
		rebuilds := false
		ssax.InstrsDeep(fn, func(_ *ssa.Function, ins ssa.Instruction) {
			if st, ok := ins.(*ssa.Store); ok {
				if fa, ok := st.Addr.(*ssa.FieldAddr); ok {
					switch ssax.FieldName(fa) {
					case "Path", "Old", "New":
						rebuilds = true
					}
				}
			}
		})
		if !rebuilds {
			continue
		}
		n++
		name := fn.Params[len(fn.Params)-2]
		expansive := false
		var visit func(f *ssa.Function, nameVal ssa.Value, d int)
		visit = func(f *ssa.Function, nameVal ssa.Value, d int) {
			if d > 3 {
				return
			}
			ssax.InstrsDeep(f, func(ff *ssa.Function, ins ssa.Instruction) {
				switch x := ins.(type) {
				case *ssa.BinOp:
					if x.Op == token.ADD && isStr(x.Type()) {
						if dependsOnDeep(x, nameVal) {
							expansive = true
						}
					}
				case *ssa.Call:
					if ssax.CalleeIs(x, "path", "Join") {
						for _, e := range variadicElems(x.Call.Args[0]) {
							if dependsOnDeep(e, nameVal) {
								expansive = true
							}
						}
					}
					// helper taking the name
					if callee := ssax.StaticCallee(x); callee != nil && p.InModule(callee) && callee.Blocks != nil {
						for i, a := range x.Call.Args {
							if dependsOnDeep(a, nameVal) && i < len(callee.Params) {
								visit(callee, callee.Params[i], d+1)
							}
						}
					}
				}
			})
		}
		visit(fn, name, 0)
		c.Check(expansive, "R05.3", fname(fn)+"|expansive", p.Pos(fn.Pos()), "translator can prepend a name-derived prefix (mount point) to the inner path",
			fmt.Sprintf("%s only trims prefixes: for a real mount point the caller's path is longer than the inner path (\"mnt/x/y\" vs \"x/y\"), so it cannot restore it — helpers through a mount report PathError.Path \"\" or the inner path", fname(fn)))
	}
	if n == 0 {
		c.Hard("R05.3: no mount translator (func(error, name, subPath string) error rebuilding path fields) found")
	}
}

// dependsOnDeep: v depends (through string ops, calls of strings/path functions, phis, closures' free variables) on root.
func dependsOnDeep(v, root ssa.Value) bool {
	seen := map[ssa.Value]bool{}
	var walk func(x ssa.Value, d int) bool
	walk = func(x ssa.Value, d int) bool {
		if x == nil || seen[x] || d > 16 {
			return false
		}
		seen[x] = true
		if x == root {
			return true
		}
		switch y := x.(type) {
		case *ssa.BinOp:
			return walk(y.X, d+1) || walk(y.Y, d+1)
		case *ssa.Phi:
			for _, e := range y.Edges {
				if walk(e, d+1) {
					return true
				}
			}
		case *ssa.Call:
			for _, a := range y.Call.Args {
				if walk(a, d+1) {
					return true
				}
			}
		case *ssa.Slice:
			return walk(y.X, d+1)
		case *ssa.Convert:
			return walk(y.X, d+1)
		case *ssa.FreeVar:
			if b := ssax.ResolveFreeVar(y); b != nil {
				return walk(b, d+1)
			}
		case *ssa.UnOp:
			if a, ok := y.X.(*ssa.Alloc); ok {
				stores, _ := ssax.CellStores(a)
				for _, st := range stores {
					if walk(st.Val, d+1) {
						return true
					}
				}
			}
			if fv, ok := y.X.(*ssa.FreeVar); ok {
				if b := ssax.ResolveFreeVar(fv); b != nil {
					if a, ok := b.(*ssa.Alloc); ok {
						stores, _ := ssax.CellStores(a)
						for _, st := range stores {
							if walk(st.Val, d+1) {
								return true
							}
						}
					}
					return walk(b, d+1)
				}
			}
		case *ssa.Extract:
			return walk(y.Tuple, d+1)
		}
		return false
	}
	return walk(v, 0)
}

// DebugErrAbs prints the abstract error summary of selected functions (development aid).
func DebugErrAbs(p *load.Program, names ...string) {
	eng := newErrEngine(p)
	for _, fn := range p.SrcFuncs() {
		for _, n := range names {
			if fname(fn) == n {
				fmt.Println("==", n)
				for _, a := range eng.summary(fn) {
					fmt.Printf("   %s T=%s NS=%v arg=%d desc=%q at %s\n", a.Kind, a.T, a.NS, a.Arg, a.Desc, p.Pos(a.Pos))
				}
			}
		}
	}
}
