package rules

import (
	"fmt"
	"go/token"
	"sort"
	"strings"

	"golang.org/x/tools/go/ssa"

	"hpfscheck/internal/core"
	"hpfscheck/internal/load"
	"hpfscheck/internal/ssax"
)

func init() { register(&Spec{ID: "C05", Targets: allTargets, Run: runC05}) }

func runC05(c *core.Ctx) {
	runFixtures(c, "drop", "valid", "dirnamed")
	c.Explain("Structural clauses of C05 decided from source by an abstract interpretation of error values (nil / *PathError or *LinkError with the provenance of each path field / error of a file-system interface call with the provenance of the path it was given / raw), with per-function summaries substituted at call sites, on linux, windows and js/wasm builds, for every method of every FS type that implements an io/fs.FS / hackpadfs.*FS method and every package-level helper taking an FS: (R05.1) no raw error (bare sentinel, errors.New/fmt.Errorf, store/record/handler/io error) is returned: every possibly non-nil error is a *PathError (single-name operations) or *LinkError (Rename, Symlink), the error of an interface call that received the caller's name, or such an error passed through a translator; (R05.2) path fields come from the caller's name (the parameter, or a path derived from it), never the empty constant, a Mount sub-path (inner namespace), an OS path, a base name or an untracked string; an error of a call made with an inner or OS path must pass through the translator with the (name, subPath) pair of the Mount call that produced the inner path; LinkError.Old/New come from the old/new parameter respectively; (R05.3) the mount translator can produce a path longer than its input (it concatenates a name-derived prefix) — a trim-only translator cannot be right for a real mount point; (R05.4 = R08.3, checked under C08). (R05.6) a write-back error is wrapped under the path of the record written; (R05.7) a missing name below a regular file is told apart from a missing name (known finding); (R05.8) no error outside MkdirAll/RemoveAll names path.Dir of a name; (R05.9) the error of a recursive call on other names is re-wrapped under the caller's names. (R05.10) two-name helpers translate their delegate's error with both names; (R05.11) the mount translator compares the failing path only within its own namespace; (R05.12) a failing path above a view's base or the OS root is reported as \".\". (R05.13) the not-a-directory edge of a parent look-up in the key-value FS is classified ErrNotDir. (R05.14) no helper falls back to io/fs.ReadDir. NOT claimed: that the path equals the one package os would name; sentinel agreement with os per situation; correctness of the translator's string arithmetic beyond R05.3.")
	c.Assume("A1: an interface-dispatched FS method returns *PathError/*LinkError naming the path it was given", "A2: standard os functions return *PathError/*LinkError/*SyscallError naming the OS path they were given",
		"errors of File methods (handle.Stat/Close/Read…) are the handle's own and accepted as they are")
	c.RuleDoc("R05.1", "typed errors only (no raw error leaves an FS-level entry point)")
	c.RuleDoc("R05.2", "path fields in the caller's namespace; inner/OS-namespace errors translated with the right pair")
	c.RuleDoc("R05.3", "mount translator is expansive")
	c.RuleDoc("R05.10", "a two-name helper translates its delegate's error with both of the caller's names")
	c.RuleDoc("R05.14", "no helper falls back to io/fs.ReadDir (its not-implemented error matches no sentinel)")
	c.RuleDoc("R05.13", "where the parent of a name was looked up and is not a directory the failure matches ErrNotDir")
	c.RuleDoc("R05.12", "a failing path above a view's base (or the OS root) is reported as \".\"")
	c.RuleDoc("R05.11", "the mount error translator compares the failing path only within its own namespace")
	c.RuleDoc("R05.9", "the error of a recursive call on other names is wrapped again under the caller's names")
	c.RuleDoc("R05.8", "outside MkdirAll/RemoveAll no error is built with the parent of a name as its path")
	c.RuleDoc("R05.7", "a missing name below a regular file is told apart from a missing name (ErrNotDir vs ErrNotExist)")
	c.RuleDoc("R05.6", "a write-back error is wrapped under the path of the record that was written")
	c.RuleDoc("R05.5", "cutting a directory prefix handles the directory itself")
	c.RuleDoc("R05.4", "no path field of a PathError/LinkError can be the empty string")
	for _, p := range c.Progs {
		c.SetProg(p)
		eng := newErrEngine(p)
		entries := append([]*ssa.Function{}, fsEntryMethods(p)...)
		for _, h := range helperFuncs(p) {
			if len(h.Params) > 0 && eng.isFSIface(h.Params[0].Type()) {
				entries = append(entries, h)
			}
		}
		sort.Slice(entries, func(i, j int) bool { return fname(entries[i]) < fname(entries[j]) })
		n := 0
		for _, fn := range entries {
			if errLikeIndex(fn.Signature) < 0 {
				continue
			}
			if strings.HasPrefix(fname(fn), "(*internal/mounttest.") {
				continue // pure forwards to the helpers, which are entries themselves
			}
			n++
			r05Entry(c, p, eng, fn)
		}
		if n < 60 {
			c.Hard("anchor: expected >= 60 FS-level entry points, found %d", n)
		}
		r05Expansive(c, p, eng)
		r05NonEmpty(c, p)
		r05TrimHandlesRoot(c, p)
		r05SaveNamesRecord(c, p)
		r05NoParentNamed(c, p)
		r05RecursionRewraps(c, p)
		r05TwoNameTranslation(c, p)
		r05NamespaceTyped(c, p)
		r05AncestorsOfTheRoot(c, p)
		r05ParentNotDirSaysSo(c, p)
		r05NoStdlibListingFallback(c, p)
		if p.Target == load.Linux {
			r05NotDirThroughFile(c, p, "R05.7")
		}
	}
	c.Floor("R05.1", 60)
	c.Floor("R05.2", 60)
	c.Floor("R05.3", 1)
	c.Floor("R05.4", 35)
	c.Floor("R05.5", 1)
	c.Floor("R05.6", 3)
	c.Floor("R05.9", 2)
	c.Floor("R05.10", 1)
	c.Floor("R05.11", 2)
	c.Floor("R05.12", 2)
	c.Floor("R05.13", 2)
	c.Floor("R05.14", 1)
}

func nameParamIdx(fn *ssa.Function) []int {
	var out []int
	for i, prm := range fn.Params {
		if isStr(prm.Type()) {
			out = append(out, i)
		}
	}
	return out
}

func r05Entry(c *core.Ctx, p *load.Program, eng *errEngine, fn *ssa.Function) {
	sum := eng.summary(fn)
	isLink := fn.Name() == "Rename" || fn.Name() == "Symlink"
	names := nameParamIdx(fn)
	var raw, ns []string
	okProv := func(n strProv, wantParam int) (bool, string) {
		s := string(n)
		switch {
		case strings.HasPrefix(s, "param:"), strings.HasPrefix(s, "pderived:"):
			if wantParam >= 0 && paramOf(n) != fmt.Sprint(wantParam) && paramOf(n) != "translated" {
				return false, fmt.Sprintf("comes from parameter #%s, expected #%d", paramOf(n), wantParam)
			}
			return true, ""
		case s == "handle", s == "listing", s == "errfield:caller":
			return true, ""
		case s == "const:":
			return false, "is the empty string"
		case strings.HasPrefix(s, "const:"):
			return false, "is a constant"
		case s == "inner", s == "errfield:inner":
			return false, "is a path of the inner (mounted) file system's namespace"
		case s == "os", s == "errfield:os":
			return false, "is an absolute OS path"
		case s == "basename":
			return false, "is only the base name (FileInfo.Name())"
		}
		return false, "has untracked provenance (" + s + ")"
	}
	for _, a := range sum {
		switch a.Kind {
		case "nil", "fileiface":
		case "raw", "errparam":
			d := a.Desc
			if a.Kind == "errparam" {
				d = "an error parameter"
			}
			raw = append(raw, fmt.Sprintf("%s (at %s)", d, p.Pos(a.Pos)))
		case "typed":
			if a.T == "any" {
				// translated error of a delegate: typed by A1/A2
			} else if isLink && a.T != "LinkError" {
				raw = append(raw, fmt.Sprintf("a *PathError where a *LinkError is required (at %s)", p.Pos(a.Pos)))
			}
			if a.T != "any" && !isLink && a.T != "PathError" {
				raw = append(raw, fmt.Sprintf("a *LinkError from a single-name operation (at %s)", p.Pos(a.Pos)))
			}
			for i, n := range a.NS {
				want := -1
				if a.T == "LinkError" && len(names) >= 2 && i < 2 {
					want = names[i]
				}
				if ok, why := okProv(n, want); !ok {
					f := "Path"
					if a.T == "LinkError" {
						f = []string{"Old", "New"}[i%2]
					}
					ns = append(ns, fmt.Sprintf("%s.%s %s (at %s)", a.T, f, why, p.Pos(a.Pos)))
				}
			}
		case "iface":
			for _, n := range a.NS {
				s := string(n)
				if strings.HasPrefix(s, "param:") || strings.HasPrefix(s, "pderived:") || s == "handle" || s == "listing" || strings.HasPrefix(s, "const:") {
					continue
				}
				_, why := okProv(n, -1)
				ns = append(ns, fmt.Sprintf("the error of %s, called with a path that %s, is returned untranslated (at %s)", a.Desc, why, p.Pos(a.Pos)))
			}
		}
	}
	key := fname(fn)
	pos := p.Pos(fn.Pos())
	if len(raw) == 0 {
		c.OK("R05.1", key+"|typed", pos, fmt.Sprintf("%d abstract error value(s), all typed or delegated", len(sum)))
	} else {
		c.Bad("R05.1", key+"|typed", pos, fmt.Sprintf("%s can return an error that is not a *PathError/*LinkError in the caller's terms: %s", fname(fn), dedup(raw)))
	}
	if len(ns) == 0 {
		c.OK("R05.2", key+"|namespace", pos, "every path field / delegated path is in the caller's namespace")
	} else {
		c.Bad("R05.2", key+"|namespace", pos, fmt.Sprintf("%s can return an error that does not name the caller's path: %s", fname(fn), dedup(ns)))
	}
}

func r05Expansive(c *core.Ctx, p *load.Program, eng *errEngine) {
	n := 0
	for _, fn := range p.SrcFuncs() {
		if k, _ := eng.translator(fn); fn.Parent() != nil || k != "mount" {
			continue
		}
		// must actually rebuild path fields from the old error's paths (not just any (error,string,string) function)
		if _, ei := eng.translator(fn); !rebuiltFromOld(fn, fn.Params[ei]) {
			continue
		}
		rebuilds := false
		ssax.InstrsDeep(fn, func(_ *ssa.Function, ins ssa.Instruction) {
			if st, ok := ins.(*ssa.Store); ok {
				if fa, ok := st.Addr.(*ssa.FieldAddr); ok {
					switch ssax.FieldName(fa) {
					case "Path", "Old", "New":
						rebuilds = true
					}
				}
			}
		})
		if !rebuilds {
			continue
		}
		n++
		name := fn.Params[len(fn.Params)-2]
		expansive := false
		var visit func(f *ssa.Function, nameVal ssa.Value, d int)
		visit = func(f *ssa.Function, nameVal ssa.Value, d int) {
			if d > 3 {
				return
			}
			ssax.InstrsDeep(f, func(ff *ssa.Function, ins ssa.Instruction) {
				switch x := ins.(type) {
				case *ssa.BinOp:
					if x.Op == token.ADD && isStr(x.Type()) {
						if dependsOnDeep(x, nameVal) {
							expansive = true
						}
					}
				case *ssa.Call:
					if ssax.CalleeIs(x, "path", "Join") {
						for _, e := range variadicElems(x.Call.Args[0]) {
							if dependsOnDeep(e, nameVal) {
								expansive = true
							}
						}
					}
					// helper taking the name
					if callee := ssax.StaticCallee(x); callee != nil && p.InModule(callee) && callee.Blocks != nil {
						for i, a := range x.Call.Args {
							if dependsOnDeep(a, nameVal) && i < len(callee.Params) {
								visit(callee, callee.Params[i], d+1)
							}
						}
					}
				}
			})
		}
		visit(fn, name, 0)
		c.Check(expansive, "R05.3", fname(fn)+"|expansive", p.Pos(fn.Pos()), "translator can prepend a name-derived prefix (mount point) to the inner path",
			fmt.Sprintf("%s only trims prefixes: for a real mount point the caller's path is longer than the inner path (\"mnt/x/y\" vs \"x/y\"), so it cannot restore it — helpers through a mount report PathError.Path \"\" or the inner path", fname(fn)))
	}
	if n == 0 {
		c.Hard("R05.3: no mount translator (func(error, name, subPath string) error rebuilding path fields) found")
	}
}

// dependsOnDeep: v depends (through string ops, calls of strings/path functions, phis, closures' free variables) on root.
func dependsOnDeep(v, root ssa.Value) bool {
	seen := map[ssa.Value]bool{}
	var walk func(x ssa.Value, d int) bool
	walk = func(x ssa.Value, d int) bool {
		if x == nil || seen[x] || d > 16 {
			return false
		}
		seen[x] = true
		if x == root {
			return true
		}
		switch y := x.(type) {
		case *ssa.BinOp:
			return walk(y.X, d+1) || walk(y.Y, d+1)
		case *ssa.Phi:
			for _, e := range y.Edges {
				if walk(e, d+1) {
					return true
				}
			}
		case *ssa.Call:
			for _, a := range y.Call.Args {
				if walk(a, d+1) {
					return true
				}
			}
		case *ssa.Slice:
			return walk(y.X, d+1)
		case *ssa.Convert:
			return walk(y.X, d+1)
		case *ssa.FreeVar:
			if b := ssax.ResolveFreeVar(y); b != nil {
				return walk(b, d+1)
			}
		case *ssa.UnOp:
			if a, ok := y.X.(*ssa.Alloc); ok {
				stores, _ := ssax.CellStores(a)
				for _, st := range stores {
					if walk(st.Val, d+1) {
						return true
					}
				}
			}
			if fv, ok := y.X.(*ssa.FreeVar); ok {
				if b := ssax.ResolveFreeVar(fv); b != nil {
					if a, ok := b.(*ssa.Alloc); ok {
						stores, _ := ssax.CellStores(a)
						for _, st := range stores {
							if walk(st.Val, d+1) {
								return true
							}
						}
					}
					return walk(b, d+1)
				}
			}
		case *ssa.Extract:
			return walk(y.Tuple, d+1)
		}
		return false
	}
	return walk(v, 0)
}

// DebugErrAbs prints the abstract error summary of selected functions (development aid).
func DebugErrAbs(p *load.Program, names ...string) {
	eng := newErrEngine(p)
	for _, fn := range p.SrcFuncs() {
		for _, n := range names {
			if fname(fn) == n {
				fmt.Println("==", n)
				for _, a := range eng.summary(fn) {
					fmt.Printf("   %s T=%s NS=%v arg=%d desc=%q at %s\n", a.Kind, a.T, a.NS, a.Arg, a.Desc, p.Pos(a.Pos))
				}
			}
		}
	}
}

// ---- R05.4: no path field can be the empty string ----

// strNonEmpty: v cannot be "" — constants other than "", names received from callers or carried by errors from
// below (A1: a path in an error is never empty), concatenations with a non-empty side, replacements, a phi of
// these; strings.TrimPrefix(x, y)/TrimSuffix/slicing can empty a string unless the result is tested against ""
// (dominating fact) — including through module functions returning strings (all their returns are checked).
func strNonEmpty(p *load.Program, v ssa.Value, at ssa.Instruction, depth int, seen map[ssa.Value]bool) (bool, string) {
	if depth > 12 || seen[v] {
		return true, ""
	}
	seen[v] = true
	// a dominating test v != ""
	if at != nil {
		for _, f := range ssax.FactsAtInstr(at) {
			if bo, ok := f.Cond.(*ssa.BinOp); ok && (bo.Op == token.EQL || bo.Op == token.NEQ) {
				var other ssa.Value
				if bo.X == v {
					other = bo.Y
				} else if bo.Y == v {
					other = bo.X
				}
				if other != nil {
					if s, isC := ssax.ConstString(other); isC && s == "" && (bo.Op == token.NEQ) == f.Val {
						return true, ""
					}
				}
			}
		}
	}
	switch x := v.(type) {
	case *ssa.Const:
		if s, ok := ssax.ConstString(x); ok && s == "" {
			return false, "the constant \"\""
		}
		return true, ""
	case *ssa.Phi:
		for i, e := range x.Edges {
			// the edge's own facts: the value on edge i is used where the predecessor ends
			var atE ssa.Instruction
			if pb := x.Block().Preds[i]; len(pb.Instrs) > 0 {
				atE = pb.Instrs[len(pb.Instrs)-1]
			}
			if ok, why := strNonEmpty(p, e, atE, depth+1, seen); !ok {
				return false, why
			}
		}
		return true, ""
	case *ssa.BinOp:
		if x.Op == token.ADD {
			okx, _ := strNonEmpty(p, x.X, at, depth+1, seen)
			oky, why := strNonEmpty(p, x.Y, at, depth+1, seen)
			if okx || oky {
				return true, ""
			}
			return false, why
		}
		return true, ""
	case *ssa.Slice:
		return false, "a slice expression of a string"
	case *ssa.Call:
		callee := ssax.StaticCallee(x)
		switch {
		case ssax.CalleeIs(x, "strings", "TrimSuffix") && startsWithSlash(x.Call.Args[1]):
			// the suffix begins with "/": the result is empty only if the string begins with "/" too, which no path does (A1)
			return strNonEmpty(p, x.Call.Args[0], at, depth+1, seen)
		case ssax.CalleeIs(x, "strings", "TrimPrefix") && trimsWholeElements(x, at):
			// the prefix ends in "/": the result is empty only if the string ends in "/" too, which no path does (A1)
			return strNonEmpty(p, x.Call.Args[0], at, depth+1, seen)
		case ssax.CalleeIs(x, "strings", "TrimPrefix"), ssax.CalleeIs(x, "strings", "TrimSuffix"), ssax.CalleeIs(x, "strings", "TrimLeft"), ssax.CalleeIs(x, "strings", "TrimRight"), ssax.CalleeIs(x, "strings", "Trim"):
			return false, ssax.CallName(x) + " (empty when the string equals what is trimmed)"
		case ssax.CalleeIs(x, "strings", "ReplaceAll"), ssax.CalleeIs(x, "strings", "Replace"):
			if s, ok := ssax.ConstString(x.Call.Args[2]); ok && s != "" {
				return strNonEmpty(p, x.Call.Args[0], at, depth+1, seen)
			}
			return false, ssax.CallName(x) + " with a possibly empty replacement"
		case ssax.CalleeIs(x, "path", "Join"), ssax.CalleeIs(x, "path", "Clean"), ssax.CalleeIs(x, "path", "Dir"), ssax.CalleeIs(x, "path", "Base"):
			// Clean/Dir/Base never return ""; Join returns "" only for all-empty elements
			if ssax.CalleeIs(x, "path", "Join") {
				for _, e := range variadicElems(x.Call.Args[0]) {
					if ok, _ := strNonEmpty(p, e, at, depth+1, seen); ok {
						return true, ""
					}
				}
				return false, "path.Join of possibly empty elements"
			}
			return true, ""
		case callee != nil && p.InModule(callee) && callee.Blocks != nil && callee.Signature.Results().Len() >= 1:
			// every string return of the callee
			for _, r := range ssax.Returns(callee) {
				for i, res := range r.Results {
					if !isStr(callee.Signature.Results().At(i).Type()) {
						continue
					}
					if ex, isEx := v.(*ssa.Extract); isEx && ex.Index != i {
						continue
					}
					if ok, why := strNonEmpty(p, res, r, depth+1, seen); !ok {
						return false, fname(callee) + " can return " + why
					}
				}
			}
			return true, ""
		}
		return true, ""
	case *ssa.UnOp:
		// a load of a struct field that was stored earlier in the same block: the value stored
		if fa, ok := x.X.(*ssa.FieldAddr); ok && x.Op == token.MUL {
			b := x.Block()
			idx := -1
			for i, ins := range b.Instrs {
				if ins == ssa.Instruction(x) {
					idx = i
				}
			}
			for i := idx - 1; i >= 0; i-- {
				if st, ok := b.Instrs[i].(*ssa.Store); ok {
					if fa2, ok := st.Addr.(*ssa.FieldAddr); ok && fa2.X == fa.X && fa2.Field == fa.Field {
						return strNonEmpty(p, st.Val, st, depth+1, seen)
					}
				}
			}
		}
		return true, ""
	case *ssa.Extract:
		if cl, ok := x.Tuple.(*ssa.Call); ok {
			callee := ssax.StaticCallee(cl)
			if callee != nil && p.InModule(callee) && callee.Blocks != nil {
				for _, r := range ssax.Returns(callee) {
					if x.Index < len(r.Results) && isStr(r.Results[x.Index].Type()) {
						if ok, why := strNonEmpty(p, r.Results[x.Index], r, depth+1, seen); !ok {
							return false, fname(callee) + " can return " + why
						}
					}
				}
			}
		}
		return true, ""
	}
	return true, "" // parameters, field loads, map/slice elements: names received, never empty (A1)
}

// trimsWholeElements: the prefix argument of this TrimPrefix call ends in "/" — syntactically (x + "/", a constant)
// or as strings.TrimSuffix(s, n) where strings.HasSuffix(s, "/"+n) is known to hold at `at`.
// startsWithSlash: a string constant beginning with "/", or a concatenation whose leftmost operand is one.
func startsWithSlash(v ssa.Value) bool {
	for i := 0; i < 6; i++ {
		if s, ok := ssax.ConstString(v); ok {
			return strings.HasPrefix(s, "/")
		}
		bo, ok := v.(*ssa.BinOp)
		if !ok || bo.Op != token.ADD {
			return false
		}
		v = bo.X
	}
	return false
}

func trimsWholeElements(cl *ssa.Call, at ssa.Instruction) bool {
	y := cl.Call.Args[1]
	if s, ok := ssax.ConstString(y); ok {
		return strings.HasSuffix(s, "/")
	}
	if endsInSlash(y) {
		return true
	}
	ts, ok := y.(*ssa.Call)
	if !ok || !ssax.CalleeIs(ts, "strings", "TrimSuffix") {
		return false
	}
	for _, where := range []ssa.Instruction{at, cl} {
		if where == nil {
			continue
		}
		for _, f := range ssax.FactsAtInstr(where) {
			hc, ok := f.Cond.(*ssa.Call)
			if !ok || !f.Val || !ssax.CalleeIs(hc, "strings", "HasSuffix") || hc.Call.Args[0] != ts.Call.Args[0] {
				continue
			}
			if bo, ok := hc.Call.Args[1].(*ssa.BinOp); ok && bo.Op == token.ADD && bo.Y == ts.Call.Args[1] {
				if s, ok := ssax.ConstString(bo.X); ok && s == "/" {
					return true
				}
			}
		}
	}
	return false
}

// r05NonEmpty (R05.4): every value stored into PathError.Path / LinkError.Old / LinkError.New anywhere in the
// module cannot be the empty string. A store that is overwritten later in the same block is skipped (dead).
func r05NonEmpty(c *core.Ctx, p *load.Program) {
	for _, fn := range p.SrcFuncs() {
		ord := ordinals{}
		for _, b := range fn.Blocks {
			for i, ins := range b.Instrs {
				st, ok := ins.(*ssa.Store)
				if !ok {
					continue
				}
				fa, ok := st.Addr.(*ssa.FieldAddr)
				if !ok {
					continue
				}
				n := ssax.StructOfFieldAddr(fa)
				if n == nil || n.Obj().Pkg() == nil || (n.Obj().Name() != "PathError" && n.Obj().Name() != "LinkError") {
					continue
				}
				if pp := n.Obj().Pkg().Path(); pp != mod && pp != "io/fs" && pp != "os" {
					continue
				}
				field := ssax.FieldName(fa)
				if field != "Path" && field != "Old" && field != "New" {
					continue
				}
				// dead store: the same field of the same object is stored again later in this block
				dead := false
				for _, later := range b.Instrs[i+1:] {
					if s2, ok := later.(*ssa.Store); ok {
						if fa2, ok := s2.Addr.(*ssa.FieldAddr); ok && fa2.X == fa.X && fa2.Field == fa.Field {
							dead = true
							break
						}
					}
				}
				if dead {
					continue
				}
				key := fname(fn) + "|" + ord.next("path-field:"+field)
				ok2, why := strNonEmpty(p, st.Val, st, 0, map[ssa.Value]bool{})
				if ok2 {
					c.OK("R05.4", key, p.Pos(st.Pos()), "the stored path cannot be empty")
				} else {
					c.Bad("R05.4", key, p.Pos(st.Pos()), fmt.Sprintf("%s stores %s into %s.%s: the error names the empty string instead of a path (the root is \".\") when the whole string is trimmed away", fname(fn), why, n.Obj().Name(), field))
				}
			}
		}
	}
}

// r05TrimHandlesRoot (R05.5): where a path is brought back into the caller's namespace by cutting a directory prefix
// with its separator — strings.TrimPrefix(x, y + "/") — the case x == y (the error is about the directory itself) is
// handled on its own before: TrimPrefix leaves such an x untouched, and the caller would be told the inner name.
func r05TrimHandlesRoot(c *core.Ctx, p *load.Program) {
	for _, fn := range p.SrcFuncs() {
		root := fn
		for root.Parent() != nil {
			root = root.Parent()
		}
		if skipPkgForNames(root) {
			continue
		}
		ord := ordinals{}
		ssax.Instrs(fn, func(ins ssa.Instruction) {
			cl, ok := ins.(*ssa.Call)
			if !ok || !ssax.CalleeIs(cl, "strings", "TrimPrefix") {
				return
			}
			if ts, isCall := cl.Call.Args[1].(*ssa.Call); isCall && ssax.CalleeIs(ts, "strings", "TrimSuffix") {
				// a directory prefix obtained by cutting the name off the full inner path ("base/name" minus "name" is
				// "base/"): the path that IS the base directory has no such prefix and stays in the inner namespace
				key := fname(fn) + "|" + ord.next("trim-dir-prefix")
				c.Bad("R05.5", key, p.Pos(cl.Pos()), fmt.Sprintf("%s cuts a directory prefix computed with strings.TrimSuffix off %s without handling the case that the path is that directory itself: when the failing path is the base directory of the view (a base that is a regular file, a base that does not exist), TrimPrefix leaves it as it is and the caller is told the inner name instead of \".\"", fname(fn), vname(cl.Call.Args[0])))
				return
			}
			bo, ok := cl.Call.Args[1].(*ssa.BinOp)
			if !ok || bo.Op != token.ADD {
				return
			}
			if s, isC := ssax.ConstString(bo.Y); !isC || s != "/" {
				return
			}
			x, y := cl.Call.Args[0], bo.X
			key := fname(fn) + "|" + ord.next("trim-dir-prefix")
			handled := false
			for _, f := range ssax.FactsAtInstr(cl) {
				cmp, ok := f.Cond.(*ssa.BinOp)
				if !ok || (cmp.Op != token.EQL && cmp.Op != token.NEQ) {
					continue
				}
				same := func(a, b ssa.Value) bool {
					return (ssax.SameValue(a, x) && ssax.SameValue(b, y)) || (ssax.SameValue(a, y) && ssax.SameValue(b, x))
				}
				if same(cmp.X, cmp.Y) && (cmp.Op == token.EQL) != f.Val {
					handled = true
				}
			}
			c.Check(handled, "R05.5", key, p.Pos(cl.Pos()), "the case 'the path is the directory itself' is answered before the prefix is cut",
				fmt.Sprintf("%s cuts %s + \"/\" off %s without having handled %s == %s: when the failing path is the directory itself, TrimPrefix leaves it as it is and the caller is told the inner name (the view's base directory) instead of \".\"", fname(fn), vname(y), vname(x), vname(x), vname(y)))
		})
	}
}

// r05SaveNamesRecord (R05.6): in the key-value FS, the error of writing a record back (save of a record constructed or
// looked up in the same function) that is wrapped into a *PathError by the package's wrapper is wrapped under the
// path of THAT record — the string the record was constructed / looked up with. MkdirAll("a/b/c/d") whose store
// refuses "a/b" must name "a/b" (os.MkdirAll names the directory that failed), not the requested path.
func r05SaveNamesRecord(c *core.Ctx, p *load.Program) {
	sh := findKVShape(p)
	if sh == nil || sh.saveFn == nil {
		c.Hard("anchor: keyvalue.FS shape (save)")
		return
	}
	isWrapper := func(fn *ssa.Function) (pathIdx, errIdx int, ok bool) {
		if fn == nil || !p.InModule(fn) || fn.Signature.Results().Len() != 1 || !ssax.IsErrorType(fn.Signature.Results().At(0).Type()) {
			return 0, 0, false
		}
		pathIdx, errIdx = -1, -1
		strs := 0
		for i, prm := range fn.Params {
			switch {
			case isStr(prm.Type()):
				strs++
				pathIdx = i // the last string parameter before the error: (op, path, err)
			case ssax.IsErrorType(prm.Type()):
				errIdx = i
			}
		}
		if strs != 2 || errIdx < 0 {
			return 0, 0, false
		}
		// constructs a PathError
		made := false
		ssax.Instrs(fn, func(ins ssa.Instruction) {
			if a, ok := ins.(*ssa.Alloc); ok && strings.HasSuffix(a.Type().String(), "fs.PathError") {
				made = true
			}
		})
		return pathIdx, errIdx, made
	}
	passThrough := func(fn *ssa.Function) bool {
		if fn == nil || !p.InModule(fn) || fn.Signature.Results().Len() != 1 || !ssax.IsErrorType(fn.Signature.Results().At(0).Type()) {
			return false
		}
		if fn.Signature.Params().Len() != 1 || !ssax.IsErrorType(fn.Signature.Params().At(0).Type()) {
			return false
		}
		return true
	}
	n := 0
	for _, fn := range pkgFuncs(p, "keyvalue") {
		ord := ordinals{}
		ssax.Instrs(fn, func(ins ssa.Instruction) {
			cl, ok := ins.(*ssa.Call)
			if !ok || ssax.StaticCallee(cl) != sh.saveFn {
				return
			}
			base := cl.Call.Args[0]
			if b, _, ok := ssax.FieldLoad(base); ok {
				base = b
			}
			var recPath ssa.Value
			if ctor, ok := base.(*ssa.Call); ok && sh.ctorFns[ssax.StaticCallee(ctor)] {
				for _, a := range ctor.Call.Args {
					if isStr(a.Type()) {
						recPath = a
					}
				}
			} else if lp := sh.lookupPathOf(base, 0); lp != nil {
				recPath = lp
			}
			if recPath == nil {
				return
			}
			// follow the error forward to wrappers
			seen := map[ssa.Value]bool{}
			var follow func(v ssa.Value, depth int)
			follow = func(v ssa.Value, depth int) {
				if v == nil || seen[v] || depth > 6 || v.Referrers() == nil {
					return
				}
				seen[v] = true
				for _, r := range *v.Referrers() {
					switch x := r.(type) {
					case *ssa.Phi:
						follow(x, depth+1)
					case *ssa.Call:
						callee := ssax.StaticCallee(x)
						if passThrough(callee) {
							follow(x, depth+1)
							continue
						}
						pi, ei, ok := isWrapper(callee)
						if !ok {
							continue
						}
						args := x.Call.Args
						if ei >= len(args) || args[ei] != v {
							continue
						}
						n++
						key := fname(fn) + "|" + ord.next("save-error-names-the-record")
						c.Check(sameVar(args[pi], recPath) || args[pi] == recPath, "R05.6", key, p.Pos(x.Pos()), "the write-back error is wrapped under the path of the record that was written",
							fmt.Sprintf("%s wraps the error of writing the record %s back under another path (%s): when the store refuses an intermediate directory, the *PathError names the path the caller asked for instead of the directory whose creation failed (os.MkdirAll names the failing directory)", fname(fn), vname(recPath), vname(args[pi])))
					}
				}
			}
			follow(cl, 0)
		})
	}
	if n == 0 {
		c.Hard("anchor: no write-back error reaches the package's PathError wrapper")
	}
}

// r05NotDirThroughFile (R05.7 / R01.11): os answers ENOTDIR for a name that leads through a regular file
// ("file/x"), which does not match ErrNotExist. The key-value FS can only tell the two apart by looking at the
// ancestors of a missing name: its by-name look-up (Stat) must reach a look-up of path.Dir of the name.
func r05NotDirThroughFile(c *core.Ctx, p *load.Program, rule string) {
	sh := findKVShape(p)
	if sh == nil || sh.methods["Stat"] == nil {
		c.Hard("anchor: keyvalue.FS.Stat")
		return
	}
	fn := sh.methods["Stat"]
	seen := map[*ssa.Function]bool{}
	found := false
	var visit func(f *ssa.Function, d int)
	visit = func(f *ssa.Function, d int) {
		if f == nil || seen[f] || d > 4 || f.Blocks == nil {
			return
		}
		seen[f] = true
		ssax.InstrsDeep(f, func(_ *ssa.Function, ins ssa.Instruction) {
			cl, ok := ins.(ssa.CallInstruction)
			if !ok {
				return
			}
			if ssax.CalleeIs(cl, "path", "Dir") || ssax.CalleeIs(cl, "path", "Split") {
				found = true
			}
			if callee := ssax.StaticCallee(cl); callee != nil && p.InModule(callee) {
				visit(callee, d+1)
			}
		})
	}
	visit(fn, 0)
	key := "(*keyvalue.FS).Stat|missing-name-classifies-ancestors"
	c.Check(found, rule, key, p.Pos(fn.Pos()), "the by-name look-up looks at the ancestors of a missing name",
		"the key-value FS answers a missing name with the store's ErrNotExist without looking at its ancestors: for a name that leads through a regular file (Stat/Open/Remove/Chmod \"file/x\", Rename \"file/x\" -> \"dir/y\") os fails with ENOTDIR, which does not match ErrNotExist; as a consequence hackpadfs.RemoveAll(fs, \"file/x\") returns nil where os.RemoveAll fails")
}

// dirNamedSites (R05.8): a *PathError/*LinkError whose path field is path.Dir(x) — the parent of a name — built
// outside the functions whose os counterparts name ancestors (MkdirAll, RemoveAll and what only they reach by name):
// os names the path it was asked for (open a/b/f: ...), not the directory it could not prepare on the way.
type dirNamedSite struct {
	fn  *ssa.Function
	pos token.Pos
}

func dirNamedSites(p *load.Program, fns []*ssa.Function) []*dirNamedSite {
	var out []*dirNamedSite
	for _, fn := range fns {
		if fn.Blocks == nil {
			continue
		}
		root := fn
		for root.Parent() != nil {
			root = root.Parent()
		}
		ln := strings.ToLower(root.Name())
		if strings.Contains(ln, "mkdirall") || strings.Contains(ln, "removeall") || strings.Contains(ln, "missingdir") {
			continue
		}
		ssax.Instrs(fn, func(ins ssa.Instruction) {
			st, ok := ins.(*ssa.Store)
			if !ok {
				return
			}
			fa, ok := st.Addr.(*ssa.FieldAddr)
			if !ok {
				return
			}
			n := ssax.StructOfFieldAddr(fa)
			if n == nil || n.Obj().Pkg() == nil || n.Obj().Pkg().Path() != "io/fs" && n.Obj().Pkg().Path() != "os" || n.Obj().Name() != "PathError" && n.Obj().Name() != "LinkError" {
				return
			}
			if !isStr(st.Val.Type()) {
				return
			}
			v := st.Val
			if u, ok := v.(*ssa.UnOp); ok && u.Op == token.MUL {
				if a, ok := u.X.(*ssa.Alloc); ok {
					if stores, esc := ssax.CellStores(a); !esc && len(stores) == 1 {
						v = stores[0].Val
					}
				}
			}
			if cl, ok := v.(*ssa.Call); ok && ssax.CalleeIs(cl, "path", "Dir") {
				out = append(out, &dirNamedSite{fn: fn, pos: st.Pos()})
			}
		})
	}
	return out
}

func r05NoParentNamed(c *core.Ctx, p *load.Program) {
	var fns []*ssa.Function
	for _, fn := range p.SrcFuncs() {
		root := fn
		for root.Parent() != nil {
			root = root.Parent()
		}
		if !skipPkgForNames(root) {
			fns = append(fns, fn)
		}
	}
	ord := ordinals{}
	sites := dirNamedSites(p, fns)
	for _, s := range sites {
		c.Bad("R05.8", ord.next(fname(s.fn)+"|names-parent"), p.Pos(s.pos), fmt.Sprintf("%s builds an error whose path field is path.Dir of a name: the caller of a single-name operation is told the parent directory instead of the name it passed (os: 'open a/b/f: not a directory')", fname(s.fn)))
	}
	if len(sites) == 0 {
		c.OK("R05.8", "no-parent-named", "", "no *PathError/*LinkError outside MkdirAll/RemoveAll is built with path.Dir of a name as its path")
	}
}

// r05RecursionRewraps (R05.9): an operation that calls itself on other names than its own (children of a directory)
// does not return that call's error as it is: the *PathError/*LinkError names the child, the caller must be told
// the names it passed.
func r05RecursionRewraps(c *core.Ctx, p *load.Program) {
	n := 0
	for _, fn := range p.SrcFuncs() {
		if fn.Parent() != nil || skipPkgForNames(fn) || ssax.ErrorResultIndex(fn.Signature) < 0 {
			continue
		}
		eidx := ssax.ErrorResultIndex(fn.Signature)
		ord := ordinals{}
		ssax.Instrs(fn, func(ins ssa.Instruction) {
			cl, ok := ins.(*ssa.Call)
			if !ok || ssax.StaticCallee(cl) != fn {
				return
			}
			other := false
			for i, a := range cl.Call.Args {
				if i < len(fn.Params) && isStr(a.Type()) && a != ssa.Value(fn.Params[i]) {
					other = true
				}
			}
			if !other {
				return
			}
			ev := ssax.ErrorValueOf(cl)
			if ev == nil {
				return
			}
			n++
			key := fname(fn) + "|" + ord.next("recursive-error-rewrapped")
			direct := ""
			for _, r := range ssax.Returns(fn) {
				e := resolveSpilled(r.Results[eidx], r)
				if e == ev {
					direct = p.Pos(r.Pos())
				}
				if ph, ok := e.(*ssa.Phi); ok {
					for _, ed := range ph.Edges {
						if ed == ev {
							direct = p.Pos(r.Pos())
						}
					}
				}
			}
			c.Check(direct == "", "R05.9", key, p.Pos(cl.Pos()), "the error of the recursive call on other names is wrapped again under this call's names",
				fmt.Sprintf("%s returns at %s the error of its recursive call on other names (children) as it is: the error names the child that failed (Old=\"d/c\", New=\"e/c\") instead of the names the caller passed (\"d\", \"e\")", fname(fn), direct))
		})
	}
	if n == 0 {
		c.Hard("anchor: no recursive file-system operation on derived names found")
	}
}

// r05TwoNameTranslation (R05.10): a helper with two name parameters (Rename, Symlink) that delegates to a file system
// resolved with Mount() hands the delegate's error to a translator that receives BOTH of the caller's names: a
// single-name translator (strip the prefix of the old name's mapping) leaves LinkError.New in the inner namespace
// whenever the two names are not mapped alike (an invalid old name next to a valid new one).
func r05TwoNameTranslation(c *core.Ctx, p *load.Program) {
	n := 0
	for _, fn := range helperFuncs(p) {
		var names []*ssa.Parameter
		for _, prm := range fn.Params[1:] {
			if isStr(prm.Type()) {
				names = append(names, prm)
			}
		}
		if len(names) != 2 {
			continue
		}
		ord := ordinals{}
		ssax.Instrs(fn, func(ins ssa.Instruction) {
			cl, ok := ins.(*ssa.Call)
			if !ok || ssax.StaticCallee(cl) != fn {
				return
			}
			ev := ssax.ErrorValueOf(cl)
			if ev == nil || ev.Referrers() == nil {
				return
			}
			n++
			key := fname(fn) + "|" + ord.next("delegate-error-translated-with-both-names")
			good := false
			for _, r := range *ev.Referrers() {
				tc, ok := r.(*ssa.Call)
				if !ok {
					continue
				}
				has := map[*ssa.Parameter]bool{}
				for _, a := range tc.Call.Args {
					for _, np := range names {
						if a == ssa.Value(np) {
							has[np] = true
						}
					}
				}
				if len(has) == 2 {
					good = true
				}
			}
			c.Check(good, "R05.10", key, p.Pos(cl.Pos()), "the delegate's error is translated with both of the caller's names",
				fmt.Sprintf("%s translates the error of its delegated call with one of its two names only: the other path field of the *LinkError keeps the inner file system's namespace whenever the two names are not mapped alike (Rename(view, \"../file\", \"moved\") reports New=\"base/moved\")", fname(fn)))
		})
	}
	if n == 0 {
		c.Hard("anchor: two-name helpers delegating through Mount")
	}
}

// r05NamespaceTyped (R05.11): inside the mount error translator (the function stripErrPathPrefix maps path fields
// with) the failing path and the mount sub-path are names of the INNER file system, the caller's name is not: the
// failing path is compared (==, HasPrefix, HasSuffix) only with values of its own namespace. A comparison of the inner
// path with the caller's name fires when a name happens to repeat the elements of the view's directory
// (Stat(Sub(fs, "vendor"), "vendor") would report "vendor/vendor").
func r05NamespaceTyped(c *core.Ctx, p *load.Program) {
	fn := p.Func("", "mountedPathToCaller")
	if fn == nil || len(fn.Params) != 3 {
		c.Hard("anchor: mountedPathToCaller(p, name, mountSubPath)")
		return
	}
	inner, caller := fn.Params[0], fn.Params[1]
	derives := func(v ssa.Value, root *ssa.Parameter) bool {
		return originOrConcat(v, root, 0, map[ssa.Value]bool{})
	}
	n := 0
	ord := ordinals{}
	ssax.Instrs(fn, func(ins ssa.Instruction) {
		var x, y ssa.Value
		switch v := ins.(type) {
		case *ssa.BinOp:
			if (v.Op == token.EQL || v.Op == token.NEQ) && isStr(v.X.Type()) {
				x, y = v.X, v.Y
			}
		case *ssa.Call:
			if ssax.CalleeIs(v, "strings", "HasPrefix") || ssax.CalleeIs(v, "strings", "HasSuffix") {
				x, y = v.Call.Args[0], v.Call.Args[1]
			}
		}
		if x == nil {
			return
		}
		if !(derives(x, inner) || derives(y, inner)) {
			return
		}
		n++
		key := fname(fn) + "|" + ord.next("inner-path-compared-within-its-namespace")
		mixed := (derives(x, inner) && derives(y, caller)) || (derives(y, inner) && derives(x, caller))
		c.Check(!mixed, "R05.11", key, p.Pos(ins.Pos()), "the failing path is compared with inner-namespace values only",
			fmt.Sprintf("%s compares the failing path (a name of the inner file system) with the caller's name: the two are in different namespaces, and the test fires whenever a name repeats the elements of the view's directory — Stat(Sub(fs, \"vendor\"), \"vendor\") on a missing file would report \"vendor/vendor\", the inner path, as if it were already the caller's", fname(fn)))
	})
	if n == 0 {
		c.Hard("anchor: comparisons of the failing path in mountedPathToCaller")
	}
}

func originOrConcat(v ssa.Value, root *ssa.Parameter, d int, seen map[ssa.Value]bool) bool {
	if v == nil || d > 8 || seen[v] {
		return false
	}
	seen[v] = true
	if v == ssa.Value(root) {
		return true
	}
	switch x := v.(type) {
	case *ssa.BinOp:
		if x.Op == token.ADD {
			return originOrConcat(x.X, root, d+1, seen) || originOrConcat(x.Y, root, d+1, seen)
		}
	case *ssa.Phi:
		for _, e := range x.Edges {
			if originOrConcat(e, root, d+1, seen) {
				return true
			}
		}
	}
	return false
}

// r05AncestorsOfTheRoot (R05.12): a translator that cuts a view's base (or an OS root) off a failing path also answers
// the case that the failing path lies ABOVE the base — an ancestor that is not a directory — with ".": every cut
// `TrimPrefix(x, base+sep)` in the mount error translator and in os.relPath is accompanied, in the same function, by
// a test HasPrefix(base, x+sep) whose true edge returns ".".
func r05AncestorsOfTheRoot(c *core.Ctx, p *load.Program) {
	for _, tf := range []struct {
		rel, name string
		min       int
	}{{"", "mountedPathToCaller", 2}, {"os", "relPath", 1}} {
		fn := p.Func(tf.rel, tf.name)
		if fn == nil {
			c.Hard("anchor: %s.%s", tf.rel, tf.name)
			continue
		}
		guards := 0
		for _, b := range fn.Blocks {
			ifi, ok := b.Instrs[len(b.Instrs)-1].(*ssa.If)
			if !ok {
				continue
			}
			cl, ok := ifi.Cond.(*ssa.Call)
			if !ok || !ssax.CalleeIs(cl, "strings", "HasPrefix") || !endsInSlash(cl.Call.Args[1]) {
				continue
			}
			// the tested prefix is <failing path> + sep: its left operand is the function's first parameter
			bo, ok := cl.Call.Args[1].(*ssa.BinOp)
			if !ok || bo.X != ssa.Value(fn.Params[0]) {
				continue
			}
			// the true edge returns "."
			if ret, ok := b.Succs[0].Instrs[len(b.Succs[0].Instrs)-1].(*ssa.Return); ok && len(ret.Results) == 1 {
				if s, isC := ssax.ConstString(ret.Results[0]); isC && s == "." {
					guards++
				}
			}
		}
		key := fname(fn) + "|ancestors-of-the-root-answer-dot"
		c.Check(guards >= tf.min, "R05.12", key, p.Pos(fn.Pos()), fmt.Sprintf("%d ancestor guard(s) returning \".\"", guards),
			fmt.Sprintf("%s cuts the view's base off a failing path but does not answer a failing path ABOVE the base (found %d guard(s) of the form HasPrefix(base, p+sep) -> \".\", need %d): Sub(fs, \"f/base\") with f a regular file, then MkdirAll(view, \"x\"), reports the parent's path \"f\" (os.FS: an OS path outside the root)", fname(fn), guards, tf.min))
	}
}

// r05ParentNotDirSaysSo (R05.13): in the key-value FS, the edge on which IsDir() of the looked-up PARENT of a name
// parameter is false returns an error whose sentinel is ErrNotDir (os: ENOTDIR), not ErrNotExist or anything else.
// Two parent checks merged into one `err != nil || !parent.IsDir()` with one sentinel answer a path through a
// regular file with "does not exist".
func r05ParentNotDirSaysSo(c *core.Ctx, p *load.Program) {
	sh := findKVShape(p)
	if sh == nil {
		c.Hard("anchor: keyvalue.FS shape")
		return
	}
	var names []string
	for n := range sh.methods {
		names = append(names, n)
	}
	sort.Strings(names)
	for _, mn := range names {
		fn := sh.methods[mn]
		if fn == nil || fn.Blocks == nil {
			continue
		}
		ord := ordinals{}
		for _, b := range fn.Blocks {
			ifi, ok := b.Instrs[len(b.Instrs)-1].(*ssa.If)
			if !ok {
				continue
			}
			cnd, val := ssax.StripNot(ifi.Cond, true)
			cl, ok := cnd.(*ssa.Call)
			if !ok || !isIsDirCall(cl) {
				continue
			}
			var recv ssa.Value
			if cl.Call.IsInvoke() {
				recv = cl.Call.Value
			} else if len(cl.Call.Args) > 0 {
				recv = cl.Call.Args[0]
			}
			// whose look-up: info() of a looked-up file, or the info a Stat returned
			lp := sh.lookupPathOf(recv, 0)
			if lp == nil {
				if inner, ok := recv.(*ssa.Call); ok {
					var r2 ssa.Value
					if inner.Call.IsInvoke() {
						r2 = inner.Call.Value
					} else if len(inner.Call.Args) > 0 {
						r2 = inner.Call.Args[0]
					}
					lp = sh.lookupPathOf(r2, 0)
				}
			}
			if lp == nil {
				continue
			}
			if _, isParam := pathDirOf(lp).(*ssa.Parameter); !isParam {
				continue // not the parent of a name the caller gave
			}
			// the edge on which IsDir() is false
			notDir := b.Succs[1]
			if !val {
				notDir = b.Succs[0]
			}
			_, ev, isErr := blockReturnsError(notDir)
			if !isErr || ev == nil {
				continue // the branch goes on (a create below it is judged elsewhere)
			}
			key := fname(fn) + "|" + ord.next("parent-not-a-directory")
			info := classifyErr(ev)
			c.Check(info.Sentinels["ErrNotDir"] && !info.Sentinels["ErrNotExist"], "R05.13", key, p.Pos(ifi.Cond.Pos()), "the not-a-directory edge of the parent look-up answers ErrNotDir",
				fmt.Sprintf("%s: where the parent of the name exists and is not a directory the call fails with %s instead of ErrNotDir: a path through a regular file is reported like a missing one (os: ENOTDIR, which does not match ErrNotExist)", fname(fn), info))
		}
	}
}

// r05NoStdlibListingFallback (R05.14): the helpers of the root package never hand a listing to io/fs.ReadDir. For a
// file system whose directory handles have no ReadDir method io/fs answers &PathError{Err: errors.New("not
// implemented")}, which matches no sentinel: "an operation the file system does not support fails with
// ErrNotImplemented" needs the hand-written last resort.
func r05NoStdlibListingFallback(c *core.Ctx, p *load.Program) {
	bad := ""
	for _, fn := range pkgFuncs(p, "") {
		ssax.Instrs(fn, func(ins ssa.Instruction) {
			if cl, ok := ins.(*ssa.Call); ok && (ssax.CalleeIs(cl, "io/fs", "ReadDir") || ssax.CalleeIs(cl, "io/fs", "Glob")) && bad == "" {
				bad = fname(fn) + " at " + p.Pos(cl.Pos())
			}
		})
	}
	c.Check(bad == "", "R05.14", "hackpadfs|no-io/fs.ReadDir-fallback", "-", "no helper falls back to io/fs.ReadDir",
		fmt.Sprintf("%s hands the listing to io/fs.ReadDir: over a file system whose directory handles cannot list, the failure is io/fs's untyped 'not implemented' error, which does not match ErrNotImplemented", bad))
}
