package rules

import (
	"fmt"
	"go/constant"
	"go/token"
	"go/types"
	"io/fs"
	"sort"
	"strings"

	"golang.org/x/tools/go/ssa"

	"hpfscheck/internal/core"
	"hpfscheck/internal/load"
	"hpfscheck/internal/ssax"
)

func init() { register(&Spec{ID: "C06", Targets: []load.Target{load.Linux}, Run: runC06}) }

func runC06(c *core.Ctx) {
	runFixtures(c, "drop", "valid")
	c.Explain("Structural clauses of C06 decided from source: (R06.1) every strings.HasPrefix test of a name against a stored path (mount keys in mount.mountPoint, record keys in the in-memory store's listing) uses a prefix ending in \"/\" — 'a' never captures 'ab'; (R06.2) in the mount-table scan, every update of the best-so-far pair on the prefix path is guarded by a strict length comparison between the candidate and the current best, so the result does not depend on iteration order, and the exact-match path stores the candidate itself; (R06.3) every MountFS branch of the helpers (and mount.Rename per name) delegates with the file system and sub-path of ONE Mount call and translates the error with (err, name, subPath) of that same call — with the suite's only mount name == subPath, so a mix-up is invisible to the tests; (R06.4) the mount-table insertion is dominated by ValidPath, not-root, a successful open+Stat of the mount point — addressed through the mount point's own route, Mount(p) or Mount(path.Dir(p)) joined with path.Base(p) — and IsDir, and is an atomic LoadOrStore whose 'loaded' result is answered with ErrExist; (R06.5) cross-mount rename: after the destination was created, every failing return removes the destination first, and the source is removed only after the copy succeeded and the destination's Close returned nil; (R06.6) no call of a Mount(name) route resolution in the module passes a string that can never satisfy ValidPath (the directory half of path.Split, a concatenation ending in '/', an invalid constant): such a call always falls on the invalid-name route — the root file system — whatever is mounted; (R06.7) every helper that probes an optional capability interface of its file system also probes MountFS (exempt with reasons: Sub, Symlink, helpers that fall back to fs.Open) — a missing branch makes the operation fail with ErrNotImplemented through a Sub view or another MountFS although the routed file system supports it. (R06.8) the root file system is read only inside the route resolution; (R06.9) the cross-mount copy creates or truncates its destination. (R06.10) no concatenated path is a strings.Trim cutset. (R06.11) file-system values are compared only inside a recovering function; (R06.12) the cross-mount copy is reached only where the two routed file systems were found to differ; R06.4 requires LoadOrStore itself. NOT claimed: that an operation's effect equals the direct call on the routed file system; isolation of sibling file systems; interleavings of AddMount beyond the atomic-insert shape.")
	c.Assume("A1: FS contract for mounted file systems", "A2: sync.Map.LoadOrStore is atomic")
	c.RuleDoc("R06.1", "element-boundary prefix tests")
	c.RuleDoc("R06.2", "longest match independent of iteration order")
	c.RuleDoc("R06.3", "delegation uses one Mount call's (FS, subPath) pair and translates with it")
	c.RuleDoc("R06.4", "AddMount: validate, existing directory, atomic insert")
	c.RuleDoc("R06.5", "cross-mount rename cleanup and ordering")
	c.RuleDoc("R06.8", "the root file system is addressed only through the route resolution")
	c.RuleDoc("R06.12", "the cross-mount copy runs only where the two routed file systems were found to differ")
	c.RuleDoc("R06.11", "file-system interface values are compared only under recover (uncomparable dynamic types panic)")
	c.RuleDoc("R06.10", "no path is used as the cutset of strings.Trim/TrimLeft/TrimRight")
	c.RuleDoc("R06.9", "the cross-mount copy creates or truncates its destination")
	c.RuleDoc("R06.7", "every capability-probing helper has a MountFS branch")
	c.RuleDoc("R06.6", "route resolutions are asked about names that can be valid")
	for _, p := range c.Progs {
		c.SetProg(p)
		mp := p.Method("mount", "FS", "mountPoint")
		if mp == nil {
			c.Hard("anchor: mount.(*FS).mountPoint")
			continue
		}
		for _, v := range prefixTests(p, mp) {
			c.Check(v.ok, "R06.1", "mount.mountPoint|"+v.key, v.pos, v.msg, v.msg)
		}
		// the Range callback may be a method of a small search struct instead of a closure
		if cb := rangeCallbackOf(mp); cb != nil && cb.Parent() == nil {
			for _, v := range prefixTests(p, cb) {
				c.Check(v.ok, "R06.1", "mount.mountPoint|"+v.key, v.pos, v.msg, v.msg)
			}
		}
		if fr := p.Method("mem", "fileRecord", "ReadDirNames"); fr != nil {
			for _, v := range prefixTests(p, fr) {
				c.Check(v.ok, "R06.1", "mem.fileRecord.ReadDirNames|"+v.key, v.pos, v.msg, v.msg)
			}
		} else {
			c.Hard("anchor: mem.fileRecord.ReadDirNames")
		}
		r06Longest(c, p, mp)
		r06Pairs(c, p)
		r06AddMount(c, p)
		r06Rename(c, p)
		r06RouteArgs(c, p)
		r06EveryHelperRoutes(c, p, "R06.7")
		r06RootOnlyThroughRoutes(c, p, "R06.8")
		r06DestinationTruncated(c, p)
		r06NoVariableCutset(c, p, "R06.10", "mount", "", "tar", "os", "keyvalue", "cache")
		r06NoRawFSComparison(c, p)
		r06CopyOnlyBetweenDifferentFS(c, p)
	}
	c.Floor("R06.1", 2)
	c.Floor("R06.2", 2)
	c.Floor("R06.3", 15)
	c.Floor("R06.4", 1)
	c.Floor("R06.5", 4)
	c.Floor("R06.6", 15)
	c.Floor("R06.7", 15)
	c.Floor("R06.8", 2)
	c.Floor("R06.9", 1)
	c.Floor("R06.10", 1)
	c.Floor("R06.11", 1)
	c.Floor("R06.12", 1)
}

// r06Longest: stores into the captured result cells inside the Range callback.
func r06Longest(c *core.Ctx, p *load.Program, mp *ssa.Function) {
	cb := rangeCallbackOf(mp)
	if cb == nil {
		c.Hard("R06.2: mountPoint has no Range callback")
		return
	}
	// the cell holding the best mount path so far: a captured string variable of the closure, or — where the callback is
	// a method of a search struct — the string field of its receiver that it stores into
	var pathCell *ssa.FreeVar
	for _, fv := range cb.FreeVars {
		if pt, ok := fv.Type().(*types.Pointer); ok && isStr(pt.Elem()) {
			pathCell = fv
		}
	}
	bestField := ""
	if pathCell == nil && cb.Signature.Recv() != nil {
		recv := recvParam(cb)
		ssax.Instrs(cb, func(ins ssa.Instruction) {
			if st, ok := ins.(*ssa.Store); ok {
				if fa, ok := st.Addr.(*ssa.FieldAddr); ok && fa.X == ssa.Value(recv) && isStr(st.Val.Type()) {
					bestField = ssax.FieldName(fa)
				}
			}
		})
	}
	if pathCell == nil && bestField == "" {
		c.Hard("R06.2: no captured string cell in the Range callback")
		return
	}
	isCellAddr := func(a ssa.Value) bool {
		if pathCell != nil {
			return a == ssa.Value(pathCell)
		}
		fa, ok := a.(*ssa.FieldAddr)
		return ok && fa.X == ssa.Value(recvParam(cb)) && ssax.FieldName(fa) == bestField
	}
	ord := ordinals{}
	ssax.Instrs(cb, func(ins ssa.Instruction) {
		st, ok := ins.(*ssa.Store)
		if !ok || !isCellAddr(st.Addr) {
			return
		}
		key := "mount.mountPoint|" + ord.next("best-update")
		facts := ssax.FactsAtInstr(st)
		cand := st.Val
		strict, exact, prefix := false, false, false
		for _, f := range facts {
			if bo, ok := f.Cond.(*ssa.BinOp); ok {
				switch {
				case (bo.Op == token.GTR || bo.Op == token.LSS) && f.Val:
					big, small := bo.X, bo.Y
					if bo.Op == token.LSS {
						big, small = small, big
					}
					bl, ok1 := big.(*ssa.Call)
					sl, ok2 := small.(*ssa.Call)
					if ok1 && ok2 && isLenCall(bl) && isLenCall(sl) && bl.Call.Args[0] == cand {
						if u, ok := sl.Call.Args[0].(*ssa.UnOp); ok && isCellAddr(u.X) {
							strict = true
						}
					}
				case bo.Op == token.EQL && f.Val && (bo.X == cand || bo.Y == cand):
					exact = true
				}
			}
			if cl, ok := f.Cond.(*ssa.Call); ok && f.Val && ssax.CalleeIs(cl, "strings", "HasPrefix") {
				prefix = true
			}
		}
		switch {
		case exact:
			c.OK("R06.2", key, p.Pos(st.Pos()), "exact match stores the matching mount path")
		case prefix && strict:
			c.OK("R06.2", key, p.Pos(st.Pos()), "prefix match updates only under len(candidate) > len(current best)")
		default:
			c.Bad("R06.2", key, p.Pos(st.Pos()), fmt.Sprintf("%s: the best-so-far mount path is overwritten without a strict 'candidate is longer than the current best' comparison (prefix=%v strict=%v): with nested mount points the result depends on the iteration order of the mount table", fname(cb), prefix, strict))
		}
	})
}

// r06Pairs: delegation through Mount pairs in helpers and mount.Rename.
func r06Pairs(c *core.Ctx, p *load.Program) {
	var fns []*ssa.Function
	fns = append(fns, helperFuncs(p)...)
	sort.Slice(fns, func(i, j int) bool { return fns[i].Name() < fns[j].Name() })
	eng := newErrEngine(p)
	for _, fn := range fns {
		ord := ordinals{}
		// a two-name helper (Rename): each name routed on its own, delegated only when both routes end in the same
		// file system, with both sub-paths in order, and the error renamed to the caller's two names
		var mounts []*ssa.Call
		ssax.Instrs(fn, func(ins ssa.Instruction) {
			if mc, ok := ins.(*ssa.Call); ok && mc.Call.IsInvoke() && mc.Call.Method.Name() == "Mount" {
				mounts = append(mounts, mc)
			}
		})
		if len(mounts) == 2 {
			r06TwoRoutes(c, p, fn, mounts)
			continue
		}
		ssax.Instrs(fn, func(ins ssa.Instruction) {
			mc, ok := ins.(*ssa.Call)
			if !ok || !mc.Call.IsInvoke() || mc.Call.Method.Name() != "Mount" {
				return
			}
			key := fname(fn) + "|" + ord.next("Mount-pair")
			mfs, msub := ssax.ExtractOf(mc, 0), ssax.ExtractOf(mc, 1)
			name := mc.Call.Args[0]
			if mfs == nil || msub == nil {
				c.Bad("R06.3", key, p.Pos(mc.Pos()), fmt.Sprintf("%s discards a result of Mount(%s)", fname(fn), vname(name)))
				return
			}
			// the delegated call: a static call receiving mfs
			var deleg *ssa.Call
			for _, r := range *mfs.Referrers() {
				if cl, ok := r.(*ssa.Call); ok && ssax.StaticCallee(cl) != nil {
					deleg = cl
				}
			}
			if deleg == nil {
				c.Bad("R06.3", key, p.Pos(mc.Pos()), fmt.Sprintf("%s: the file system returned by Mount(%s) is not the one the operation is delegated to", fname(fn), vname(name)))
				return
			}
			var problems []string
			pathArgs := 0
			for i, a := range deleg.Call.Args {
				if !isStr(a.Type()) {
					continue
				}
				pathArgs++
				if a != ssa.Value(msub) {
					problems = append(problems, fmt.Sprintf("argument %d of %s is %s, not the sub-path of this Mount call", i, ssax.CallName(deleg), vname(a)))
				}
			}
			if pathArgs == 0 {
				problems = append(problems, "the delegated call takes no path")
			}
			// translation of the delegated call's error
			ev := errLikeValueOf(deleg)
			if ev != nil {
				translated := false
				for _, r := range *ev.Referrers() {
					tc, ok := r.(*ssa.Call)
					if !ok {
						continue
					}
					callee := ssax.StaticCallee(tc)
					if callee == nil {
						continue
					}
					if k, ei := eng.translator(callee); k == "mount" && tc.Call.Args[ei] == ev {
						var strs []ssa.Value
						for i, a := range tc.Call.Args {
							if i != ei && isStr(a.Type()) {
								strs = append(strs, a)
							}
						}
						if len(strs) == 2 && strs[0] == name && strs[1] == ssa.Value(msub) {
							translated = true
						} else {
							problems = append(problems, fmt.Sprintf("the error is translated with (%s, %s) instead of this call's (name, sub-path)", vname(strs[0]), vname(strs[len(strs)-1])))
							translated = true
						}
					}
				}
				if !translated {
					problems = append(problems, "the delegated call's error is not passed through the mount translator")
				}
			}
			if len(problems) == 0 {
				c.OK("R06.3", key, p.Pos(mc.Pos()), fmt.Sprintf("%s delegated with the pair of Mount(%s); error translated with the same pair", ssax.CallName(deleg), vname(name)))
			} else {
				c.Bad("R06.3", key, p.Pos(mc.Pos()), fmt.Sprintf("%s: %s — the operation would act on, or report, a different path than the one routed", fname(fn), strings.Join(problems, "; ")))
			}
		})
	}
	// mount.Rename: two routed names, each used with its own pair
	rn := p.Method("mount", "FS", "Rename")
	mp := p.Method("mount", "FS", "mountPoint")
	if rn == nil || mp == nil {
		c.Hard("anchor: mount.(*FS).Rename / mountPoint")
		return
	}
	type pair struct {
		call      *ssa.Call
		fs, sub   ssa.Value
		nameParam int
	}
	var pairs []pair
	ssax.Instrs(rn, func(ins ssa.Instruction) {
		if cl, ok := ins.(*ssa.Call); ok && ssax.StaticCallee(cl) == mp {
			pi := paramIndex(rn, cl.Call.Args[1])
			pairs = append(pairs, pair{cl, ssax.ExtractOf(cl, 0), ssax.ExtractOf(cl, 2), pi})
		}
	})
	if len(pairs) != 2 {
		c.Bad("R06.3", "mount.Rename|two-routes", p.Pos(rn.Pos()), fmt.Sprintf("mount.Rename must route each of its two names on its own (found %d mountPoint calls)", len(pairs)))
		return
	}
	bad := []string{}
	n := 0
	ssax.Instrs(rn, func(ins ssa.Instruction) {
		cl, ok := ins.(*ssa.Call)
		if !ok {
			return
		}
		// any call (helper or interface) that takes one of the routed file systems
		var fsArg ssa.Value
		if cl.Call.IsInvoke() {
			fsArg = cl.Call.Value
		} else if len(cl.Call.Args) > 0 {
			fsArg = cl.Call.Args[0]
		}
		var own *pair
		for i := range pairs {
			if pairs[i].fs != nil && fsArg == pairs[i].fs {
				own = &pairs[i]
			}
		}
		if own == nil {
			return
		}
		n++
		for _, a := range cl.Call.Args {
			if !isStr(a.Type()) {
				continue
			}
			okArg := a == own.sub
			// same-mount rename passes both sub-paths to the one file system both names routed to
			for i := range pairs {
				if a == pairs[i].sub && ssax.CallName(cl) == "hackpadfs.Rename" {
					okArg = true
				}
			}
			if !okArg {
				bad = append(bad, fmt.Sprintf("%s at %s passes %s to the file system routed for parameter #%d", ssax.CallName(cl), p.Pos(cl.Pos()), vname(a), own.nameParam))
			}
		}
	})
	if pairs[0].nameParam == pairs[1].nameParam || pairs[0].nameParam < 1 || pairs[1].nameParam < 1 {
		bad = append(bad, "the two mountPoint calls do not route the old and the new name respectively")
	}
	c.Check(len(bad) == 0 && n >= 4, "R06.3", "mount.Rename|pairs", p.Pos(rn.Pos()), fmt.Sprintf("%d calls on the routed file systems each use the sub-path of their own route", n),
		fmt.Sprintf("mount.Rename mixes the two routes: %s", strings.Join(bad, "; ")))
}

func r06AddMount(c *core.Ctx, p *load.Program) {
	var ins *ssa.Call
	var in *ssa.Function
	for _, fn := range pkgFuncs(p, "mount") {
		ssax.Instrs(fn, func(i ssa.Instruction) {
			cl, ok := i.(*ssa.Call)
			if !ok || len(cl.Call.Args) != 3 {
				return
			}
			if ssax.CalleeIs(cl, "sync", "(*Map).LoadOrStore") || ssax.CalleeIs(cl, "sync", "(*Map).Store") || ssax.CalleeIs(cl, "sync", "(*Map).Swap") {
				ins, in = cl, fn
			}
		})
	}
	if ins == nil {
		c.Hard("anchor: mount table insertion")
		return
	}
	key := "mount.addMount|insert"
	var missing []string
	facts := ssax.FactsAtInstr(ins)
	pkey := ssax.Unwrap(ins.Call.Args[1])
	has := func(pred func(f ssax.Fact) bool) bool {
		for _, f := range facts {
			if pred(f) {
				return true
			}
		}
		return false
	}
	if !has(func(f ssax.Fact) bool {
		cl, ok := f.Cond.(*ssa.Call)
		return ok && f.Val && isValidPathCall(cl) && cl.Call.Args[0] == pkey
	}) {
		missing = append(missing, "ValidPath(p) true")
	}
	if !has(func(f ssax.Fact) bool {
		bo, ok := f.Cond.(*ssa.BinOp)
		if !ok || bo.Op != token.EQL || f.Val {
			return false
		}
		s, isC := ssax.ConstString(bo.Y)
		return isC && s == "." && bo.X == pkey
	}) {
		missing = append(missing, "p != \".\"")
	}
	// successful open + stat (two error values known nil, produced by Open and Stat invokes), IsDir true
	opens, stats, isdir := false, false, false
	for _, f := range facts {
		if x, eq, ok := ssax.NilTest(f.Cond); ok && eq == f.Val {
			if cl := callProducing(x); cl != nil && cl.Call.IsInvoke() {
				switch cl.Call.Method.Name() {
				case "Open":
					opens = true
				case "Stat":
					stats = true
				}
			}
		}
		if cl, ok := f.Cond.(*ssa.Call); ok && f.Val && cl.Call.IsInvoke() && cl.Call.Method.Name() == "IsDir" {
			isdir = true
		}
	}
	if !opens {
		missing = append(missing, "mount point opened successfully")
	} else if why := addMountOpensRoute(facts, pkey); why != "" {
		missing = append(missing, why)
	}
	if !stats {
		missing = append(missing, "Stat of the mount point succeeded")
	}
	if !isdir {
		missing = append(missing, "IsDir() true")
	}
	// atomic insert
	if ssax.CalleeIs(ins, "sync", "(*Map).Swap") {
		missing = append(missing, "atomic LoadOrStore — Swap REPLACES the file system already mounted there before the call answers ErrExist: a rejected AddMount takes over the mount point")
	} else if !ssax.CalleeIs(ins, "sync", "(*Map).LoadOrStore") {
		missing = append(missing, "atomic LoadOrStore (a plain Store after a separate Load lets two concurrent mounts of one point both succeed)")
	} else {
		loaded := ssax.ExtractOf(ins, 1)
		okLoaded := false
		if loaded != nil {
			for _, r := range *loaded.Referrers() {
				if ifi, ok := r.(*ssa.If); ok {
					_, ev, isErr := blockReturnsError(ifi.Block().Succs[0])
					if isErr && classifyErr(ev).only("ErrExist", false) {
						okLoaded = true
					}
				}
			}
		}
		if !okLoaded {
			missing = append(missing, "'loaded' answered with ErrExist")
		}
	}
	if len(missing) == 0 {
		c.OK("R06.4", key, p.Pos(ins.Pos()), "insertion dominated by validation, existing-directory checks; atomic LoadOrStore with ErrExist on conflict")
	} else {
		c.Bad("R06.4", key, p.Pos(ins.Pos()), fmt.Sprintf("%s: the mount table insertion is missing: %s", fname(in), strings.Join(missing, "; ")))
	}
}

// addMountOpensRoute: the successful Open among the facts addresses the mount point through its own route:
// Mount(p) -> (m, sub), m.Open(sub), or Mount(path.Dir(p)) -> (m, sub), m.Open(path.Join(sub, path.Base(p))).
func addMountOpensRoute(facts []ssax.Fact, pkey ssa.Value) string {
	for _, f := range facts {
		x, eq, ok := ssax.NilTest(f.Cond)
		if !ok || eq != f.Val {
			continue
		}
		cl := callProducing(x)
		if cl == nil || !cl.Call.IsInvoke() || cl.Call.Method.Name() != "Open" || len(cl.Call.Args) != 1 {
			continue
		}
		rx, ok := cl.Call.Value.(*ssa.Extract)
		if !ok || rx.Index != 0 {
			return "the existence check opens the mount point in a file system that is not the result of a route resolution"
		}
		mc, ok := rx.Tuple.(*ssa.Call)
		if !ok || len(mc.Call.Args) == 0 {
			return "the existence check opens the mount point in a file system that is not the result of a route resolution"
		}
		routed := ssax.Unwrap(mc.Call.Args[len(mc.Call.Args)-1])
		arg := cl.Call.Args[0]
		isSub := func(v ssa.Value) bool {
			e, ok := v.(*ssa.Extract)
			return ok && e.Tuple == ssa.Value(mc) && e.Index == 1
		}
		switch {
		case routed == pkey && isSub(arg):
			return ""
		case pathDirOf(routed) == pkey:
			if jc, ok := arg.(*ssa.Call); ok && ssax.CalleeIs(jc, "path", "Join") {
				el := variadicElems(jc.Call.Args[0])
				if len(el) == 2 && isSub(el[0]) {
					if bc, ok := el[1].(*ssa.Call); ok && ssax.CalleeIs(bc, "path", "Base") && bc.Call.Args[0] == pkey {
						return ""
					}
				}
			}
		}
		return "the existence check does not open the mount point through its own route (Mount(p) or Mount(path.Dir(p)) joined with path.Base(p)): the directory is looked for in the wrong file system when the point lies below another mount"
	}
	return "mount point opened successfully"
}

// shapeInvalid: v can never satisfy ValidPath — the directory half of path.Split (empty or ending in a slash),
// a concatenation ending in "/", or an invalid constant.
func shapeInvalid(v ssa.Value) string {
	v = ssax.Unwrap(v)
	switch x := v.(type) {
	case *ssa.Extract:
		if cl, ok := x.Tuple.(*ssa.Call); ok && x.Index == 0 && (ssax.CalleeIs(cl, "path", "Split") || ssax.CalleeIs(cl, "path/filepath", "Split")) {
			return "the directory half of path.Split (empty or ending in '/')"
		}
	case *ssa.BinOp:
		if x.Op == token.ADD {
			if s, ok := ssax.ConstString(x.Y); ok && strings.HasSuffix(s, "/") {
				return "a concatenation ending in '/'"
			}
			if s, ok := ssax.ConstString(x.X); ok && strings.HasPrefix(s, "/") {
				return "a concatenation starting with '/'"
			}
		}
	case *ssa.Const:
		if s, ok := ssax.ConstString(x); ok && !fs.ValidPath(s) {
			return fmt.Sprintf("the invalid constant %q", s)
		}
	}
	return ""
}

// r06RouteArgs (R06.6): no route resolution is asked about a name that can never be valid — it would fall on the
// "invalid name" route (the root file system) whatever the mounts are.
func r06RouteArgs(c *core.Ctx, p *load.Program) {
	fsI := stdIface(p, "io/fs", "FS")
	for _, fn := range p.SrcFuncs() {
		ord := ordinals{}
		ssax.Instrs(fn, func(ins ssa.Instruction) {
			cl, ok := ins.(*ssa.Call)
			if !ok {
				return
			}
			name := ""
			var sig *types.Signature
			if cl.Call.IsInvoke() {
				name = cl.Call.Method.Name()
				sig, _ = cl.Call.Method.Type().(*types.Signature)
			} else if callee := ssax.StaticCallee(cl); callee != nil {
				name = callee.Name()
				sig = callee.Signature
			}
			if name != "Mount" || !isMountSig(sig, fsI) {
				return
			}
			arg := cl.Call.Args[len(cl.Call.Args)-1]
			key := fname(fn) + "|" + ord.next("route")
			if why := shapeInvalid(arg); why != "" {
				c.Bad("R06.6", key, p.Pos(cl.Pos()), fmt.Sprintf("%s resolves the route of %s, which can never be a valid name: the resolution always answers with the root file system and the unchanged string, whatever is mounted", fname(fn), why))
			} else {
				c.OK("R06.6", key, p.Pos(cl.Pos()), "route resolved for a name that can be valid")
			}
		})
	}
}

func r06Rename(c *core.Ctx, p *load.Program) {
	rn := p.Method("mount", "FS", "Rename")
	if rn == nil {
		return
	}
	// destination creation: hackpadfs.OpenFile(newMount, newSubPath, flags with CREATE, ...)
	var create *ssa.Call
	var blk *ssa.BasicBlock
	idx := 0
	for _, b := range rn.Blocks {
		for i, ins := range b.Instrs {
			if cl, ok := ins.(*ssa.Call); ok && ssax.CalleeIs(cl, mod, "OpenFile") {
				create, blk, idx = cl, b, i
			}
		}
	}
	if create == nil {
		// created some other way (Create, WriteFullFile…): the source's mode cannot be passed
		var other *ssa.Call
		ssax.Instrs(rn, func(ins ssa.Instruction) {
			if cl, ok := ins.(*ssa.Call); ok && (ssax.CalleeIs(cl, mod, "Create") || ssax.CalleeIs(cl, mod, "WriteFullFile")) {
				other = cl
			}
		})
		if other != nil {
			c.Bad("R06.5", "mount.Rename|destination-mode", p.Pos(other.Pos()), fmt.Sprintf("mount.Rename creates the destination with %s, which cannot carry the source file's mode: a file renamed across mounts arrives with the default permissions instead of its own", ssax.CallName(other)))
			return
		}
		c.Hard("anchor: destination OpenFile in mount.Rename")
		return
	}
	// the destination carries the source's mode: passed to OpenFile (applies on create) and set with Chmod (applies
	// when the destination existed) before the source is removed
	isSourceMode := func(v ssa.Value) bool {
		cl, ok := v.(*ssa.Call)
		return ok && cl.Call.IsInvoke() && cl.Call.Method.Name() == "Mode"
	}
	modeOK := len(create.Call.Args) >= 4 && isSourceMode(create.Call.Args[3])
	var chmod *ssa.Call
	ssax.Instrs(rn, func(ins ssa.Instruction) {
		if cl, ok := ins.(*ssa.Call); ok && ssax.CalleeIs(cl, mod, "Chmod") && len(cl.Call.Args) == 3 && cl.Call.Args[0] == create.Call.Args[0] && cl.Call.Args[1] == create.Call.Args[1] && isSourceMode(cl.Call.Args[2]) {
			chmod = cl
		}
	})
	switch {
	case !modeOK:
		c.Bad("R06.5", "mount.Rename|destination-mode", p.Pos(create.Pos()), "mount.Rename does not pass the source's Mode() to the OpenFile that creates the destination: the renamed file arrives with other permissions")
	case chmod == nil:
		c.Bad("R06.5", "mount.Rename|destination-mode", p.Pos(create.Pos()), "mount.Rename passes the source's mode to OpenFile only: OpenFile applies it when it creates the file, so an existing destination that is overwritten keeps its old mode — Chmod(destination, source mode) is missing")
	default:
		c.OK("R06.5", "mount.Rename|destination-mode", p.Pos(create.Pos()), "the source's mode is passed to OpenFile and set with Chmod for an existing destination")
	}
	newFS, newSub := create.Call.Args[0], create.Call.Args[1]
	dest := ssax.ExtractOf(create, 0)
	cerr := ssax.ExtractOf(create, 1)
	// source route: the other mountPoint pair
	isRemoveOf := func(cl *ssa.Call, fsV, subV ssa.Value) bool {
		return ssax.CalleeIs(cl, mod, "Remove") && cl.Call.Args[0] == fsV && cl.Call.Args[1] == subV
	}
	init := ssax.NewPathState()
	if cerr != nil {
		init.SetNil(cerr, ssax.IsNil)
	}
	var noCleanup, earlyRemove, lateSteps []string
	eidx := ssax.ErrorResultIndex(rn.Signature)
	var closeErrs []ssa.Value
	ssax.EnumPaths(rn, blk, idx+1, init, ssax.PathHooks{
		Instr: func(s *ssax.PathState, ins ssa.Instruction) {
			cl, ok := ins.(*ssa.Call)
			if !ok {
				return
			}
			if isRemoveOf(cl, newFS, newSub) {
				s.Counts["removedNew"] = 1
			}
			// a step on the destination that can fail, after the source is gone: its failure loses the file on both sides
			if s.Counts["removedOld"] == 1 && !isRemoveOf(cl, newFS, newSub) && len(cl.Call.Args) > 0 && cl.Call.Args[0] == newFS {
				if callee := ssax.StaticCallee(cl); callee != nil && p.InModule(callee) && ssax.ErrorResultIndex(callee.Signature) >= 0 {
					lateSteps = append(lateSteps, ssax.CallName(cl)+" at "+p.Pos(cl.Pos()))
				}
			}
			if cl.Call.IsInvoke() && cl.Call.Method.Name() == "Close" && dest != nil && s.Resolve(cl.Call.Value) == ssa.Value(dest) {
				s.Counts["closed"] = 1
				if ssax.HasRealReferrers(cl) {
					closeErrs = append(closeErrs, cl)
					s.Counts["closeChecked"] = 1
				}
			}
			if ssax.CalleeIs(cl, "io", "Copy") || ssax.CalleeIs(cl, "io", "CopyBuffer") {
				s.Counts["copied"] = 1
			}
			if ssax.CalleeIs(cl, mod, "Remove") && !isRemoveOf(cl, newFS, newSub) {
				// removal of the source
				okClose := false
				for _, ce := range closeErrs {
					if s.NilOf(ce) == ssax.IsNil {
						okClose = true
					}
				}
				if s.Counts["copied"] == 0 || !okClose {
					earlyRemove = append(earlyRemove, fmt.Sprintf("source removed at %s (copy done=%v, destination Close known nil=%v)", p.Pos(cl.Pos()), s.Counts["copied"] == 1, okClose))
				}
				s.Counts["removedOld"] = 1
			}
		},
		End: func(s *ssax.PathState, last ssa.Instruction) {
			r := last.(*ssa.Return)
			e := s.Resolve(r.Results[eidx])
			if ssax.IsNilConst(e) || s.NilOf(e) == ssax.IsNil {
				return
			}
			// the final `return renameErr(Remove(old…))` may be nil: only definite or possible failures after creation
			if s.Counts["removedNew"] == 0 && s.Counts["removedOld"] == 0 {
				noCleanup = append(noCleanup, p.Pos(r.Pos()))
			}
			if s.Counts["removedOld"] == 1 && s.Counts["removedNew"] == 0 && s.NilOf(e) != ssax.IsNil {
				// failing removal of the source must remove the copy again
				if cl := callProducing(e); cl != nil {
					noCleanup = append(noCleanup, p.Pos(r.Pos())+" (source removal failed, destination copy kept: file on both sides)")
				}
			}
		},
	})
	c.Check(len(noCleanup) == 0, "R06.5", "mount.Rename|cleanup-on-failure", p.Pos(create.Pos()), "every failing return after the destination was created removes it first",
		fmt.Sprintf("mount.Rename: after the destination file was created, the failing return(s) at %s are reached without removing it — a failed cross-mount rename leaves a (partial) file at the destination", dedup(noCleanup)))
	c.Check(len(earlyRemove) == 0, "R06.5", "mount.Rename|source-removed-last", p.Pos(create.Pos()), "the source is removed only after the copy and a nil destination Close",
		fmt.Sprintf("mount.Rename: %s — if the destination's Close (where data is committed) fails, the file is lost on both sides", dedup(earlyRemove)))
	c.Check(len(lateSteps) == 0, "R06.5", "mount.Rename|nothing-fallible-after-the-source-is-removed", p.Pos(create.Pos()), "no step on the destination follows the removal of the source",
		fmt.Sprintf("mount.Rename: after the source was removed a step on the destination can still fail (%s): the failure path then deletes the copy as well — the file is lost on both sides where the call must fail leaving both unchanged", dedup(lateSteps)))
	// destination opened with truncate and without exclusivity: an existing destination is destroyed before the copy is known good
	if k, ok := ssax.ConstInt(create.Call.Args[2]); ok {
		trunc := constOf(p, "FlagTruncate")
		excl := constOf(p, "FlagExclusive")
		c.Check(!(k&trunc != 0 && k&excl == 0), "R06.5", "mount.Rename|existing-destination", p.Pos(create.Pos()), "destination is not truncated in place",
			"mount.Rename opens the destination with O_TRUNC in place: an existing destination file is emptied before the copy is known to succeed, and is lost (removed) if the copy fails — 'the call fails leaving both sides unchanged' does not hold for an existing destination")
	}
}

func constOf(p *load.Program, name string) int64 {
	if c, ok := p.Pkg("").Types.Scope().Lookup(name).(*types.Const); ok {
		if v, ok := constInt64(c); ok {
			return v
		}
	}
	return 0
}

// r06TwoRoutes: the MountFS branch of a two-name helper.
func r06TwoRoutes(c *core.Ctx, p *load.Program, fn *ssa.Function, mounts []*ssa.Call) {
	key := fname(fn) + "|two-routes"
	var problems []string
	fs1, sub1 := ssax.ExtractOf(mounts[0], 0), ssax.ExtractOf(mounts[0], 1)
	fs2, sub2 := ssax.ExtractOf(mounts[1], 0), ssax.ExtractOf(mounts[1], 1)
	n1, n2 := mounts[0].Call.Args[0], mounts[1].Call.Args[0]
	if fs1 == nil || fs2 == nil || sub1 == nil || sub2 == nil {
		c.Bad("R06.3", key, p.Pos(mounts[0].Pos()), fmt.Sprintf("%s discards a result of one of its two Mount calls", fname(fn)))
		return
	}
	if n1 == n2 {
		problems = append(problems, "both Mount calls route the same name")
	}
	// delegation
	var deleg *ssa.Call
	for _, r := range *fs1.Referrers() {
		if cl, ok := r.(*ssa.Call); ok && ssax.StaticCallee(cl) != nil && len(cl.Call.Args) >= 3 && cl.Call.Args[0] == ssa.Value(fs1) {
			var strs []ssa.Value
			for _, a := range cl.Call.Args {
				if isStr(a.Type()) {
					strs = append(strs, a)
				}
			}
			if len(strs) == 2 {
				deleg = cl
				if strs[0] != ssa.Value(sub1) || strs[1] != ssa.Value(sub2) {
					problems = append(problems, fmt.Sprintf("%s receives (%s, %s) instead of the two sub-paths in order", ssax.CallName(cl), vname(strs[0]), vname(strs[1])))
				}
			}
		}
	}
	if deleg == nil {
		problems = append(problems, "no call is delegated to the routed file system with both sub-paths")
	} else {
		// same file system: a dominating test involving both routed file systems
		same := false
		for _, f := range ssax.FactsAtInstr(deleg) {
			uses1, uses2 := false, false
			switch x := f.Cond.(type) {
			case *ssa.Call:
				for _, a := range x.Call.Args {
					if a == ssa.Value(fs1) {
						uses1 = true
					}
					if a == ssa.Value(fs2) {
						uses2 = true
					}
				}
			case *ssa.BinOp:
				uses1 = x.X == ssa.Value(fs1) || x.Y == ssa.Value(fs1)
				uses2 = x.X == ssa.Value(fs2) || x.Y == ssa.Value(fs2)
			}
			if uses1 && uses2 {
				same = true
			}
		}
		if !same {
			problems = append(problems, "the delegation is not guarded by a test that both names routed to the same file system (the second name's sub-path would be applied to the first name's file system)")
		}
		// error renamed to the caller's names
		if ev := errLikeValueOf(deleg); ev != nil {
			renamed := false
			for _, r := range *ev.Referrers() {
				if tc, ok := r.(*ssa.Call); ok && ssax.StaticCallee(tc) != nil {
					var strs []ssa.Value
					for _, a := range tc.Call.Args {
						if isStr(a.Type()) {
							strs = append(strs, a)
						}
					}
					if len(strs) == 2 && strs[0] == n1 && strs[1] == n2 {
						renamed = true
					}
				}
			}
			if !renamed {
				problems = append(problems, "the delegated call's error is not rewritten with the caller's two names")
			}
		}
	}
	if len(problems) == 0 {
		c.OK("R06.3", key, p.Pos(mounts[0].Pos()), "each name routed on its own; delegated with both sub-paths only when both routes end in one file system; error renamed to the caller's names")
	} else {
		c.Bad("R06.3", key, p.Pos(mounts[0].Pos()), fmt.Sprintf("%s: %s", fname(fn), strings.Join(problems, "; ")))
	}
}

// r06EveryHelperRoutes (R06.7): every helper that probes its file system for an optional capability interface also
// has a MountFS branch — otherwise the operation works on the parts of a composition that implement it natively and
// fails with ErrNotImplemented on the generic Sub view or on any other MountFS (Rename through Sub(fs, dir)).
// Exempt, with reasons: Sub (a view must keep the router, R07.4), Symlink (the link target is a path of the link's
// own directory, which the route translation cannot rewrite), and helpers whose fallback is the generic Open.
func r06EveryHelperRoutes(c *core.Ctx, p *load.Program, rule string) {
	mountI := ifaceOf(p, "", "MountFS")
	fsI := stdIface(p, "io/fs", "FS")
	if mountI == nil || fsI == nil {
		c.Hard("anchor: hackpadfs.MountFS")
		return
	}
	exempt := map[string]string{
		"Sub":     "a view keeps the router itself (R07.4)",
		"Symlink": "the link target is relative to the link and cannot be rewritten by the route translation",
	}
	for _, fn := range helperFuncs(p) {
		if len(fn.Params) == 0 || !types.Implements(fn.Params[0].Type(), fsI) {
			continue
		}
		caps, routes := 0, false
		ssax.Instrs(fn, func(ins ssa.Instruction) {
			ta, ok := ins.(*ssa.TypeAssert)
			if !ok || ta.X != ssa.Value(fn.Params[0]) {
				return
			}
			it, ok := ta.AssertedType.Underlying().(*types.Interface)
			if !ok {
				return
			}
			if types.Identical(it, mountI) {
				routes = true
			} else {
				caps++
			}
		})
		if caps == 0 {
			continue
		}
		key := fname(fn) + "|has-mount-branch"
		fallsBackToOpen := false
		ssax.Instrs(fn, func(ins ssa.Instruction) {
			cl, ok := ins.(*ssa.Call)
			if !ok {
				return
			}
			if cl.Call.IsInvoke() && cl.Call.Method.Name() == "Open" && cl.Call.Value == ssa.Value(fn.Params[0]) {
				fallsBackToOpen = true
			}
			// or to another helper of the package with the same file system (Create -> OpenFile), which routes itself
			if callee := ssax.StaticCallee(cl); callee != nil && callee != fn && callee.Pkg == fn.Pkg && callee.Signature.Recv() == nil && callee.Object() != nil && callee.Object().Exported() && len(cl.Call.Args) > 0 && cl.Call.Args[0] == ssa.Value(fn.Params[0]) {
				fallsBackToOpen = true
			}
		})
		switch {
		case routes:
			c.OK(rule, key, p.Pos(fn.Pos()), "probes MountFS besides its capability interface")
		case exempt[fn.Name()] != "":
			c.OKTrivial(rule, key, p.Pos(fn.Pos()), "exempt: "+exempt[fn.Name()])
		case fallsBackToOpen:
			c.OKTrivial(rule, key, p.Pos(fn.Pos()), "falls back to fs.Open or to another helper with the same file system, which route themselves")
		default:
			c.Bad(rule, key, p.Pos(fn.Pos()), fmt.Sprintf("%s probes an optional capability of its file system but has no MountFS branch: through a generic Sub view or any MountFS that does not implement the capability itself the operation fails with ErrNotImplemented although the routed file system supports it", fname(fn)))
		}
	}
}

// r06RootOnlyThroughRoutes (R06.8): the field holding the root file system of the mount FS is read only inside the route
// resolution (the MountFS method Mount and what it calls): an operation that addresses the root file system on its
// own — a fast path for names without a separator — skips the mount table, and a mount point directly below the
// root is opened in the root file system (its empty placeholder directory) instead of in the mounted one.
func r06RootOnlyThroughRoutes(c *core.Ctx, p *load.Program, rule string) {
	n := p.Named("mount", "FS")
	if n == nil {
		c.Hard("anchor: mount.FS")
		return
	}
	st, ok := n.Underlying().(*types.Struct)
	if !ok {
		return
	}
	fsI := stdIface(p, "io/fs", "FS")
	rootField := ""
	for i := 0; i < st.NumFields(); i++ {
		f := st.Field(i)
		if _, isI := f.Type().Underlying().(*types.Interface); isI && fsI != nil && types.Implements(f.Type(), fsI) {
			rootField = f.Name()
		}
	}
	mount := methodsOf(p, n)["Mount"]
	if rootField == "" || mount == nil {
		c.Hard("anchor: mount.FS root field / Mount")
		return
	}
	allowed := map[*ssa.Function]bool{}
	var mark func(f *ssa.Function)
	mark = func(f *ssa.Function) {
		if f == nil || allowed[f] || f.Blocks == nil {
			return
		}
		allowed[f] = true
		for _, a := range f.AnonFuncs {
			mark(a)
		}
		ssax.Instrs(f, func(ins ssa.Instruction) {
			if ci, ok := ins.(ssa.CallInstruction); ok {
				if callee := ssax.StaticCallee(ci); callee != nil && callee.Pkg == mount.Pkg {
					mark(callee)
				}
			}
		})
	}
	mark(mount)
	readers := 0
	for _, fn := range pkgFuncs(p, "mount") {
		root := fn
		for root.Parent() != nil {
			root = root.Parent()
		}
		reads := token.NoPos
		ssax.Instrs(fn, func(ins ssa.Instruction) {
			if u, ok := ins.(*ssa.UnOp); ok && isLoadOfNamedField(u, n, rootField) {
				reads = u.Pos()
			}
		})
		if reads == token.NoPos {
			continue
		}
		readers++
		key := fname(fn) + "|root-fs-read-inside-route-resolution"
		c.Check(allowed[fn] || allowed[root], rule, key, p.Pos(reads), "the root file system is read by the route resolution only",
			fmt.Sprintf("%s reads the mount FS's root file system directly, outside the route resolution (Mount and its callees): the operation can address the root file system without consulting the mount table — a mount point directly below the root is then served from the root's placeholder directory, and a walk skips the mounted tree", fname(fn)))
	}
	if readers == 0 {
		c.Hard("anchor: no reader of mount.FS.%s", rootField)
	}
}

// r06DestinationTruncated (R06.9): the cross-mount Rename opens its destination for writing with FlagCreate and
// FlagTruncate: without the truncation a shorter source leaves the tail of a longer existing destination behind
// ("new" over "previous…" gives "newvious…").
func r06DestinationTruncated(c *core.Ctx, p *load.Program) {
	fn := p.Method("mount", "FS", "Rename")
	if fn == nil {
		c.Hard("anchor: mount.FS.Rename")
		return
	}
	trunc, okT := flagConst(p, "FlagTruncate")
	create, okC := flagConst(p, "FlagCreate")
	if !okT || !okC {
		c.Hard("anchor: FlagTruncate / FlagCreate")
		return
	}
	n := 0
	ssax.Instrs(fn, func(ins ssa.Instruction) {
		cl, ok := ins.(*ssa.Call)
		if !ok {
			return
		}
		callee := ssax.StaticCallee(cl)
		if callee == nil || callee.Name() != "OpenFile" || pkgPathOf(callee) != mod || len(cl.Call.Args) != 4 {
			return
		}
		k, isK := ssax.ConstInt(cl.Call.Args[2])
		if !isK || k&create == 0 {
			return
		}
		n++
		c.Check(k&trunc != 0, "R06.9", "mount.Rename|destination-opened-with-truncate", p.Pos(cl.Pos()), "the destination is created or truncated before the copy",
			"mount.Rename opens the destination of a cross-mount copy without FlagTruncate: an existing, longer destination keeps its tail behind the copied bytes — Rename of \"new\" over \"previous, much longer contents\" leaves \"newvious, much longer contents\"")
	})
	if n == 0 {
		c.Hard("anchor: creating OpenFile of the destination in mount.Rename")
	}
}

func flagConst(p *load.Program, name string) (int64, bool) {
	pk := p.Pkg("")
	if pk == nil || pk.Types == nil {
		return 0, false
	}
	obj, ok := pk.Types.Scope().Lookup(name).(*types.Const)
	if !ok {
		return 0, false
	}
	v, exact := constant.Int64Val(obj.Val())
	return v, exact
}

// r06NoVariableCutset (R06.10): strings.TrimLeft / TrimRight / Trim take a SET of characters: called with a path (a
// non-constant string) as cutset they strip every leading character that occurs anywhere in that path — the mount
// "ab" turns "ab/ba" into ".", the mount "a" turns "a/a/x" into "x". Prefixes are cut with TrimPrefix.
func r06NoVariableCutset(c *core.Ctx, p *load.Program, rule string, pkgs ...string) {
	n := 0
	for _, rel := range pkgs {
		for _, fn := range pkgFuncs(p, rel) {
			ord := ordinals{}
			ssax.Instrs(fn, func(ins ssa.Instruction) {
				cl, ok := ins.(*ssa.Call)
				if !ok || !(ssax.CalleeIs(cl, "strings", "TrimLeft") || ssax.CalleeIs(cl, "strings", "TrimRight") || ssax.CalleeIs(cl, "strings", "Trim")) {
					return
				}
				n++
				// a cutset built by concatenation (x + "/") is a prefix or suffix mistaken for a character set; a constant or
				// a separator handed in as a value is a genuine set
				_, isConcat := cl.Call.Args[1].(*ssa.BinOp)
				key := fname(fn) + "|" + ord.next("cutset-is-not-a-concatenation")
				c.Check(!isConcat, rule, key, p.Pos(cl.Pos()), "the cutset is a constant or a separator value, not a concatenated path",
					fmt.Sprintf("%s passes a variable string as the CUTSET of %s: every leading character that occurs anywhere in it is stripped, not the string as a prefix — below the mount point \"ab\" the path \"ab/ba\" resolves to \".\", below \"a\" the path \"a/a/x\" to \"x\"", fname(fn), ssax.CallName(cl)))
			})
		}
	}
	if n == 0 {
		c.OK(rule, "no-trim-with-cutset", "", "no strings.Trim/TrimLeft/TrimRight call in the analysed packages")
	}
}

// rangeCallbackOf: the function fn hands to (*sync.Map).Range — its closure, or the method behind a method value
// (`search.visit`).
func rangeCallbackOf(fn *ssa.Function) *ssa.Function {
	var cb *ssa.Function
	ssax.Instrs(fn, func(ins ssa.Instruction) {
		cl, ok := ins.(*ssa.Call)
		if !ok || !ssax.CalleeIs(cl, "sync", "(*Map).Range") || len(cl.Call.Args) < 2 || cb != nil {
			return
		}
		originIs(cl.Call.Args[1], func(v ssa.Value) bool {
			mc, ok := v.(*ssa.MakeClosure)
			if !ok {
				return false
			}
			f, _ := mc.Fn.(*ssa.Function)
			if f == nil {
				return false
			}
			if strings.HasSuffix(f.Name(), "$bound") {
				// the wrapper of a method value: the method it calls
				ssax.Instrs(f, func(wi ssa.Instruction) {
					if wc, ok := wi.(*ssa.Call); ok {
						if callee := ssax.StaticCallee(wc); callee != nil && callee.Blocks != nil {
							cb = callee
						}
					}
				})
				return cb != nil
			}
			cb = f
			return true
		})
	})
	return cb
}

// r06NoRawFSComparison (R06.11): no `==` / `!=` between two file-system interface values in packages mount and the
// root package, except inside a function that recovers (sameFS): comparing two interface values whose dynamic type is
// the same uncomparable struct (a user's wrapper mounted by value, with a slice, map or func field) panics at run time.
func r06NoRawFSComparison(c *core.Ctx, p *load.Program) {
	fsI := stdIface(p, "io/fs", "FS")
	if fsI == nil {
		c.Hard("anchor: io/fs.FS")
		return
	}
	bad := ""
	guarded := 0
	for _, rel := range []string{"mount", ""} {
		for _, fn := range pkgFuncs(p, rel) {
			recovers := false
			root := fn
			for root.Parent() != nil {
				root = root.Parent()
			}
			ssax.InstrsDeep(root, func(_ *ssa.Function, ins ssa.Instruction) {
				if cl, ok := ins.(*ssa.Call); ok {
					if b, ok := cl.Call.Value.(*ssa.Builtin); ok && b.Name() == "recover" {
						recovers = true
					}
				}
			})
			ssax.Instrs(fn, func(ins ssa.Instruction) {
				bo, ok := ins.(*ssa.BinOp)
				if !ok || (bo.Op != token.EQL && bo.Op != token.NEQ) {
					return
				}
				isFS := func(v ssa.Value) bool {
					if ssax.IsNilConst(v) {
						return false
					}
					it, ok := v.Type().Underlying().(*types.Interface)
					return ok && types.Implements(v.Type(), fsI) && it.NumMethods() > 0
				}
				if !isFS(bo.X) || !isFS(bo.Y) {
					return
				}
				if recovers {
					guarded++
					return
				}
				if bad == "" {
					bad = fname(fn) + " at " + p.Pos(bo.Pos())
				}
			})
		}
	}
	c.Check(bad == "" && guarded > 0, "R06.11", "mount|file-system-values-compared-under-recover-only", "-", fmt.Sprintf("%d comparison(s) of file-system values, each inside a function that recovers", guarded),
		fmt.Sprintf("%s compares two file-system interface values with == outside a recovering function: for two values of one uncomparable struct type (a wrapper mounted by value that has a slice, map or func field) the comparison panics — a Rename between such mounts crashes instead of being routed", bad))
}

// r06CopyOnlyBetweenDifferentFS (R06.12): the copy of mount.Rename (the OpenFile that creates/truncates the destination)
// is reached only on the false edge of a comparison of the two ROUTED FILE SYSTEMS — directly, or through a module
// function handed both (sameFS). Different mount points are not enough: one file system mounted at two points routes
// a/f and b/f to the same file, and the copy truncates its own source before reading it (Rename returns nil, the file is gone).
func r06CopyOnlyBetweenDifferentFS(c *core.Ctx, p *load.Program) {
	rn := p.Method("mount", "FS", "Rename")
	if rn == nil {
		return
	}
	var create *ssa.Call
	ssax.Instrs(rn, func(ins ssa.Instruction) {
		if cl, ok := ins.(*ssa.Call); ok && (ssax.CalleeIs(cl, mod, "OpenFile") || ssax.CalleeIs(cl, mod, "Create") || ssax.CalleeIs(cl, mod, "WriteFullFile")) {
			create = cl
		}
	})
	if create == nil {
		return // R06.5 reports the missing anchor
	}
	newFS := create.Call.Args[0]
	isOtherFS := func(v ssa.Value) bool {
		_, isIface := v.Type().Underlying().(*types.Interface)
		return isIface && v != newFS && !ssax.IsNilConst(v)
	}
	found := false
	for _, f := range ssax.FactsAtInstr(create) {
		switch x := f.Cond.(type) {
		case *ssa.BinOp:
			// newMount != oldMount held, or newMount == oldMount did not
			if (x.Op == token.EQL && !f.Val || x.Op == token.NEQ && f.Val) && (x.X == newFS && isOtherFS(x.Y) || x.Y == newFS && isOtherFS(x.X)) {
				found = true
			}
		case *ssa.Call:
			callee := ssax.StaticCallee(x)
			if f.Val || callee == nil || !p.InModule(callee) || len(x.Call.Args) != 2 {
				continue
			}
			if x.Call.Args[0] == newFS && isOtherFS(x.Call.Args[1]) || x.Call.Args[1] == newFS && isOtherFS(x.Call.Args[0]) {
				// the callee compares its two parameters
				ssax.Instrs(callee, func(ins ssa.Instruction) {
					if bo, ok := ins.(*ssa.BinOp); ok && bo.Op == token.EQL {
						_, px := bo.X.(*ssa.Parameter)
						_, py := bo.Y.(*ssa.Parameter)
						if px && py {
							found = true
						}
					}
				})
			}
		}
	}
	c.Check(found, "R06.12", "mount.Rename|copy-only-between-different-file-systems", p.Pos(create.Pos()), "the copy is dominated by 'the two routed file systems differ'",
		"mount.Rename copies (creates/truncates the destination) wherever the two mount POINTS differ, without having compared the two routed file systems: with one file system mounted at two points, Rename(\"a/f\", \"b/f\") opens its own source with O_TRUNC, copies 0 bytes, removes the \"source\" and returns nil — the file is destroyed")
}
