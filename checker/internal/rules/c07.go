package rules

import (
	"fmt"
	"go/token"
	"go/types"
	"strings"

	"golang.org/x/tools/go/ssa"

	"hpfscheck/internal/core"
	"hpfscheck/internal/load"
	"hpfscheck/internal/ssax"
)

func init() {
	register(&Spec{ID: "C07", Targets: []load.Target{load.Linux, load.Windows}, Run: runC07})
}

// fsConfigFields: string fields of module types implementing io/fs.FS (receiver configuration such as a Sub root).
type cfgField struct {
	named *types.Named
	name  string
}

func fsConfigFields(p *load.Program) []cfgField {
	fsI := stdIface(p, "io/fs", "FS")
	var out []cfgField
	if fsI == nil {
		return nil
	}
	for _, n := range implementers(p, fsI) {
		if strings.HasPrefix(typeKey(n), "fstest.") {
			continue
		}
		st, ok := n.Underlying().(*types.Struct)
		if !ok {
			continue
		}
		for i := 0; i < st.NumFields(); i++ {
			if b, ok := st.Field(i).Type().Underlying().(*types.Basic); ok && b.Kind() == types.String {
				out = append(out, cfgField{n, st.Field(i).Name()})
			}
		}
	}
	return out
}

func runC07(c *core.Ctx) {
	runFixtures(c, "valid", "route")
	c.Explain("Structural clauses of C07 decided from source: (R07.1) every path.Join that combines a Sub root kept in a file-system value (subFS.basePath, os.FS.root) with a name does so where the name is known to satisfy ValidPath — a valid name has no '..' element, so the joined path is lexically inside the root — and every value stored into such a root field is a constant, the old root, or derived from a name known valid at the store; (R07.2) confinement: the wrapped root file system of the generic Sub view is read only by its Mount method and constructor, and every file-system call the view makes uses the (FS, subPath) pair returned by one Mount call; (R07.3) the view translates errors with the (name, subPath) pair of that same call; (R07.4) no function of the module (other than Mount implementations) returns a file system that derives from the file-system half of a Mount(dir) route resolution — the route of dir says nothing about the routes of names below dir, so a view built on it misses mounts below dir; (R07.5 = R06.7) every helper that probes an optional capability also probes MountFS, through which the generic Sub view delegates — without it the operation fails with ErrNotImplemented on the view while it succeeds on the parent. (R07.6) prefix tests against a view's root are on element boundaries; (R07.7) a helper never resolves a route a second time on the file system Mount returned. (R07.8) no method of a view type writes a field of its receiver; (R07.9 = R05.11) namespace typing of the translator. (R07.10) = R06.3 pairing under C07; (R07.11) the generic view delegates to the exported helper of its own name. (R07.12) = R08.11 under C07; R07.1 also covers views allocated without a root. (R07.13) = R04.9 under C07. NOT claimed: equality of effects and results between the view and the parent at dir/name; symbolic links of an OS-backed FS (excluded by the property).")
	c.Assume("A2: path.Join(valid root, valid name) stays lexically inside root", "A1: the parent file system confines a valid sub-path")
	c.RuleDoc("R07.1", "join-after-validate for Sub roots; root fields only receive validated values")
	c.RuleDoc("R07.2", "generic Sub view reaches its parent only through Mount's (FS, subPath) pair")
	c.RuleDoc("R07.3", "Sub view error translation uses the same pair")
	c.RuleDoc("R07.6", "prefix tests against a view's root (os.FS root, mount translation) are on path-element boundaries")
	c.RuleDoc("R07.10", "a helper delegates with the (file system, sub-path) pair of one Mount call and translates with it (= R06.3)")
	c.RuleDoc("R07.13", "no substring test for \"..\" on a name: a view refuses exactly what its parent refuses (= R04.9)")
	c.RuleDoc("R07.12", "a helper asserts the operation's own interface before MountFS, so a view's own methods (and their guards) are the ones that run (= R08.11)")
	c.RuleDoc("R07.11", "a method of the generic Sub view delegates to the exported operation of its own name")
	c.RuleDoc("R07.8", "no method of a view type writes a field of its receiver")
	c.RuleDoc("R07.9", "the error translator compares the failing path only within its own namespace (= R05.11)")
	c.RuleDoc("R07.7", "a helper resolves a route once and leaves the next decision to the resolved file system")
	c.RuleDoc("R07.5", "every capability-probing helper has a MountFS branch (the generic Sub view is a MountFS)")
	c.RuleDoc("R07.4", "no file system handed out derives from a one-time route resolution Mount(dir)")
	for _, p := range c.Progs {
		c.SetProg(p)
		va := newValidAnalysis(p)
		va.solve()
		r07Joins(c, p, va)
		r07Confinement(c, p)
		r07Routes(c, p, p.SrcFuncs(), "")
		r06EveryHelperRoutes(c, p, "R07.5")
		boundaryTests(c, p, "R07.6", "os", "")
		r07SingleResolution(c, p)
		r07ViewsAreValues(c, p)
		r07ViewDelegatesByName(c, p)
		r04NoSubstringDotDot(c, p, "R07.13")
		// R07.10 (= R06.3): helpers delegate with the pair of one Mount call
		c.WithAlias(map[string]string{"R06.3": "R07.10"}, func() { r06Pairs(c, p) })
		// R07.12 (= R08.11): the helpers ask the file system for the operation's own interface before MountFS — the generic
		// view is both, and its own Remove/RemoveAll hold the "root of the view is kept" guard
		c.WithAlias(map[string]string{"R08.11": "R07.12"}, func() { r08OwnCapabilityFirst(c, p, helperFuncs(p)) })
		// R07.9 (= R05.11): the error translator never confuses the inner path with the caller's name
		c.WithAlias(map[string]string{"R05.11": "R07.9"}, func() { r05NamespaceTyped(c, p) })
	}
	c.Floor("R07.1", 5)
	c.Floor("R07.2", 2)
	c.Floor("R07.3", 1)
	c.Floor("R07.4", 8)
	c.Floor("R07.5", 15)
	c.Floor("R07.6", 1)
	c.Floor("R07.7", 15)
	c.Floor("R07.8", 10)
	c.Floor("R07.10", 15)
	c.Floor("R07.11", 3)
	c.Floor("R07.12", 10)
	c.Floor("R07.13", 1)
	c.Floor("R07.9", 2)
}

// joinArgs returns the elements of the variadic slice of a path.Join call.
func variadicElems(sl ssa.Value) []ssa.Value {
	s, ok := sl.(*ssa.Slice)
	if !ok {
		return nil
	}
	arr, ok := s.X.(*ssa.Alloc)
	if !ok || arr.Referrers() == nil {
		return nil
	}
	elems := map[int64]ssa.Value{}
	max := int64(-1)
	for _, r := range *arr.Referrers() {
		ia, ok := r.(*ssa.IndexAddr)
		if !ok || ia.Referrers() == nil {
			continue
		}
		idx, ok := ssax.ConstInt(ia.Index)
		if !ok {
			return nil
		}
		for _, rr := range *ia.Referrers() {
			if st, ok := rr.(*ssa.Store); ok {
				elems[idx] = st.Val
				if idx > max {
					max = idx
				}
			}
		}
	}
	var out []ssa.Value
	for i := int64(0); i <= max; i++ {
		out = append(out, elems[i])
	}
	return out
}

func isCfgLoad(v ssa.Value, cfgs []cfgField) (cfgField, bool) {
	for _, cf := range cfgs {
		if isLoadOfNamedField(v, cf.named, cf.name) {
			return cf, true
		}
	}
	return cfgField{}, false
}

func r07Joins(c *core.Ctx, p *load.Program, va *validAnalysis) {
	cfgs := fsConfigFields(p)
	if len(cfgs) < 2 {
		c.Hard("anchor: expected string configuration fields on FS types (subFS.basePath, os.FS.root), found %d", len(cfgs))
	}
	// only fields that are actually used as the base of a join are Sub roots (a volume name is not)
	joined := map[string]bool{}
	for _, fn := range p.SrcFuncs() {
		ssax.Instrs(fn, func(ins ssa.Instruction) {
			if x, ok := ins.(*ssa.Call); ok && (ssax.CalleeIs(x, "path", "Join") || ssax.CalleeIs(x, "path/filepath", "Join")) {
				for _, e := range variadicElems(x.Call.Args[0]) {
					if cf, ok := isCfgLoad(e, cfgs); ok {
						joined[typeKey(cf.named)+"."+cf.name] = true
					}
				}
			}
			// a root glued to a name with "+" is a root too (and reported below)
			if bo, ok := ins.(*ssa.BinOp); ok && bo.Op == token.ADD {
				for _, e := range concatLeaves(bo, 0) {
					if cf, ok := isCfgLoad(e, cfgs); ok && concatHasSlash(bo) {
						joined[typeKey(cf.named)+"."+cf.name] = true
					}
				}
			}
		})
	}
	var roots []cfgField
	for _, cf := range cfgs {
		if joined[typeKey(cf.named)+"."+cf.name] {
			roots = append(roots, cf)
		}
	}
	cfgs = roots
	for _, fn := range p.SrcFuncs() {
		root := fn
		for root.Parent() != nil {
			root = root.Parent()
		}
		if skipPkgForNames(root) {
			continue
		}
		ord := ordinals{}
		ssax.Instrs(fn, func(ins ssa.Instruction) {
			switch x := ins.(type) {
			case *ssa.Call:
				if !ssax.CalleeIs(x, "path", "Join") && !ssax.CalleeIs(x, "path/filepath", "Join") {
					return
				}
				elems := variadicElems(x.Call.Args[0])
				var base *cfgField
				for _, e := range elems {
					if cf, ok := isCfgLoad(e, cfgs); ok {
						cf := cf
						base = &cf
					}
				}
				if base == nil {
					return
				}
				key := fname(fn) + "|" + ord.next("join:"+typeKey(base.named)+"."+base.name)
				var bad []string
				for _, e := range elems {
					if _, ok := isCfgLoad(e, cfgs); ok {
						continue
					}
					if _, isConst := e.(*ssa.Const); isConst {
						continue
					}
					if !va.valueValidAt(root, e, x) {
						bad = append(bad, vname(e))
					}
				}
				if len(bad) == 0 {
					c.OK("R07.1", key, p.Pos(x.Pos()), "every name joined onto the root is known valid here")
				} else {
					c.Bad("R07.1", key, p.Pos(x.Pos()), fmt.Sprintf("%s joins %v onto the root %s.%s without the name being known valid: a name with a '..' element escapes the root", fname(fn), bad, typeKey(base.named), base.name))
				}
			case *ssa.BinOp:
				// root + "/" + name: only the outermost concatenation is reported
				if x.Op != token.ADD || !concatHasSlash(x) {
					return
				}
				if x.Referrers() != nil {
					for _, r := range *x.Referrers() {
						if pb, ok := r.(*ssa.BinOp); ok && pb.Op == token.ADD {
							return
						}
					}
				}
				var base *cfgField
				hasName := false
				for _, e := range concatLeaves(x, 0) {
					if cf, ok := isCfgLoad(e, cfgs); ok {
						cf := cf
						base = &cf
					} else if _, isConst := e.(*ssa.Const); !isConst {
						hasName = true
					}
				}
				if base == nil || !hasName {
					return // root + "/" alone is a prefix for an element-boundary test, not a joined path
				}
				key := fname(fn) + "|" + ord.next("concat:"+typeKey(base.named)+"."+base.name)
				c.Bad("R07.1", key, p.Pos(x.Pos()), fmt.Sprintf("%s glues a name onto the root %s.%s with string concatenation instead of path.Join: for the root \".\" (Sub(fs, \".\"), or a Sub at a mount point) the result \"./name\" is not a valid path and every operation below the view's root fails, and a \".\" name yields \"root/.\"", fname(fn), typeKey(base.named), base.name))
			case *ssa.Alloc:
				// a view built by a method of a view of the same type WITHOUT setting its root: only where the
				// receiver's own root is known to be empty (SubVolume after Sub would otherwise be rooted at the OS root)
				rp := recvParam(root)
				if rp == nil || recvNamed(rp) == nil {
					return
				}
				pt, ok := x.Type().(*types.Pointer)
				if !ok {
					return
				}
				for _, cf := range cfgs {
					if !types.Identical(cf.named, pt.Elem()) || !types.Identical(recvNamed(rp), cf.named) {
						continue
					}
					sets := false
					if x.Referrers() != nil {
						for _, r := range *x.Referrers() {
							if fa, ok := r.(*ssa.FieldAddr); ok && ssax.FieldName(fa) == cf.name && fa.Referrers() != nil {
								for _, rr := range *fa.Referrers() {
									if _, isStore := rr.(*ssa.Store); isStore {
										sets = true
									}
								}
							}
						}
					}
					if sets {
						continue // judged at the store
					}
					key := fname(fn) + "|" + ord.next("fresh:"+typeKey(cf.named)+"."+cf.name)
					empty := false
					for _, f := range ssax.FactsAtInstr(x) {
						bo, ok := f.Cond.(*ssa.BinOp)
						if !ok || (bo.Op != token.EQL && bo.Op != token.NEQ) {
							continue
						}
						for _, pair := range [][2]ssa.Value{{bo.X, bo.Y}, {bo.Y, bo.X}} {
							k, isConst := pair[1].(*ssa.Const)
							if !isConst || k.Value == nil || k.Value.ExactString() != `""` {
								continue
							}
							if b, _, ok := ssax.FieldLoad(pair[0]); ok && b == ssa.Value(rp) && isLoadOfField(pair[0], rp, cf.name) && (bo.Op == token.EQL) == f.Val {
								empty = true
							}
						}
					}
					c.Check(empty, "R07.1", key, p.Pos(x.Pos()), "a view without a root is built only where the receiver has none",
						fmt.Sprintf("%s builds a %s whose %s is left empty on a path where the receiver's own %s may be set: the result of calling it on a Sub view is rooted at the parent's root (for os.FS: the OS root), so everything outside the view becomes reachable through it", fname(fn), typeKey(cf.named), cf.name, cf.name))
				}
			case *ssa.Store:
				fa, ok := x.Addr.(*ssa.FieldAddr)
				if !ok {
					return
				}
				n := ssax.StructOfFieldAddr(fa)
				if n == nil {
					return
				}
				for _, cf := range cfgs {
					if !types.Identical(cf.named, n) || ssax.FieldName(fa) != cf.name {
						continue
					}
					key := fname(fn) + "|" + ord.next("set:"+typeKey(cf.named)+"."+cf.name)
					// a view derived from a view of the same type keeps the parent's root on every alternative
					if rp := recvParam(root); rp != nil && recvNamed(rp) != nil && types.Identical(recvNamed(rp), cf.named) {
						if alt := rootForgotten(x.Val, rp, cf, 0, map[ssa.Value]bool{}); alt != "" {
							c.Bad("R07.1", key, p.Pos(x.Pos()), fmt.Sprintf("%s builds a %s from an existing one but on one alternative the new root (%s) does not include the receiver's %s: the nested view is rooted at the parent's parent (for os.FS: at the OS root) and everything outside the subtree becomes reachable", fname(fn), typeKey(cf.named), alt, cf.name))
							return
						}
					}
					if _, isConst := x.Val.(*ssa.Const); isConst {
						c.OKTrivial("R07.1", key, p.Pos(x.Pos()), "constant")
						return
					}
					if _, ok := isCfgLoad(x.Val, cfgs); ok {
						c.OK("R07.1", key, p.Pos(x.Pos()), "copies an existing root")
						return
					}
					if va.valueValidAt(root, x.Val, x) {
						c.OK("R07.1", key, p.Pos(x.Pos()), "stored root is derived from names known valid at the store")
					} else {
						c.Bad("R07.1", key, p.Pos(x.Pos()), fmt.Sprintf("%s stores into the root field %s.%s a value derived from a name that is not known valid: the view could be rooted outside its parent", fname(fn), typeKey(cf.named), cf.name))
					}
				}
			}
		})
	}
}

// valueValidAt: every name parameter of fn that v depends on is known valid at `at`; values that depend on no
// parameter (constants, configuration fields, volume names) are accepted.
func (va *validAnalysis) valueValidAt(fn *ssa.Function, v ssa.Value, at ssa.Instruction) bool {
	for pi, prm := range fn.Params {
		if !isStringish(prm.Type()) {
			continue
		}
		lv := va.levels(fn, pi)
		if lv[v] == tNone {
			continue
		}
		if !va.validAt(fn, pi, lv, at) {
			return false
		}
	}
	return true
}

func r07Confinement(c *core.Ctx, p *load.Program) {
	sub := p.Named("", "subFS")
	if sub == nil {
		c.Hard("anchor: hackpadfs.subFS")
		return
	}
	st := sub.Underlying().(*types.Struct)
	fsField := ""
	fsI := stdIface(p, "io/fs", "FS")
	for i := 0; i < st.NumFields(); i++ {
		if _, isI := st.Field(i).Type().Underlying().(*types.Interface); isI && fsI != nil && types.Implements(st.Field(i).Type(), fsI) {
			fsField = st.Field(i).Name()
		}
	}
	if fsField == "" {
		c.Hard("anchor: subFS has no FS-typed field")
		return
	}
	ms := methodsOf(p, sub)
	mount := ms["Mount"]
	if mount == nil {
		c.Hard("anchor: subFS.Mount")
		return
	}
	// who reads the parent FS
	var readers []string
	okReaders := true
	for _, fn := range p.SrcFuncs() {
		reads := false
		ssax.Instrs(fn, func(ins ssa.Instruction) {
			if u, ok := ins.(*ssa.UnOp); ok && isLoadOfNamedField(u, sub, fsField) {
				reads = true
			}
		})
		if reads {
			readers = append(readers, fname(fn))
			if fn != mount && !r07DirectUseIsMountShaped(fn, sub, fsField) {
				okReaders = false
			}
		}
	}
	c.Check(okReaders, "R07.2", "hackpadfs.subFS."+fsField+"|readers", p.Pos(mount.Pos()), fmt.Sprintf("the parent file system is read only by %v", readers),
		fmt.Sprintf("the parent file system of a Sub view (subFS.%s) is read outside Mount: %v — a method can address the parent with an untranslated name and leave the subtree", fsField, readers))
	// every FS call in subFS methods uses the pair of one Mount call
	for name, fn := range ms {
		if fn == mount {
			continue
		}
		recv := recvParam(fn)
		ord := ordinals{}
		ssax.Instrs(fn, func(ins ssa.Instruction) {
			cl, ok := ins.(*ssa.Call)
			if !ok || !cl.Call.IsInvoke() || fsI == nil || !types.Implements(cl.Call.Value.Type(), fsI) {
				return
			}
			key := "hackpadfs.subFS." + name + "|" + ord.next("fscall")
			rx, ok0 := cl.Call.Value.(*ssa.Extract)
			good := false
			var mc *ssa.Call
			// the field itself as the receiver, every string argument computed exactly as Mount computes its sub-path
			// (name, or path.Join(base, name)): the same pair, written out (R07.3 then wants the translator to get that name
			// and that path)
			if isLoadOfNamedField(cl.Call.Value, sub, fsField) {
				var nameP *ssa.Parameter
				var pathV ssa.Value
				good = true
				for _, a := range cl.Call.Args {
					if !isStringish(a.Type()) {
						continue
					}
					np, okV := subViewPath(a, recv, 0)
					if !okV {
						good = false
					}
					nameP, pathV = np, a
				}
				c.Check(good, "R07.2", key, p.Pos(cl.Pos()), "parent file system used directly with Mount's own path computation",
					fmt.Sprintf("%s: the call %s does not use the (file system, sub-path) pair of a single Mount call — the view would address the parent with the wrong path", fname(fn), ssax.CallName(cl)))
				if !good || nameP == nil {
					return
				}
				ev := ssax.ErrorValueOf(cl)
				k3 := "hackpadfs.subFS." + name + "|" + ord.next("translate")
				okT := false
				if ev != nil && ev.Referrers() != nil {
					for _, r := range *ev.Referrers() {
						tc, ok := r.(*ssa.Call)
						if ok && ssax.StaticCallee(tc) != nil && len(tc.Call.Args) == 3 && tc.Call.Args[0] == ev && tc.Call.Args[1] == ssa.Value(nameP) && tc.Call.Args[2] == pathV {
							okT = true
						}
					}
				}
				c.Check(okT, "R07.3", k3, p.Pos(cl.Pos()), "error translated with (err, name, path) of the same computation",
					fmt.Sprintf("%s: the error of %s is not passed through the translator with the name and sub-path of the same Mount call — callers would see paths of the parent's namespace", fname(fn), ssax.CallName(cl)))
				return
			}
			if ok0 && rx.Index == 0 {
				if m, ok := rx.Tuple.(*ssa.Call); ok && ssax.StaticCallee(m) == mount && m.Call.Args[0] == ssa.Value(recv) {
					mc = m
					good = true
					for _, a := range cl.Call.Args {
						if !isStringish(a.Type()) {
							continue
						}
						ax, ok := a.(*ssa.Extract)
						if !ok || ax.Tuple != ssa.Value(m) || ax.Index != 1 {
							good = false
						}
					}
				}
			}
			c.Check(good, "R07.2", key, p.Pos(cl.Pos()), "file system and path both come from one Mount(name) call",
				fmt.Sprintf("%s: the call %s does not use the (file system, sub-path) pair of a single Mount call — the view would address the parent with the wrong path", fname(fn), ssax.CallName(cl)))
			// R07.3: the error is translated with (err, name, subPath) of the same pair
			if mc == nil {
				return
			}
			ev := ssax.ErrorValueOf(cl)
			k3 := "hackpadfs.subFS." + name + "|" + ord.next("translate")
			okT := false
			if ev != nil && ev.Referrers() != nil {
				for _, r := range *ev.Referrers() {
					tc, ok := r.(*ssa.Call)
					if !ok || ssax.StaticCallee(tc) == nil || len(tc.Call.Args) != 3 || tc.Call.Args[0] != ev {
						continue
					}
					nameArg, subArg := tc.Call.Args[1], tc.Call.Args[2]
					sx, ok := subArg.(*ssa.Extract)
					if nameArg == mc.Call.Args[1] && ok && sx.Tuple == ssa.Value(mc) && sx.Index == 1 {
						okT = true
					}
				}
			}
			c.Check(okT, "R07.3", k3, p.Pos(cl.Pos()), "error translated with (err, name, subPath) of the same Mount call",
				fmt.Sprintf("%s: the error of %s is not passed through the translator with the name and sub-path of the same Mount call — callers would see paths of the parent's namespace", fname(fn), ssax.CallName(cl)))
		})
	}
}

// isMountSig: func(string) (FS, string)
func isMountSig(sig *types.Signature, fsI *types.Interface) bool {
	if sig == nil || sig.Params().Len() != 1 || sig.Results().Len() != 2 || !isStr(sig.Params().At(0).Type()) || !isStr(sig.Results().At(1).Type()) {
		return false
	}
	return fsI != nil && types.Implements(sig.Results().At(0).Type(), fsI)
}

// routeResult: v is the file system half of a route resolution Mount(name).
func routeResult(v ssa.Value, fsI *types.Interface) *ssa.Call {
	ex, ok := v.(*ssa.Extract)
	if !ok || ex.Index != 0 {
		return nil
	}
	cl, ok := ex.Tuple.(*ssa.Call)
	if !ok {
		return nil
	}
	name := ""
	var sig *types.Signature
	if cl.Call.IsInvoke() {
		name = cl.Call.Method.Name()
		sig, _ = cl.Call.Method.Type().(*types.Signature)
	} else if callee := ssax.StaticCallee(cl); callee != nil {
		name = callee.Name()
		sig = callee.Signature
	}
	if name == "Mount" && isMountSig(sig, fsI) {
		return cl
	}
	return nil
}

// r07Routes (R07.4): a file system value handed out by a function never derives from the result of a one-time
// route resolution Mount(dir): names below dir may route to other mounts, so a long-lived view must keep the
// router. Route results may only be used for the single operation on the name they were resolved for.
func r07Routes(c *core.Ctx, p *load.Program, fns []*ssa.Function, keyPrefix string) {
	fsI := stdIface(p, "io/fs", "FS")
	for _, fn := range fns {
		if fn.Blocks == nil || fn.Synthetic != "" {
			continue
		}
		if fn.Name() == "Mount" && isMountSig(fn.Signature, fsI) {
			continue // a route implementation returns the mounted file system by definition
		}
		res := fn.Signature.Results()
		var idx []int
		for i := 0; i < res.Len(); i++ {
			if fsI != nil && types.Implements(res.At(i).Type(), fsI) {
				// File types also have Open? no: fs.FS requires Open(name string) (fs.File, error)
				idx = append(idx, i)
			}
		}
		if len(idx) == 0 {
			continue
		}
		var found *ssa.Call
		seen := map[ssa.Value]bool{}
		var walk func(v ssa.Value, d int)
		walk = func(v ssa.Value, d int) {
			if v == nil || seen[v] || d > 12 || found != nil {
				return
			}
			seen[v] = true
			if rc := routeResult(v, fsI); rc != nil {
				found = rc
				return
			}
			switch x := v.(type) {
			case *ssa.Call:
				for _, a := range x.Call.Args {
					walk(a, d+1)
				}
				if x.Call.IsInvoke() {
					walk(x.Call.Value, d+1)
				}
			case *ssa.Extract:
				walk(x.Tuple, d+1)
			case *ssa.Phi:
				for _, e := range x.Edges {
					walk(e, d+1)
				}
			case *ssa.MakeInterface:
				walk(x.X, d+1)
			case *ssa.ChangeInterface:
				walk(x.X, d+1)
			case *ssa.ChangeType:
				walk(x.X, d+1)
			case *ssa.TypeAssert:
				walk(x.X, d+1)
			case *ssa.UnOp:
				walk(x.X, d+1)
			case *ssa.FieldAddr:
				walk(x.X, d+1)
			case *ssa.Alloc:
				// values stored into the allocated object's fields
				if x.Referrers() != nil {
					for _, r := range *x.Referrers() {
						switch y := r.(type) {
						case *ssa.FieldAddr:
							if y.Referrers() != nil {
								for _, rr := range *y.Referrers() {
									if st, ok := rr.(*ssa.Store); ok && st.Addr == ssa.Value(y) {
										walk(st.Val, d+1)
									}
								}
							}
						case *ssa.Store:
							if y.Addr == ssa.Value(x) {
								walk(y.Val, d+1)
							}
						}
					}
				}
			}
		}
		for _, r := range ssax.Returns(fn) {
			for _, i := range idx {
				if i < len(r.Results) {
					walk(r.Results[i], 0)
				}
			}
		}
		key := keyPrefix + fname(fn) + "|fs-result"
		if found != nil {
			c.Bad("R07.4", key, p.Pos(found.Pos()), fmt.Sprintf("%s hands out a file system derived from the one-time route resolution %s: names below that path which route to another mount are not seen through the returned view (a Sub of a mount composition above a mount point shows the underlying directory instead of the mount)", fname(fn), ssax.CallName(found)))
		} else {
			c.OK("R07.4", key, p.Pos(fn.Pos()), "returned file system does not derive from a route resolution")
		}
	}
}

// concatLeaves: the operands of a (nested) string concatenation.
func concatLeaves(v ssa.Value, d int) []ssa.Value {
	if bo, ok := v.(*ssa.BinOp); ok && bo.Op == token.ADD && d < 6 {
		return append(concatLeaves(bo.X, d+1), concatLeaves(bo.Y, d+1)...)
	}
	return []ssa.Value{v}
}

// concatHasSlash: one operand of the concatenation is the constant "/" (or starts/ends with it).
func concatHasSlash(bo *ssa.BinOp) bool {
	for _, e := range concatLeaves(bo, 0) {
		if s, ok := ssax.ConstString(e); ok && strings.Contains(s, "/") {
			return true
		}
	}
	return false
}

func recvNamed(rp *ssa.Parameter) *types.Named {
	t := rp.Type()
	if pt, ok := t.(*types.Pointer); ok {
		t = pt.Elem()
	}
	n, _ := types.Unalias(t).(*types.Named)
	return n
}

// rootForgotten: an alternative (phi edge) of v that does not depend on the receiver's root field; "" if every
// alternative does.
func rootForgotten(v ssa.Value, rp *ssa.Parameter, cf cfgField, d int, seen map[ssa.Value]bool) string {
	v = stripDotNormalisation(v)
	if ph, ok := v.(*ssa.Phi); ok && d < 6 && !seen[v] {
		seen[v] = true
		for _, e := range ph.Edges {
			if alt := rootForgotten(e, rp, cf, d+1, seen); alt != "" {
				return alt
			}
		}
		return ""
	}
	var dep func(v ssa.Value, d int) bool
	vis := map[ssa.Value]bool{}
	dep = func(v ssa.Value, d int) bool {
		if v == nil || d > 10 || vis[v] {
			return false
		}
		vis[v] = true
		if b, idx, ok := ssax.FieldLoad(v); ok && b == ssa.Value(rp) {
			if st, ok := cf.named.Underlying().(*types.Struct); ok && idx < st.NumFields() && st.Field(idx).Name() == cf.name {
				return true
			}
		}
		switch x := v.(type) {
		case *ssa.Call:
			for _, a := range x.Call.Args {
				if dep(a, d+1) {
					return true
				}
			}
		case *ssa.Slice:
			// the variadic slice of path.Join
			for _, e := range variadicElems(x) {
				if dep(e, d+1) {
					return true
				}
			}
		case *ssa.BinOp:
			return dep(x.X, d+1) || dep(x.Y, d+1)
		case *ssa.Phi:
			for _, e := range x.Edges {
				if dep(e, d+1) {
					return true
				}
			}
		case *ssa.Extract:
			return dep(x.Tuple, d+1)
		case *ssa.Convert:
			return dep(x.X, d+1)
		case *ssa.ChangeType:
			return dep(x.X, d+1)
		}
		return false
	}
	if dep(v, 0) {
		return ""
	}
	return vname(v)
}

// r07SingleResolution (R07.7): a helper resolves a name with Mount once and hands (file system, sub-path) to the helper
// of the same operation, which decides again from that file system's own capabilities. A helper that type-asserts the
// resolved file system to MountFS and resolves a second time by hand skips that file system's own method — for
// Rename the only code that can move a file between two of ITS mounts — so the view answers ErrNotImplemented where
// the parent succeeds.
func r07SingleResolution(c *core.Ctx, p *load.Program) {
	fromMount := func(v ssa.Value) *ssa.Call {
		for i := 0; i < 6 && v != nil; i++ {
			switch x := v.(type) {
			case *ssa.TypeAssert:
				v = x.X
			case *ssa.Extract:
				if cl, ok := x.Tuple.(*ssa.Call); ok && cl.Call.IsInvoke() && cl.Call.Method.Name() == "Mount" {
					return cl
				}
				v = x.Tuple
			case *ssa.ChangeInterface:
				v = x.X
			case *ssa.MakeInterface:
				v = x.X
			case *ssa.Phi:
				for _, e := range x.Edges {
					if _, isParam := e.(*ssa.Parameter); !isParam {
						v = e
					}
				}
				if v == ssa.Value(x) {
					return nil
				}
			default:
				return nil
			}
		}
		return nil
	}
	n := 0
	for _, fn := range pkgFuncs(p, "") {
		ord := ordinals{}
		ssax.Instrs(fn, func(ins ssa.Instruction) {
			cl, ok := ins.(*ssa.Call)
			if !ok || !cl.Call.IsInvoke() || cl.Call.Method.Name() != "Mount" {
				return
			}
			n++
			key := fname(fn) + "|" + ord.next("route-resolved-once")
			first := fromMount(cl.Call.Value)
			c.Check(first == nil, "R07.7", key, p.Pos(cl.Pos()), "Mount is invoked on the helper's own file system, not on the result of another resolution",
				fmt.Sprintf("%s resolves a second time by hand at %s, on the file system an earlier Mount returned: the nested MountFS's own method is skipped (mount.FS.Rename is the only code that moves a file between two of its mounts), so through a Sub view above two mount points the operation answers ErrNotImplemented where the parent file system succeeds", fname(fn), p.Pos(cl.Pos())))
		})
	}
	if n < 15 {
		c.Hard("anchor: Mount invocations in the helpers (found %d)", n)
	}
}

// r07ViewsAreValues (R07.8): the view types (the generic Sub view, the OS-backed FS) are fixed at construction: no
// method stores into a field of its receiver. A value cached lazily in the view (the OS path of the root, converted
// on first use) is copied into every view derived from it afterwards, so Sub(usedParent, dir) resolves names against
// the parent's directory.
func r07ViewsAreValues(c *core.Ctx, p *load.Program) {
	cnt := 0
	for _, tn := range [][2]string{{"", "subFS"}, {"os", "FS"}} {
		n := p.Named(tn[0], tn[1])
		if n == nil {
			c.Hard("anchor: %s.%s", tn[0], tn[1])
			continue
		}
		for _, fn := range methodList(p, n) {
			recv := recvParam(fn)
			if recv == nil {
				continue
			}
			cnt++
			key := fname(fn) + "|receiver-not-written"
			bad := ""
			ssax.InstrsDeep(fn, func(_ *ssa.Function, ins ssa.Instruction) {
				st, ok := ins.(*ssa.Store)
				if !ok {
					return
				}
				if fa, ok := st.Addr.(*ssa.FieldAddr); ok && fa.X == ssa.Value(recv) {
					bad = p.Pos(st.Pos())
				}
			})
			c.Check(bad == "", "R07.8", key, p.Pos(fn.Pos()), "no field of the receiver is written",
				fmt.Sprintf("%s stores into a field of its receiver at %s: a view is a value fixed when it is built — state cached in it lazily (the converted root) is carried into every view derived from it by copy afterwards, so a Sub view of a file system that was already used resolves names against the parent's directory", fname(fn), bad))
		}
	}
	if cnt < 10 {
		c.Hard("anchor: methods of the view types (found %d)", cnt)
	}
}

// r07ViewDelegatesByName (R07.11): a method M of the generic Sub view hands the resolved (file system, sub-path) pair to
// the package-level helper M (or, for Open, to the resolved file system's own Open): the helper dispatches on what
// the resolved file system offers. An internal walker called directly (removeAll instead of RemoveAll) ignores the
// resolved file system's own method — for a mount FS with a mount point below the name, the mounted tree is wiped
// where the parent's RemoveAll removes the directory in the root file system only.
func r07ViewDelegatesByName(c *core.Ctx, p *load.Program) {
	n := p.Named("", "subFS")
	if n == nil {
		c.Hard("anchor: hackpadfs.subFS")
		return
	}
	cnt := 0
	for _, fn := range methodList(p, n) {
		if fn.Name() == "Mount" || fn.Object() == nil || !fn.Object().Exported() {
			continue
		}
		// calls that receive the sub-path (second result of Mount)
		var bad string
		delegs := 0
		ssax.Instrs(fn, func(ins ssa.Instruction) {
			ci, ok := ins.(ssa.CallInstruction)
			if !ok {
				return
			}
			cc := ci.Common()
			usesSub := false
			for _, a := range cc.Args {
				if e, ok := a.(*ssa.Extract); ok && e.Index == 1 {
					if mc, ok := e.Tuple.(*ssa.Call); ok {
						if callee := ssax.StaticCallee(mc); callee != nil && callee.Name() == "Mount" {
							usesSub = true
						}
					}
				}
			}
			if !usesSub && cc.IsInvoke() {
				if u, isU := cc.Value.(*ssa.UnOp); isU {
					if fa, isFA := u.X.(*ssa.FieldAddr); isFA && fa.X == ssa.Value(recvParam(fn)) {
						for _, a := range cc.Args {
							if _, okV := subViewPath(a, recvParam(fn), 0); okV && isStringish(a.Type()) {
								if _, isParam := a.(*ssa.Parameter); !isParam {
									usesSub = true
								}
							}
						}
					}
				}
			}
			if !usesSub {
				return
			}
			name := ""
			if cc.IsInvoke() {
				name = cc.Method.Name()
			} else if callee := ssax.StaticCallee(ci); callee != nil {
				name = callee.Name()
				if name == "stripErrPathPrefix" {
					return
				}
				if callee.Object() == nil || !callee.Object().Exported() {
					bad = fmt.Sprintf("%s (unexported) at %s", name, p.Pos(ins.Pos()))
				}
			}
			delegs++
			if name != fn.Name() && bad == "" {
				bad = fmt.Sprintf("%s at %s", name, p.Pos(ins.Pos()))
			}
		})
		if delegs == 0 {
			continue
		}
		cnt++
		key := fname(fn) + "|delegates-to-the-operation-of-its-own-name"
		c.Check(bad == "", "R07.11", key, p.Pos(fn.Pos()), "the resolved pair goes to the helper/method of the same name",
			fmt.Sprintf("%s hands the resolved (file system, sub-path) pair to %s instead of the exported operation of its own name: the resolved file system's own method is never asked — through a view above a mount point the result differs from the same operation on the parent (the mounted tree is wiped where the parent removes the root file system's directory)", fname(fn), bad))
	}
	if cnt < 3 {
		c.Hard("anchor: delegating methods of the generic Sub view (found %d)", cnt)
	}
}

// subViewPath: v is computed the way the Sub view's Mount computes its sub-path from a name: the name parameter itself,
// path.Join(<field of the receiver>, name), or a merge of those for ONE name parameter. Returns that parameter.
func subViewPath(v ssa.Value, recv *ssa.Parameter, depth int) (*ssa.Parameter, bool) {
	if depth > 4 || recv == nil {
		return nil, false
	}
	switch x := v.(type) {
	case *ssa.Parameter:
		if x != recv && isStringish(x.Type()) {
			return x, true
		}
	case *ssa.Phi:
		var np *ssa.Parameter
		for _, e := range x.Edges {
			q, ok := subViewPath(e, recv, depth+1)
			if !ok || (np != nil && q != np) {
				return nil, false
			}
			np = q
		}
		return np, np != nil
	case *ssa.Call:
		if !ssax.CalleeIs(x, "path", "Join") || len(x.Call.Args) != 1 {
			return nil, false
		}
		el := variadicElems(x.Call.Args[0])
		if len(el) != 2 {
			return nil, false
		}
		base, _, isField := ssax.FieldLoad(el[0])
		if !isField || base != ssa.Value(recv) {
			return nil, false
		}
		if q, ok := el[1].(*ssa.Parameter); ok && q != recv {
			return q, true
		}
	}
	return nil, false
}

// r07DirectUseIsMountShaped: every load of the parent-FS field in fn is used only as the receiver of interface calls
// whose string arguments are computed as Mount computes its sub-path (and at least one is a join, not the bare name).
func r07DirectUseIsMountShaped(fn *ssa.Function, sub *types.Named, fsField string) bool {
	recv := recvParam(fn)
	if recv == nil {
		return false
	}
	ok, any := true, false
	ssax.Instrs(fn, func(ins ssa.Instruction) {
		u, isU := ins.(*ssa.UnOp)
		if !isU || !isLoadOfNamedField(u, sub, fsField) || u.Referrers() == nil {
			return
		}
		for _, r := range *u.Referrers() {
			cl, isCall := r.(*ssa.Call)
			if !isCall || !cl.Call.IsInvoke() || cl.Call.Value != ssa.Value(u) {
				if _, isDbg := r.(*ssa.DebugRef); isDbg {
					continue
				}
				ok = false
				continue
			}
			joined := false
			for _, a := range cl.Call.Args {
				if !isStringish(a.Type()) {
					continue
				}
				if _, good := subViewPath(a, recv, 0); !good {
					ok = false
				}
				if _, isParam := a.(*ssa.Parameter); !isParam {
					joined = true
				}
			}
			if !joined {
				ok = false // the bare name handed to the parent: untranslated
			}
			any = true
		}
	})
	return ok && any
}
