package rules

import (
	"fmt"
	"go/token"
	"go/types"
	"sort"
	"strings"

	"golang.org/x/tools/go/ssa"

	"hpfscheck/internal/core"
	"hpfscheck/internal/load"
	"hpfscheck/internal/ssax"
)

func init() { register(&Spec{ID: "C08", Targets: []load.Target{load.Linux}, Run: runC08}) }

// reachableOnlyFrom: unexported functions of the package reachable (static calls) from root whose every
// static caller is root or already in the set.
func reachableOnlyFrom(p *load.Program, roots ...*ssa.Function) map[*ssa.Function]bool {
	set := map[*ssa.Function]bool{}
	for _, r := range roots {
		if r != nil {
			set[r] = true
		}
	}
	callers := map[*ssa.Function][]*ssa.Function{}
	for _, fn := range p.SrcFuncs() {
		ssax.Instrs(fn, func(ins ssa.Instruction) {
			if ci, ok := ins.(ssa.CallInstruction); ok {
				if callee := ssax.StaticCallee(ci); callee != nil && p.InModule(callee) {
					callers[callee] = append(callers[callee], fn)
				}
			}
		})
	}
	for changed := true; changed; {
		changed = false
		for callee, cs := range callers {
			if set[callee] || (callee.Object() != nil && callee.Object().Exported()) {
				continue
			}
			all := true
			for _, c := range cs {
				if !set[c] && c != callee {
					all = false
				}
			}
			if all && len(cs) > 0 {
				set[callee] = true
				changed = true
			}
		}
	}
	return set
}

// helperFuncs: package-level functions of the root package whose first parameter is FS or File.
func helperFuncs(p *load.Program) []*ssa.Function {
	pk := p.SSAPkg("")
	var out []*ssa.Function
	for _, m := range pk.Members {
		fn, ok := m.(*ssa.Function)
		if !ok || fn.Blocks == nil || fn.Signature.Recv() != nil || len(fn.Params) == 0 {
			continue
		}
		if _, isI := fn.Params[0].Type().Underlying().(*types.Interface); !isI {
			continue
		}
		if !hasMethods(fn.Params[0].Type(), "Open") && !hasMethods(fn.Params[0].Type(), "Stat", "Read", "Close") {
			continue
		}
		out = append(out, fn)
	}
	sort.Slice(out, func(i, j int) bool { return out[i].Name() < out[j].Name() })
	return out
}

func runC08(c *core.Ctx) {
	runFixtures(c, "drop", "read")
	c.Explain("Structural clauses of C08 decided from source for every package-level helper of hackpadfs whose first parameter is an FS or a File (and the unexported functions only they reach): (R08.1) for every call that returns an error — other helpers, interface methods, File methods — on every path on which that error is non-nil the helper returns it, wraps it, hands it on, returns another definitely non-nil error, or consumes it through an enumerated idiom (errors.Is(ErrNotExist) inside RemoveAll's recursion, errors.Is(ErrExist) inside MkdirAll, errors.Is(ErrNotImplemented) to try the next capability, closing a read-only handle); a nil/may-be-nil return on such a path is a violation ('a helper never reports success for work that was not done'); (R08.3) the path on which every capability assertion of a helper failed returns a *PathError/*LinkError carrying ErrNotImplemented or enters the documented fallback; (R08.4, contradiction rule) inside one helper all calls of the same fallible callee consult the same sentinels (errors.Is) on its error — if one Mkdir site tolerates ErrExist and another returns it, the fallback answers 'already there' differently from the optimised implementation; (R08.5, sibling agreement) a mode/flag/perm/time parameter of a helper reaches every delegate that receives it as the parameter itself — a branch that passes 'mode & K' where its siblings pass 'mode' makes the result depend on the capability subset; (R08.6) the recursive removal behind RemoveAll takes its 'is a directory' decision from Lstat/LstatOrStat, never from Stat; (R08.7) among the helpers that take a File only SeekFile invokes Seek (no positioned operation is emulated by moving the handle's position). (R08.8) in the helper OpenFile every call of fs.Open is dominated by the test flag == FlagReadOnly (a mask test forgets the flags outside the mask); (R08.10) every sub-path the generic Sub view returns is the name itself, the base, or path.Join of them; (R08.9) every direct call of a Read([]byte)(int, error) method in the package is a delegation that hands the count to its caller, or sits in a loop that is left only on an error / a full buffer and whose successful returns looked at the count of the latest Read — a helper that replaces io/fs.ReadFile or io.Copy by one sized Read reports success for content it did not read. (R08.11) a helper asserts the operation's own interface before MountFS; (R08.12) Create's fallback uses os.Create's flags. (R08.13) = R06.3 pairing under C08. (R08.14) an exported helper returns nil only after asking the file system or a handle; (R08.15) a helper dispatches to its own operation's interface only. NOT claimed: equality of results and final state between the optimised path and the fallback across the 2^k capability subsets.")
	c.Assume("A1: interface-dispatched FS/File methods return nil error only when the operation was done", "A6: partial correctness")
	c.RuleDoc("R08.14", "a helper returns a constant-nil error only after asking the file system or file")
	c.RuleDoc("R08.15", "a helper named after a mutating operation invokes no other mutating operation's method")
	c.RuleDoc("R08.1", "no primitive error dropped on any failing path of a helper")
	c.RuleDoc("R08.4", "sibling calls of one callee inside a helper consult the same sentinels")
	c.RuleDoc("R08.5", "a non-name parameter reaches every delegate of a helper in the same form")
	c.RuleDoc("R08.6", "recursive removal classifies entries without following symbolic links")
	c.RuleDoc("R08.7", "only SeekFile moves a file's position")
	c.RuleDoc("R08.11", "a helper asks for the operation's own interface before MountFS")
	c.RuleDoc("R08.13", "a helper delegates with the (file system, sub-path) pair of one Mount call per name (= R06.3)")
	c.RuleDoc("R08.12", "Create's fallback uses os.Create's flags")
	c.RuleDoc("R08.8", "OpenFile falls back to Open only for flag == FlagReadOnly")
	c.RuleDoc("R08.10", "the fallback Sub view joins base and name with path.Join")
	c.RuleDoc("R08.9", "no helper takes one Read, or a short count, for the whole content")
	c.RuleDoc("R08.3", "all-capabilities-missing path returns ErrNotImplemented or enters the fallback")
	for _, p := range c.Progs {
		c.SetProg(p)
		helpers := helperFuncs(p)
		if len(helpers) < 25 {
			c.Hard("anchor: expected >= 25 helpers taking FS/File, found %d", len(helpers))
		}
		var names []string
		for _, h := range helpers {
			names = append(names, h.Name())
		}
		c.Info("helpers", names)
		removeAllCtx := reachableOnlyFrom(p, p.Func("", "RemoveAll"))
		mkdirAllCtx := reachableOnlyFrom(p, p.Func("", "MkdirAll"))
		fns := map[*ssa.Function]bool{}
		for _, h := range helpers {
			fns[h] = true
		}
		for f := range reachableOnlyFrom(p, helpers...) {
			if f.Pkg == p.SSAPkg("") {
				fns[f] = true
			}
		}
		var list []*ssa.Function
		for f := range fns {
			list = append(list, f)
			for _, a := range f.AnonFuncs {
				list = append(list, a)
			}
		}
		sort.Slice(list, func(i, j int) bool { return fname(list[i]) < fname(list[j]) })
		for _, fn := range list {
			outer := fn
			for outer.Parent() != nil {
				outer = outer.Parent()
			}
			bad, good := dropCheck(p, fn, dropOpts{acceptSentinel: func(s string) bool {
				switch s {
				case "ErrNotExist":
					return removeAllCtx[outer]
				case "ErrExist":
					return mkdirAllCtx[outer]
				case "ErrNotImplemented":
					return true
				}
				return false
			}})
			for _, g := range good {
				c.OK("R08.1", g.Key, g.Pos, g.Msg)
			}
			for _, b := range bad {
				if b.Kind == "undecided" {
					c.Unknown("R08.1", b.Key, b.Pos, b.Msg)
				} else {
					c.Bad("R08.1", b.Key, b.Pos, b.Msg+" — the helper reports success for work that was not done")
				}
			}
		}
		r08NotImplemented(c, p, helpers)
		r08Siblings(c, p, list)
		r08ParamForms(c, p, helpers)
		r08NoFollow(c, p, removeAllCtx)
		r08NoSeekEmulation(c, p, helpers)
		readDiscipline(c, p, "R08.9", pkgFuncs(p, ""))
		r08OpenFallback(c, p)
		r08OwnCapabilityFirst(c, p, helpers)
		r08CreateFlags(c, p)
		r08SuccessOnlyAfterAsking(c, p, helpers)
		r08OwnOperationOnly(c, p, helpers)
		// R08.13 (= R06.3): a helper resolves EACH name with its own Mount call and delegates with that call's pair
		c.WithAlias(map[string]string{"R06.3": "R08.13"}, func() { r06Pairs(c, p) })
		r08SubViewJoins(c, p, "R08.10")
	}
	c.Floor("R08.1", 40)
	c.Floor("R08.3", 25)
	c.Floor("R08.4", 2)
	c.Floor("R08.5", 10)
	c.Floor("R08.6", 1)
	c.Floor("R08.7", 8)
	c.Floor("R08.8", 1)
	c.Floor("R08.11", 10)
	c.Floor("R08.14", 20)
	c.Floor("R08.15", 10)
	c.Floor("R08.12", 1)
	c.Floor("R08.13", 15)
	c.Floor("R08.10", 2)
}

// r08NotImplemented: (also R05.4) in each helper, the return reached when every type assertion failed.
func r08NotImplemented(c *core.Ctx, p *load.Program, helpers []*ssa.Function) {
	for _, fn := range helpers {
		// follow the all-assertions-false path from entry
		b := fn.Blocks[0]
		seen := map[*ssa.BasicBlock]bool{}
		asserts := 0
		var end ssa.Instruction
		for b != nil && !seen[b] {
			seen[b] = true
			last := b.Instrs[len(b.Instrs)-1]
			switch l := last.(type) {
			case *ssa.If:
				// condition is the ok of a comma-ok type assertion?
				if ex, ok := l.Cond.(*ssa.Extract); ok && ex.Index == 1 {
					if ta, ok := ex.Tuple.(*ssa.TypeAssert); ok && ta.CommaOk {
						asserts++
						b = b.Succs[1]
						continue
					}
				}
				end = l
				b = nil
			case *ssa.Jump:
				b = b.Succs[0]
			default:
				end = last
				b = nil
			}
		}
		key := "hackpadfs." + fn.Name() + "|unsupported-path"
		pos := p.Pos(fn.Pos())
		if asserts == 0 {
			c.OKTrivial("R08.3", key, pos, "helper has no capability assertion")
			continue
		}
		ret, isRet := end.(*ssa.Return)
		if !isRet {
			c.OK("R08.3", key, pos, fmt.Sprintf("after %d failed capability assertions the helper enters its fallback body", asserts))
			continue
		}
		eidx := ssax.ErrorResultIndex(fn.Signature)
		if eidx < 0 {
			c.OKTrivial("R08.3", key, pos, "no error result")
			continue
		}
		ev := ret.Results[eidx]
		// fallback by delegation: the return value comes from a call (another helper, io/fs function, fs.Open)
		if cl := callProducing(ev); cl != nil {
			// io/fs.ReadDir reports a directory handle without ReadDir as errors.New("not implemented"): no sentinel
			if ssax.CalleeIs(cl, "io/fs", "ReadDir") {
				c.Bad("R08.3", key, p.Pos(ret.Pos()), fmt.Sprintf("%s falls back to io/fs.ReadDir, which answers a directory handle that cannot list with an error that does not match ErrNotImplemented: the unsupported operation is not reported as such", fname(fn)))
				continue
			}
			c.OK("R08.3", key, p.Pos(ret.Pos()), "falls back to "+ssax.CallName(cl))
			continue
		}
		info := classifyErr(ev)
		if info.only("ErrNotImplemented", false) && (info.Wrap["PathError"] || info.Wrap["LinkError"]) {
			c.OK("R08.3", key, p.Pos(ret.Pos()), "unsupported => "+info.String())
		} else {
			c.Bad("R08.3", key, p.Pos(ret.Pos()), fmt.Sprintf("%s: when the file system supports none of the interfaces the helper probes, it returns %s; must be a *PathError/*LinkError with ErrNotImplemented (or a fallback)", fname(fn), strings.TrimSpace(info.String())))
		}
	}
}

// r08Siblings (R08.4, contradiction rule): within one helper, all calls of the same fallible callee consult the
// same sentinels on its error. If one site tolerates ErrExist (errors.Is) and another returns the error as is, one
// of them is wrong — the optimised implementation answers both situations alike.
func r08Siblings(c *core.Ctx, p *load.Program, fns []*ssa.Function) {
	for _, fn := range fns {
		if fn.Parent() != nil {
			continue
		}
		type site struct {
			cl   *ssa.Call
			sent map[string]bool
		}
		groups := map[*ssa.Function][]site{}
		var order []*ssa.Function
		ssax.Instrs(fn, func(ins ssa.Instruction) {
			cl, ok := ins.(*ssa.Call)
			if !ok {
				return
			}
			callee := ssax.StaticCallee(cl)
			if callee == nil || !p.InModule(callee) || ssax.ErrorResultIndex(callee.Signature) < 0 || callee == fn {
				return
			}
			ev := ssax.ErrorValueOf(cl)
			s := site{cl: cl, sent: map[string]bool{}}
			if ev != nil && ev.Referrers() != nil {
				for _, r := range *ev.Referrers() {
					if e, sn, ok := isErrorsIs(valueOfInstr(r)); ok && e == ev && sn != "" {
						s.sent[sn] = true
					}
				}
			}
			if _, seen := groups[callee]; !seen {
				order = append(order, callee)
			}
			groups[callee] = append(groups[callee], s)
		})
		for _, callee := range order {
			g := groups[callee]
			if len(g) < 2 {
				continue
			}
			union := map[string]bool{}
			for _, s := range g {
				for k := range s.sent {
					union[k] = true
				}
			}
			for i, s := range g {
				key := fmt.Sprintf("%s|%s#%d", fname(fn), fname(callee), i+1)
				var missing []string
				for k := range union {
					if !s.sent[k] {
						missing = append(missing, k)
					}
				}
				sort.Strings(missing)
				if len(missing) == 0 {
					c.OK("R08.4", key, p.Pos(s.cl.Pos()), "consults the same sentinels as its sibling calls")
				} else {
					c.Bad("R08.4", key, p.Pos(s.cl.Pos()), fmt.Sprintf("%s: this call of %s does not consult %v on its error although a sibling call in the same function does: the two sites answer the same situation (e.g. the directory already exists) differently, so the fallback's result differs from the optimised implementation's", fname(fn), fname(callee), missing))
				}
			}
		}
	}
}

func valueOfInstr(i ssa.Instruction) ssa.Value {
	if v, ok := i.(ssa.Value); ok {
		return v
	}
	return nil
}

// r08ParamForms (R08.5, sibling agreement): inside one helper every delegate that receives a value computed from
// a non-name parameter (mode, flag, perm, times, uid…) receives the parameter itself. If one capability branch
// passes `mode` and the fallback passes `mode & K`, the result depends on which interfaces the file system has.
func r08ParamForms(c *core.Ctx, p *load.Program, helpers []*ssa.Function) {
	for _, fn := range helpers {
		for pi, prm := range fn.Params {
			if pi == 0 || isStr(prm.Type()) {
				continue
			}
			if _, isI := prm.Type().Underlying().(*types.Interface); isI {
				continue
			}
			if _, isS := prm.Type().Underlying().(*types.Slice); isS {
				continue
			}
			var derivesFrom func(v ssa.Value, d int) bool
			derivesFrom = func(v ssa.Value, d int) bool {
				if d > 6 {
					return false
				}
				switch x := v.(type) {
				case *ssa.Parameter:
					return x == prm
				case *ssa.BinOp:
					return derivesFrom(x.X, d+1) || derivesFrom(x.Y, d+1)
				case *ssa.UnOp:
					return x.Op != token.MUL && derivesFrom(x.X, d+1)
				case *ssa.Convert:
					return derivesFrom(x.X, d+1)
				case *ssa.ChangeType:
					return derivesFrom(x.X, d+1)
				case *ssa.Phi:
					for _, e := range x.Edges {
						if derivesFrom(e, d+1) {
							return true
						}
					}
				}
				return false
			}
			type site struct {
				cl       *ssa.Call
				modified bool
			}
			var sites []site
			ssax.InstrsDeep(fn, func(f *ssa.Function, ins ssa.Instruction) {
				cl, ok := ins.(*ssa.Call)
				if !ok {
					return
				}
				if !cl.Call.IsInvoke() {
					callee := ssax.StaticCallee(cl)
					if callee == nil || !p.InModule(callee) {
						return
					}
				}
				for _, a := range cl.Call.Args {
					if !types.Identical(a.Type(), prm.Type()) {
						continue
					}
					if a == ssa.Value(prm) {
						sites = append(sites, site{cl, false})
					} else if derivesFrom(a, 0) {
						sites = append(sites, site{cl, true})
					}
				}
			})
			if len(sites) < 2 {
				continue
			}
			plain := 0
			for _, s := range sites {
				if !s.modified {
					plain++
				}
			}
			for i, s := range sites {
				key := fmt.Sprintf("%s|param:%s#%d", fname(fn), prm.Name(), i+1)
				if s.modified && plain > 0 {
					c.Bad("R08.5", key, p.Pos(s.cl.Pos()), fmt.Sprintf("%s passes a value computed from its parameter %s to %s while %d sibling delegation(s) pass %s itself: the outcome (e.g. which mode bits are set) depends on which optional interfaces the file system implements", fname(fn), prm.Name(), ssax.CallName(s.cl), plain, prm.Name()))
				} else {
					c.OK("R08.5", key, p.Pos(s.cl.Pos()), "the parameter reaches every delegate in the same form")
				}
			}
		}
	}
}

// r08NoFollow (R08.6): the recursive removal decides "is a directory, descend" from a look-up that does not follow
// symbolic links (Lstat, LstatOrStat). With Stat, RemoveAll of a link to a directory empties the link's target,
// which the optimised implementation (os.RemoveAll) never touches.
func r08NoFollow(c *core.Ctx, p *load.Program, fns map[*ssa.Function]bool) {
	var list []*ssa.Function
	for f := range fns {
		list = append(list, f)
	}
	sort.Slice(list, func(i, j int) bool { return fname(list[i]) < fname(list[j]) })
	for _, fn := range list {
		// only functions that recurse and remove
		recurses, removes := false, false
		ssax.Instrs(fn, func(ins ssa.Instruction) {
			if cl, ok := ins.(*ssa.Call); ok {
				if callee := ssax.StaticCallee(cl); callee != nil {
					if callee == fn {
						recurses = true
					}
					if callee.Name() == "Remove" {
						removes = true
					}
				}
			}
		})
		if !recurses || !removes {
			continue
		}
		ord := ordinals{}
		ssax.Instrs(fn, func(ins ssa.Instruction) {
			cl, ok := ins.(*ssa.Call)
			if !ok || !isIsDirCall(cl) || !cl.Call.IsInvoke() {
				return
			}
			src := callProducing(cl.Call.Value)
			if src == nil {
				return
			}
			key := fname(fn) + "|" + ord.next("kind-test")
			name := ssax.CallName(src)
			follows := strings.HasSuffix(name, ".Stat") || strings.HasSuffix(name, "StatFS.Stat")
			c.Check(!follows, "R08.6", key, p.Pos(cl.Pos()), "the kind test that decides the descent comes from "+name+" (does not follow links)",
				fmt.Sprintf("%s decides whether to descend from %s, which follows symbolic links: RemoveAll of a link to a directory lists and deletes the contents of the link's target, where the optimised implementation only unlinks the link", fname(fn), name))
		})
	}
}

// r08NoSeekEmulation (R08.7, who-may-call): among the helpers that take a File, only SeekFile moves the file's position
// (invokes Seek). A helper that emulates a positioned operation (ReadAt, WriteAt) through Seek + Read/Write succeeds on
// the reduced capability set but leaves the position moved: neither the full file's result nor ErrNotImplemented.
func r08NoSeekEmulation(c *core.Ctx, p *load.Program, helpers []*ssa.Function) {
	for _, fn := range helpers {
		if len(fn.Params) == 0 || !hasMethods(fn.Params[0].Type(), "Read", "Stat", "Close") {
			continue
		}
		key := fname(fn) + "|does-not-move-the-position"
		var seek *ssa.Call
		ssax.Instrs(fn, func(ins ssa.Instruction) {
			if cl, ok := ins.(*ssa.Call); ok && cl.Call.IsInvoke() && cl.Call.Method.Name() == "Seek" {
				seek = cl
			}
		})
		switch {
		case fn.Name() == "SeekFile":
			c.OKTrivial("R08.7", key, p.Pos(fn.Pos()), "SeekFile is the helper whose job is to move the position")
		case seek != nil:
			c.Bad("R08.7", key, p.Pos(seek.Pos()), fmt.Sprintf("%s calls Seek on the file: a positioned or stateless operation emulated by moving the handle's position succeeds on files without the native method but leaves the position changed, so a following sequential Read or Write continues somewhere else — the result matches neither the full file's nor ErrNotImplemented", fname(fn)))
		default:
			c.OK("R08.7", key, p.Pos(fn.Pos()), "does not call Seek")
		}
	}
}

// r08OpenFallback (R08.8): the helper OpenFile may replace OpenFile(name, flag, perm) by Open(name) — which drops flag
// and perm — only where flag is known to be exactly FlagReadOnly (== 0). A mask test ("nothing is written or
// created") forgets the flags outside the mask (O_TRUNC, O_APPEND, O_SYNC, O_EXCL): the full file system truncates,
// the subset without OpenFileFS returns a handle and nil with the file untouched.
func r08OpenFallback(c *core.Ctx, p *load.Program) {
	fn := p.Func("", "OpenFile")
	if fn == nil || len(fn.Params) < 3 {
		c.Hard("anchor: helper OpenFile")
		return
	}
	flag := fn.Params[2]
	ord := ordinals{}
	n := 0
	ssax.Instrs(fn, func(ins ssa.Instruction) {
		cl, ok := ins.(ssa.CallInstruction)
		if !ok || !cl.Common().IsInvoke() || cl.Common().Method.Name() != "Open" {
			return
		}
		n++
		key := fname(fn) + "|" + ord.next("open-only-for-flag-zero")
		exact := false
		for _, f := range ssax.FactsAtInstr(ins) {
			bo, ok := f.Cond.(*ssa.BinOp)
			if !ok {
				continue
			}
			k, isK := ssax.ConstInt(bo.Y)
			x := bo.X
			if !isK {
				k, isK = ssax.ConstInt(bo.X)
				x = bo.Y
			}
			if isK && k == 0 && x == ssa.Value(flag) && (bo.Op == token.EQL && f.Val || bo.Op == token.NEQ && !f.Val) {
				exact = true
			}
		}
		c.Check(exact, "R08.8", key, p.Pos(ins.Pos()), "Open replaces OpenFile only where flag == FlagReadOnly",
			fmt.Sprintf("%s calls fs.Open(name) — dropping flag and perm — at %s where flag is not known to be exactly FlagReadOnly: a flag outside the tested mask (FlagTruncate, FlagAppend, FlagExclusive) is silently ignored on file systems without OpenFileFS, the helper returns a handle and nil for work that was not done, while the full file system does it", fname(fn), p.Pos(ins.Pos())))
	})
	if n == 0 {
		c.Hard("anchor: helper OpenFile no longer calls fs.Open")
	}
}

// r08SubViewJoins (R08.10): the generic Sub view translates a name with path.Join(base, name); string concatenation is
// wrong for the base "." (Sub(fs, ".") maps "f" to "./f", an invalid name: every helper on the fallback view fails
// with ErrInvalid while a file system exposing SubFS serves the same view).
func r08SubViewJoins(c *core.Ctx, p *load.Program, rule string) {
	fn := p.Method("", "subFS", "Mount")
	if fn == nil {
		c.Hard("anchor: subFS.Mount")
		return
	}
	ord := ordinals{}
	n := 0
	for _, r := range ssax.Returns(fn) {
		if len(r.Results) != 2 {
			continue
		}
		var leaves func(v ssa.Value, d int, seen map[ssa.Value]bool) []ssa.Value
		leaves = func(v ssa.Value, d int, seen map[ssa.Value]bool) []ssa.Value {
			if ph, ok := v.(*ssa.Phi); ok && d < 6 && !seen[v] {
				seen[v] = true
				var out []ssa.Value
				for _, e := range ph.Edges {
					out = append(out, leaves(e, d+1, seen)...)
				}
				return out
			}
			return []ssa.Value{v}
		}
		for _, v := range leaves(r.Results[1], 0, map[ssa.Value]bool{}) {
			n++
			key := fname(fn) + "|" + ord.next("sub-path")
			switch x := v.(type) {
			case *ssa.Parameter:
				c.OKTrivial(rule, key, p.Pos(r.Pos()), "the name itself (an invalid name is handed on for the parent to refuse)")
			case *ssa.Call:
				if ssax.CalleeIs(x, "path", "Join") {
					c.OK(rule, key, p.Pos(x.Pos()), "path.Join of the base and the name")
					continue
				}
				c.Bad(rule, key, p.Pos(x.Pos()), fmt.Sprintf("%s computes the sub-path with %s instead of path.Join", fname(fn), ssax.CallName(x)))
			case *ssa.BinOp:
				c.Bad(rule, key, p.Pos(x.Pos()), fmt.Sprintf("%s glues the name onto the view's base with string concatenation instead of path.Join: for the base \".\" (Sub(fs, \".\"), Sub(Sub(fs, dir), \".\")) every name becomes \"./name\", which the parent rejects — every helper on the fallback view fails with ErrInvalid, while a file system exposing SubFS serves the same view", fname(fn)))
			default:
				if _, _, isField := ssax.FieldLoad(v); isField {
					c.OK(rule, key, p.Pos(r.Pos()), "the base itself")
					continue
				}
				c.Bad(rule, key, p.Pos(r.Pos()), fmt.Sprintf("%s returns a sub-path that is neither the name, the base nor path.Join of them", fname(fn)))
			}
		}
	}
	if n == 0 {
		c.Hard("anchor: results of subFS.Mount")
	}
}

// r08OwnCapabilityFirst (R08.11): a helper that probes both the operation's own interface and MountFS asks the file
// system for its OWN method first. With MountFS first, a file system that exposes both (the generic Sub view, which
// refuses to remove its root; a wrapper protecting a name) never has its own method called.
func r08OwnCapabilityFirst(c *core.Ctx, p *load.Program, helpers []*ssa.Function) {
	mountI := ifaceOf(p, "", "MountFS")
	if mountI == nil {
		c.Hard("anchor: MountFS")
		return
	}
	n := 0
	for _, fn := range helpers {
		if len(fn.Params) == 0 {
			continue
		}
		var own, mnt []*ssa.TypeAssert
		ssax.Instrs(fn, func(ins ssa.Instruction) {
			ta, ok := ins.(*ssa.TypeAssert)
			if !ok || ta.X != ssa.Value(fn.Params[0]) {
				return
			}
			it, ok := ta.AssertedType.Underlying().(*types.Interface)
			if !ok {
				return
			}
			if types.Identical(it, mountI) {
				mnt = append(mnt, ta)
			} else {
				own = append(own, ta)
			}
		})
		if len(own) == 0 || len(mnt) == 0 {
			continue
		}
		n++
		key := fname(fn) + "|own-capability-probed-before-MountFS"
		good := true
		for _, m := range mnt {
			dominated := false
			for _, o := range own {
				if ssax.Dominates(o, m) {
					dominated = true
				}
			}
			if !dominated {
				good = false
			}
		}
		c.Check(good, "R08.11", key, p.Pos(fn.Pos()), "the operation's own interface is asserted before MountFS",
			fmt.Sprintf("%s asks for MountFS before the operation's own interface: a file system exposing both never has its own method called — the generic Sub view's Remove, which refuses its root, is bypassed and Remove(view, \".\") deletes the directory behind the view", fname(fn)))
	}
	if n < 10 {
		c.Hard("anchor: helpers probing both an own capability and MountFS (found %d)", n)
	}
}

// r08CreateFlags (R08.12): the fallback of Create opens with the flags of os.Create — O_RDWR|O_CREATE|O_TRUNC: with a
// write-only handle Create-write-seek-read works on file systems exposing CreateFS and fails on the others.
func r08CreateFlags(c *core.Ctx, p *load.Program) {
	fn := p.Func("", "Create")
	if fn == nil {
		c.Hard("anchor: helper Create")
		return
	}
	rw, ok1 := flagConst(p, "FlagReadWrite")
	cr, ok2 := flagConst(p, "FlagCreate")
	tr, ok3 := flagConst(p, "FlagTruncate")
	if !ok1 || !ok2 || !ok3 {
		c.Hard("anchor: open flag constants")
		return
	}
	n := 0
	ssax.Instrs(fn, func(ins ssa.Instruction) {
		cl, ok := ins.(*ssa.Call)
		if !ok {
			return
		}
		callee := ssax.StaticCallee(cl)
		if callee == nil || callee.Name() != "OpenFile" || len(cl.Call.Args) != 4 {
			return
		}
		n++
		k, isK := ssax.ConstInt(cl.Call.Args[2])
		c.Check(isK && k == rw|cr|tr, "R08.12", "hackpadfs.Create|fallback-flags-are-os.Create's", p.Pos(cl.Pos()), "the fallback opens with FlagReadWrite|FlagCreate|FlagTruncate",
			"hackpadfs.Create falls back to OpenFile with other flags than os.Create's O_RDWR|O_CREATE|O_TRUNC: on a file system without CreateFS the handle cannot be read back (Create, write, Seek(0), read fails), on one with CreateFS it can — the result depends on the capability subset")
	})
	if n == 0 {
		c.Hard("anchor: OpenFile fallback of Create")
	}
}

// r08SuccessOnlyAfterAsking (R08.14): a helper that takes a file system returns a constant-nil error only on a path on
// which it handed the file system (or something obtained from it) to some call: an early "nothing to do" return in a
// fallback (both times zero: "leaves the times unchanged") reports success for a name that does not exist, where the
// full interface answers ErrNotExist.
func r08SuccessOnlyAfterAsking(c *core.Ctx, p *load.Program, helpers []*ssa.Function) {
	for _, fn := range helpers {
		if fn.Blocks == nil || len(fn.Params) == 0 || fn.Object() == nil || !fn.Object().Exported() {
			continue
		}
		if fn.Name() == "MkdirAll" {
			// one named exception: its loop over the path's elements runs at least once for every valid name (ValidPath,
			// checked first, refuses the empty string), so the return after the loop has always asked
			continue
		}
		eidx := ssax.ErrorResultIndex(fn.Signature)
		if eidx < 0 {
			continue
		}
		fsP := fn.Params[0]
		uses := func(v ssa.Value) bool {
			return dependsOn(v, func(x ssa.Value) bool {
				if x == ssa.Value(fsP) {
					return true
				}
				// a value obtained from the file system: the result of a type assertion or of a call on it
				if ta, ok := x.(*ssa.TypeAssert); ok {
					return ta.X == ssa.Value(fsP)
				}
				return false
			})
		}
		bad := ""
		nilReturns := 0
		ssax.EnumPaths(fn, fn.Blocks[0], 0, ssax.NewPathState(), ssax.PathHooks{
			Instr: func(ps *ssax.PathState, ins ssa.Instruction) {
				ci, ok := ins.(ssa.CallInstruction)
				if !ok {
					return
				}
				cc := ci.Common()
				if cc.IsInvoke() && uses(cc.Value) {
					ps.Counts["asked"] = 1
				}
				for _, a := range cc.Args {
					if uses(a) {
						ps.Counts["asked"] = 1
					}
				}
				if cl, ok := ins.(*ssa.Call); ok && ps.Counts["asked"] == 1 {
					_ = cl
				}
			},
			End: func(ps *ssax.PathState, last ssa.Instruction) {
				r, ok := last.(*ssa.Return)
				if !ok {
					return
				}
				e := ps.Resolve(resolveSpilledOnPath(r.Results[eidx], r, ps))
				if !ssax.IsNilConst(e) {
					return
				}
				nilReturns++
				if ps.Counts["asked"] == 0 && bad == "" {
					bad = p.Pos(r.Pos())
				}
			},
		})
		if nilReturns == 0 {
			c.OKTrivial("R08.14", fname(fn)+"|success-only-after-asking-the-file-system", p.Pos(fn.Pos()), "no constant-nil return: every result is a callee's")
			continue
		}
		c.Check(bad == "", "R08.14", fname(fn)+"|success-only-after-asking-the-file-system", p.Pos(fn.Pos()), "every constant-nil return follows a call that received the file system or something obtained from it",
			fmt.Sprintf("%s returns success at %s without having asked the file system (or the file) anything: a 'nothing to do' shortcut answers nil for a name that does not exist, where the full interface fails with ErrNotExist", fname(fn), bad))
	}
}

// r08OwnOperationOnly (R08.15): a helper named after a mutating operation invokes, on a file system value, no OTHER
// mutating operation's method: Mkdir answered by MkdirAll ("a file system that can make a whole path can make its last
// element") succeeds on an existing directory and creates missing parents, where Mkdir fails — the result depends on
// which capabilities are exposed. The documented fallbacks go through the package's own helpers, not through a
// sibling method of the file system.
func r08OwnOperationOnly(c *core.Ctx, p *load.Program, helpers []*ssa.Function) {
	mutating := map[string]bool{"Mkdir": true, "MkdirAll": true, "Remove": true, "RemoveAll": true, "Rename": true, "Chmod": true, "Chown": true, "Chtimes": true, "Symlink": true, "Create": true, "WriteFile": true, "Truncate": true}
	alias := map[string]string{"WriteFullFile": "WriteFile"}
	for _, fn := range helpers {
		name := fn.Name()
		if a, ok := alias[name]; ok {
			name = a
		}
		if !mutating[name] && !mutating[strings.TrimSuffix(name, "File")] || fn.Blocks == nil {
			continue
		}
		own := name
		if !mutating[own] {
			own = strings.TrimSuffix(name, "File")
		}
		bad := ""
		ssax.InstrsDeep(fn, func(_ *ssa.Function, ins ssa.Instruction) {
			ci, ok := ins.(ssa.CallInstruction)
			if !ok {
				return
			}
			if m := ssax.InvokeMethod(ci); m != nil && mutating[m.Name()] && m.Name() != own && bad == "" {
				bad = m.Name() + " at " + p.Pos(ins.Pos())
			}
		})
		c.Check(bad == "", "R08.15", fname(fn)+"|invokes-its-own-operation-only", p.Pos(fn.Pos()), "no other mutating operation's method is invoked",
			fmt.Sprintf("%s invokes the method %s of another mutating operation: with that capability exposed and its own hidden the helper answers with the other operation's semantics (MkdirAll accepts an existing directory and creates missing parents) instead of failing with ErrNotImplemented", fname(fn), bad))
	}
}
