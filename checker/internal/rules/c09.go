package rules

import (
	"fmt"
	"go/token"
	"go/types"
	"sort"
	"strings"

	"golang.org/x/tools/go/ssa"

	"hpfscheck/internal/core"
	"hpfscheck/internal/load"
	"hpfscheck/internal/ssax"
)

func init() {
	register(&Spec{ID: "C09", Targets: []load.Target{load.Linux, load.Windows, load.Darwin}, Run: runC09})
}

func runC09(c *core.Ctx) {
	runFixtures(c, "valid", "drop", "fold")
	c.Explain("Structural clauses of C09 decided from source on linux, windows and darwin builds of package hackpadfs/os: (R09.1) every call to a path-taking function of the standard os package receives, as each path operand, the first result of the name→OS-path mapping (rootedPath/toOSPath), at a point dominated by that call's nil-error edge — no raw name reaches the kernel; (R09.2) the mapping validates before it joins and joins path.Join(\"/\", root, name) in that order, so the result is root-prefixed; (R09.3) every non-error return of the reverse mapping returns the constant \".\" or a value tested by ValidPath on the way; (R09.4) the root-prefix test of the reverse mapping respects element boundaries (root+\"/\" or equality); (R09.5) every error produced by a standard os function or *os.File method leaves package os only through the translator that rewrites OS paths into FS-relative names; (R09.6) the exported reverse mapping refuses non-absolute paths before converting; (R09.7) no strings.Replace/ReplaceAll in package os deletes (replaces by the empty string) a non-constant pattern — the root's OS path is taken off a reported path with TrimPrefix only, so a name that contains the root's text again further down ('backup/data/x' under root 'data') is reported intact; (R09.8) a method of os.FS that builds a new os.FS (Sub) stores into every string field of the new value something derived from the receiver's same field — a volume name left at the constructor's default moves the view to another volume. (R09.9) no prefix cut off an OS path is admitted by a case-insensitive comparison; (R09.10) os.FS.Sub never stores the root \".\". (R09.11) relPath never answers a rooted name; (R09.12) = R07.1 under C09. (R09.13) separator parameters are used and no literal backslash is replaced; (R09.14) every Path/Old/New of a rebuilt os error is last stored from relPath. (R09.15) the error translator returns an error untranslated only for reasons in the error itself; (R09.16) nothing reachable from fromOSPath cleans the path. (R09.17) directory entries handed out are wrapped so that Info() errors are translated. NOT claimed: ToOSPath∘FromOSPath = id (string arithmetic), volume handling on real Windows paths beyond these shapes.")
	c.Assume("A2: standard os/path/filepath functions behave as documented")
	c.RuleDoc("R09.1", "only mapped paths reach standard os calls, on the mapping's success edge")
	c.RuleDoc("R09.2", "mapping = validate, then path.Join(\"/\", root, name)")
	c.RuleDoc("R09.3", "reverse mapping returns \".\" or a ValidPath-tested value")
	c.RuleDoc("R09.4", "root prefix test respects element boundaries")
	c.RuleDoc("R09.5", "standard os errors pass through the translator")
	c.RuleDoc("R09.6", "FromOSPath requires an absolute path")
	c.RuleDoc("R09.13", "the separator conversions use the separator they are given: no unused separator parameter, no literal backslash")
	c.RuleDoc("R09.17", "directory entries handed out by package os are wrapped (their Info() error is translated)")
	c.RuleDoc("R09.15", "the os error translator returns an error untranslated only for reasons in the error itself")
	c.RuleDoc("R09.16", "the reverse mapping refuses unclean OS paths (no Clean)")
	c.RuleDoc("R09.14", "every path field of an error rebuilt by the translator is passed through relPath on every path")
	c.RuleDoc("R09.11", "os.relPath never returns a path with a leading separator")
	c.RuleDoc("R09.12", "Sub roots are joined with path.Join on validated names (= R07.1)")
	c.RuleDoc("R09.10", "a Sub view of the OS-backed FS never stores the root \".\"")
	c.RuleDoc("R09.9", "a prefix that is cut off an OS path is admitted by an exact, not a case-insensitive, comparison")
	c.RuleDoc("R09.8", "a view built from an os.FS keeps every string configuration field of its parent")
	c.RuleDoc("R09.7", "roots and volume names are removed from a path only as a prefix")
	for _, p := range c.Progs {
		c.SetProg(p)
		if p.SSAPkg("os") == nil {
			c.Hard("anchor: package hackpadfs/os")
			continue
		}
		mapper := p.Method("os", "FS", "toOSPath")
		rooted := p.Method("os", "FS", "rootedPath")
		rev := p.Method("os", "FS", "fromOSPath")
		if mapper == nil || rooted == nil || rev == nil {
			c.Hard("anchor: os.(*FS).toOSPath / rootedPath / fromOSPath")
			continue
		}
		r09OSCalls(c, p, map[*ssa.Function]bool{mapper: true, rooted: true})
		r09MappingShape(c, p, mapper)
		r09Reverse(c, p, rev)
		r09Errors(c, p)
		r09PrefixOnly(c, p)
		r09SubKeepsConfig(c, p)
		r09FoldThenCut(c, p)
		r09NoDotRoot(c, p)
		r09RelPathUnrooted(c, p)
		r09SeparatorIsAParameter(c, p)
		r09EveryPathFieldTranslated(c, p)
		r09TranslatorAlwaysTranslates(c, p)
		r09EntriesAreWrapped(c, p)
		// R09.12 (= R07.1): roots are joined with path.Join on validated names, never glued with "+"
		{
			va := newValidAnalysis(p)
			va.solve()
			c.WithAlias(map[string]string{"R07.1": "R09.12"}, func() { r07Joins(c, p, va) })
		}
		r09Abs(c, p, rev)
		for _, v := range prefixTests(p, rev) {
			c.Check(v.ok, "R09.4", "os.fromOSPath|"+v.key, v.pos, v.msg, v.msg)
		}
	}
	c.Floor("R09.1", 17)
	c.Floor("R09.2", 1)
	c.Floor("R09.3", 1)
	c.Floor("R09.4", 1)
	c.Floor("R09.5", 30)
	c.Floor("R09.6", 1)
	c.Floor("R09.7", 1)
	c.Floor("R09.8", 2)
	c.Floor("R09.11", 1)
	c.Floor("R09.13", 2)
	c.Floor("R09.14", 3)
	c.Floor("R09.15", 1)
	c.Floor("R09.16", 1)
	c.Floor("R09.17", 2)
	c.Floor("R09.12", 5)
}

func isStdOSFunc(fn *ssa.Function) bool {
	return fn != nil && fn.Pkg != nil && fn.Pkg.Pkg.Path() == "os"
}

func r09OSCalls(c *core.Ctx, p *load.Program, mappers map[*ssa.Function]bool) {
	for _, fn := range pkgFuncs(p, "os") {
		ord := ordinals{}
		ssax.Instrs(fn, func(ins ssa.Instruction) {
			cl, ok := ins.(*ssa.Call)
			if !ok {
				return
			}
			callee := ssax.StaticCallee(cl)
			if !isStdOSFunc(callee) || callee.Signature.Recv() != nil {
				return
			}
			var paths []ssa.Value
			for _, a := range cl.Call.Args {
				if b, ok := a.Type().Underlying().(*types.Basic); ok && b.Kind() == types.String {
					paths = append(paths, a)
				}
			}
			if len(paths) == 0 {
				return
			}
			key := fname(fn) + "|" + ord.next("os."+callee.Name())
			var bad []string
			for _, a := range paths {
				ex, ok := a.(*ssa.Extract)
				if !ok || ex.Index != 0 {
					bad = append(bad, vname(a)+" is not a mapping result")
					continue
				}
				mc, ok := ex.Tuple.(*ssa.Call)
				if !ok || !mappers[ssax.StaticCallee(mc)] {
					bad = append(bad, vname(a)+" is not a mapping result")
					continue
				}
				ev := ssax.ExtractOf(mc, 1)
				if ev == nil {
					bad = append(bad, "the mapping's error is discarded")
					continue
				}
				isNil, known := ssax.KnownNil(ssax.FactsAtInstr(cl), ev)
				if !known || !isNil {
					bad = append(bad, "not dominated by the mapping's nil-error edge")
				}
			}
			if len(bad) == 0 {
				c.OK("R09.1", key, p.Pos(cl.Pos()), fmt.Sprintf("%d path operand(s) are mapping results on the success edge", len(paths)))
			} else {
				c.Bad("R09.1", key, p.Pos(cl.Pos()), fmt.Sprintf("%s calls os.%s with a path that did not come through the name→OS-path mapping on its success edge (%s): the name is not validated or not confined to the root", fname(fn), callee.Name(), strings.Join(bad, "; ")))
			}
		})
	}
}

func r09MappingShape(c *core.Ctx, p *load.Program, mapper *ssa.Function) {
	key := "os.toOSPath|validate-then-join"
	var join *ssa.Call
	ssax.Instrs(mapper, func(ins ssa.Instruction) {
		if cl, ok := ins.(*ssa.Call); ok && ssax.CalleeIs(cl, "path", "Join") {
			join = cl
		}
	})
	if join == nil {
		c.Bad("R09.2", key, p.Pos(mapper.Pos()), "the name→OS-path mapping no longer builds the path with path.Join")
		return
	}
	elems := variadicElems(join.Call.Args[0])
	st := mapper.Signature.Recv().Type().(*types.Pointer).Elem().(*types.Named)
	okOrder := len(elems) == 3
	if okOrder {
		s0, isC := ssax.ConstString(elems[0])
		okOrder = isC && s0 == "/" && isLoadOfNamedField(elems[1], st, "root")
		_, isParam := elems[2].(*ssa.Parameter)
		okOrder = okOrder && isParam
	}
	validated := false
	if okOrder {
		for _, f := range ssax.FactsAtInstr(join) {
			if cl, ok := f.Cond.(*ssa.Call); ok && f.Val && isValidPathCall(cl) && cl.Call.Args[0] == elems[2] {
				validated = true
			}
		}
	}
	// the joined value must be what is returned (through separator conversion helpers of the package)
	c.Check(okOrder && validated, "R09.2", key, p.Pos(join.Pos()), "ValidPath(name) dominates path.Join(\"/\", root, name)",
		fmt.Sprintf("the mapping is not 'validate, then path.Join(\"/\", root, name)' (order-ok=%v validated=%v): the OS path would not be the root joined with the name", okOrder, validated))
}

func r09Reverse(c *core.Ctx, p *load.Program, rev *ssa.Function) {
	ord := ordinals{}
	for _, r := range ssax.Returns(rev) {
		e := r.Results[1]
		if !ssax.IsNilConst(e) {
			continue
		}
		key := "os.fromOSPath|" + ord.next("ok-return")
		v := r.Results[0]
		if s, ok := ssax.ConstString(v); ok && s == "." {
			c.OK("R09.3", key, p.Pos(r.Pos()), "returns \".\"")
			continue
		}
		tested := false
		for _, f := range ssax.FactsAtInstr(r) {
			if cl, ok := f.Cond.(*ssa.Call); ok && f.Val && isValidPathCall(cl) && cl.Call.Args[0] == v {
				tested = true
			}
		}
		c.Check(tested, "R09.3", key, p.Pos(r.Pos()), "returned FS path was tested with ValidPath",
			"(*os.FS).fromOSPath returns a string that was never tested with ValidPath: \"/root/../x\" yields \"../x\" and \"/root//a/\" yields \"/a/\", which are not valid FS paths")
	}
}

func r09Abs(c *core.Ctx, p *load.Program, rev *ssa.Function) {
	fn := p.Method("os", "FS", "FromOSPath")
	if fn == nil {
		c.Hard("anchor: os.(*FS).FromOSPath")
		return
	}
	ok := false
	ssax.Instrs(fn, func(ins ssa.Instruction) {
		cl, isC := ins.(*ssa.Call)
		if !isC || ssax.StaticCallee(cl) != rev {
			return
		}
		for _, f := range ssax.FactsAtInstr(cl) {
			if ac, isA := f.Cond.(*ssa.Call); isA && f.Val && ssax.CalleeIs(ac, "path/filepath", "IsAbs") && ac.Call.Args[0] == ssa.Value(fn.Params[1]) {
				ok = true
			}
		}
	})
	c.Check(ok, "R09.6", "os.FromOSPath|absolute-only", p.Pos(fn.Pos()), "conversion dominated by filepath.IsAbs(osPath)",
		"(*os.FS).FromOSPath converts a path without first requiring filepath.IsAbs: relative OS paths would be mapped into the root")
}

// translators: functions of package os with signature func(error) error that rewrite PathError paths.
func osTranslators(p *load.Program) map[*ssa.Function]bool {
	out := map[*ssa.Function]bool{}
	for _, fn := range pkgFuncs(p, "os") {
		sig := fn.Signature
		if sig.Params().Len() != 1 || sig.Results().Len() != 1 || !ssax.IsErrorType(sig.Params().At(0).Type()) || !ssax.IsErrorType(sig.Results().At(0).Type()) {
			continue
		}
		out[fn] = true
	}
	return out
}

func r09Errors(c *core.Ctx, p *load.Program) {
	tr := osTranslators(p)
	// the outermost translator is the one that (transitively) calls strings.TrimPrefix on an error path
	rewrites := func(fn *ssa.Function) bool {
		found := false
		var walk func(f *ssa.Function, d int)
		seen := map[*ssa.Function]bool{}
		walk = func(f *ssa.Function, d int) {
			if f == nil || seen[f] || d > 3 || f.Blocks == nil {
				return
			}
			seen[f] = true
			ssax.Instrs(f, func(ins ssa.Instruction) {
				if cl, ok := ins.(*ssa.Call); ok {
					if ssax.CalleeIs(cl, "strings", "TrimPrefix") {
						found = true
					}
					// translators it chains to, and string helpers of the module it rewrites the paths with
					if callee := ssax.StaticCallee(cl); callee != nil && (tr[callee] || p.InModule(callee)) {
						walk(callee, d+1)
					}
				}
			})
		}
		walk(fn, 0)
		return found
	}
	for _, fn := range pkgFuncs(p, "os") {
		if tr[fn] {
			continue
		}
		ord := ordinals{}
		ssax.Instrs(fn, func(ins ssa.Instruction) {
			cl, ok := ins.(*ssa.Call)
			if !ok {
				return
			}
			callee := ssax.StaticCallee(cl)
			if !isStdOSFunc(callee) || ssax.ErrorResultIndex(callee.Signature) < 0 {
				return
			}
			key := fname(fn) + "|" + ord.next("err-of:os."+strings.TrimPrefix(relNameOf(callee), "(*File)."))
			ev := ssax.ErrorValueOf(cl)
			if ev == nil {
				c.Bad("R09.5", key, p.Pos(cl.Pos()), fmt.Sprintf("%s discards the error of %s", fname(fn), ssax.CallName(cl)))
				return
			}
			good := ev.Referrers() != nil
			n := 0
			for _, r := range *ev.Referrers() {
				if _, isDbg := r.(*ssa.DebugRef); isDbg {
					continue
				}
				n++
				tc, ok := r.(*ssa.Call)
				if !ok || !tr[ssax.StaticCallee(tc)] || !rewrites(ssax.StaticCallee(tc)) {
					good = false
					continue
				}
				// and the translated value is returned
				ret := false
				if tc.Referrers() != nil {
					for _, rr := range *tc.Referrers() {
						if _, isRet := rr.(*ssa.Return); isRet {
							ret = true
						}
					}
				}
				if !ret {
					good = false
				}
			}
			c.Check(good && n > 0, "R09.5", key, p.Pos(cl.Pos()), "error goes through the path translator and is returned",
				fmt.Sprintf("%s returns or uses the error of %s without passing it through the translator that rewrites OS paths to FS-relative names: callers would see absolute OS paths", fname(fn), ssax.CallName(cl)))
		})
	}
}

func relNameOf(fn *ssa.Function) string {
	if recv := fn.Signature.Recv(); recv != nil {
		t := recv.Type()
		ptr := ""
		if pt, ok := t.(*types.Pointer); ok {
			t = pt.Elem()
			ptr = "*"
		}
		if n, ok := t.(*types.Named); ok {
			return "(" + ptr + n.Obj().Name() + ")." + fn.Name()
		}
	}
	return fn.Name()
}

// ---- shared with C06: element-boundary prefix tests ----

type prefixVerdict struct {
	key, pos, msg string
	ok            bool
}

// prefixTests: every strings.HasPrefix(x, y) in fn where y derives from a stored path (struct field / map key):
// y must end in the constant "/" (concatenation), or the test is an equality.
func prefixTests(p *load.Program, fn *ssa.Function) []prefixVerdict {
	var out []prefixVerdict
	ord := ordinals{}
	var visit func(f *ssa.Function)
	visit = func(f *ssa.Function) {
		ssax.Instrs(f, func(ins ssa.Instruction) {
			cl, ok := ins.(*ssa.Call)
			if !ok || !ssax.CalleeIs(cl, "strings", "HasPrefix") {
				return
			}
			y := cl.Call.Args[1]
			key := ord.next("HasPrefix")
			// captured variables: look at what was bound / stored
			if fv, ok := y.(*ssa.FreeVar); ok {
				if b := ssax.ResolveFreeVar(fv); b != nil {
					y = b
				}
			}
			if u, ok := y.(*ssa.UnOp); ok {
				var cell *ssa.Alloc
				switch a := u.X.(type) {
				case *ssa.Alloc:
					cell = a
				case *ssa.FreeVar:
					if b, ok := ssax.ResolveFreeVar(a).(*ssa.Alloc); ok {
						cell = b
					}
				}
				if cell != nil {
					stores, _ := ssax.CellStores(cell)
					allOK := len(stores) > 0
					for _, st := range stores {
						if !endsInSlash(st.Val) {
							allOK = false
						}
					}
					msg := "every value of the captured prefix ends in \"/\" (or is empty for the root)"
					if !allOK {
						msg = fmt.Sprintf("%s: strings.HasPrefix(%s, <captured prefix>) — a value stored into the prefix does not end in \"/\": \"ab\" would match \"a\"", fname(f), vname(cl.Call.Args[0]))
					}
					out = append(out, prefixVerdict{key, p.Pos(cl.Pos()), msg, allOK})
					return
				}
			}
			if s, ok := ssax.ConstString(y); ok {
				good := s == "" || strings.HasSuffix(s, "/")
				msg := fmt.Sprintf("constant prefix %q ends on an element boundary", s)
				if !good {
					msg = fmt.Sprintf("%s: strings.HasPrefix(%s, %q) tests the first characters of a name: names are opaque byte strings, only whole path elements may be matched (a child called %q+anything would be treated specially)", fname(f), vname(cl.Call.Args[0]), s, s)
				}
				out = append(out, prefixVerdict{key, p.Pos(cl.Pos()), msg, good})
				return
			}
			good := endsInSlash(y)
			msg := "prefix ends in \"/\": a path element boundary"
			if !good {
				msg = fmt.Sprintf("%s: strings.HasPrefix(%s, %s) tests a stored path as a plain string prefix without the trailing \"/\": \"ab\" would match the mount point/root \"a\"", fname(f), vname(cl.Call.Args[0]), vname(y))
			}
			out = append(out, prefixVerdict{key, p.Pos(cl.Pos()), msg, good})
		})
		for _, a := range f.AnonFuncs {
			visit(a)
		}
	}
	visit(fn)
	return out
}

// endsInSlash: v is x + "…/" , the empty constant, a constant ending in "/", or a phi of these.
func endsInSlash(v ssa.Value) bool {
	if s, ok := ssax.ConstString(v); ok {
		return s == "" || strings.HasSuffix(s, "/")
	}
	switch x := v.(type) {
	case *ssa.BinOp:
		if x.Op == token.ADD {
			// "/" separates the elements of an FS name, the OS separator those of an OS path (`\` on windows)
			if s, ok := ssax.ConstString(x.Y); ok && (strings.HasSuffix(s, "/") || strings.HasSuffix(s, `\`)) {
				return true
			}
		}
	case *ssa.Phi:
		for _, e := range x.Edges {
			if !endsInSlash(e) {
				return false
			}
		}
		return true
	}
	return false
}

// boundaryTests runs prefixTests over every top-level source function of the given packages (relative paths, ""
// is the module root) and records each strings.HasPrefix as an obligation of `rule`.
func boundaryTests(c *core.Ctx, p *load.Program, rule string, pkgs ...string) {
	for _, rel := range pkgs {
		for _, fn := range pkgFuncs(p, rel) {
			if fn.Parent() != nil {
				continue
			}
			for _, v := range prefixTests(p, fn) {
				c.Check(v.ok, rule, fname(fn)+"|"+v.key, v.pos, v.msg, v.msg)
			}
		}
	}
}

// r09PrefixOnly (R09.7)
func r09PrefixOnly(c *core.Ctx, p *load.Program) {
	for _, fn := range pkgFuncs(p, "os") {
		ord := ordinals{}
		ssax.Instrs(fn, func(ins ssa.Instruction) {
			cl, ok := ins.(*ssa.Call)
			if !ok || (!ssax.CalleeIs(cl, "strings", "ReplaceAll") && !ssax.CalleeIs(cl, "strings", "Replace")) {
				return
			}
			key := fname(fn) + "|" + ord.next("replace")
			_, patConst := ssax.ConstString(cl.Call.Args[1])
			repl, replConst := ssax.ConstString(cl.Call.Args[2])
			bad := !patConst && replConst && repl == ""
			c.Check(!bad, "R09.7", key, p.Pos(cl.Pos()), "replaces one separator convention by the other (constants), deletes nothing",
				fmt.Sprintf("%s deletes every occurrence of the non-constant pattern %s from a path: a root or volume name may only be taken off the front (strings.TrimPrefix) — a name that contains the root's OS path again further down is reported with that part missing", fname(fn), vname(cl.Call.Args[1])))
		})
	}
}

// r09SubKeepsConfig (R09.8): a view that a method of the OS-backed FS builds from its receiver carries every string
// configuration field of the receiver along (the root through the join, the volume name as it is): a field that is
// left at its constructor default makes the view map names onto another volume.
func r09SubKeepsConfig(c *core.Ctx, p *load.Program) {
	n := p.Named("os", "FS")
	if n == nil {
		c.Hard("anchor: os.FS")
		return
	}
	st, ok := n.Underlying().(*types.Struct)
	if !ok {
		return
	}
	var cfg []string
	for i := 0; i < st.NumFields(); i++ {
		if isStr(st.Field(i).Type()) {
			cfg = append(cfg, st.Field(i).Name())
		}
	}
	for name, fn := range methodsOf(p, n) {
		if fn.Blocks == nil {
			continue
		}
		// builds a new os.FS: an Alloc of the struct, or a call of a module constructor returning *FS
		builds := false
		ssax.Instrs(fn, func(ins ssa.Instruction) {
			switch x := ins.(type) {
			case *ssa.Alloc:
				if nn := namedOfPtr(x.Type()); nn != nil && types.Identical(nn, n) && x.Heap {
					builds = true
				}
			case *ssa.Call:
				if callee := ssax.StaticCallee(x); callee != nil && p.InModule(callee) && callee.Signature.Recv() == nil && callee.Signature.Results().Len() >= 1 {
					if nn := namedOfPtr(callee.Signature.Results().At(0).Type()); nn != nil && types.Identical(nn, n) {
						builds = true
					}
				}
			}
		})
		if !builds {
			continue
		}
		recv := recvParam(fn)
		for _, f := range cfg {
			key := fmt.Sprintf("(*os.FS).%s|view-keeps:%s", name, f)
			kept := false
			ssax.Instrs(fn, func(ins ssa.Instruction) {
				stv, ok := ins.(*ssa.Store)
				if !ok {
					return
				}
				fa, ok := stv.Addr.(*ssa.FieldAddr)
				if !ok || ssax.FieldName(fa) != f || fa.X == ssa.Value(recv) {
					return
				}
				val := stripDotNormalisation(stv.Val)
				if dependsOn(val, func(v ssa.Value) bool { return isLoadOfField(v, recv, f) }) {
					kept = true
				}
				// through the variadic slice of path.Join
				if jc, ok := val.(*ssa.Call); ok && ssax.CalleeIs(jc, "path", "Join") {
					for _, e := range variadicElems(jc.Call.Args[0]) {
						if isLoadOfField(e, recv, f) {
							kept = true
						}
					}
				}
			})
			// or the receiver's field is known to be empty where the new value is built (SubVolume refuses otherwise)
			ssax.Instrs(fn, func(ins ssa.Instruction) {
				a, ok := ins.(*ssa.Alloc)
				if !ok || !a.Heap {
					return
				}
				if nn := namedOfPtr(a.Type()); nn == nil || !types.Identical(nn, n) {
					return
				}
				for _, fct := range ssax.FactsAtInstr(a) {
					bo, ok := fct.Cond.(*ssa.BinOp)
					if !ok || (bo.Op != token.EQL && bo.Op != token.NEQ) {
						continue
					}
					var other ssa.Value
					if isLoadOfField(bo.X, recv, f) {
						other = bo.Y
					} else if isLoadOfField(bo.Y, recv, f) {
						other = bo.X
					}
					if other == nil {
						continue
					}
					if sv, isC := ssax.ConstString(other); isC && sv == "" && (bo.Op == token.EQL) == fct.Val {
						kept = true
					}
				}
			})
			c.Check(kept, "R09.8", key, p.Pos(fn.Pos()), "the new view's "+f+" derives from the receiver's (or the receiver's is known empty)",
				fmt.Sprintf("%s builds a new os.FS whose %s does not come from the receiver's %s (it keeps the constructor's default): a Sub view of an FS on volume D: maps its names onto the default volume, and FromOSPath of the right path is refused", fname(fn), f, f))
		}
	}
}

// foldThenCut (R09.9): a string that is compared case-insensitively (strings.EqualFold) and is also the prefix of a
// strings.TrimPrefix / HasPrefix in the same function: the comparison admits spellings the cut does not remove
// ("c:\foo" on the volume "C:" is accepted, the volume is not stripped, and the result "c:/foo" is a valid-looking
// name that ToOSPath does not map back).
type foldSite struct {
	fn  *ssa.Function
	pos token.Pos
}

func foldThenCut(fns []*ssa.Function) []*foldSite {
	var out []*foldSite
	for _, fn := range fns {
		if fn.Blocks == nil {
			continue
		}
		var folds []*ssa.Call
		cuts := map[ssa.Value]bool{}
		ssax.Instrs(fn, func(ins ssa.Instruction) {
			cl, ok := ins.(*ssa.Call)
			if !ok {
				return
			}
			switch {
			case ssax.CalleeIs(cl, "strings", "EqualFold"):
				folds = append(folds, cl)
			case ssax.CalleeIs(cl, "strings", "TrimPrefix"), ssax.CalleeIs(cl, "strings", "HasPrefix"), ssax.CalleeIs(cl, "strings", "CutPrefix"):
				cuts[cl.Call.Args[1]] = true
			}
		})
		for _, f := range folds {
			if cuts[f.Call.Args[0]] || cuts[f.Call.Args[1]] {
				out = append(out, &foldSite{fn: fn, pos: f.Pos()})
			}
		}
	}
	return out
}

func r09FoldThenCut(c *core.Ctx, p *load.Program) {
	ord := ordinals{}
	sites := foldThenCut(pkgFuncs(p, "os"))
	for _, s := range sites {
		c.Bad("R09.9", ord.next(fname(s.fn)+"|fold-then-cut"), p.Pos(s.pos), fmt.Sprintf("%s admits a path by comparing a prefix case-insensitively (strings.EqualFold) and then cuts that prefix off with a case-sensitive strings.TrimPrefix: a volume that differs only in letter case is accepted but not stripped — FromOSPath returns a valid-looking name (\"c:/foo\") that ToOSPath does not map back to the input", fname(s.fn)))
	}
	if len(sites) == 0 {
		c.OK("R09.9", "no-fold-then-cut", "", "no prefix that is cut off a path is admitted by a case-insensitive comparison")
	}
}

// r09NoDotRoot (R09.10): the root a Sub view of the OS-backed FS stores is never ".": path.Join("", ".") is ".", and
// FromOSPath compares OS paths (volume and leading separator cut off) with "root" and "root/", which "." never
// matches — Sub(".") of an FS without a root would refuse every OS path its parent accepts, and ToOSPath/FromOSPath
// would stop being inverse. The stored value is "" on the edge where the joined path is ".".
func r09NoDotRoot(c *core.Ctx, p *load.Program) {
	fn := p.Method("os", "FS", "Sub")
	if fn == nil {
		c.Hard("anchor: os.FS.Sub")
		return
	}
	n := 0
	ssax.Instrs(fn, func(ins ssa.Instruction) {
		st, ok := ins.(*ssa.Store)
		if !ok {
			return
		}
		fa, ok := st.Addr.(*ssa.FieldAddr)
		if !ok || ssax.FieldName(fa) != "root" {
			return
		}
		n++
		key := fname(fn) + "|root-is-never-dot"
		good := false
		isDotTest := func(cond ssa.Value, v ssa.Value) (eq bool, ok bool) {
			bo, isB := cond.(*ssa.BinOp)
			if !isB || bo.Op != token.EQL && bo.Op != token.NEQ {
				return false, false
			}
			var other ssa.Value
			switch {
			case bo.X == v:
				other = bo.Y
			case bo.Y == v:
				other = bo.X
			default:
				return false, false
			}
			if s, isC := ssax.ConstString(other); isC && s == "." {
				return bo.Op == token.EQL, true
			}
			return false, false
		}
		switch x := st.Val.(type) {
		case *ssa.Phi:
			// root = join; if join == "." { root = "" }
			hasEmpty := false
			var joined ssa.Value
			for _, e := range x.Edges {
				if s, isC := ssax.ConstString(e); isC && s == "" {
					hasEmpty = true
				} else {
					joined = e
				}
			}
			if hasEmpty && joined != nil {
				for _, b := range fn.Blocks {
					if ifi, ok := b.Instrs[len(b.Instrs)-1].(*ssa.If); ok {
						if _, isT := isDotTest(ifi.Cond, joined); isT {
							good = true
						}
					}
				}
			}
		default:
			for _, f := range ssax.FactsAtInstr(st) {
				if eq, isT := isDotTest(f.Cond, st.Val); isT && eq != f.Val {
					good = true
				}
			}
		}
		c.Check(good, "R09.10", key, p.Pos(st.Pos()), "the joined root \".\" is stored as \"\" (no root)",
			fmt.Sprintf("%s stores path.Join(root, dir) as the view's root without turning \".\" into \"\": os.NewFS().Sub(\".\") gets the root \".\", FromOSPath then demands that an OS path equals \".\" or starts with \"./\" and refuses every path the parent accepts — ToOSPath and FromOSPath are not inverse on that view", fname(fn)))
	})
	if n == 0 {
		c.Hard("anchor: store of the root field in os.FS.Sub")
	}
}

// r09RelPathUnrooted (R09.11): every non-constant string os.relPath returns went through strings.TrimPrefix(_, "/"):
// the root of an FS without a Sub root is "/" (or `C:\`), which already ends in the separator — a cut of
// root+separator alone removes nothing there, and the OS's absolute path comes back as the error's path.
func r09RelPathUnrooted(c *core.Ctx, p *load.Program) {
	fn := p.Func("os", "relPath")
	if fn == nil {
		c.Hard("anchor: os.relPath")
		return
	}
	bad := ""
	n := 0
	for _, r := range ssax.Returns(fn) {
		if len(r.Results) != 1 {
			continue
		}
		var leaves func(v ssa.Value, d int, seen map[ssa.Value]bool) []ssa.Value
		leaves = func(v ssa.Value, d int, seen map[ssa.Value]bool) []ssa.Value {
			if ph, ok := v.(*ssa.Phi); ok && d < 6 && !seen[v] {
				seen[v] = true
				var out []ssa.Value
				for _, e := range ph.Edges {
					out = append(out, leaves(e, d+1, seen)...)
				}
				return out
			}
			return []ssa.Value{v}
		}
		for _, v := range leaves(r.Results[0], 0, map[ssa.Value]bool{}) {
			if _, isC := v.(*ssa.Const); isC {
				continue
			}
			n++
			cl, ok := v.(*ssa.Call)
			if ok && ssax.CalleeIs(cl, "strings", "TrimPrefix") {
				if s, isC := ssax.ConstString(cl.Call.Args[1]); isC && s == "/" {
					continue
				}
			}
			bad = p.Pos(r.Pos())
		}
	}
	c.Check(bad == "" && n > 0, "R09.11", "os.relPath|result-has-no-leading-separator", p.Pos(fn.Pos()), "every computed result went through TrimPrefix(_, \"/\")",
		fmt.Sprintf("os.relPath returns at %s a string that did not pass strings.TrimPrefix(_, \"/\"): for an FS without a Sub root the OS root already ends in the separator, a cut of root+separator removes nothing, and errors carry the absolute OS path (\"/tmp/x/missing\") instead of an FS-relative name", bad))
}

// r09SeparatorIsAParameter (R09.13): package os converts between "/" and the OS separator in functions that receive
// the separator as a rune parameter (so that both conventions can be exercised on one OS). Every such parameter is
// used, and no string function of the package is called with a literal backslash: where the separator is '/', a
// backslash is an ordinary byte of a file name and FromOSPath("/root/a\\b") must answer "a\\b", not "a/b".
func r09SeparatorIsAParameter(c *core.Ctx, p *load.Program) {
	for _, fn := range pkgFuncs(p, "os") {
		if fn.Parent() != nil || fn.Blocks == nil {
			continue
		}
		for _, prm := range fn.Params {
			bt, ok := prm.Type().Underlying().(*types.Basic)
			if !ok || bt.Kind() != types.Int32 || !strings.Contains(strings.ToLower(prm.Name()+" separator"), "separator") {
				continue
			}
			if bt.Kind() != types.Int32 {
				continue
			}
			key := fname(fn) + "|separator-parameter-used"
			used := prm.Referrers() != nil && len(*prm.Referrers()) > 0
			c.Check(used, "R09.13", key, p.Pos(fn.Pos()), "the separator parameter is used",
				fmt.Sprintf("%s ignores the separator it is given: the conversion is the same for both conventions, so under the '/' convention a backslash inside a file name is turned into a separator (FromOSPath of /root/a\\b answers a/b, a different file) or a name with one is refused", fname(fn)))
		}
		ord := ordinals{}
		if p.Target.GOOS == "windows" {
			continue // filepath.Separator itself folds to a backslash constant there
		}
		ssax.Instrs(fn, func(ins ssa.Instruction) {
			cl, ok := ins.(*ssa.Call)
			if !ok {
				return
			}
			callee := ssax.StaticCallee(cl)
			if callee == nil || callee.Pkg == nil || callee.Pkg.Pkg.Path() != "strings" {
				return
			}
			for _, a := range cl.Call.Args {
				if k, ok := a.(*ssa.Const); ok && k.Value != nil && k.Value.ExactString() == `"\\"` {
					c.Bad("R09.13", fname(fn)+"|"+ord.next("literal-backslash"), p.Pos(cl.Pos()), fmt.Sprintf("%s calls strings.%s with a literal backslash: which byte separates path elements is a parameter of the conversion (a backslash is an ordinary name byte where the separator is '/')", fname(fn), callee.Name()))
				}
			}
		})
	}
}

// r09EveryPathFieldTranslated (R09.14): in the function of package os that rebuilds *PathError / *LinkError values
// with FS-relative names (the one that calls relPath), every string field of an error struct it allocates — Path, Old,
// New — is, on every path to the return, last stored from a relPath call. A field left as copied from the os error
// (Old of a failed symlink, say) carries the absolute OS path out of the package: not a valid FS name, and it names
// the root.
func r09EveryPathFieldTranslated(c *core.Ctx, p *load.Program) {
	rel := p.Func("os", "relPath")
	if rel == nil {
		c.Hard("anchor: os.relPath")
		return
	}
	n := 0
	for _, fn := range pkgFuncs(p, "os") {
		if fn.Blocks == nil || fn == rel {
			continue
		}
		calls := false
		ssax.Instrs(fn, func(ins ssa.Instruction) {
			if cl, ok := ins.(*ssa.Call); ok && ssax.StaticCallee(cl) == rel {
				calls = true
			}
		})
		if !calls {
			continue
		}
		// (alloc, field) pairs: string fields of error structs allocated here
		type slot struct {
			a *ssa.Alloc
			f string
		}
		slots := map[slot]bool{}
		ssax.Instrs(fn, func(ins ssa.Instruction) {
			st, ok := ins.(*ssa.Store)
			if !ok {
				return
			}
			fa, ok := st.Addr.(*ssa.FieldAddr)
			if !ok || !isStr(st.Val.Type()) {
				return
			}
			a, ok := fa.X.(*ssa.Alloc)
			if !ok {
				return
			}
			switch ssax.FieldName(fa) {
			case "Path", "Old", "New":
				slots[slot{a, ssax.FieldName(fa)}] = true
			}
		})
		var list []slot
		for sl := range slots {
			list = append(list, sl)
		}
		sort.Slice(list, func(i, j int) bool {
			if list[i].a.Pos() != list[j].a.Pos() {
				return list[i].a.Pos() < list[j].a.Pos()
			}
			return list[i].f < list[j].f
		})
		ord := ordinals{}
		for _, sl := range list {
			n++
			key := fname(fn) + "|" + ord.next("translated:"+sl.f)
			bad := ""
			stored := false
			ssax.EnumPaths(fn, fn.Blocks[0], 0, ssax.NewPathState(), ssax.PathHooks{
				Instr: func(ps *ssax.PathState, ins ssa.Instruction) {
					st, ok := ins.(*ssa.Store)
					if !ok {
						return
					}
					fa, ok := st.Addr.(*ssa.FieldAddr)
					if !ok || fa.X != ssa.Value(sl.a) || ssax.FieldName(fa) != sl.f {
						return
					}
					stored = true
					ps.Counts["set"] = 1
					ps.Counts["ok"] = 0
					if cl, isCall := ps.Resolve(st.Val).(*ssa.Call); isCall && ssax.StaticCallee(cl) == rel {
						ps.Counts["ok"] = 1
					}
				},
				End: func(ps *ssax.PathState, last ssa.Instruction) {
					if _, isRet := last.(*ssa.Return); isRet && ps.Counts["set"] == 1 && ps.Counts["ok"] == 0 && bad == "" {
						bad = p.Pos(last.Pos())
					}
				},
			})
			c.Check(stored && bad == "", "R09.14", key, p.Pos(sl.a.Pos()), "the field is last stored from relPath on every path",
				fmt.Sprintf("%s builds an error whose %s field is, on a path to the return at %s, not the result of relPath: the absolute OS path (with the root) leaves package os in an error — it is no valid FS name and differs between a view and its parent", fname(fn), sl.f, bad))
		}
	}
	if n == 0 {
		c.Hard("anchor: the error translator of package os (a function that calls relPath and rebuilds error values)")
	}
}

// r09TranslatorAlwaysTranslates (R09.15 / R09.16): (R09.15) the os error translator (the function that calls relPath)
// hands its error parameter back unchanged only on paths decided by the error itself (nil, or not a *PathError /
// *LinkError): no such return is dominated by a test of a field of the receiver — "no Sub root, nothing to strip" leaves
// absolute OS paths in the errors of an unrooted FS; (R09.16) the reverse mapping refuses unclean OS paths: nothing
// reachable from fromOSPath calls path.Clean / filepath.Clean on the part behind the root ("/root/../x" must not become "x").
func r09TranslatorAlwaysTranslates(c *core.Ctx, p *load.Program) {
	rel := p.Func("os", "relPath")
	n := 0
	for _, fn := range pkgFuncs(p, "os") {
		if fn.Blocks == nil || fn == rel || fn.Parent() != nil || len(fn.Params) < 2 {
			continue
		}
		calls := false
		ssax.Instrs(fn, func(ins ssa.Instruction) {
			if cl, ok := ins.(*ssa.Call); ok && rel != nil && ssax.StaticCallee(cl) == rel {
				calls = true
			}
		})
		if !calls {
			continue
		}
		recv := recvParam(fn)
		var errP *ssa.Parameter
		for _, q := range fn.Params {
			if ssax.IsErrorType(q.Type()) {
				errP = q
			}
		}
		if errP == nil || recv == nil {
			continue
		}
		n++
		bad := ""
		onRecv := func(cond ssa.Value) bool {
			return dependsOn(cond, func(x ssa.Value) bool {
				b, _, ok := ssax.FieldLoad(x)
				return ok && b == ssa.Value(recv)
			})
		}
		// chain walks backwards over the blocks of one short-circuit condition (blocks that only compute and branch)
		var chain func(b *ssa.BasicBlock, seen map[*ssa.BasicBlock]bool) bool
		chain = func(b *ssa.BasicBlock, seen map[*ssa.BasicBlock]bool) bool {
			if seen[b] {
				return false
			}
			seen[b] = true
			iff, ok := b.Instrs[len(b.Instrs)-1].(*ssa.If)
			if !ok {
				return false
			}
			if onRecv(iff.Cond) {
				return true
			}
			for _, ins := range b.Instrs {
				switch ins.(type) {
				case *ssa.FieldAddr, *ssa.UnOp, *ssa.BinOp, *ssa.If, *ssa.Phi, *ssa.DebugRef:
				default:
					return false
				}
			}
			for _, q := range b.Preds {
				if chain(q, seen) {
					return true
				}
			}
			return false
		}
		for _, r := range ssax.Returns(fn) {
			if len(r.Results) != 1 {
				continue
			}
			var starts []*ssa.BasicBlock
			switch v := resolveSpilled(r.Results[0], r).(type) {
			case *ssa.Parameter:
				if v == errP {
					starts = append(starts, r.Block().Preds...)
					for _, f := range ssax.FactsAtInstr(r) {
						if onRecv(f.Cond) {
							bad = p.Pos(r.Pos())
						}
					}
				}
			case *ssa.Phi:
				for i, e := range v.Edges {
					if e == ssa.Value(errP) {
						starts = append(starts, v.Block().Preds[i])
						for _, f := range ssax.FactsAt(v.Block().Preds[i]) {
							if onRecv(f.Cond) {
								bad = p.Pos(r.Pos())
							}
						}
					}
				}
			}
			for _, b := range starts {
				if chain(b, map[*ssa.BasicBlock]bool{}) {
					bad = p.Pos(r.Pos())
				}
			}
		}
		c.Check(bad == "", "R09.15", fname(fn)+"|unchanged-only-for-reasons-in-the-error", p.Pos(fn.Pos()), "no return of the untranslated error depends on a field of the file system",
			fmt.Sprintf("%s returns its error untranslated at %s on a path chosen by a field of the file system (no Sub root …): for such an FS every failing os call reports the absolute OS path, and Rename fails with a raw *os.LinkError", fname(fn), bad))
	}
	if n == 0 {
		c.Hard("anchor: the error translator of package os")
	}
	from := p.Method("os", "FS", "fromOSPath")
	if from == nil {
		c.Hard("anchor: os.(*FS).fromOSPath")
		return
	}
	badClean := ""
	seen := map[*ssa.Function]bool{}
	var visit func(f *ssa.Function, d int)
	visit = func(f *ssa.Function, d int) {
		if f == nil || seen[f] || f.Blocks == nil || d > 2 {
			return
		}
		seen[f] = true
		ssax.Instrs(f, func(ins ssa.Instruction) {
			cl, ok := ins.(*ssa.Call)
			if !ok {
				return
			}
			if (ssax.CalleeIs(cl, "path", "Clean") || ssax.CalleeIs(cl, "path/filepath", "Clean")) && badClean == "" {
				badClean = fname(f) + " at " + p.Pos(cl.Pos())
			}
			if callee := ssax.StaticCallee(cl); callee != nil && p.InModule(callee) {
				visit(callee, d+1)
			}
		})
	}
	visit(from, 0)
	c.Check(badClean == "", "R09.16", "os.FS.fromOSPath|refuses-instead-of-cleaning", p.Pos(from.Pos()), "no Clean on the way from an OS path to a name",
		fmt.Sprintf("%s normalises the OS path it maps back: \"/root/../x\" climbs out of the root and must be refused, not turned into the unrelated name \"x\" (the ValidPath test after a Clean can no longer fail)", badClean))
}

// r09EntriesAreWrapped (R09.17): a function of package os that returns a []DirEntry never returns the slice a stdlib os
// call produced as it is: the entries' Info() does an lstat of the OS path later, and its error (the entry was removed
// in between) would name the absolute OS path — the slice passes through a function of the package first (the wrapper
// whose Info() translates the error).
func r09EntriesAreWrapped(c *core.Ctx, p *load.Program) {
	for _, fn := range pkgFuncs(p, "os") {
		if fn.Blocks == nil || fn.Parent() != nil {
			continue
		}
		res := fn.Signature.Results()
		idx := -1
		for i := 0; i < res.Len(); i++ {
			if sl, ok := res.At(i).Type().Underlying().(*types.Slice); ok && strings.HasSuffix(types.Unalias(sl.Elem()).String(), "io/fs.DirEntry") {
				idx = i
			}
		}
		if idx < 0 {
			continue
		}
		fromOS := false
		bad := ""
		for _, r := range ssax.Returns(fn) {
			if len(r.Results) <= idx {
				continue
			}
			v := resolveSpilled(r.Results[idx], r)
			if ex, ok := v.(*ssa.Extract); ok {
				if cl, ok := ex.Tuple.(*ssa.Call); ok {
					if callee := ssax.StaticCallee(cl); callee != nil && callee.Pkg != nil && callee.Pkg.Pkg.Path() == "os" {
						bad = p.Pos(r.Pos())
					}
				}
			}
		}
		ssax.Instrs(fn, func(ins ssa.Instruction) {
			if cl, ok := ins.(*ssa.Call); ok {
				if callee := ssax.StaticCallee(cl); callee != nil && callee.Pkg != nil && callee.Pkg.Pkg.Path() == "os" && strings.Contains(callee.Name(), "ReadDir") {
					fromOS = true
				}
			}
		})
		if !fromOS {
			continue
		}
		c.Check(bad == "", "R09.17", fname(fn)+"|entries-wrapped", p.Pos(fn.Pos()), "the stdlib's entries are not returned as they are",
			fmt.Sprintf("%s returns the stdlib's DirEntry values unchanged at %s: entries[i].Info() after the entry was removed fails with \"lstat /abs/os/path\" — an error from the OS that names the OS path, not the caller's", fname(fn), bad))
	}
}
