package rules

import (
	"fmt"
	"go/token"
	"go/types"
	"strings"

	"golang.org/x/tools/go/ssa"

	"hpfscheck/internal/core"
	"hpfscheck/internal/load"
	"hpfscheck/internal/ssax"
)

func init() {
	register(&Spec{ID: "C10", Targets: []load.Target{load.Linux}, Run: runC10})
	register(&Spec{ID: "C11", Targets: []load.Target{load.Linux}, Run: runC11})
}

// cacheShape: the read-only cache FS type and its source / cache fields, found by type.
type cacheShape struct {
	named            *types.Named
	srcField, cField string
	memoField        string
	lockField        string
	open, stat, copy *ssa.Function
}

func findCacheShape(p *load.Program) *cacheShape {
	fsI := stdIface(p, "io/fs", "FS")
	for _, n := range implementers(p, fsI) {
		if !strings.HasPrefix(typeKey(n), "cache.") {
			continue
		}
		st, ok := n.Underlying().(*types.Struct)
		if !ok {
			continue
		}
		sh := &cacheShape{named: n}
		for i := 0; i < st.NumFields(); i++ {
			f := st.Field(i)
			ft := f.Type()
			if _, isI := ft.Underlying().(*types.Interface); isI && types.Implements(ft, fsI) {
				if hasMethods(ft, "OpenFile") {
					sh.cField = f.Name()
				} else {
					sh.srcField = f.Name()
				}
			}
			if ft.String() == "sync.Map" {
				sh.memoField = f.Name()
			}
			if strings.HasSuffix(ft.String(), "pathlock.Mutex") {
				sh.lockField = f.Name()
			}
		}
		if sh.cField == "" || sh.srcField == "" {
			continue
		}
		ms := methodsOf(p, n)
		sh.open, sh.stat = ms["Open"], ms["Stat"]
		// the info memo is the sync.Map that Stat answers from (other tables, e.g. of poisoned names, are not it)
		if sh.stat != nil {
			ssax.Instrs(sh.stat, func(ins ssa.Instruction) {
				if cl, ok := ins.(*ssa.Call); ok && ssax.CalleeIs(cl, "sync", "(*Map).Load") {
					if fa, ok := cl.Call.Args[0].(*ssa.FieldAddr); ok {
						sh.memoField = ssax.FieldName(fa)
					}
				}
			})
		}
		for _, m := range ms {
			// the fill function: unexported method that opens the cache for writing
			if m.Object() != nil && !m.Object().Exported() {
				ssax.Instrs(m, func(ins ssa.Instruction) {
					if cl, ok := ins.(*ssa.Call); ok && cl.Call.IsInvoke() && cl.Call.Method.Name() == "OpenFile" {
						sh.copy = m
					}
				})
			}
		}
		return sh
	}
	return nil
}

// fieldInvoke: ins is an invoke of method `name` on a load of recv.field.
func fieldInvoke(ins ssa.Instruction, named *types.Named, field, name string) *ssa.Call {
	cl, ok := ins.(*ssa.Call)
	if !ok || !cl.Call.IsInvoke() || cl.Call.Method.Name() != name {
		return nil
	}
	if isLoadOfNamedField(cl.Call.Value, named, field) {
		return cl
	}
	return nil
}

func runC10(c *core.Ctx) {
	runFixtures(c, "drop", "read", "paging")
	c.Explain("Structural clauses of C10 decided from source (thin: byte/metadata equality with the source is behaviour): (R10.1) in the cache FS's Open the source is opened for content only under the ErrNotExist edge of the cache look-up of the same name, every other look-up error returns; (R10.2) on every path after a successful fill the returned handle was rewound with a successful SeekFile(f, 0, SeekStart) or is re-opened from the cache; (R10.3) the memoised FileInfo stored in the info table is the result of Stat() on a handle obtained from the source, stored only on its nil-error edge, under the name it was asked for; (R10.4) the cache's directory handle lists through the source file system and stats through the same memoised Stat. (R10.5) the fill removes the cache file on every failing exit after creating it and reads the Close error of the file it wrote (a store that commits on Close can fail there) — otherwise a later Open is served a truncated copy that differs from the source. (R10.7) the table in which the fill marks a partial file it could not remove is consulted in Open before the cache look-up, and an entry leaves it only on paths on which Remove of the cache file answered nil or ErrNotExist; (R10.6) every direct Read call in package cache is a delegation or a loop left only on an error / a full buffer whose successful returns looked at the latest count (a source may legally return short counts; a hand-written copy that stops at the first short block caches a prefix). (R10.8) its Seek computes the cursor from the caller's offset; (R10.9) the fill runs once per freshly opened handle; (R10.10/R10.11) the cache copy is created with and chmod-ed to the source's mode. (R10.12) = R11.4 under C10; (R10.13) = R16.12 on the cache's directory handle. R10.4 also requires every alternative of the paged listing to be the source ReadDir of the same call. (R10.14) = R16.2 on the cache's directory handle; R10.7 also requires the mark to be read under the path lock. (R10.15) the retention policy receives Open's own name. NOT claimed: that returned names, kinds, sizes, modes and bytes equal the source's; 'without reading the source again' beyond the ordering; the RetainData policy.")
	c.Assume("A1: FS contract of source and cache file systems")
	c.RuleDoc("R10.1", "cache look-up before source; only ErrNotExist falls through")
	c.RuleDoc("R10.2", "handle returned after a fill starts at offset 0")
	c.RuleDoc("R10.3", "memoised info comes from the source")
	c.RuleDoc("R10.4", "directory handle lists the source")
	c.RuleDoc("R10.5", "a copy that was not written and closed successfully does not stay in the cache")
	c.RuleDoc("R10.12", "the fill uses no buffer kept in the file system value (= R11.4)")
	c.RuleDoc("R10.15", "the retention policy is asked about the name that was opened")
	c.RuleDoc("R10.14", "the cache directory handle's page window lies inside the listing for every cursor (= R16.2)")
	c.RuleDoc("R10.13", "the cache directory handle moves its cursor by exactly the page it returns (= R16.12)")
	c.RuleDoc("R10.11", "the cache copy is chmod-ed with the source's whole mode")
	c.RuleDoc("R10.10", "the cache copy is created with the source's mode itself")
	c.RuleDoc("R10.9", "the fill reads a freshly opened (or rewound) source handle, it is never retried on a handle already read from")
	c.RuleDoc("R10.8", "the cache's directory handle can be rewound with Seek like the source's")
	c.RuleDoc("R10.7", "a partial copy that could not be removed stays marked until it is removed")
	c.RuleDoc("R10.6", "the fill does not take a short count (or one Read) for the whole file")
	for _, p := range c.Progs {
		c.SetProg(p)
		sh := findCacheShape(p)
		if sh == nil || sh.open == nil || sh.stat == nil || sh.copy == nil {
			c.Hard("anchor: cache FS type with source/cache fields, Open, Stat and fill function")
			continue
		}
		_ = typeKey(sh.named)
		r10LookupBeforeSource(c, p, sh, "R10.1")
		// R10.2
		r10Rewind(c, p, sh, "R10.2")
		// R10.3
		r10Memo(c, p, sh)
		// R10.4
		r10Dir(c, p, sh)
		// R10.5: only a complete copy is ever left in the cache (same analysis as R11.2/R11.3)
		if sh.lockField != "" {
			r11Fill(c, p, sh, "R10.5", "R10.5")
		}
		// R10.6: the copy into the cache does not take a short count for the end of the file
		readDiscipline(c, p, "R10.6", pkgFuncs(p, "cache"))
		r10NeverServeMark(c, p, sh, "R10.7")
		r11FillOncePerHandle(c, p, sh, "R10.9")
		r10CopyKeepsMode(c, p, sh)
		r10CopyGetsWholeMode(c, p, sh)
		// R10.12 (= R11.4): the fill copies through a buffer of its own — a buffer kept in the FS value is shared by the
		// fills of different names, which run concurrently: a cached copy then holds another file's bytes
		r11NoSharedBuffer(c, p, sh, "R10.12")
		r10PolicyAskedAboutTheName(c, p, sh)
	}
	c.Floor("R10.5", 2)
	c.Floor("R10.7", 2)
	c.Floor("R10.8", 1)
	c.Floor("R10.9", 1)
	c.Floor("R10.10", 1)
	c.Floor("R10.11", 1)
	c.Floor("R10.12", 1)
	c.Floor("R10.15", 1)
	c.Floor("R10.13", 1)
	c.Floor("R10.14", 1)
	c.Floor("R10.1", 1)
	c.Floor("R10.2", 1)
	c.Floor("R10.3", 1)
	c.Floor("R10.4", 3)
}

func r10Rewind(c *core.Ctx, p *load.Program, sh *cacheShape, rule string) {
	tk := typeKey(sh.named)
	var fill *ssa.Call
	var blk *ssa.BasicBlock
	idx := 0
	for _, b := range sh.open.Blocks {
		for i, ins := range b.Instrs {
			if cl, ok := ins.(*ssa.Call); ok && ssax.StaticCallee(cl) == sh.copy {
				fill, blk, idx = cl, b, i
			}
		}
	}
	key := tk + ".Open|rewind-after-fill"
	if fill == nil {
		c.Bad(rule, key, p.Pos(sh.open.Pos()), "Open no longer calls the fill function")
		return
	}
	init := ssax.NewPathState()
	if ev := ssax.ErrorValueOf(fill); ev != nil {
		init.SetNil(ev, ssax.IsNil)
	}
	var bad string
	var seekErrs []ssa.Value
	ssax.EnumPaths(sh.open, blk, idx+1, init, ssax.PathHooks{
		Instr: func(s *ssax.PathState, ins ssa.Instruction) {
			cl, ok := ins.(*ssa.Call)
			if !ok {
				return
			}
			if ssax.CalleeIs(cl, mod, "SeekFile") && len(cl.Call.Args) == 3 {
				off, ok1 := ssax.ConstInt(cl.Call.Args[1])
				wh, ok2 := ssax.ConstInt(cl.Call.Args[2])
				if ok1 && ok2 && off == 0 && wh == 0 {
					if ev := ssax.ErrorValueOf(cl); ev != nil {
						seekErrs = append(seekErrs, ev)
					}
				}
			}
		},
		End: func(s *ssax.PathState, last ssa.Instruction) {
			r := last.(*ssa.Return)
			f := s.Resolve(r.Results[0])
			if ssax.IsNilConst(f) {
				return
			}
			// re-opened from the cache?
			if ex, ok := f.(*ssa.Extract); ok {
				if cl, ok := ex.Tuple.(*ssa.Call); ok && fieldInvoke(cl, sh.named, sh.cField, "Open") != nil {
					return
				}
			}
			for _, se := range seekErrs {
				if s.NilOf(se) == ssax.IsNil {
					return
				}
			}
			bad = p.Pos(r.Pos())
		},
	})
	c.Check(bad == "", rule, key, p.Pos(fill.Pos()), "every handle returned after a fill was rewound successfully or re-opened from the cache",
		fmt.Sprintf("%s.Open: the return at %s hands out the source handle after it was read to the end by the fill, without a successful rewind or a re-open from the cache — the caller would read 0 bytes", tk, bad))
}

func r10Memo(c *core.Ctx, p *load.Program, sh *cacheShape) {
	tk := typeKey(sh.named)
	n := 0
	for _, fn := range pkgFuncs(p, "cache") {
		ssax.Instrs(fn, func(ins ssa.Instruction) {
			cl, ok := ins.(*ssa.Call)
			if !ok || !(ssax.CalleeIs(cl, "sync", "(*Map).Store") || ssax.CalleeIs(cl, "sync", "(*Map).LoadOrStore")) {
				return
			}
			if lockClass(cl.Call.Args[0]) != tk+"."+sh.memoField {
				return
			}
			n++
			key := fname(fn) + "|memo-store"
			val := ssax.Unwrap(cl.Call.Args[2])
			good, why := false, "the stored value is not the result of Stat() on a handle of the source"
			if ex, ok := val.(*ssa.Extract); ok && ex.Index == 0 {
				if sc, ok := ex.Tuple.(*ssa.Call); ok && sc.Call.IsInvoke() && sc.Call.Method.Name() == "Stat" {
					// handle from sourceFS.Open(name)
					if hx, ok := singleStored(sc.Call.Value).(*ssa.Extract); ok {
						if oc, ok := hx.Tuple.(*ssa.Call); ok && fieldInvoke(oc, sh.named, sh.srcField, "Open") != nil {
							serr := ssax.ErrorValueOf(sc)
							isNil, known := ssax.KnownNil(ssax.FactsAtInstr(cl), serr)
							sameKey := ssax.Unwrap(cl.Call.Args[1]) == oc.Call.Args[0]
							switch {
							case !known || !isNil:
								why = "stored without being on the nil-error edge of that Stat()"
							case !sameKey:
								why = "stored under a key that is not the name the source was opened with"
							default:
								good = true
							}
						}
					}
				}
			}
			c.Check(good, "R10.3", key, p.Pos(cl.Pos()), "memoised info = source handle's Stat(), stored on its success edge under the opened name",
				fmt.Sprintf("%s: %s — later Stat/Open calls would serve metadata that is not the source's", fname(fn), why))
		})
	}
	if n == 0 {
		c.Hard("R10.3: no store into the info table found")
	}
}

func r10Dir(c *core.Ctx, p *load.Program, sh *cacheShape) {
	d := p.Named("cache", "dir")
	if d == nil {
		c.Hard("anchor: cache.dir")
		return
	}
	ms := methodsOf(p, d)
	// ReadDir lists through the source
	if fn := ms["ReadDir"]; fn != nil {
		ok := false
		ssax.Instrs(fn, func(ins ssa.Instruction) {
			if cl, isC := ins.(*ssa.Call); isC && ssax.CalleeIs(cl, mod, "ReadDir") && isLoadOfNamedField(ssax.Unwrap(cl.Call.Args[0]), sh.named, sh.srcField) {
				ok = true
			}
		})
		c.Check(ok, "R10.4", "cache.dir.ReadDir|lists-source", p.Pos(fn.Pos()), "entries come from the source file system",
			"cache.dir.ReadDir does not list through the source file system: the cache only holds the files opened so far, its listing is not the source's")
	}
	// R10.4 (listing is the source's, now): every alternative of the listing a page is cut from is the result of the
	// source ReadDir call of THIS call — a listing memoised in the file system value ("the source does not change") or in
	// the handle answers with entries that were removed since, and keeps answering them
	if fn := ms["ReadDir"]; fn != nil {
		for _, w := range listingSlices(fn) {
			bad := ""
			var leaves func(v ssa.Value, d int, seen map[ssa.Value]bool)
			leaves = func(v ssa.Value, d int, seen map[ssa.Value]bool) {
				if v == nil || seen[v] || d > 8 {
					return
				}
				seen[v] = true
				switch x := v.(type) {
				case *ssa.Phi:
					for _, e := range x.Edges {
						leaves(e, d+1, seen)
					}
					return
				case *ssa.Slice:
					leaves(x.X, d+1, seen)
					return
				case *ssa.UnOp:
					if a, ok := x.X.(*ssa.Alloc); ok && x.Op == token.MUL {
						stores, _ := ssax.CellStores(a)
						for _, st := range stores {
							leaves(st.Val, d+1, seen)
						}
						if len(stores) > 0 {
							return
						}
					}
				case *ssa.Extract:
					if cl, ok := x.Tuple.(*ssa.Call); ok && ssax.CalleeIs(cl, mod, "ReadDir") && isLoadOfNamedField(ssax.Unwrap(cl.Call.Args[0]), sh.named, sh.srcField) {
						return // the source's listing
					}
				case *ssa.Const:
					if x.IsNil() {
						return
					}
				}
				if bad == "" {
					bad = vname(v)
				}
			}
			leaves(w.X, 0, map[ssa.Value]bool{})
			c.Check(bad == "", "R10.4", "cache.dir.ReadDir|page-cut-from-this-call's-source-listing", p.Pos(w.Pos()), "every alternative of the paged listing is the source ReadDir of this call",
				fmt.Sprintf("cache.dir.ReadDir cuts a page from a listing that, on one alternative (%s), is not the result of listing the source in this call (a memoised listing): entries removed from the source since keep being listed, new ones never appear — the cache is transparent for listings only while it asks the source every time", bad))
		}
	}
	// R10.13 (= R16.12): the directory handle's cursor moves by the page returned, like the source's handle
	if fn := ms["ReadDir"]; fn != nil {
		r16CursorMovesByPage(c, p, "cache.dir", fn, listingSlices(fn), "R10.13")
		// R10.14 (= R16.2): the page window is inside the listing for every cursor Seek can set — the source answers an
		// empty page there, a panic is not transparent
		c.WithAlias(map[string]string{"R16.2": "R10.14"}, func() { r16Window(c, p, "cache.dir", fn, listingSlices(fn)) })
	}
	if fn := ms["Stat"]; fn != nil {
		ok := false
		ssax.Instrs(fn, func(ins ssa.Instruction) {
			if cl, isC := ins.(*ssa.Call); isC {
				if callee := ssax.StaticCallee(cl); callee == sh.stat || (ssax.CalleeIs(cl, mod, "Stat") && namedOfPtr(ssax.Unwrap(cl.Call.Args[0]).Type()) == sh.named) {
					ok = true
				}
			}
		})
		c.Check(ok, "R10.4", "cache.dir.Stat|via-cache-stat", p.Pos(fn.Pos()), "directory info comes from the cache FS's memoised source Stat",
			"cache.dir.Stat does not go through the cache file system's Stat (the memoised source info)")
	}
	// R10.8: the directory handle can be rewound like the source's: Seek stores the constant 0 into the cursor field
	// that ReadDir advances (without Seek, SeekFile answers ErrNotImplemented where the source handle lists again)
	var cursor *types.Var
	if fn := ms["ReadDir"]; fn != nil {
		ssax.Instrs(fn, func(ins ssa.Instruction) {
			if st, ok := ins.(*ssa.Store); ok {
				if fa, ok := st.Addr.(*ssa.FieldAddr); ok && fa.X == ssa.Value(recvParam(fn)) {
					cursor = fieldVarOf(fa)
				}
			}
		})
	}
	if cursor == nil {
		c.Hard("anchor: the cursor field cache.dir.ReadDir advances")
		return
	}
	rewinds := false
	if fn := ms["Seek"]; fn != nil && fn.Blocks != nil {
		ssax.Instrs(fn, func(ins ssa.Instruction) {
			if st, ok := ins.(*ssa.Store); ok {
				if fa, ok := st.Addr.(*ssa.FieldAddr); ok && fieldVarOf(fa) == cursor {
					// the position is computed from the caller's offset for every whence (Seek(0, io.SeekStart) stores 0): a
					// Seek that only knows the constant 0 answers Seek(0, io.SeekCurrent) with ErrInvalid where the source answers
					if len(fn.Params) >= 2 && dependsOn(st.Val, func(v ssa.Value) bool { return v == ssa.Value(fn.Params[1]) }) {
						rewinds = true
					}
				}
			}
		})
	}
	c.Check(rewinds, "R10.8", "cache.dir.Seek|rewinds-the-listing", p.Pos(d.Obj().Pos()), "Seek resets the cursor ReadDir advances",
		"cache.dir has no Seek that resets the listing cursor: Open(\".\"), ReadDir(-1), Seek(0, io.SeekStart) lists again on the source's directory handle, on the cache's handle hackpadfs.SeekFile fails with ErrNotImplemented — the same call sequence does not return the same results as on the source")
}

// ---------------- C11 ----------------

func runC11(c *core.Ctx) {
	runFixtures(c, "drop", "locks")
	c.Explain("Structural clauses of C11 decided from source: (R11.1) in the cache FS's Open, the cache look-up, the source open and the fill run after Lock(name) on the per-path lock and before its release, Lock and Unlock use the same key, the Unlock is deferred (or on every exit), the fill function has no caller outside that region, and the per-path lock obtains the mutex of a key with one atomic LoadOrStore; (R11.2) on every path on which the cache file was created and the fill then fails, the partial file is invalidated (removed from the cache FS) before the error is returned; (R11.3) the Close error of the cache file opened for writing takes part in the fill's result. (R11.4) the fill (and Open around it) reads no slice-typed field of the file system value: the lock held is per path, so a scratch buffer shared by all fills would be written by two fills at once. (R11.5) the dropped-error analysis over the fill function: the error of every step (creating directories, opening the cache file, the copy) reaches the fill's result on every path where it is non-nil; (R11.6 = R10.2) the handle returned after a fill was rewound successfully or re-opened from the cache. (R11.7 = R10.7) the never-serve mark of a partial file that could not be removed is consulted before the cache look-up and dropped only after Remove answered nil or ErrNotExist; (R11.8) on every path through Open the fill is called at most once per freshly opened (or rewound) source handle. (R11.9 = R10.1) only ErrNotExist of the cache look-up leads to a fill. NOT claimed: interleavings of concurrent opens (only the lock discipline), a fault at every read/write index, cache stores that cannot remove files.")
	c.Assume("A2: sync.Map.LoadOrStore is atomic; sync.Mutex semantics", "a cache store without RemoveFS cannot invalidate a partial file (stated limitation)")
	c.RuleDoc("R11.1", "look-up + fill under the per-path lock")
	c.RuleDoc("R11.2", "failed fill invalidates the partial cache file")
	c.RuleDoc("R11.3", "Close error of the written cache file is not discarded")
	c.RuleDoc("R11.4", "fills of different paths share no byte buffer")
	c.RuleDoc("R11.5", "no error of a step of the fill is dropped")
	c.RuleDoc("R11.7", "a partial copy that could not be removed stays marked until it is removed (= R10.7)")
	c.RuleDoc("R11.9", "only ErrNotExist of the cache look-up leads to a fill (= R10.1): any other error returns, a cached file is never refilled under live handles")
	c.RuleDoc("R11.8", "a failed fill is never retried on the handle it already read from")
	c.RuleDoc("R11.6", "the handle returned after a fill starts at offset 0 (= R10.2)")
	for _, p := range c.Progs {
		c.SetProg(p)
		sh := findCacheShape(p)
		if sh == nil || sh.open == nil || sh.copy == nil || sh.lockField == "" {
			c.Hard("anchor: cache FS type with per-path lock, Open and fill function")
			continue
		}
		tk := typeKey(sh.named)
		// ---- R11.1 ----
		var lock *ssa.Call
		var unlockKey ssa.Value
		deferred := false
		ssax.Instrs(sh.open, func(ins ssa.Instruction) {
			switch x := ins.(type) {
			case *ssa.Call:
				if callee := ssax.StaticCallee(x); callee != nil && callee.Name() == "Lock" && strings.HasSuffix(pkgPathOf(callee), "/pathlock") {
					lock = x
				}
			case *ssa.Defer:
				if callee := ssax.StaticCallee(x); callee != nil && callee.Name() == "Unlock" && strings.HasSuffix(pkgPathOf(callee), "/pathlock") {
					deferred = true
					unlockKey = x.Call.Args[1]
				}
			}
		})
		key := tk + ".Open|fill-under-lock"
		if lock == nil {
			c.Bad("R11.1", key, p.Pos(sh.open.Pos()), tk+".Open takes no per-path lock: concurrent first opens of one name would copy concurrently and could serve a half-written file")
		} else {
			var probs []string
			if !deferred {
				probs = append(probs, "Unlock is not deferred")
			} else if unlockKey != lock.Call.Args[1] {
				probs = append(probs, "Lock and Unlock use different keys")
			}
			guarded := 0
			ssax.Instrs(sh.open, func(ins ssa.Instruction) {
				cl, ok := ins.(*ssa.Call)
				if !ok {
					return
				}
				isGuarded := fieldInvoke(cl, sh.named, sh.cField, "Open") != nil || ssax.StaticCallee(cl) == sh.copy
				// the content open of the source (not the one inside Stat)
				if fieldInvoke(cl, sh.named, sh.srcField, "Open") != nil {
					isGuarded = true
				}
				if !isGuarded {
					return
				}
				guarded++
				if !ssax.Dominates(lock, cl) {
					probs = append(probs, fmt.Sprintf("%s at %s is not after the Lock", ssax.CallName(cl), p.Pos(cl.Pos())))
				}
			})
			if guarded < 3 {
				probs = append(probs, fmt.Sprintf("expected look-up, source open and fill in Open, found %d", guarded))
			}
			// no other caller of the fill
			for _, fn := range p.SrcFuncs() {
				if fn == sh.open {
					continue
				}
				ssax.Instrs(fn, func(ins ssa.Instruction) {
					if ci, ok := ins.(ssa.CallInstruction); ok && ssax.StaticCallee(ci) == sh.copy {
						probs = append(probs, "the fill function is also called from "+fname(fn))
					}
				})
			}
			c.Check(len(probs) == 0, "R11.1", key, p.Pos(lock.Pos()), fmt.Sprintf("%d guarded calls after Lock(name); Unlock(name) deferred; the fill has no other caller", guarded),
				fmt.Sprintf("%s.Open: %s", tk, strings.Join(probs, "; ")))
		}
		// pathlock.Lock: one atomic LoadOrStore
		if lk := p.Method("internal/pathlock", "Mutex", "Lock"); lk != nil {
			n, other := 0, 0
			ssax.Instrs(lk, func(ins ssa.Instruction) {
				if cl, ok := ins.(*ssa.Call); ok {
					switch {
					case ssax.CalleeIs(cl, "sync", "(*Map).LoadOrStore"):
						n++
					case ssax.CalleeIs(cl, "sync", "(*Map).Load"), ssax.CalleeIs(cl, "sync", "(*Map).Store"):
						other++
					}
				}
			})
			// the table of per-path mutexes only grows: deleting an entry while a goroutine is still queued on that
			// mutex lets a newcomer create a second mutex for the same path and enter the critical section alongside
			deletes := ""
			for _, f := range pkgFuncs(p, "internal/pathlock") {
				ssax.Instrs(f, func(ins ssa.Instruction) {
					if cl, ok := ins.(*ssa.Call); ok && (ssax.CalleeIs(cl, "sync", "(*Map).Delete") || ssax.CalleeIs(cl, "sync", "(*Map).LoadAndDelete") || ssax.CalleeIs(cl, "sync", "(*Map).CompareAndDelete")) {
						deletes = fname(f) + " at " + p.Pos(cl.Pos())
					}
				})
			}
			c.Check(deletes == "", "R11.1", "pathlock.Mutex|entries-never-deleted", p.Pos(lk.Pos()), "no per-path mutex is ever removed from the table",
				fmt.Sprintf("the per-path lock table deletes entries (%s): a goroutine already queued on the removed mutex acquires it later while a newcomer stores a fresh mutex for the same path — two fills of one name run at once", deletes))
			c.Check(n == 1 && other == 0, "R11.1", "pathlock.Mutex.Lock|atomic-get-or-create", p.Pos(lk.Pos()), "per-key mutex obtained with a single LoadOrStore",
				"pathlock.Mutex.Lock does not obtain the per-key mutex with a single atomic LoadOrStore (separate Load/Store lets two goroutines lock two different mutexes for one path)")
		} else {
			c.Hard("anchor: pathlock.Mutex.Lock")
		}
		// ---- R11.2 / R11.3 in the fill function ----
		r11Fill(c, p, sh, "R11.2", "R11.3")
		r11NoSharedBuffer(c, p, sh, "R11.4")
		r10Rewind(c, p, sh, "R11.6")
		r10NeverServeMark(c, p, sh, "R11.7")
		r11FillOncePerHandle(c, p, sh, "R11.8")
		r10LookupBeforeSource(c, p, sh, "R11.9")
		// R11.5: no error of a step of the fill is dropped (a shadowed err in the copy branch loses the read or
		// write fault: the fill reports success and the truncated file stays)
		for _, f := range []*ssa.Function{sh.copy} {
			// accepted: ErrNotImplemented of an optional step (the cache FS offers no Chmod: the copy keeps the permission bits OpenFile gave it)
			bad, good := dropCheck(p, f, dropOpts{acceptSentinel: func(s string) bool { return s == "ErrNotImplemented" }})
			for _, g := range good {
				c.OK("R11.5", g.Key, g.Pos, g.Msg)
			}
			for _, b := range bad {
				switch b.Kind {
				case "undecided":
					c.Unknown("R11.5", b.Key, b.Pos, b.Msg)
				case "value-used-with-error":
				case "discarded":
					// Close/Remove results are R11.2/R11.3's matter
					if strings.Contains(b.Msg, ".Close") || strings.Contains(b.Msg, "Remove") {
						continue
					}
					c.Bad("R11.5", b.Key, b.Pos, b.Msg+" — the fill reports success although a step failed, and the incomplete cache file is served from then on")
				default:
					c.Bad("R11.5", b.Key, b.Pos, b.Msg+" — the fill reports success although a step failed, and the incomplete cache file is served from then on")
				}
			}
		}
	}
	c.Floor("R11.5", 3)
	c.Floor("R11.4", 1)
	c.Floor("R11.1", 2)
	c.Floor("R11.2", 1)
	c.Floor("R11.3", 1)
	c.Floor("R11.7", 2)
	c.Floor("R11.8", 1)
	c.Floor("R11.9", 1)
}

func r11Fill(c *core.Ctx, p *load.Program, sh *cacheShape, ruleInvalidate, ruleClose string) {
	tk := typeKey(sh.named)
	fn := sh.copy
	var create *ssa.Call
	var blk *ssa.BasicBlock
	idx := 0
	for _, b := range fn.Blocks {
		for i, ins := range b.Instrs {
			if cl := fieldInvoke(ins, sh.named, sh.cField, "OpenFile"); cl != nil {
				create, blk, idx = cl, b, i
			}
		}
	}
	if create == nil {
		c.Hard("anchor: cache file creation in the fill function")
		return
	}
	name := create.Call.Args[0]
	dest := ssax.ExtractOf(create, 0)
	init := ssax.NewPathState()
	if ev := ssax.ErrorValueOf(create); ev != nil {
		init.SetNil(ev, ssax.IsNil)
	}
	eidx := ssax.ErrorResultIndex(fn.Signature)
	var leak string
	ssax.EnumPaths(fn, blk, idx+1, init, ssax.PathHooks{
		Instr: func(s *ssax.PathState, ins ssa.Instruction) {
			cl, ok := ins.(ssa.CallInstruction)
			if !ok {
				return
			}
			if callee := ssax.StaticCallee(cl); callee != nil && callee.Name() == "Remove" && pkgPathOf(callee) == mod {
				a := cl.Common().Args
				if len(a) == 2 && isLoadOfNamedField(ssax.Unwrap(a[0]), sh.named, sh.cField) && a[1] == name {
					s.Counts["invalidated"] = 1
				}
			}
		},
		End: func(s *ssax.PathState, last ssa.Instruction) {
			r := last.(*ssa.Return)
			e := s.Resolve(resolveSpilledOnPath(r.Results[eidx], r, s))
			if ssax.IsNilConst(e) || s.NilOf(e) == ssax.IsNil {
				return
			}
			if s.Counts["invalidated"] == 0 && leak == "" {
				// deferred invalidation?
				if !deferredRemoves(fn, sh, name) {
					leak = p.Pos(r.Pos())
				}
			}
		},
	})
	c.Check(leak == "", ruleInvalidate, tk+".fill|invalidate-on-failure", p.Pos(create.Pos()), "every failing return after the cache file was created removes it first",
		fmt.Sprintf("%s: after the cache file was created, the failing return at %s leaves it in the cache: the next Open finds it and serves the truncated copy", fname(fn), leak))
	// the invalidation's own failure: a Remove whose error is discarded cannot tell the caller (or a later Open) that
	// the partial file is still there — a cache store without RemoveFS, or one that is failing, keeps it
	var discarded ssa.Instruction
	ssax.InstrsDeep(fn, func(f *ssa.Function, ins ssa.Instruction) {
		cl, ok := ins.(*ssa.Call)
		if !ok {
			return
		}
		if callee := ssax.StaticCallee(cl); callee != nil && callee.Name() == "Remove" && pkgPathOf(callee) == mod {
			a := cl.Call.Args
			if len(a) == 2 && isLoadOfNamedField(ssax.Unwrap(a[0]), sh.named, sh.cField) && !ssax.HasRealReferrers(cl) {
				discarded = cl
			}
		}
	})
	if discarded != nil {
		c.Bad(ruleInvalidate, tk+".fill|invalidation-result-read", p.Pos(discarded.Pos()), fmt.Sprintf("%s discards the result of removing the partial cache file: when the removal itself fails (a cache store without RemoveFS answers ErrNotImplemented, a failing store fails again) the partial file stays in the cache and the next Open serves it as complete", fname(fn)))
	} else {
		c.OK(ruleInvalidate, tk+".fill|invalidation-result-read", p.Pos(fn.Pos()), "the result of the invalidating Remove is read")
	}
	// R11.3
	closed := false
	good := false
	ssax.InstrsDeep(fn, func(f *ssa.Function, ins ssa.Instruction) {
		ci, ok := ins.(ssa.CallInstruction)
		if !ok || !ci.Common().IsInvoke() || ci.Common().Method.Name() != "Close" {
			return
		}
		if openedForWrite(p, ci.Common().Value, 0) != "write" {
			return
		}
		closed = true
		if cl, isCall := ci.(*ssa.Call); isCall && f == fn && ssax.HasRealReferrers(cl) {
			good = true
		}
		_ = dest
	})
	c.Check(closed && good, ruleClose, tk+".fill|close-error-kept", p.Pos(fn.Pos()), "the written cache file's Close error is read",
		fmt.Sprintf("%s: the Close error of the cache file opened for writing is discarded (deferred or assigned to _): a store that commits on Close can fail there and the fill still reports success", fname(fn)))
}

// deferredRemoves: a deferred closure of fn removes `name` from the cache FS when the result error is non-nil.
func deferredRemoves(fn *ssa.Function, sh *cacheShape, name ssa.Value) bool {
	found := false
	for _, a := range fn.AnonFuncs {
		ssax.Instrs(a, func(ins ssa.Instruction) {
			if cl, ok := ins.(ssa.CallInstruction); ok {
				if callee := ssax.StaticCallee(cl); callee != nil && callee.Name() == "Remove" && pkgPathOf(callee) == mod {
					found = true
				}
			}
		})
	}
	return found
}

// singleStored: a load of a local cell with exactly one store denotes the stored value (variables captured by a
// deferred closure are spilled into such cells).
func singleStored(v ssa.Value) ssa.Value {
	if u, ok := v.(*ssa.UnOp); ok {
		if a, ok := u.X.(*ssa.Alloc); ok {
			stores, esc := ssax.CellStores(a)
			if !esc && len(stores) == 1 {
				return stores[0].Val
			}
		}
	}
	return v
}

// r11NoSharedBuffer (R11.4): the lock that serialises fills is per path, so fills of two different names run
// concurrently; the fill therefore uses no slice kept in the file system value (a scratch buffer shared by all
// fills mixes the bytes of two files).
func r11NoSharedBuffer(c *core.Ctx, p *load.Program, sh *cacheShape, rule string) {
	for _, fn := range []*ssa.Function{sh.copy, sh.open} {
		if fn == nil {
			continue
		}
		recv := recvParam(fn)
		key := fname(fn) + "|no-shared-buffer"
		bad := ""
		ssax.InstrsDeep(fn, func(f *ssa.Function, ins ssa.Instruction) {
			// an array field sliced in place (fs.buf[:]) is a shared buffer too
			if sl, ok := ins.(*ssa.Slice); ok {
				if fa, ok := sl.X.(*ssa.FieldAddr); ok {
					base := fa.X
					if fv, ok := base.(*ssa.FreeVar); ok {
						base = ssax.ResolveFreeVar(fv)
					}
					if base == ssa.Value(recv) {
						bad = fmt.Sprintf("%s.%s (%s) at %s", typeKey(sh.named), ssax.FieldName(fa), sl.Type(), p.Pos(sl.Pos()))
					}
				}
				return
			}
			u, ok := ins.(*ssa.UnOp)
			if !ok || u.Op != token.MUL {
				return
			}
			fa, ok := u.X.(*ssa.FieldAddr)
			if !ok {
				return
			}
			base := fa.X
			if fv, ok := base.(*ssa.FreeVar); ok {
				base = ssax.ResolveFreeVar(fv)
			}
			if base != ssa.Value(recv) {
				return
			}
			if _, isSlice := u.Type().Underlying().(*types.Slice); isSlice && u.Referrers() != nil && len(*u.Referrers()) > 0 {
				bad = fmt.Sprintf("%s.%s (%s) at %s", typeKey(sh.named), ssax.FieldName(fa), u.Type(), p.Pos(u.Pos()))
			}
		})
		c.Check(bad == "", rule, key, p.Pos(fn.Pos()), "the fill works on local buffers only",
			fmt.Sprintf("%s uses the slice %s, which all fills share, while only the per-path lock is held: fills of two different names run concurrently and overwrite each other's bytes in it, so a cached copy can hold another file's content", fname(fn), bad))
	}
}

// r10NeverServeMark (R10.7): the table in which the fill records "the partial cache file could not be removed" (the
// sync.Map field the fill stores into) is consulted in Open before the cache look-up, and an entry is taken out of it
// only on paths on which the cache file was removed successfully (Remove answered nil or ErrNotExist). A mark dropped
// before the removal is known to have worked lets the next Open find the leftover in the cache and serve the
// truncated bytes for ever.
func r10NeverServeMark(c *core.Ctx, p *load.Program, sh *cacheShape, rule string) {
	tk := typeKey(sh.named)
	syncMapField := func(v ssa.Value) string {
		fa, ok := v.(*ssa.FieldAddr)
		if !ok {
			return ""
		}
		if n := ssax.StructOfFieldAddr(fa); n == nil || !types.Identical(n, sh.named) {
			return ""
		}
		return ssax.FieldName(fa)
	}
	mapOp := func(ins ssa.Instruction) (op, field string, cl ssa.CallInstruction) {
		ci, ok := ins.(ssa.CallInstruction)
		if !ok {
			return "", "", nil
		}
		callee := ssax.StaticCallee(ci)
		if callee == nil || callee.Signature.Recv() == nil || !strings.HasSuffix(callee.Signature.Recv().Type().String(), "sync.Map") || len(ci.Common().Args) == 0 {
			return "", "", nil
		}
		return callee.Name(), syncMapField(ci.Common().Args[0]), ci
	}
	mark := ""
	ssax.InstrsDeep(sh.copy, func(_ *ssa.Function, ins ssa.Instruction) {
		if op, f, _ := mapOp(ins); op == "Store" && f != "" && f != sh.memoField {
			mark = f
		}
	})
	if mark == "" {
		c.Hard("anchor: the table in which the fill marks a partial file it could not remove")
		return
	}
	fn := sh.open
	// (a) consulted before the cache look-up
	var load, lookup ssa.Instruction
	ssax.Instrs(fn, func(ins ssa.Instruction) {
		if op, f, _ := mapOp(ins); f == mark && (op == "Load" || op == "LoadAndDelete" || op == "LoadOrStore") && load == nil {
			load = ins
		}
		if cl := fieldInvoke(ins, sh.named, sh.cField, "Open"); cl != nil && lookup == nil {
			lookup = ins
		}
	})
	c.Check(load != nil && lookup != nil && ssax.Dominates(load, lookup), rule, tk+".Open|mark-consulted-before-cache", p.Pos(fn.Pos()), "the never-serve mark is looked up before the cache is",
		fmt.Sprintf("%s.Open does not look the name up in the %s table before it opens the cache file: a partial copy that could not be removed is served as if it were complete", tk, mark))
	// (a') ... and under the per-path lock: a mark read before Lock(name) is stale once the lock is obtained — an Open
	// queued behind a fill that fails (and cannot remove its leftover) read "not partial" before the fill set the mark,
	// and serves the leftover
	var lockCall ssa.Instruction
	ssax.Instrs(fn, func(ins ssa.Instruction) {
		if cl, ok := ins.(*ssa.Call); ok && lockCall == nil {
			if callee := ssax.StaticCallee(cl); callee != nil && callee.Name() == "Lock" && strings.HasSuffix(pkgPathOf(callee), "/pathlock") {
				lockCall = ins
			}
		}
	})
	if load != nil {
		c.Check(lockCall != nil && ssax.Dominates(lockCall, load), rule, tk+".Open|mark-consulted-under-the-path-lock", p.Pos(load.Pos()), "the never-serve mark is read after the per-path lock was taken",
			fmt.Sprintf("%s.Open reads the %s table before it holds the per-path lock: the answer is stale when the lock is obtained — an Open that waited for a failing fill read 'not partial' before that fill set the mark, finds the leftover in the cache and serves the truncated bytes", tk, mark))
	}
	// (b) removed only after a successful removal of the file
	var isCalls []*ssa.Call
	ssax.Instrs(fn, func(ins ssa.Instruction) {
		if cl, ok := ins.(*ssa.Call); ok {
			if _, sent, is := isErrorsIs(cl); is && sent == "ErrNotExist" {
				isCalls = append(isCalls, cl)
			}
		}
	})
	var bad string
	dels := 0
	var rmErr ssa.Value
	complete := ssax.EnumPaths(fn, fn.Blocks[0], 0, ssax.NewPathState(), ssax.PathHooks{
		Instr: func(ps *ssax.PathState, ins ssa.Instruction) {
			if cl, ok := ins.(*ssa.Call); ok {
				if callee := ssax.StaticCallee(cl); callee != nil && callee.Name() == "Remove" && pkgPathOf(callee) == mod && len(cl.Call.Args) == 2 && isLoadOfNamedField(ssax.Unwrap(cl.Call.Args[0]), sh.named, sh.cField) {
					ps.Counts["removed"] = 1
					rmErr = cl
				}
			}
			op, f, _ := mapOp(ins)
			if f != mark {
				return
			}
			switch op {
			case "Delete", "LoadAndDelete", "CompareAndDelete", "Swap", "CompareAndSwap", "Clear", "Store":
			default:
				return
			}
			dels++
			ok := false
			if ps.Counts["removed"] == 1 && rmErr != nil {
				if ps.NilOf(rmErr) == ssax.IsNil {
					ok = true
				}
				for _, ic := range isCalls {
					if ps.Resolve(ic.Call.Args[0]) == ps.Resolve(rmErr) {
						if b, known := ps.BoolOf(ic); known && b {
							ok = true
						}
					}
				}
			}
			if !ok && bad == "" {
				bad = p.Pos(ins.Pos())
			}
		},
	})
	key := tk + ".Open|mark-dropped-only-after-removal"
	switch {
	case !complete:
		c.Unknown(rule, key, p.Pos(fn.Pos()), "path enumeration exceeded its cap")
	case dels == 0:
		c.OK(rule, key, p.Pos(fn.Pos()), "Open never takes a mark out of the table")
	case bad != "":
		c.Bad(rule, key, bad, fmt.Sprintf("%s.Open takes the name out of the %s table at %s on a path on which the leftover cache file was not removed successfully (no Remove before, or its error is neither nil nor ErrNotExist): the retry is still served from the source, but the next Open finds no mark, finds the leftover in the cache and serves the truncated bytes", tk, mark, bad))
	default:
		c.OK(rule, key, p.Pos(fn.Pos()), "the mark is dropped only after Remove answered nil or ErrNotExist")
	}
}

// r11FillOncePerHandle (R11.8 / R10.9): on every path through Open the fill is called at most once with the handle
// it copies from, unless that handle was rewound successfully in between. A retry of a failed fill on the same
// handle copies only what is left behind the handle's offset: it succeeds, the cache keeps the tail of the file, and
// every later Open is served that tail.
func r11FillOncePerHandle(c *core.Ctx, p *load.Program, sh *cacheShape, rule string) {
	fn := sh.open
	tk := typeKey(sh.named)
	bad := ""
	calls := 0
	complete := ssax.EnumPaths(fn, fn.Blocks[0], 0, ssax.NewPathState(), ssax.PathHooks{
		Instr: func(ps *ssax.PathState, ins ssa.Instruction) {
			cl, ok := ins.(*ssa.Call)
			if !ok {
				return
			}
			callee := ssax.StaticCallee(cl)
			switch {
			case callee == sh.copy:
				calls++
				if ps.Counts["filled"] >= 1 && bad == "" {
					bad = p.Pos(cl.Pos())
				}
				ps.Counts["filled"]++
			case fieldInvoke(ins, sh.named, sh.srcField, "Open") != nil:
				ps.Counts["filled"] = 0
			case callee != nil && callee.Name() == "SeekFile" && pkgPathOf(callee) == mod:
				// a rewind: trusted only when its error is tested; R10.2 judges that part
				if len(cl.Call.Args) == 3 {
					if k, isK := ssax.ConstInt(cl.Call.Args[1]); isK && k == 0 {
						ps.Counts["filled"] = 0
					}
				}
			}
		},
	})
	key := tk + ".Open|fill-once-per-handle"
	switch {
	case !complete:
		c.Unknown(rule, key, p.Pos(fn.Pos()), "path enumeration exceeded its cap")
	case calls == 0:
		c.Hard("anchor: %s.Open does not call the fill", tk)
	case bad != "":
		c.Bad(rule, key, bad, fmt.Sprintf("%s.Open calls the fill again at %s on a handle a previous fill already read from, without re-opening or rewinding it: the retry copies only the bytes behind the handle's offset and succeeds — the cache keeps the tail of the file and serves it to every later Open", tk, bad))
	default:
		c.OK(rule, key, p.Pos(fn.Pos()), "every fill reads a handle that was just opened from the source (or rewound)")
	}
}

// r10CopyKeepsMode (R10.10): the fill creates the cache copy with the mode it read from the source, unchanged — the
// copy's Stat is what later opens report. (Sibling rule of R08.5: a mode reaches a delegate as itself, not 'mode | K'.)
func r10CopyKeepsMode(c *core.Ctx, p *load.Program, sh *cacheShape) {
	fn := sh.copy
	n := 0
	ssax.Instrs(fn, func(ins ssa.Instruction) {
		cl := fieldInvoke(ins, sh.named, sh.cField, "OpenFile")
		if cl == nil || len(cl.Call.Args) != 3 {
			return
		}
		n++
		m := cl.Call.Args[2]
		direct := false
		if mc, ok := m.(*ssa.Call); ok && mc.Call.IsInvoke() && mc.Call.Method.Name() == "Mode" {
			direct = true
		}
		c.Check(direct, "R10.10", typeKey(sh.named)+".fill|copy-created-with-the-source-mode", p.Pos(cl.Pos()), "the cache file is created with info.Mode() itself",
			fmt.Sprintf("%s creates the cache copy with a mode computed from the source's (not the source's mode itself): from the second Open on the handle comes from the cache, and its Stat().Mode() shows bits the source file does not have (0444 reports as -rw-r--r--)", fname(fn)))
	})
	if n == 0 {
		c.Hard("anchor: creation of the cache file in the fill")
	}
}

// r10CopyGetsWholeMode (R10.11): after the copy was written the fill chmods it with the source's mode: OpenFile applies
// permission bits only, and from the second Open on the handle — and its Stat().Mode() — comes from the cache.
func r10CopyGetsWholeMode(c *core.Ctx, p *load.Program, sh *cacheShape) {
	fn := sh.copy
	found := false
	ssax.Instrs(fn, func(ins ssa.Instruction) {
		cl, ok := ins.(*ssa.Call)
		if !ok {
			return
		}
		callee := ssax.StaticCallee(cl)
		if callee == nil || callee.Name() != "Chmod" || pkgPathOf(callee) != mod || len(cl.Call.Args) != 3 {
			return
		}
		if !isLoadOfNamedField(ssax.Unwrap(cl.Call.Args[0]), sh.named, sh.cField) {
			return
		}
		if mc, ok := cl.Call.Args[2].(*ssa.Call); ok && mc.Call.IsInvoke() && mc.Call.Method.Name() == "Mode" {
			found = true
		}
	})
	c.Check(found, "R10.11", typeKey(sh.named)+".fill|copy-chmod-ed-with-the-source-mode", p.Pos(fn.Pos()), "the fill chmods the cache copy with info.Mode()",
		fmt.Sprintf("%s never chmods the cache copy with the source's mode: OpenFile applies the permission bits only, so from the second Open on (served from the cache) Stat().Mode() of a setuid/setgid/sticky source file reports a mode without those bits", fname(fn)))
}

// r10LookupBeforeSource (R10.1 / R11.9): the source is opened for content only on the ErrNotExist edge of the cache
// look-up of the same name; every other look-up error returns. (Under C11: a transient look-up error that counts as a
// miss makes the fill truncate and rewrite a file that is already cached — handles returned earlier read a prefix.)
func r10LookupBeforeSource(c *core.Ctx, p *load.Program, sh *cacheShape, rule string) {
	tk := typeKey(sh.named)
	var lookup, srcOpen *ssa.Call
	ssax.Instrs(sh.open, func(ins ssa.Instruction) {
		if cl := fieldInvoke(ins, sh.named, sh.cField, "Open"); cl != nil && lookup == nil {
			lookup = cl
		}
		if cl := fieldInvoke(ins, sh.named, sh.srcField, "Open"); cl != nil {
			srcOpen = cl
		}
	})
	key := tk + ".Open|cache-before-source"
	if lookup == nil || srcOpen == nil {
		c.Bad(rule, key, p.Pos(sh.open.Pos()), fmt.Sprintf("%s.Open does not both look the name up in the cache and open the source (lookup=%v source=%v)", tk, lookup != nil, srcOpen != nil))
	} else {
		lerr := ssax.ErrorValueOf(lookup)
		ok := false
		for _, f := range ssax.FactsAtInstr(srcOpen) {
			if ev, sent, is := isErrorsIs(f.Cond); is && f.Val && sent == "ErrNotExist" && ev == lerr {
				ok = true
			}
		}
		sameName := lookup.Call.Args[0] == srcOpen.Call.Args[0]
		c.Check(ok && sameName, rule, key, p.Pos(srcOpen.Pos()), "source opened only when the cache look-up of the same name answered ErrNotExist",
			fmt.Sprintf("%s.Open opens the source without being on the ErrNotExist edge of the cache look-up of the same name (dominated=%v same-name=%v): a cached file would be re-read from the source, or another look-up failure would be papered over", tk, ok, sameName))
	}
}

// r10PolicyAskedAboutTheName (R10.15): every call of a func-typed field (the RetainData policy: func(name, info) bool) in
// the cache's Open receives the name Open was called with as its name argument — info.Name() is the base name, so a
// policy keyed by path ("retain everything under assets/") decides about a different file, and which opens are served
// from the cache (and so never read the source again) is no longer the policy's choice.
func r10PolicyAskedAboutTheName(c *core.Ctx, p *load.Program, sh *cacheShape) {
	if len(sh.open.Params) < 2 {
		return
	}
	nameP := sh.open.Params[1]
	n := 0
	for _, b := range opBodies(sh.open) {
		np := b.param(nameP)
		ssax.Instrs(b.fn, func(ins ssa.Instruction) {
			cl, ok := ins.(*ssa.Call)
			if !ok || cl.Call.IsInvoke() || ssax.StaticCallee(cl) != nil {
				return
			}
			if _, _, isField := ssax.FieldLoad(cl.Call.Value); !isField {
				return
			}
			sig := cl.Call.Signature()
			if sig.Params().Len() < 1 || !isStringType(sig.Params().At(0).Type()) {
				return
			}
			n++
			arg := resolveSpilled(cl.Call.Args[0], cl)
			ok2 := np != nil && arg == ssa.Value(np)
			c.Check(ok2, "R10.15", fmt.Sprintf("%s|policy-call#%d-name-argument", fname(b.fn), n), p.Pos(cl.Pos()), "the policy receives Open's own name",
				fmt.Sprintf("the retention policy is called at %s with a name that is not the one Open was asked for (a base name, a cleaned or derived string): a policy that decides by path retains or skips the wrong files", p.Pos(cl.Pos())))
		})
	}
}

func isStringType(t types.Type) bool {
	b, ok := t.Underlying().(*types.Basic)
	return ok && b.Kind() == types.String
}
