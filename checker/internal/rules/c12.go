package rules

import (
	"fmt"
	"go/token"
	"go/types"
	"sort"
	"strings"

	"golang.org/x/tools/go/ssa"

	"hpfscheck/internal/core"
	"hpfscheck/internal/load"
	"hpfscheck/internal/ssax"
)

func init() {
	register(&Spec{ID: "C12", Targets: []load.Target{load.Linux}, Run: runC12})
	register(&Spec{ID: "C13", Targets: []load.Target{load.Linux}, Run: runC13})
}

type tarShape struct {
	cleanCall *ssa.Call    // the normaliser's path.Clean call
	named     *types.Named // ReaderFS
	destField string       // unarchiveFS
	psField   string
	read      *ssa.Function
	readErr   *ssa.Function
	process   *ssa.Function
	write     *ssa.Function
	open      *ssa.Function
	resolve   *ssa.Function
}

func findTarShape(p *load.Program) *tarShape {
	n := p.Named("tar", "ReaderFS")
	if n == nil {
		return nil
	}
	sh := &tarShape{named: n}
	_ = sh.cleanCall
	st := n.Underlying().(*types.Struct)
	fsI := stdIface(p, "io/fs", "FS")
	for i := 0; i < st.NumFields(); i++ {
		f := st.Field(i)
		if _, isI := f.Type().Underlying().(*types.Interface); isI && types.Implements(f.Type(), fsI) {
			sh.destField = f.Name()
		}
		if pt, ok := f.Type().(*types.Pointer); ok {
			if nn, ok := pt.Elem().(*types.Named); ok && nn.Obj().Name() == "pubsub" {
				sh.psField = f.Name()
			}
		}
	}
	ms := methodsOf(p, n)
	sh.open = ms["Open"]
	for _, m := range ms {
		// classify by what they do, not by name
		callsNext, opensDest, storesErr, readsHeaderName := false, false, false, false
		ssax.Instrs(m, func(ins ssa.Instruction) {
			if cl, ok := ins.(*ssa.Call); ok {
				if ssax.CalleeIs(cl, "archive/tar", "(*Reader).Next") {
					callsNext = true
				}
				if fieldInvoke(cl, n, sh.destField, "OpenFile") != nil {
					opensDest = true
				}
				if ssax.CalleeIs(cl, "sync/atomic", "(*Value).Store") {
					storesErr = true
				}
			}
			if u, ok := ins.(*ssa.UnOp); ok {
				if fa, ok := u.X.(*ssa.FieldAddr); ok && ssax.FieldName(fa) == "Name" {
					if hn := ssax.StructOfFieldAddr(fa); hn != nil && hn.Obj().Pkg() != nil && hn.Obj().Pkg().Path() == "archive/tar" {
						readsHeaderName = true
					}
				}
			}
		})
		switch {
		case storesErr:
			sh.read = m
		case callsNext:
			sh.readErr = m
		case readsHeaderName:
			sh.process = m
		case opensDest:
			sh.write = m
		}
	}
	// the normaliser: package function calling path.Clean on its parameter
	for _, fn := range pkgFuncs(p, "tar") {
		if fn.Signature.Recv() != nil || fn.Parent() != nil || len(fn.Params) != 1 || !isStr(fn.Params[0].Type()) {
			continue
		}
		clean, trim := false, false
		ssax.Instrs(fn, func(ins ssa.Instruction) {
			if cl, ok := ins.(*ssa.Call); ok {
				if ssax.CalleeIs(cl, "path", "Clean") && dependsOnDeep(cl.Call.Args[0], fn.Params[0]) {
					clean = true
					sh.cleanCall = cl
				}
				if ssax.CalleeIs(cl, "strings", "TrimPrefix") || ssax.CalleeIs(cl, "strings", "TrimLeft") {
					if s, ok := ssax.ConstString(cl.Call.Args[1]); ok && s == "/" {
						trim = true
					}
				}
			}
		})
		if clean && trim {
			sh.resolve = fn
		}
	}
	return sh
}

func runC12(c *core.Ctx) {
	runFixtures(c, "drop", "valid", "read")
	c.Explain("Structural clauses of C12 decided from source (thin: contents, modes, 'nothing else' and writer schedules are behaviour): (R12.1) every read of archive/tar.Header.Name in package tar is passed through the normaliser (path.Clean + leading-\"/\" trim) and the normalised name reaches only calls on the destination file system (interface methods, FS helpers), the announce key and path.Dir — package tar contains no primitive sink, so an escaping '../x' is refused by the destination's own validation (C04/A1); (R12.2) the error of every destination-FS call and every copy step in the unpack functions and their background closures propagates: returned, wrapped, or sent on the error channel whose receive ends the unpack with that error (accepted: errors.Is(ErrExist) on Mkdir of a directory entry, which continues with Chmod; io.EOF on the tar stream); (R12.3) on that ErrExist edge Chmod is called with the header's mode; (R12.4) the destination calls for an entry are made after the success edge of creating its parent path; (R12.5) every buffer taken from a pool is given back on every path that does not end the unpack with an error, closure continuations included, and no path (callees and spawned writers counted) gives the same buffer back twice — a buffer that is in the pool twice is handed to two later entries, whose bytes then mix; (R12.6) the normaliser applies path.Clean to the entry name itself: cleaning a string with '/' prepended silently drops leading '..' elements, so an entry that resolves outside the root would be unpacked inside it instead of failing the unpack; (R12.7) the Mkdir/Chmod of a directory entry runs in the read loop itself, not in a spawned writer: in the background it races with the next entry's preparation of the same directory as a parent (0700), and the header's mode can be lost depending on the schedule; (R12.8) the blocking select that ends the unpack ('an error, or all writers done') polls the error channel again on the done branch before it reports success, because both cases can be ready at once. (R12.9) every direct Read call in package tar is a delegation, a call of the package's own full reader, or a loop that is left only on an error / a full buffer and whose successful returns looked at the count of the latest Read (the last chunk of an entry arrives together with io.EOF). (R12.10) the entry-processing function returns nil only on paths that created the directory entry on the destination, called the writer or spawned a background writer; (R12.11) the write methods of the key-value handle (the default destination is mem.FS) never store the caller's buffer, only copy from it — the reader returns its buffers to a pool as soon as Write returns. (R12.12) the buffer pool reserves a slot only where count == cap is excluded. (R12.14) entry-name relations on element boundaries; (R12.15) files are created with the header's own mode. (R12.16) by-name methods of the default destination save no record looked up under another name; (R12.17) destination files are created with O_TRUNC; R12.14 covers package mem as well. NOT claimed: the resulting tree.")
	c.Assume("A1: the destination file system rejects names that would escape its root", "A2: archive/tar, path, io behave as documented")
	c.RuleDoc("R12.1", "header names normalised and only delegated")
	c.RuleDoc("R12.2", "a refused or failing entry fails the unpack")
	c.RuleDoc("R12.3", "existing directory entries get their mode")
	c.RuleDoc("R12.4", "parents first")
	c.RuleDoc("R12.5", "pool buffers are returned, once")
	c.RuleDoc("R12.8", "the final wait re-checks the error channel when the writers' completion wins the select")
	c.RuleDoc("R12.7", "directory entries are created in the foreground")
	c.RuleDoc("R12.14", "name relations in package tar are tested on element boundaries")
	c.RuleDoc("R12.16", "a by-name method of the default destination saves no record it looked up under another name")
	c.RuleDoc("R12.17", "destination files are created with O_TRUNC")
	c.RuleDoc("R12.15", "destination files are created with the entry's own mode")
	c.RuleDoc("R12.13", "a PAX global header is not materialised as an entry")
	c.RuleDoc("R12.12", "the buffer pool never provisions more buffers than its channel holds (unpacking finishes)")
	c.RuleDoc("R12.10", "an entry is reported done only after it was created, written or handed to a writer")
	c.RuleDoc("R12.11", "the default destination (mem/keyvalue) copies written bytes: the reader recycles its buffers (= R02.16)")
	c.RuleDoc("R12.9", "entry bytes are copied by read loops that keep the bytes arriving with io.EOF and never stop at a short count")
	c.RuleDoc("R12.6", "the normaliser cleans the entry name itself, never a rooted string")
	for _, p := range c.Progs {
		c.SetProg(p)
		sh := findTarShape(p)
		if sh == nil || sh.process == nil || sh.write == nil || sh.readErr == nil || sh.read == nil || sh.resolve == nil || sh.destField == "" {
			c.Hard("anchor: tar.ReaderFS shape (read loop, entry processing, writer, normaliser, destination field)")
			continue
		}
		r12Names(c, p, sh)
		r12Drop(c, p, sh)
		r12DirMode(c, p, sh)
		r12Parents(c, p, sh)
		r12Buffers(c, p, sh, "R12.5")
		r12Normaliser(c, p, sh)
		readDiscipline(c, p, "R12.9", pkgFuncs(p, "tar"))
		r12EveryEntryProcessed(c, p, sh)
		r12PoolBound(c, p, "R12.12")
		r12SkipsGlobalHeader(c, p, sh)
		boundaryTests(c, p, "R12.14", "tar", "mem")
		r12OpenWritesOnlyItsName(c, p, "R12.16")
		r12CreatesWithHeaderMode(c, p, sh)
		if fileT := p.Named("keyvalue", "file"); fileT != nil {
			r02NoAdopt(c, p, fileT, "R12.11")
		} else {
			c.Hard("anchor: keyvalue.file")
		}
	}
	c.Floor("R12.1", 2)
	c.Floor("R12.2", 8)
	c.Floor("R12.3", 1)
	c.Floor("R12.4", 1)
	c.Floor("R12.5", 2)
	c.Floor("R12.6", 2)
	c.Floor("R12.7", 1)
	c.Floor("R12.8", 2)
	c.Floor("R12.9", 1)
	c.Floor("R12.10", 1)
	c.Floor("R12.12", 1)
	c.Floor("R12.13", 1)
	c.Floor("R12.15", 1)
	c.Floor("R12.16", 3)
	c.Floor("R12.17", 1)
	c.Floor("R12.11", 3)
}

func r12Names(c *core.Ctx, p *load.Program, sh *tarShape) {
	// no primitive sink in package tar
	va := newValidAnalysis(p)
	var sinks []string
	for _, fn := range pkgFuncs(p, "tar") {
		ssax.Instrs(fn, func(ins ssa.Instruction) {
			if ci, ok := ins.(ssa.CallInstruction); ok {
				if k, _ := va.sinkKind(fn, ci); k == "prim" {
					sinks = append(sinks, ssax.CallName(ci)+" at "+p.Pos(ci.Pos()))
				}
			}
		})
	}
	c.Check(len(sinks) == 0, "R12.1", "tar|no-primitive-sink", "-", "package tar reaches the destination only through file-system interfaces",
		"package tar calls a primitive sink directly ("+strings.Join(sinks, "; ")+"): archive names would bypass the destination file system's validation")
	// every header-name read goes through the normaliser
	for _, fn := range pkgFuncs(p, "tar") {
		ord := ordinals{}
		ssax.Instrs(fn, func(ins ssa.Instruction) {
			u, ok := ins.(*ssa.UnOp)
			if !ok {
				return
			}
			fa, ok := u.X.(*ssa.FieldAddr)
			if !ok || ssax.FieldName(fa) != "Name" {
				return
			}
			if hn := ssax.StructOfFieldAddr(fa); hn == nil || hn.Obj().Pkg() == nil || hn.Obj().Pkg().Path() != "archive/tar" {
				return
			}
			key := fname(fn) + "|" + ord.next("header-name")
			var bad []string
			var norm []ssa.Value
			for _, r := range *u.Referrers() {
				switch x := r.(type) {
				case *ssa.DebugRef:
				case *ssa.Call:
					if ssax.StaticCallee(x) == sh.resolve {
						norm = append(norm, x)
					} else {
						bad = append(bad, "passed un-normalised to "+ssax.CallName(x))
					}
				default:
					bad = append(bad, fmt.Sprintf("used un-normalised by %T at %s", r, p.Pos(r.Pos())))
				}
			}
			// uses of the normalised name
			for _, nv := range norm {
				for _, use := range nameUses(nv, 0) {
					if why := r12UseOK(p, va, sh, use.user, use.val); why != "" {
						bad = append(bad, why)
					}
				}
			}
			if len(norm) == 0 {
				bad = append(bad, "never normalised")
			}
			c.Check(len(bad) == 0, "R12.1", key, p.Pos(u.Pos()), "normalised, then only handed to the destination file system / announce key / path.Dir",
				fmt.Sprintf("%s: archive entry name %s", fname(fn), strings.Join(bad, "; ")))
		})
	}
}

type nameUse struct {
	val  ssa.Value
	user ssa.Instruction
}

// nameUses follows a string value through closures' free variables and path.Dir, collecting the calls it is given to.
func nameUses(v ssa.Value, depth int) []nameUse {
	var out []nameUse
	if depth > 4 || v.Referrers() == nil {
		return nil
	}
	for _, r := range *v.Referrers() {
		switch x := r.(type) {
		case *ssa.DebugRef:
		case *ssa.MakeClosure:
			fn := x.Fn.(*ssa.Function)
			for i, b := range x.Bindings {
				if b == v {
					out = append(out, nameUses(fn.FreeVars[i], depth+1)...)
				}
			}
		case *ssa.Call:
			if ssax.CalleeIs(x, "path", "Dir") {
				out = append(out, nameUses(x, depth+1)...)
				continue
			}
			out = append(out, nameUse{v, x})
		case *ssa.Defer:
			out = append(out, nameUse{v, x})
		case *ssa.Go:
			out = append(out, nameUse{v, x})
		case *ssa.Store:
			if a, ok := x.Addr.(*ssa.Alloc); ok {
				// captured variable cell
				if a.Referrers() != nil {
					for _, rr := range *a.Referrers() {
						if mc, ok := rr.(*ssa.MakeClosure); ok {
							fn := mc.Fn.(*ssa.Function)
							for i, b := range mc.Bindings {
								if b == ssa.Value(a) {
									for _, lr := range *fn.FreeVars[i].Referrers() {
										if u, ok := lr.(*ssa.UnOp); ok {
											out = append(out, nameUses(u, depth+1)...)
										}
									}
								}
							}
						}
						if u, ok := rr.(*ssa.UnOp); ok {
							out = append(out, nameUses(u, depth+1)...)
						}
					}
				}
			} else {
				out = append(out, nameUse{v, x})
			}
		case *ssa.Phi:
			out = append(out, nameUses(x, depth+1)...)
		default:
			out = append(out, nameUse{v, r})
		}
	}
	return out
}

func r12UseOK(p *load.Program, va *validAnalysis, sh *tarShape, user ssa.Instruction, v ssa.Value) string {
	ci, ok := user.(ssa.CallInstruction)
	if !ok {
		if _, isBin := user.(*ssa.BinOp); isBin {
			return "" // comparison
		}
		return fmt.Sprintf("normalised name used by %T at %s", user, p.Pos(user.Pos()))
	}
	cc := ci.Common()
	if cc.IsInvoke() {
		if va.isFSIface(cc.Value.Type()) {
			return ""
		}
		return "normalised name passed to non-file-system interface call " + ssax.CallName(ci)
	}
	callee := cc.StaticCallee()
	if callee == nil {
		// the memoising mkdirAll closure value
		return ""
	}
	if p.InModule(callee) {
		pp := pkgPathOf(callee)
		if pp == mod || pp == mod+"/tar" {
			return "" // FS helpers and tar's own functions (writer, announce)
		}
	}
	return "normalised name passed to " + ssax.CallName(ci)
}

func r12Drop(c *core.Ctx, p *load.Program, sh *tarShape) {
	fns := []*ssa.Function{sh.read, sh.readErr, sh.process, sh.write}
	seen := map[*ssa.Function]bool{}
	var all []*ssa.Function
	var add func(f *ssa.Function)
	add = func(f *ssa.Function) {
		if f == nil || seen[f] {
			return
		}
		seen[f] = true
		all = append(all, f)
		for _, a := range f.AnonFuncs {
			add(a)
		}
	}
	for _, f := range fns {
		add(f)
	}
	for _, fn := range all {
		bad, good := dropCheck(p, fn, dropOpts{
			acceptSentinel: func(s string) bool { return s == "ErrExist" },
			only: func(ci ssa.CallInstruction) bool {
				// Close of the written file is R13.2's; closing the reader is not part of the unpack result
				name := ""
				if ci.Common().IsInvoke() {
					name = ci.Common().Method.Name()
				}
				return name != "Close"
			},
		})
		for _, g := range good {
			c.OK("R12.2", g.Key, g.Pos, g.Msg)
		}
		for _, b := range bad {
			if b.Kind == "undecided" {
				c.Unknown("R12.2", b.Key, b.Pos, b.Msg)
			} else if b.Kind != "value-used-with-error" {
				c.Bad("R12.2", b.Key, b.Pos, b.Msg+" — the unpack would finish without UnarchiveErr although an entry was not created")
			}
		}
	}
	// the error channel's receive must end the unpack with that error
	recvOK := 0
	ssax.Instrs(sh.readErr, func(ins ssa.Instruction) {
		sel, ok := ins.(*ssa.Select)
		if !ok {
			return
		}
		for _, st := range sel.States {
			if st.Dir == types.RecvOnly {
				if _, isErr := st.Chan.Type().Underlying().(*types.Chan); isErr && ssax.IsErrorType(st.Chan.Type().Underlying().(*types.Chan).Elem()) {
					recvOK++
				}
			}
		}
	})
	// R12.8: a blocking select that waits for "an error OR all writers done" must look at the error channel once more
	// on the done branch: a writer sends its error and then signals completion, so both cases can be ready and the
	// runtime picks one at random — the error must not be lost when 'done' wins
	ssax.Instrs(sh.readErr, func(ins ssa.Instruction) {
		sel, ok := ins.(*ssa.Select)
		if !ok || !sel.Blocking || len(sel.States) < 2 {
			return
		}
		errState := -1
		for i, st := range sel.States {
			if st.Dir == types.RecvOnly {
				if ch, ok := st.Chan.Type().Underlying().(*types.Chan); ok && ssax.IsErrorType(ch.Elem()) {
					errState = i
				}
			}
		}
		if errState < 0 {
			return
		}
		key := fname(sh.readErr) + "|final-wait-rechecks-errors"
		// after this select, every path to a nil-error return that did not take the error case passes another
		// (non-blocking) select that receives from an error channel
		bad := ""
		idx := 0
		for i, in2 := range sel.Block().Instrs {
			if in2 == ssa.Instruction(sel) {
				idx = i
			}
		}
		eidx := ssax.ErrorResultIndex(sh.readErr.Signature)
		ssax.EnumPaths(sh.readErr, sel.Block(), idx+1, nil, ssax.PathHooks{
			Instr: func(s *ssax.PathState, in2 ssa.Instruction) {
				if s2, ok := in2.(*ssa.Select); ok && !s2.Blocking {
					for _, st := range s2.States {
						if ch, ok := st.Chan.Type().Underlying().(*types.Chan); ok && st.Dir == types.RecvOnly && ssax.IsErrorType(ch.Elem()) {
							s.Counts["rechecked"] = 1
						}
					}
				}
			},
			End: func(s *ssax.PathState, last ssa.Instruction) {
				r, ok := last.(*ssa.Return)
				if !ok || eidx < 0 {
					return
				}
				ev := s.Resolve(r.Results[eidx])
				if ssax.IsNilConst(ev) && s.Counts["rechecked"] == 0 && bad == "" {
					bad = p.Pos(r.Pos())
				}
			},
		})
		c.Check(bad == "", "R12.8", key, p.Pos(sel.Pos()), "the 'all writers done' branch polls the error channel before reporting success",
			fmt.Sprintf("%s returns nil at %s straight from a select between the error channel and the writers' completion: a writer queues its error and then signals completion, so both cases are ready and the select may pick completion — the unpack ends without UnarchiveErr although an entry was refused (seen in about 1 of 5000 unpacks)", fname(sh.readErr), bad))
	})
	// R12.8 (shape): the end of the unpack waits for "an error OR all writers done" in ONE blocking select; the reader's
	// own goroutine never blocks in WaitGroup.Wait — the error channel has one slot, so with two failing writers the
	// second blocks in its send before it can sign off, and a reader that waits for the writers alone waits for ever
	blockingSel, directWait := false, ""
	ssax.Instrs(sh.readErr, func(ins ssa.Instruction) {
		if sel, ok := ins.(*ssa.Select); ok && sel.Blocking {
			for _, st := range sel.States {
				if ch, ok := st.Chan.Type().Underlying().(*types.Chan); ok && st.Dir == types.RecvOnly && ssax.IsErrorType(ch.Elem()) {
					blockingSel = true
				}
			}
		}
		if cl, ok := ins.(*ssa.Call); ok && ssax.CalleeIs(cl, "sync", "(*WaitGroup).Wait") {
			directWait = p.Pos(cl.Pos())
		}
	})
	c.Check(blockingSel && directWait == "", "R12.8", fname(sh.readErr)+"|final-wait-is-one-select", p.Pos(sh.readErr.Pos()), "the reader waits for the writers and for their errors in one blocking select",
		fmt.Sprintf("%s waits for the background writers without listening to the error channel at the same time (blocking select over the error channel: %v; WaitGroup.Wait in the reader's own goroutine: %s): the channel holds one error, so when two writers fail the second blocks in its send and never signs off — the unpack neither finishes nor reports an error", fname(sh.readErr), blockingSel, orDash(directWait)))
	c.Check(recvOK >= 2, "R12.2", fname(sh.readErr)+"|error-channel-drained", p.Pos(sh.readErr.Pos()), fmt.Sprintf("%d selects receive from the error channel (between entries and at the end)", recvOK),
		"the read loop does not receive from the error channel both between entries and after the last one: a background writer's failure would not fail the unpack")
}

func r12DirMode(c *core.Ctx, p *load.Program, sh *tarShape) {
	found := false
	var visit func(fn *ssa.Function)
	visit = func(fn *ssa.Function) {
		ssax.Instrs(fn, func(ins ssa.Instruction) {
			mk := fieldInvoke(ins, sh.named, sh.destField, "Mkdir")
			if mk == nil {
				return
			}
			found = true
			merr := ssax.ErrorValueOf(mk)
			key := fname(fn) + "|mkdir-exists-then-chmod"
			ok := false
			ssax.Instrs(fn, func(i2 ssa.Instruction) {
				ch := fieldInvoke(i2, sh.named, sh.destField, "Chmod")
				if ch == nil {
					return
				}
				samePath := sameVar(ch.Call.Args[0], mk.Call.Args[0])
				sameMode := modeSource(ch.Call.Args[1]) != nil && modeSource(ch.Call.Args[1]) == modeSource(mk.Call.Args[1])
				onExist := false
				for _, f := range ssax.FactsAtInstr(ch) {
					if ev, sent, is := isErrorsIs(f.Cond); is && f.Val && sent == "ErrExist" && ev == merr {
						onExist = true
					}
				}
				if samePath && sameMode && onExist {
					ok = true
				}
			})
			// R12.7: the directory entry is created before the next entry is processed
			k7 := fname(fn) + "|dir-entry-in-foreground"
			c.Check(fn.Parent() == nil, "R12.7", k7, p.Pos(mk.Pos()), "the directory entry's Mkdir/Chmod runs in the read loop's goroutine, before the next entry's parents are prepared",
				fmt.Sprintf("%s creates a directory entry in a background closure: it races with the next entry's mkdirAll of the same directory (look-up, then unconditional save), which can replace the header's mode with the 0700 default — the final mode depends on the schedule", fname(fn)))
			c.Check(ok, "R12.3", key, p.Pos(mk.Pos()), "Mkdir's ErrExist edge calls Chmod(same path, same header mode)",
				fmt.Sprintf("%s: when the directory of a directory entry already exists (created earlier as a parent with 0700), Chmod with the entry's mode is not called on that edge: the directory keeps the wrong permission bits", fname(fn)))
		})
		for _, a := range fn.AnonFuncs {
			visit(a)
		}
	}
	visit(sh.process)
	if !found {
		c.Bad("R12.3", fname(sh.process)+"|mkdir-exist-edge", p.Pos(sh.process.Pos()), fmt.Sprintf("%s (and the writers it spawns) no longer calls Mkdir on the destination for a directory entry: a directory that already exists — created with the default mode for an earlier child — never receives the mode recorded in its own header", fname(sh.process)))
	}
}

// modeSource: the call producing a mode value (info.Mode()), through free variables.
func modeSource(v ssa.Value) ssa.Value {
	switch x := v.(type) {
	case *ssa.Call:
		if x.Call.IsInvoke() && x.Call.Method.Name() == "Mode" {
			return cellOf(x.Call.Value)
		}
	}
	return nil
}

func sourceOf(v ssa.Value) ssa.Value {
	if fv, ok := v.(*ssa.FreeVar); ok {
		if b := ssax.ResolveFreeVar(fv); b != nil {
			return sourceOf(b)
		}
	}
	return v
}

func r12Parents(c *core.Ctx, p *load.Program, sh *tarShape) {
	// in the entry processing: the parent-creating call (a call whose argument is path.Dir(name)) and its success edge
	fn := sh.process
	var parentCall *ssa.Call
	ssax.Instrs(fn, func(ins ssa.Instruction) {
		cl, ok := ins.(*ssa.Call)
		if !ok {
			return
		}
		for _, a := range cl.Call.Args {
			if dc, ok := a.(*ssa.Call); ok && ssax.CalleeIs(dc, "path", "Dir") {
				parentCall = cl
			}
		}
	})
	key := fname(fn) + "|parents-first"
	if parentCall == nil {
		c.Bad("R12.4", key, p.Pos(fn.Pos()), "the entry processing does not create path.Dir(name) before the entry: entries whose parents come later (or never) in the archive cannot be created")
		return
	}
	perr := ssax.ErrorValueOf(parentCall)
	var bad []string
	n := 0
	ssax.Instrs(fn, func(ins ssa.Instruction) {
		// anything that leads to a destination call for the entry: closures (go) and the writer call
		var at ssa.Instruction
		switch x := ins.(type) {
		case *ssa.Go:
			at = x
		case *ssa.Call:
			if ssax.StaticCallee(x) == sh.write {
				at = x
			}
			// the directory entry's own Mkdir on the destination needs its parent as much as a file does
			if m := ssax.InvokeMethod(x); m != nil && m.Name() == "Mkdir" {
				at = x
			}
			if ssax.CalleeIs(x, mod, "Mkdir") {
				at = x
			}
		}
		if at == nil {
			return
		}
		n++
		isNil, known := ssax.KnownNil(ssax.FactsAtInstr(at), perr)
		if !known || !isNil {
			bad = append(bad, p.Pos(at.Pos()))
		}
	})
	// the parent path is created recursively: the function the read loop hands in for it calls the MkdirAll helper
	// (which walks every missing ancestor on any destination) and not merely Mkdir or an optional capability
	recursive, sawPrep := false, false
	for _, a := range sh.readErr.AnonFuncs {
		sig := a.Signature
		if sig.Params().Len() != 2 || !isStr(sig.Params().At(0).Type()) || sig.Results().Len() != 1 || !ssax.IsErrorType(sig.Results().At(0).Type()) {
			continue
		}
		sawPrep = true
		ssax.Instrs(a, func(ins ssa.Instruction) {
			cl, ok := ins.(*ssa.Call)
			if !ok || !ssax.CalleeIs(cl, mod, "MkdirAll") {
				return
			}
			underAssert := false
			for _, f := range ssax.FactsAtInstr(cl) {
				if ex, ok := f.Cond.(*ssa.Extract); ok {
					if _, isTA := ex.Tuple.(*ssa.TypeAssert); isTA {
						underAssert = true
					}
				}
			}
			if !underAssert {
				recursive = true
			}
		})
	}
	if sawPrep {
		c.Check(recursive, "R12.4", fname(sh.readErr)+"|parents-created-recursively", p.Pos(sh.readErr.Pos()), "the parent-preparing function calls the recursive MkdirAll helper unconditionally",
			fmt.Sprintf("%s: the function that prepares an entry's parent directory no longer calls hackpadfs.MkdirAll unconditionally: on a destination without MkdirAllFS an entry two or more levels below the deepest existing directory (a/b/c/deep.txt with no entries for a, a/b) cannot be created and the unpack of a well-formed archive fails", fname(sh.readErr)))
	}
	c.Check(len(bad) == 0 && n >= 2, "R12.4", key, p.Pos(parentCall.Pos()), fmt.Sprintf("%d entry-creating continuations all follow the success edge of creating the parent path", n),
		fmt.Sprintf("%s: the entry is created at %v without being on the success edge of creating its parent directories", fname(fn), bad))
}

func r12Buffers(c *core.Ctx, p *load.Program, sh *tarShape, rule string) {
	fn := sh.process
	for _, b := range fn.Blocks {
		for idx, ins := range b.Instrs {
			cl, ok := ins.(*ssa.Call)
			if !ok {
				continue
			}
			callee := ssax.StaticCallee(cl)
			if callee == nil || callee.Name() != "Wait" || callee.Signature.Recv() == nil || !strings.HasSuffix(typeString(callee.Signature.Recv().Type()), "bufferPool") {
				continue
			}
			key := fname(fn) + "|buffer:" + vname(cl.Call.Args[0])
			buf := ssa.Value(cl)
			isDone := func(s *ssax.PathState, ins ssa.Instruction) bool {
				c2, ok := ins.(*ssa.Call)
				if !ok {
					return false
				}
				cal := ssax.StaticCallee(c2)
				return cal != nil && cal.Name() == "Done" && len(c2.Call.Args) == 1 && (s.Resolve(c2.Call.Args[0]) == buf || singleStored(c2.Call.Args[0]) == buf)
			}
			// closures that give the buffer back on all their paths
			closureReturns := func(mc *ssa.MakeClosure) bool {
				cf := mc.Fn.(*ssa.Function)
				var fv *ssa.FreeVar
				for i, bnd := range mc.Bindings {
					if bnd == buf {
						fv = cf.FreeVars[i]
					}
					// captured through a cell that holds the buffer
					if a, ok := bnd.(*ssa.Alloc); ok {
						stores, _ := ssax.CellStores(a)
						if len(stores) == 1 && stores[0].Val == buf {
							fv = cf.FreeVars[i]
						}
					}
				}
				if fv == nil {
					return false
				}
				all := true
				ssax.EnumPaths(cf, cf.Blocks[0], 0, nil, ssax.PathHooks{
					Instr: func(s *ssax.PathState, ins ssa.Instruction) {
						if c2, ok := ins.(*ssa.Call); ok {
							if cal := ssax.StaticCallee(c2); cal != nil && cal.Name() == "Done" && len(c2.Call.Args) == 1 && (c2.Call.Args[0] == ssa.Value(fv) || cellOf(c2.Call.Args[0]) == ssa.Value(fv)) {
								s.Counts["done"] = 1
							}
						}
					},
					End: func(s *ssax.PathState, _ ssa.Instruction) {
						if s.Counts["done"] == 0 {
							all = false
						}
					},
				})
				return all
			}
			// may-give-back summaries: callee releases its parameter i on some path
			mayDone := func(callee *ssa.Function, i int) bool {
				if callee == nil || callee.Blocks == nil || i >= len(callee.Params) {
					return false
				}
				found := false
				ssax.InstrsDeep(callee, func(_ *ssa.Function, ins ssa.Instruction) {
					if c2, ok := ins.(*ssa.Call); ok {
						if cal := ssax.StaticCallee(c2); cal != nil && cal.Name() == "Done" && len(c2.Call.Args) == 1 && c2.Call.Args[0] == ssa.Value(callee.Params[i]) {
							found = true
						}
					}
				})
				return found
			}
			// how often a value is given back by one instruction: Done itself, or a callee that may release it
			gives := func(ins ssa.Instruction, is func(ssa.Value) bool) int {
				c2, ok := ins.(*ssa.Call)
				if !ok {
					return 0
				}
				cal := ssax.StaticCallee(c2)
				if cal == nil {
					return 0
				}
				if cal.Name() == "Done" && len(c2.Call.Args) == 1 && is(c2.Call.Args[0]) {
					return 1
				}
				n := 0
				for i, a := range c2.Call.Args {
					if is(a) && mayDone(cal, i) {
						n++
					}
				}
				return n
			}
			closureMaxDone := func(mc *ssa.MakeClosure) int {
				cf := mc.Fn.(*ssa.Function)
				var fv *ssa.FreeVar
				for i, bnd := range mc.Bindings {
					if bnd == buf {
						fv = cf.FreeVars[i]
					}
					if a, ok := bnd.(*ssa.Alloc); ok {
						stores, _ := ssax.CellStores(a)
						if len(stores) == 1 && stores[0].Val == buf {
							fv = cf.FreeVars[i]
						}
					}
				}
				if fv == nil {
					return 0
				}
				max := 0
				ssax.EnumPaths(cf, cf.Blocks[0], 0, nil, ssax.PathHooks{
					Instr: func(s *ssax.PathState, ins ssa.Instruction) {
						s.Counts["n"] += gives(ins, func(v ssa.Value) bool { return v == ssa.Value(fv) || cellOf(v) == ssa.Value(fv) })
					},
					End: func(s *ssax.PathState, _ ssa.Instruction) {
						if s.Counts["n"] > max {
							max = s.Counts["n"]
						}
					},
				})
				return max
			}
			eidx := ssax.ErrorResultIndex(fn.Signature)
			leak := ""
			twice := ""
			ssax.EnumPaths(fn, b, idx+1, nil, ssax.PathHooks{
				Instr: func(s *ssax.PathState, ins ssa.Instruction) {
					if isDone(s, ins) {
						s.Counts["done"] = 1
					}
					s.Counts["n"] += gives(ins, func(v ssa.Value) bool { return s.Resolve(v) == buf || singleStored(v) == buf })
					if g, ok := ins.(*ssa.Go); ok {
						if mc, ok := g.Call.Value.(*ssa.MakeClosure); ok {
							if closureReturns(mc) {
								s.Counts["done"] = 1
							}
							s.Counts["n"] += closureMaxDone(mc)
						}
					}
					if s.Counts["n"] >= 2 && twice == "" {
						twice = p.Pos(ins.Pos())
					}
				},
				End: func(s *ssax.PathState, last ssa.Instruction) {
					r := last.(*ssa.Return)
					e := s.Resolve(r.Results[eidx])
					failing := s.NilOf(e) == ssax.NonNil // only a definitely failing exit may keep the buffer
					if s.Counts["done"] == 0 && !failing && leak == "" {
						leak = p.Pos(r.Pos())
					}
				},
			})
			if twice != "" {
				c.Bad(rule, key+"|once", p.Pos(cl.Pos()), fmt.Sprintf("%s: the buffer taken at %s can be given back to its pool twice on one path (second release at or after %s, callees and spawned writers counted): the pool then hands the same buffer to two later entries, and one file receives the other's bytes", fname(fn), p.Pos(cl.Pos()), twice))
			} else {
				c.OK(rule, key+"|once", p.Pos(cl.Pos()), "given back at most once on every path (callees and spawned writers counted)")
			}
			c.Check(leak == "", rule, key, p.Pos(cl.Pos()), "given back (directly or by the spawned writer) on every path that lets the unpack continue",
				fmt.Sprintf("%s: the buffer taken at %s is not returned to its pool on the path ending at %s although the unpack continues: after as many entries as the pool holds the reader blocks forever", fname(fn), p.Pos(cl.Pos()), leak))
		}
	}
}

// cellOf: for a load of a variable cell (local Alloc or captured FreeVar pointer) returns the cell; else v.
func cellOf(v ssa.Value) ssa.Value {
	if u, ok := v.(*ssa.UnOp); ok {
		switch a := u.X.(type) {
		case *ssa.Alloc:
			return a
		case *ssa.FreeVar:
			return a
		}
	}
	if fv, ok := v.(*ssa.FreeVar); ok {
		return fv
	}
	return v
}

// sameVar: a and b are the same value, or loads of the same effectively-final variable cell.
func sameVar(a, b ssa.Value) bool {
	if a == b {
		return true
	}
	ca, cb := cellOf(a), cellOf(b)
	if ca != cb || ca == a {
		return false
	}
	cell := ca
	if fv, ok := cell.(*ssa.FreeVar); ok {
		if r := ssax.ResolveFreeVar(fv); r != nil {
			cell = r
		}
	}
	if al, ok := cell.(*ssa.Alloc); ok {
		stores, esc := ssax.CellStores(al)
		return !esc && len(stores) <= 1
	}
	return true
}

// r12Normaliser (R12.6)
func r12Normaliser(c *core.Ctx, p *load.Program, sh *tarShape) {
	cl := sh.cleanCall
	if cl == nil {
		return
	}
	fn := cl.Parent()
	key := fname(fn) + "|clean-argument"
	rooted := ""
	var walk func(v ssa.Value, d int)
	walk = func(v ssa.Value, d int) {
		if d > 6 || rooted != "" {
			return
		}
		switch x := v.(type) {
		case *ssa.BinOp:
			if x.Op == token.ADD {
				if s, ok := ssax.ConstString(x.X); ok && strings.HasPrefix(s, "/") {
					rooted = fmt.Sprintf("%q + name", s)
					return
				}
				walk(x.X, d+1)
				walk(x.Y, d+1)
			}
		case *ssa.Call:
			if ssax.CalleeIs(x, "path", "Join") {
				for i, e := range variadicElems(x.Call.Args[0]) {
					if s, ok := ssax.ConstString(e); ok && i == 0 && strings.HasPrefix(s, "/") {
						rooted = fmt.Sprintf("path.Join(%q, name)", s)
					}
				}
			}
			for _, a := range x.Call.Args {
				walk(a, d+1)
			}
		case *ssa.Phi:
			for _, e := range x.Edges {
				walk(e, d+1)
			}
		}
	}
	walk(cl.Call.Args[0], 0)
	// the leading slashes come off before the name is cleaned: Clean("/../x") is "/x" — the ".." that makes the
	// entry escape is gone before anyone could refuse it
	stripsFirst := false
	var w2 func(v ssa.Value, d int)
	w2 = func(v ssa.Value, d int) {
		if d > 4 || stripsFirst {
			return
		}
		if tc, ok := v.(*ssa.Call); ok {
			if (ssax.CalleeIs(tc, "strings", "TrimLeft") || ssax.CalleeIs(tc, "strings", "TrimPrefix")) && len(tc.Call.Args) == 2 {
				if sv, isC := ssax.ConstString(tc.Call.Args[1]); isC && sv == "/" {
					stripsFirst = true
					return
				}
			}
			for _, a := range tc.Call.Args {
				w2(a, d+1)
			}
		}
		if ph, ok := v.(*ssa.Phi); ok {
			for _, e := range ph.Edges {
				w2(e, d+1)
			}
		}
	}
	w2(cl.Call.Args[0], 0)
	c.Check(stripsFirst, "R12.6", fname(fn)+"|strip-before-clean", p.Pos(cl.Pos()), "leading slashes are stripped before path.Clean",
		fmt.Sprintf("%s cleans the entry name before stripping its leading slashes: path.Clean of a rooted name drops '..' elements at the top ('/../x' becomes '/x'), so a rooted entry that resolves outside the root is unpacked inside it instead of failing the unpack", fname(fn)))
	c.Check(rooted == "", "R12.6", key, p.Pos(cl.Pos()), "path.Clean is applied to the entry name itself: an escaping name keeps its leading '..' and is refused by the destination",
		fmt.Sprintf("%s cleans %s: path.Clean of a rooted path drops leading '..' elements, so an entry named '../x' is unpacked as 'x' inside the root instead of making the unpack fail", fname(fn), rooted))
}

// r12EveryEntryProcessed (R12.10): the entry-processing function reports success only on paths on which it created the
// directory entry on the destination, wrote the file, or handed the file to a background writer. An early
// 'return nil' (an entry that "needs nothing", e.g. the root "./") skips the Mkdir -> ErrExist -> Chmod route, and the
// directory keeps the destination's default mode instead of the permission bits of its entry.
func r12EveryEntryProcessed(c *core.Ctx, p *load.Program, sh *tarShape) {
	fn := sh.process
	eidx := ssax.ErrorResultIndex(fn.Signature)
	if eidx < 0 {
		c.Hard("anchor: %s returns no error", fname(fn))
		return
	}
	var skip string
	work := 0
	complete := ssax.EnumPaths(fn, fn.Blocks[0], 0, ssax.NewPathState(), ssax.PathHooks{
		Instr: func(ps *ssax.PathState, ins ssa.Instruction) {
			switch x := ins.(type) {
			case *ssa.Go:
				ps.Counts["work"] = 1
				work++
			case *ssa.Call:
				if fieldInvoke(ins, sh.named, sh.destField, "Mkdir") != nil || fieldInvoke(ins, sh.named, sh.destField, "MkdirAll") != nil || ssax.StaticCallee(x) == sh.write {
					ps.Counts["work"] = 1
					work++
				}
			}
		},
		End: func(ps *ssax.PathState, last ssa.Instruction) {
			r, ok := last.(*ssa.Return)
			if !ok || ps.Counts["work"] == 1 || skip != "" {
				return
			}
			e := ps.Resolve(resolveSpilledOnPath(r.Results[eidx], r, ps))
			if ssax.IsNilConst(e) || ps.NilOf(e) == ssax.IsNil {
				skip = p.Pos(r.Pos())
			}
		},
	})
	key := fname(fn) + "|success-only-after-the-entry-was-handled"
	switch {
	case !complete:
		c.Unknown("R12.10", key, p.Pos(fn.Pos()), "path enumeration exceeded its cap")
	case work == 0:
		c.Hard("anchor: %s neither creates directories, writes files nor spawns writers", fname(fn))
	case skip != "":
		c.Bad("R12.10", key, skip, fmt.Sprintf("%s returns nil at %s on a path on which the entry was neither created as a directory, written, nor handed to a background writer: the entry is silently skipped (a directory entry such as './' keeps the destination's default mode instead of its own permission bits; a file entry is missing)", fname(fn), skip))
	default:
		c.OK("R12.10", key, p.Pos(fn.Pos()), "every successful return follows the directory creation, the file write or the hand-over to a writer")
	}
}

// r12PoolBound (R12.12 / R13.11): the bounded buffer pool never provisions more buffers than its channel holds: the
// compare-and-swap that reserves a slot (count -> count+1) is reached only where `count == cap(buffers)` is excluded
// (with count <= cap as the inductive invariant). With `count > cap` as the only refusal the pool creates cap+1
// buffers; when all are handed back the last Done() blocks on the full channel for ever: that writer never reports,
// and Done() of the file system never closes although every file was written.
func r12PoolBound(c *core.Ctx, p *load.Program, rule string) {
	n := 0
	for _, fn := range pkgFuncs(p, "tar") {
		ssax.Instrs(fn, func(ins ssa.Instruction) {
			cl, ok := ins.(*ssa.Call)
			if !ok || !ssax.CalleeIs(cl, "sync/atomic", "CompareAndSwapInt64") || len(cl.Call.Args) != 3 {
				return
			}
			old := stripConv(cl.Call.Args[1])
			n++
			key := fname(fn) + "|slot-reserved-below-capacity"
			good := false
			for _, f := range ssax.FactsAtInstr(cl) {
				bo, ok := f.Cond.(*ssa.BinOp)
				if !ok {
					continue
				}
				x, y := stripConv(bo.X), stripConv(bo.Y)
				op := bo.Op
				isCap := func(v ssa.Value) bool {
					cc, ok := v.(*ssa.Call)
					if !ok {
						return false
					}
					b, ok := cc.Call.Value.(*ssa.Builtin)
					return ok && b.Name() == "cap"
				}
				switch {
				case x == old && isCap(y):
				case y == old && isCap(x):
					op = flipRel(op)
				default:
					continue
				}
				if !f.Val {
					op = negRel(op)
				}
				// now: count OP cap holds
				if op == token.LSS || op == token.NEQ {
					good = true
				}
			}
			c.Check(good, rule, key, p.Pos(cl.Pos()), "a slot is reserved only where count != cap (count < cap) is known",
				fmt.Sprintf("%s reserves a buffer slot (count -> count+1) where count == cap(buffers) is not excluded: the pool provisions one buffer more than its channel holds, the last Done() of an unpack blocks on the full channel, its writer never reports and the file system's Done() never closes", fname(fn)))
		})
	}
	if n == 0 {
		c.Hard("anchor: slot reservation (CompareAndSwap) of the tar buffer pool")
	}
}

// r12SkipsGlobalHeader (R12.13): the read loop hands an archive/tar header to the entry processor only where its
// Typeflag is known not to be TypeXGlobalHeader: archive/tar returns a PAX global header ('g', written by
// `git archive`) as an entry named pax_global_header; it describes the entries that follow and is not a member of the
// tree — materialised, the file system holds a file the archive's tree does not ("and nothing else").
func r12SkipsGlobalHeader(c *core.Ctx, p *load.Program, sh *tarShape) {
	fn := sh.readErr
	var call *ssa.Call
	ssax.Instrs(fn, func(ins ssa.Instruction) {
		if cl, ok := ins.(*ssa.Call); ok && ssax.StaticCallee(cl) == sh.process {
			call = cl
		}
	})
	if call == nil {
		c.Hard("anchor: call of the entry processor in the read loop")
		return
	}
	excluded := false
	for _, f := range ssax.FactsAtInstr(call) {
		bo, ok := f.Cond.(*ssa.BinOp)
		if !ok || bo.Op != token.EQL && bo.Op != token.NEQ {
			continue
		}
		var other ssa.Value
		isFlag := func(v ssa.Value) bool {
			u, ok := v.(*ssa.UnOp)
			if !ok {
				return false
			}
			fa, ok := u.X.(*ssa.FieldAddr)
			return ok && ssax.FieldName(fa) == "Typeflag"
		}
		switch {
		case isFlag(bo.X):
			other = bo.Y
		case isFlag(bo.Y):
			other = bo.X
		default:
			continue
		}
		if k, isK := ssax.ConstInt(other); isK && k == 'g' && (bo.Op == token.EQL) != f.Val {
			excluded = true
		}
	}
	c.Check(excluded, "R12.13", fname(fn)+"|global-header-not-processed", p.Pos(call.Pos()), "the entry processor is called only where Typeflag != TypeXGlobalHeader",
		fmt.Sprintf("%s hands every header archive/tar returns to the entry processor, the PAX global header included: an archive written by `git archive` unpacks an extra empty file pax_global_header that is no entry of the archive's tree", fname(fn)))
}

// r12CreatesWithHeaderMode (R12.15): every call in package tar that creates a regular file on the destination passes
// the entry's own mode (info.Mode()): a creation through a helper that fixes the mode (hackpadfs.Create: 0666) gives
// every such entry the wrong permission bits without any error.
func r12CreatesWithHeaderMode(c *core.Ctx, p *load.Program, sh *tarShape) {
	create, okC := flagConst(p, "FlagCreate")
	if !okC {
		c.Hard("anchor: FlagCreate")
		return
	}
	n := 0
	for _, fn := range pkgFuncs(p, "tar") {
		ord := ordinals{}
		ssax.Instrs(fn, func(ins ssa.Instruction) {
			cl, ok := ins.(*ssa.Call)
			if !ok {
				return
			}
			name, args := "", cl.Call.Args
			if cl.Call.IsInvoke() {
				name = cl.Call.Method.Name()
			} else if callee := ssax.StaticCallee(cl); callee != nil && pkgPathOf(callee) == mod {
				name = callee.Name()
				if len(args) > 0 {
					args = args[1:] // drop the FS argument of the helper
				}
			}
			switch name {
			case "Create", "WriteFullFile", "WriteFile":
				if name == "WriteFile" && !cl.Call.IsInvoke() && len(cl.Call.Args) == 2 {
					return // hackpadfs.WriteFile(file, data): writes to an open handle
				}
				n++
				c.Bad("R12.15", fname(fn)+"|"+ord.next("creates-with-the-entry-mode"), p.Pos(cl.Pos()), fmt.Sprintf("%s creates a destination file with %s, which fixes the file's mode instead of taking the entry's: every entry created this way (an empty file) gets 0666 whatever its header says", fname(fn), name))
			case "OpenFile":
				if len(args) != 3 {
					return
				}
				k, isK := ssax.ConstInt(args[1])
				if !isK || k&create == 0 {
					return
				}
				n++
				// R12.17 / R13.16: a destination file is created truncating — an archive may hold a name twice (tar -r),
				// and the later, shorter entry must not keep the tail of the earlier one
				if trunc, okT := flagConst(p, "FlagTruncate"); okT {
					c.Check(k&trunc != 0, truncRule, fname(fn)+"|"+ord.next("creates-truncating"), p.Pos(cl.Pos()), "the destination is opened with O_TRUNC",
						fmt.Sprintf("%s creates the destination file without O_TRUNC: where an archive holds a name twice (an archive appended to with tar -r) the later, shorter entry is written over the earlier one and keeps its tail", fname(fn)))
				}
				mc, ok := args[2].(*ssa.Call)
				c.Check(ok && mc.Call.IsInvoke() && mc.Call.Method.Name() == "Mode", "R12.15", fname(fn)+"|"+ord.next("creates-with-the-entry-mode"), p.Pos(cl.Pos()), "the file is created with info.Mode()",
					fmt.Sprintf("%s creates a destination file with a mode that is not the entry's info.Mode()", fname(fn)))
			}
		})
	}
	if n == 0 {
		c.Hard("anchor: creation of destination files in package tar")
	}
}

// truncRule is the rule id under which the O_TRUNC clause of r12CreatesWithHeaderMode reports (R12.17, R13.16 under C13).
var truncRule = "R12.17"

// r12OpenWritesOnlyItsName (R12.16 / R15.18): an exported by-name method of the key-value FS saves back no record that
// it looked up under ANOTHER name than the one it was called with. Re-saving the parent record fetched at the start of
// OpenFile ("its ModTime moves forward") writes a stale copy: tar's background writer creating d/f overwrites the mode
// the reader's foreground Chmod(d) has just set, and the directory's final mode depends on the schedule.
func r12OpenWritesOnlyItsName(c *core.Ctx, p *load.Program, rule string) {
	sh := findKVShape(p)
	if sh == nil || sh.saveFn == nil {
		c.Hard("anchor: keyvalue.FS shape (save)")
		return
	}
	var names []string
	for n := range sh.methods {
		names = append(names, n)
	}
	sort.Strings(names)
	for _, mn := range names {
		fn := sh.methods[mn]
		if fn == nil || fn.Blocks == nil || fn.Object() == nil || !fn.Object().Exported() || len(fn.Params) < 2 || !isStr(fn.Params[1].Type()) {
			continue
		}
		isNameParam := func(v ssa.Value) bool {
			for _, q := range fn.Params[1:] {
				if isStr(q.Type()) && v == ssa.Value(q) {
					return true
				}
			}
			return false
		}
		bad := ""
		saves := 0
		ssax.Instrs(fn, func(ins ssa.Instruction) {
			cl, ok := ins.(*ssa.Call)
			if !ok || ssax.StaticCallee(cl) != sh.saveFn || len(cl.Call.Args) == 0 {
				return
			}
			saves++
			base := cl.Call.Args[0]
			if b, _, ok := ssax.FieldLoad(base); ok {
				base = b
			}
			if ctor, ok := base.(*ssa.Call); ok && sh.ctorFns[ssax.StaticCallee(ctor)] {
				return // a record built here
			}
			lp := sh.lookupPathOf(base, 0)
			if lp == nil {
				lp = sh.lookupPathOf(cl.Call.Args[0], 0)
			}
			if lp != nil && !isNameParam(lp) && bad == "" {
				bad = p.Pos(cl.Pos())
			}
		})
		if saves == 0 {
			continue
		}
		c.Check(bad == "", rule, fname(fn)+"|saves-only-records-of-its-own-name", p.Pos(fn.Pos()), "every saved record was built here or looked up under the method's own name",
			fmt.Sprintf("%s saves back, at %s, a record it looked up under another name than the one it was called with (the parent, say): the copy is as old as the look-up, so a change another goroutine made to that entry in between — a Chmod of the directory — is overwritten", fname(fn), bad))
	}
}
