package rules

import (
	"fmt"
	"go/types"
	"strings"

	"golang.org/x/tools/go/ssa"

	"hpfscheck/internal/core"
	"hpfscheck/internal/load"
	"hpfscheck/internal/ssax"
)

func runC13(c *core.Ctx) {
	runFixtures(c, "drop", "locks", "eofmap")
	c.Explain("Schedules and fault sequences cannot be enumerated statically; the orderings the code relies on can be checked on every path. Decided from source: (R13.1) the announce call (pubsub Emit) is made only from the writer of regular entries, after the destination file's Close on that path and only when the writer's result error is nil; every write to the file precedes it; (R13.2) the Close error of the written destination file takes part in that result (a failed Close blocks the announcement); (R13.3) in the tar FS's Open the destination is opened only after the wait for the name and on the nil edge of the unpack error, and an invalid name returns before waiting; (R13.4) in the reader goroutine the unpack error is stored before the cancel functions that release waiters are called, and both are called on every exit; (R13.5) the announce table's maps are accessed only under its mutex (writes under the write lock), the visited test and the subscription in Wait share one critical section, and marking visited and taking over the subscriber list in Emit share one write-locked section with the callbacks run after it; (R13.6) an Open that proceeds past the wait has a reason — the name was announced or the reader has finished; (R13.8) every buffer taken from a bounded pool is given back on every path on which the unpack continues — a leak blocks the reader, and with it Done and every pending Open; (R13.7) every background writer goroutine is registered with Add before it starts, calls Done on all its exits and sends every non-nil error on the error channel; (R13.9) the context whose Done channel the file system's Done() returns is derived from context.Background, not from the caller's context. (R13.10) no function of package tar compares an error with io.ErrUnexpectedEOF and, on that edge, returns nil or io.EOF — archive/tar reports a stream that ends inside an entry with exactly that error, and an entry written from such a stream must fail the unpack instead of being announced. (R13.11) the buffer pool never provisions more buffers than its channel holds, so the last Done() cannot block. (R13.12) only spawned writers send on the error channel; (R13.13) = R12.2 under C13. (R13.14) no function of package tar returns with a mutex held; (R13.15) pool buffers are allocated after the slot reservation succeeded. (R13.16) = R12.17 under C13. NOT claimed: completeness of bytes under every interleaving as such; liveness beyond R13.4/R13.7.")
	c.Assume("A2: sync, context, io semantics as documented")
	c.RuleDoc("R13.1", "announce after close, only on success, only from the writer")
	c.RuleDoc("R13.2", "close failure blocks the announcement")
	c.RuleDoc("R13.3", "Open: validate, wait, check error, then open")
	c.RuleDoc("R13.4", "error published before waiters are released; releases on every exit")
	c.RuleDoc("R13.5", "announce table lock discipline")
	c.RuleDoc("R13.6", "an Open that proceeds has a reason")
	c.RuleDoc("R13.9", "the context behind Done() is the reader's own")
	c.RuleDoc("R13.7", "background writers always report")
	c.RuleDoc("R13.14", "no function of package tar returns with a mutex held")
	c.RuleDoc("R13.16", "destination files are created with O_TRUNC (= R12.17)")
	c.RuleDoc("R13.15", "a pool buffer is allocated only after its slot was reserved in the pool's counter")
	c.RuleDoc("R13.12", "only spawned writers send on the error channel")
	c.RuleDoc("R13.13", "no error of a destination call is dropped (= R12.2)")
	c.RuleDoc("R13.11", "the buffer pool never provisions more buffers than its channel holds (Done and every Open return)")
	c.RuleDoc("R13.10", "io.ErrUnexpectedEOF (a truncated stream) is never turned into io.EOF or success")
	c.RuleDoc("R13.8", "pool buffers are returned on every continuing path (a leaked buffer blocks the reader, and with it Done and every pending Open, forever)")
	for _, p := range c.Progs {
		c.SetProg(p)
		sh := findTarShape(p)
		if sh == nil || sh.write == nil || sh.open == nil || sh.read == nil || sh.process == nil {
			c.Hard("anchor: tar.ReaderFS shape")
			continue
		}
		r13Announce(c, p, sh)
		r13Open(c, p, sh)
		r13Read(c, p, sh)
		r13Pubsub(c, p, sh)
		r13Writers(c, p, sh)
		r13Reason(c, p, sh)
		r12Buffers(c, p, sh, "R13.8")
		r13Truncation(c, p, "R13.10", pkgFuncs(p, "tar"))
		r12PoolBound(c, p, "R13.11")
		r13ReaderNeverSendsErrors(c, p)
		// R13.14: no function of package tar returns with a mutex held (a leaked announce-table lock blocks every later
		// Emit: the writers never finish, Done never closes, every Open waits for ever)
		r17NoLockLeakInHandles(c, p, pkgFuncs(p, "tar"), "R13.14")
		r13BuffersAreCounted(c, p, "R13.15")
		// R13.16 (= R12.17): a destination file is created truncating (a name that occurs twice must not yield a mix)
		if sh12 := findTarShape(p); sh12 != nil {
			truncRule = "R13.16"
			c.WithAlias(map[string]string{"R13.16": "R13.16"}, func() { r12CreatesWithHeaderMode(c, p, sh12) })
			truncRule = "R12.17"
		}
		// R13.13 (= R12.2): no error of a destination call is dropped — a directory whose mode could not be set fails the unpack
		if sh12 := findTarShape(p); sh12 != nil && sh12.destField != "" && sh12.readErr != nil {
			c.WithAlias(map[string]string{"R12.2": "R13.13"}, func() { r12Drop(c, p, sh12) })
		}
	}
	c.Floor("R13.1", 1)
	c.Floor("R13.2", 1)
	c.Floor("R13.3", 1)
	c.Floor("R13.4", 1)
	c.Floor("R13.5", 4)
	c.Floor("R13.6", 1)
	c.Floor("R13.9", 1)
	c.Floor("R13.7", 1)
	c.Floor("R13.8", 2)
	c.Floor("R13.12", 1)
	c.Floor("R13.14", 2)
	c.Floor("R13.15", 1)
	c.Floor("R13.16", 1)
	c.Floor("R13.13", 8)
}

func isEmit(ci ssa.CallInstruction) bool {
	callee := ssax.StaticCallee(ci)
	return callee != nil && callee.Name() == "Emit" && callee.Signature.Recv() != nil && strings.HasSuffix(typeString(callee.Signature.Recv().Type()), "pubsub")
}

func r13Announce(c *core.Ctx, p *load.Program, sh *tarShape) {
	// who calls Emit
	var sites []ssa.CallInstruction
	var owners []*ssa.Function
	for _, fn := range pkgFuncs(p, "tar") {
		ssax.Instrs(fn, func(ins ssa.Instruction) {
			if ci, ok := ins.(ssa.CallInstruction); ok && isEmit(ci) {
				sites = append(sites, ci)
				owners = append(owners, fn)
			}
		})
	}
	if len(sites) == 0 {
		c.Hard("R13.1: no announce (Emit) call found in package tar")
		return
	}
	for i, site := range sites {
		fn := owners[i]
		root := fn
		for root.Parent() != nil {
			root = root.Parent()
		}
		key := fname(fn) + "|announce"
		var probs []string
		if root != sh.write {
			probs = append(probs, "announce is called outside the regular-file writer")
		}
		// the destination file opened in the writer
		var dest *ssa.Call
		ssax.Instrs(sh.write, func(ins ssa.Instruction) {
			if cl := fieldInvoke(ins, sh.named, sh.destField, "OpenFile"); cl != nil {
				dest = cl
			}
		})
		// inside the deferred closure: Close of the file precedes Emit; Emit under result-error == nil
		closed, closeChecked := false, false
		var closeCall *ssa.Call
		ssax.Instrs(fn, func(ins ssa.Instruction) {
			cl, ok := ins.(*ssa.Call)
			if !ok || !cl.Call.IsInvoke() || cl.Call.Method.Name() != "Close" {
				return
			}
			if openedForWrite(p, cl.Call.Value, 0) == "write" && ssax.Dominates(cl, site) {
				closed = true
				closeCall = cl
			}
		})
		if !closed {
			probs = append(probs, "no Close of the written file dominates the announce")
		}
		// result error cell nil at the announce
		resNil := false
		var resCell ssa.Value
		for _, f := range ssax.FactsAtInstr(site) {
			x, eq, ok := ssax.NilTest(f.Cond)
			if !ok || eq != f.Val || !ssax.IsErrorType(x.Type()) {
				continue
			}
			if u, ok := x.(*ssa.UnOp); ok {
				if fv, ok := u.X.(*ssa.FreeVar); ok {
					if b := ssax.ResolveFreeVar(fv); b != nil && isResultCell(sh.write, b) {
						resNil = true
						resCell = fv
					}
				}
				if a, ok := u.X.(*ssa.Alloc); ok && isResultCell(sh.write, a) {
					resNil = true
					resCell = a
				}
			}
		}
		if !resNil {
			probs = append(probs, "announce is not guarded by 'the writer's result error is nil'")
		}
		// deferred: runs after every write of the writer body
		isDeferred := false
		if fn.Parent() == sh.write {
			ssax.Instrs(sh.write, func(ins ssa.Instruction) {
				if d, ok := ins.(*ssa.Defer); ok {
					if mc, ok := d.Call.Value.(*ssa.MakeClosure); ok && mc.Fn == fn {
						isDeferred = true
						if dest != nil && !ssax.Dominates(dest, d) {
							probs = append(probs, "the deferred announce is registered before the destination is opened")
						}
					}
				}
			})
		}
		if fn != sh.write && !isDeferred {
			probs = append(probs, "the announcing closure is not deferred by the writer (it could run before the writes)")
		}
		c.Check(len(probs) == 0, "R13.1", key, p.Pos(site.Pos()), "announce runs at the writer's exit, after Close, only when the result error is nil",
			fmt.Sprintf("%s: %s — an Open woken by the announcement could read a file that is not completely written or closed", fname(fn), strings.Join(probs, "; ")))
		// R13.2: the Close error flows into the result cell before the nil test
		if closeCall != nil {
			closeChecked = false
			if ssax.HasRealReferrers(closeCall) && resCell != nil {
				// stored into the result cell (possibly conditionally) before the announce
				seen := map[ssa.Value]bool{}
				var reach func(v ssa.Value, d int) bool
				reach = func(v ssa.Value, d int) bool {
					if d > 6 || seen[v] || v.Referrers() == nil {
						return false
					}
					seen[v] = true
					for _, r := range *v.Referrers() {
						switch x := r.(type) {
						case *ssa.Store:
							if x.Val == v && x.Addr == resCell {
								return true
							}
						case *ssa.Phi:
							if reach(x, d+1) {
								return true
							}
						case *ssa.Call:
							// wrapped (fserrors.WithMessage) then stored
							if reach(x, d+1) {
								return true
							}
						}
					}
					return false
				}
				closeChecked = reach(closeCall, 0)
			}
			c.Check(closeChecked, "R13.2", fname(fn)+"|close-error-blocks-announce", p.Pos(closeCall.Pos()), "the Close error is stored into the writer's result before the announce test",
				fmt.Sprintf("%s: the Close error of the written file is discarded before the entry is announced: a destination that commits on Close can fail there, the unpack reports success and Open serves a missing or partial file", fname(fn)))
		}
	}
}

// isResultCell: v is the Alloc holding a named error result of fn.
func isResultCell(fn *ssa.Function, v ssa.Value) bool {
	a, ok := v.(*ssa.Alloc)
	if !ok || a.Parent() != fn {
		return false
	}
	for _, r := range ssax.Returns(fn) {
		for _, res := range r.Results {
			if u, ok := res.(*ssa.UnOp); ok && u.X == ssa.Value(a) {
				return true
			}
		}
	}
	return false
}

func r13Open(c *core.Ctx, p *load.Program, sh *tarShape) {
	fn := sh.open
	var destOpen, wait *ssa.Call
	ssax.Instrs(fn, func(ins ssa.Instruction) {
		if cl := fieldInvoke(ins, sh.named, sh.destField, "Open"); cl != nil {
			destOpen = cl
		}
		if cl, ok := ins.(*ssa.Call); ok {
			if callee := ssax.StaticCallee(cl); callee != nil && callee.Name() == "Wait" && strings.HasSuffix(typeString(callee.Signature.Recv().Type()), "pubsub") {
				wait = cl
			}
		}
	})
	key := fname(fn) + "|wait-then-check"
	if destOpen == nil || wait == nil {
		c.Bad("R13.3", key, p.Pos(fn.Pos()), fmt.Sprintf("tar Open must wait for the entry and then open the destination (wait=%v open=%v)", wait != nil, destOpen != nil))
		return
	}
	var probs []string
	if !ssax.Dominates(wait, destOpen) {
		probs = append(probs, "the destination is opened without having waited for the entry")
	}
	if wait.Call.Args[1] != destOpen.Call.Args[0] {
		probs = append(probs, "waits for a different name than it opens")
	}
	errNil := false
	for _, f := range ssax.FactsAtInstr(destOpen) {
		x, eq, ok := ssax.NilTest(f.Cond)
		if !ok || eq != f.Val {
			continue
		}
		if cl := callProducing(x); cl != nil {
			if callee := ssax.StaticCallee(cl); callee != nil && returnsAtomicLoad(callee) && ssax.Dominates(wait, cl) {
				errNil = true
			}
		}
	}
	if !errNil {
		probs = append(probs, "the destination is opened without the unpack error, read after the wait, being nil")
	}
	// invalid name returns before waiting
	valid := false
	for _, f := range ssax.FactsAtInstr(wait) {
		if cl, ok := f.Cond.(*ssa.Call); ok && f.Val && isValidPathCall(cl) && cl.Call.Args[0] == wait.Call.Args[1] {
			valid = true
		}
	}
	if !valid {
		probs = append(probs, "waits (subscribes) for names that are not valid paths")
	}
	c.Check(len(probs) == 0, "R13.3", key, p.Pos(destOpen.Pos()), "validate, wait(name), unpack error nil, then open(name)",
		fmt.Sprintf("%s: %s", fname(fn), strings.Join(probs, "; ")))
}

// returnsAtomicLoad: fn returns a value loaded from an atomic.Value (the stored unpack error).
func returnsAtomicLoad(fn *ssa.Function) bool {
	found := false
	if fn.Blocks == nil {
		return false
	}
	ssax.Instrs(fn, func(ins ssa.Instruction) {
		if cl, ok := ins.(*ssa.Call); ok && ssax.CalleeIs(cl, "sync/atomic", "(*Value).Load") {
			found = true
		}
	})
	return found
}

func r13Read(c *core.Ctx, p *load.Program, sh *tarShape) {
	fn := sh.read
	// cancel functions: calls of func() values loaded from receiver fields of type context.CancelFunc
	isCancel := func(ins ssa.Instruction) bool {
		cl, ok := ins.(*ssa.Call)
		if !ok || cl.Call.IsInvoke() || ssax.StaticCallee(cl) != nil {
			return false
		}
		if _, isB := cl.Call.Value.(*ssa.Builtin); isB {
			return false
		}
		return strings.HasSuffix(typeString(cl.Call.Value.Type()), "CancelFunc")
	}
	var errCall *ssa.Call
	ssax.Instrs(fn, func(ins ssa.Instruction) {
		if cl, ok := ins.(*ssa.Call); ok && ssax.StaticCallee(cl) == sh.readErr {
			errCall = cl
		}
	})
	key := fname(fn) + "|publish-then-release"
	if errCall == nil {
		c.Bad("R13.4", key, p.Pos(fn.Pos()), "the reader goroutine does not call the read loop")
		return
	}
	var probs []string
	for _, nilness := range []ssax.Nilness{ssax.NonNil, ssax.IsNil} {
		init := ssax.NewPathState()
		init.SetNil(errCall, nilness)
		ssax.EnumPaths(fn, errCall.Block(), indexIn(errCall)+1, init, ssax.PathHooks{
			Instr: func(s *ssax.PathState, ins ssa.Instruction) {
				if cl, ok := ins.(*ssa.Call); ok && ssax.CalleeIs(cl, "sync/atomic", "(*Value).Store") {
					s.Counts["stored"] = 1
				}
				if isCancel(ins) {
					s.Counts["cancels"]++
					if nilness == ssax.NonNil && s.Counts["stored"] == 0 {
						probs = append(probs, fmt.Sprintf("waiters are released at %s before the unpack error is stored", p.Pos(ins.Pos())))
					}
				}
			},
			End: func(s *ssax.PathState, last ssa.Instruction) {
				if s.Counts["cancels"] < 2 {
					probs = append(probs, fmt.Sprintf("an exit at %s is reached with only %d of the 2 release calls (Open or Done would block forever)", p.Pos(last.Pos()), s.Counts["cancels"]))
				}
			},
		})
	}
	c.Check(len(probs) == 0, "R13.4", key, p.Pos(errCall.Pos()), "error stored before both release calls; both called on every exit",
		fmt.Sprintf("%s: %s", fname(fn), dedup(probs)))
}

func indexIn(ins ssa.Instruction) int {
	for i, x := range ins.Block().Instrs {
		if x == ins {
			return i
		}
	}
	return 0
}

func r13Pubsub(c *core.Ctx, p *load.Program, sh *tarShape) {
	ps := p.Named("tar", "pubsub")
	if ps == nil {
		c.Hard("anchor: tar.pubsub")
		return
	}
	st := ps.Underlying().(*types.Struct)
	var maps []string
	mu := ""
	for i := 0; i < st.NumFields(); i++ {
		f := st.Field(i)
		if _, ok := f.Type().Underlying().(*types.Map); ok {
			maps = append(maps, f.Name())
		}
		if strings.HasSuffix(f.Type().String(), "sync.RWMutex") || strings.HasSuffix(f.Type().String(), "sync.Mutex") {
			mu = f.Name()
		}
	}
	if mu == "" || len(maps) < 2 {
		c.Hard("anchor: tar.pubsub mutex + maps")
		return
	}
	isMap := func(n string) bool {
		for _, m := range maps {
			if m == n {
				return true
			}
		}
		return false
	}
	for _, fn := range pkgFuncs(p, "tar") {
		root := fn
		for root.Parent() != nil {
			root = root.Parent()
		}
		if root.Signature.Recv() == nil || namedOfPtr(root.Signature.Recv().Type()) != ps {
			// constructors initialise a fresh object
			continue
		}
		recv := recvParam(root)
		ls := ssax.Locksets(fn, true, nil)
		muAP := recv.Name() + "." + mu
		var probs []string
		n := 0
		// sections: number of Lock ops between first map access and last
		ssax.Instrs(fn, func(ins ssa.Instruction) {
			var mval ssa.Value
			write := false
			switch x := ins.(type) {
			case *ssa.MapUpdate:
				mval, write = x.Map, true
			case *ssa.Lookup:
				mval = x.X
			default:
				return
			}
			u, ok := mval.(*ssa.UnOp)
			if !ok {
				return
			}
			fa, ok := u.X.(*ssa.FieldAddr)
			if !ok || fa.X != ssa.Value(recv) || !isMap(ssax.FieldName(fa)) {
				return
			}
			n++
			held, ok := ls[ins][muAP]
			switch {
			case !ok:
				probs = append(probs, fmt.Sprintf("%s accessed at %s without %s held", ssax.FieldName(fa), p.Pos(ins.Pos()), muAP))
			case write && held != 'W':
				probs = append(probs, fmt.Sprintf("%s written at %s under a read lock only", ssax.FieldName(fa), p.Pos(ins.Pos())))
			}
		})
		if n == 0 {
			continue
		}
		key := fname(fn) + "|guarded-by:" + mu
		c.Check(len(probs) == 0, "R13.5", key, p.Pos(fn.Pos()), fmt.Sprintf("%d map accesses all under %s (writes under the write lock)", n, muAP),
			fmt.Sprintf("%s: %s — a data race on the announce table, or a lost wake-up", fname(fn), strings.Join(probs, "; ")))
		// single critical section between a visited test and the subscription / take-over
		switch fn.Name() {
		case "Wait", "Emit":
			r13OneSection(c, p, fn, recv, muAP, maps)
		}
	}
}

// r13OneSection: every write to the subscriber table (slice-valued map) happens in a critical section of the table's
// mutex that also reads or writes the visited table (bool-valued map): check-and-register / mark-and-take-over are atomic.
// In Emit, additionally, subscriber callbacks run with no lock held.
func r13OneSection(c *core.Ctx, p *load.Program, fn *ssa.Function, recv *ssa.Parameter, muAP string, maps []string) {
	key := fname(fn) + "|check-and-register-atomic"
	elemKind := func(v ssa.Value) string {
		if !isFieldMap(v, recv) {
			return ""
		}
		mt, ok := v.Type().Underlying().(*types.Map)
		if !ok {
			return ""
		}
		switch e := mt.Elem().Underlying().(type) {
		case *types.Basic:
			if e.Kind() == types.Bool {
				return "visited"
			}
		case *types.Slice:
			return "subs"
		}
		return ""
	}
	bad := ""
	writes := 0
	ssax.EnumPaths(fn, fn.Blocks[0], 0, nil, ssax.PathHooks{
		Instr: func(s *ssax.PathState, ins ssa.Instruction) {
			if cl, ok := ins.(*ssa.Call); ok {
				if op, ap := ssax.MutexOp(cl); ap == muAP {
					switch op {
					case ssax.OpLock, ssax.OpRLock:
						s.Counts["section"]++
						s.Counts["visitedTouched"] = 0
					case ssax.OpUnlock, ssax.OpRUnlock:
						s.Counts["visitedTouched"] = 0
					}
				}
			}
			switch x := ins.(type) {
			case *ssa.Lookup:
				if elemKind(x.X) == "visited" {
					s.Counts["visitedTouched"] = 1
				}
			case *ssa.MapUpdate:
				switch elemKind(x.Map) {
				case "visited":
					s.Counts["visitedTouched"] = 1
				case "subs":
					writes++
					if s.Counts["visitedTouched"] == 0 && bad == "" {
						bad = p.Pos(ins.Pos())
					}
				}
			}
		},
	})
	if writes == 0 {
		return
	}
	callbacksLocked := false
	ls := ssax.Locksets(fn, false, nil)
	ssax.Instrs(fn, func(ins ssa.Instruction) {
		if x, ok := ins.(*ssa.Call); ok && !x.Call.IsInvoke() && ssax.StaticCallee(x) == nil {
			if _, isB := x.Call.Value.(*ssa.Builtin); !isB && len(ls[ins]) > 0 {
				callbacksLocked = true
			}
		}
	})
	c.Check(bad == "" && !callbacksLocked, "R13.5", key, p.Pos(fn.Pos()), "subscriber table written only in a critical section that also consults/marks the visited table; callbacks run unlocked",
		fmt.Sprintf("%s: the subscriber table is written at %s in a critical section that neither tests nor marks the visited table (callbacks-under-lock=%v): an announcement between the test and the registration is lost and the waiter sleeps until the stream ends", fname(fn), bad, callbacksLocked))
}

func isFieldMap(v ssa.Value, recv *ssa.Parameter) bool {
	u, ok := v.(*ssa.UnOp)
	if !ok {
		return false
	}
	fa, ok := u.X.(*ssa.FieldAddr)
	return ok && fa.X == ssa.Value(recv)
}

func r13Writers(c *core.Ctx, p *load.Program, sh *tarShape) {
	fn := sh.process
	ord := ordinals{}
	ssax.Instrs(fn, func(ins ssa.Instruction) {
		g, ok := ins.(*ssa.Go)
		if !ok {
			return
		}
		mc, ok := g.Call.Value.(*ssa.MakeClosure)
		if !ok {
			return
		}
		cf := mc.Fn.(*ssa.Function)
		key := fname(fn) + "|" + ord.next("background-writer")
		var probs []string
		// Add precedes go (same block, earlier)
		added := false
		for _, i2 := range g.Block().Instrs {
			if i2 == ssa.Instruction(g) {
				break
			}
			if cl, ok := i2.(*ssa.Call); ok && ssax.CalleeIs(cl, "sync", "(*WaitGroup).Add") {
				added = true
			}
		}
		if !added {
			probs = append(probs, "wg.Add does not precede the go statement")
		}
		// Done on all exits (deferred or on every path)
		deferredDone := false
		ssax.Instrs(cf, func(i2 ssa.Instruction) {
			if d, ok := i2.(*ssa.Defer); ok && ssax.CalleeIs(d, "sync", "(*WaitGroup).Done") {
				deferredDone = true
			}
		})
		if !deferredDone {
			all := true
			ssax.EnumPaths(cf, cf.Blocks[0], 0, nil, ssax.PathHooks{
				Instr: func(s *ssax.PathState, i2 ssa.Instruction) {
					if cl, ok := i2.(*ssa.Call); ok && ssax.CalleeIs(cl, "sync", "(*WaitGroup).Done") {
						s.Counts["done"] = 1
					}
				},
				End: func(s *ssax.PathState, _ ssa.Instruction) {
					if s.Counts["done"] == 0 {
						all = false
					}
				},
			})
			if !all {
				probs = append(probs, "a path of the goroutine exits without wg.Done (the reader waits forever)")
			}
		}
		// errors are sent: covered by R12.2's dropped-error analysis of the same closure; here: a Send exists if it has fallible calls
		fallible, sends := 0, 0
		ssax.Instrs(cf, func(i2 ssa.Instruction) {
			if ci, ok := i2.(ssa.CallInstruction); ok && ssax.ErrorResultIndex(ci.Common().Signature()) >= 0 {
				fallible++
			}
			if _, ok := i2.(*ssa.Send); ok {
				sends++
			}
		})
		if fallible > 0 && sends == 0 {
			probs = append(probs, "the goroutine makes fallible calls but never sends on the error channel")
		}
		c.Check(len(probs) == 0, "R13.7", key, p.Pos(g.Pos()), "Add before go; Done on every exit; errors sent on the channel",
			fmt.Sprintf("%s: %s", fname(cf), strings.Join(probs, "; ")))
	})
}

// r13Reason (R13.6): the context whose cancellation releases Wait must be controlled by the reader alone
// (derived from context.Background and cancelled after the error is stored), or Open must re-check after Wait that
// the name was announced / the reader is done. A context derived from the caller's lets a caller-side cancellation
// release Open while the reader is still writing and has stored no error.
func r13Reason(c *core.Ctx, p *load.Program, sh *tarShape) {
	var ctor *ssa.Function
	var mk *ssa.Call
	for _, fn := range pkgFuncs(p, "tar") {
		ssax.Instrs(fn, func(ins ssa.Instruction) {
			if cl, ok := ins.(*ssa.Call); ok {
				if callee := ssax.StaticCallee(cl); callee != nil && callee.Signature.Recv() == nil && callee.Signature.Results().Len() == 1 {
					if n := namedOfPtr(callee.Signature.Results().At(0).Type()); n != nil && n.Obj().Name() == "pubsub" && len(cl.Call.Args) == 1 {
						ctor, mk = fn, cl
					}
				}
			}
		})
	}
	key := "tar.ReaderFS|release-context"
	if mk == nil {
		c.Hard("R13.6: constructor call of the announce table not found")
		return
	}
	// provenance of the context argument
	var from func(v ssa.Value, d int) string
	from = func(v ssa.Value, d int) string {
		if d > 6 {
			return "unknown"
		}
		switch x := v.(type) {
		case *ssa.Parameter:
			return "caller"
		case *ssa.Extract:
			if cl, ok := x.Tuple.(*ssa.Call); ok && (ssax.CalleeIs(cl, "context", "WithCancel") || ssax.CalleeIs(cl, "context", "WithTimeout") || ssax.CalleeIs(cl, "context", "WithDeadline")) {
				return from(cl.Call.Args[0], d+1)
			}
		case *ssa.Call:
			if ssax.CalleeIs(x, "context", "Background") || ssax.CalleeIs(x, "context", "TODO") {
				return "reader"
			}
		case *ssa.UnOp:
			if a, ok := x.X.(*ssa.Alloc); ok {
				stores, _ := ssax.CellStores(a)
				res := ""
				for _, st := range stores {
					r := from(st.Val, d+1)
					if res == "" || r == "caller" {
						res = r
					}
				}
				if res != "" {
					return res
				}
			}
		case *ssa.Phi:
			res := "reader"
			for _, e := range x.Edges {
				if r := from(e, d+1); r != "reader" {
					res = r
				}
			}
			return res
		}
		return "unknown"
	}
	src := from(mk.Call.Args[0], 0)
	// alternative: Open re-checks after Wait (a second look at the announce table or the reader-done context)
	rechecks := false
	var wait *ssa.Call
	ssax.Instrs(sh.open, func(ins ssa.Instruction) {
		if cl, ok := ins.(*ssa.Call); ok {
			if callee := ssax.StaticCallee(cl); callee != nil && callee.Name() == "Wait" {
				wait = cl
			}
		}
	})
	if wait != nil {
		ssax.Instrs(sh.open, func(ins ssa.Instruction) {
			cl, ok := ins.(*ssa.Call)
			if !ok || !ssax.Dominates(wait, cl) || cl == wait {
				return
			}
			if cl.Call.IsInvoke() && (cl.Call.Method.Name() == "Done" || cl.Call.Method.Name() == "Err") && strings.HasSuffix(typeString(cl.Call.Value.Type()), "Context") {
				rechecks = true
			}
			if callee := ssax.StaticCallee(cl); callee != nil && callee.Signature.Recv() != nil && strings.HasSuffix(typeString(callee.Signature.Recv().Type()), "pubsub") && callee.Name() != "Wait" {
				rechecks = true
			}
		})
	}
	// R13.9: the channel Done() hands out belongs to the reader alone: the context behind it is not derived from the
	// caller's. Otherwise Done() closes the instant the caller cancels — before the reader stored an error.
	if done := methodsOf(p, sh.named)["Done"]; done != nil && ctor != nil {
		field := ""
		ssax.Instrs(done, func(ins ssa.Instruction) {
			if cl, ok := ins.(*ssa.Call); ok && cl.Call.IsInvoke() && cl.Call.Method.Name() == "Done" {
				if _, fi, isF := ssax.FieldLoad(cl.Call.Value); isF {
					if st, ok := sh.named.Underlying().(*types.Struct); ok && fi < st.NumFields() {
						field = st.Field(fi).Name()
					}
				}
			}
		})
		k9 := "tar.ReaderFS.Done|reader-owned-context"
		if field == "" {
			c.Bad("R13.9", k9, p.Pos(done.Pos()), "Done() does not return the Done channel of a context kept in the file system value")
		} else {
			prov := ""
			ssax.Instrs(ctor, func(ins ssa.Instruction) {
				if st, ok := ins.(*ssa.Store); ok {
					if fa, ok := st.Addr.(*ssa.FieldAddr); ok && ssax.FieldName(fa) == field {
						if n := ssax.StructOfFieldAddr(fa); n != nil && types.Identical(n, sh.named) {
							prov = from(st.Val, 0)
						}
					}
				}
			})
			c.Check(prov == "reader", "R13.9", k9, p.Pos(done.Pos()), fmt.Sprintf("the context behind Done() (%s) is derived from context.Background and cancelled by the reader", field),
				fmt.Sprintf("tar.ReaderFS.Done() returns the Done channel of %s, which the constructor derives from the caller's context (provenance: %s): Done() closes as soon as the caller cancels, while the reader is still inside an entry and has stored no error — after Done(), UnarchiveErr() is nil and Open returns a prefix of the entry", field, prov))
		}
	}
	c.Check(src == "reader" || rechecks, "R13.6", key, p.Pos(mk.Pos()), "waiters are released only by the reader (announcement, or its own done-context after the error is stored), or Open re-checks after the wait",
		fmt.Sprintf("%s: the context that releases every Wait is derived from the caller's context (%s): when the caller cancels, Open stops waiting before the reader has stored an error or finished the entry, finds no unpack error and opens the destination — it can return a big file that is still being written, or report a missing file as not existing instead of failing with the cancellation", fname(ctor), src))
}

// r13ReaderNeverSendsErrors (R13.12): a send on an error channel happens only inside a spawned goroutine (a closure
// started with go): the error channel has one slot and is drained by the reader between entries — if the reader's own
// goroutine sends while a background writer's error already sits in the slot, it blocks for ever: the stream never
// ends, Done() never closes and every pending Open hangs. The reader returns its errors.
func r13ReaderNeverSendsErrors(c *core.Ctx, p *load.Program) {
	goClosures := map[*ssa.Function]bool{}
	for _, fn := range pkgFuncs(p, "tar") {
		ssax.Instrs(fn, func(ins ssa.Instruction) {
			if g, ok := ins.(*ssa.Go); ok {
				if mc, ok := g.Call.Value.(*ssa.MakeClosure); ok {
					goClosures[mc.Fn.(*ssa.Function)] = true
				}
			}
		})
	}
	n := 0
	for _, fn := range pkgFuncs(p, "tar") {
		ord := ordinals{}
		ssax.Instrs(fn, func(ins ssa.Instruction) {
			sd, ok := ins.(*ssa.Send)
			if !ok {
				return
			}
			ch, ok := sd.Chan.Type().Underlying().(*types.Chan)
			if !ok || !ssax.IsErrorType(ch.Elem()) {
				return
			}
			n++
			inGo := false
			for f := fn; f != nil; f = f.Parent() {
				if goClosures[f] {
					inGo = true
				}
			}
			c.Check(inGo, "R13.12", fname(fn)+"|"+ord.next("error-sent-from-a-spawned-writer"), p.Pos(sd.Pos()), "the send is made by a spawned goroutine",
				fmt.Sprintf("%s sends on the error channel from the reader's own goroutine: the channel holds one error and only the reader drains it — with a background writer's error already queued the send blocks for ever, the stream never ends, Done() never closes and every pending Open hangs", fname(fn)))
		})
	}
	if n == 0 {
		c.Hard("anchor: sends on the error channel in package tar")
	}
}

// r13BuffersAreCounted (R13.15 / R12.16): the pool's capacity argument — at most cap(channel) buffers exist, so
// handing one back never blocks — needs every buffer to be counted: each allocation of the pool's element type in
// package tar is dominated by the success edge of the atomic reservation of a slot (CompareAndSwap on the counter).
// A buffer put into the channel "directly, nothing else can see the pool yet" makes cap+1 buffers possible; the last
// Done() then blocks for ever inside a writer, the unpack never ends and Opens of missing names hang.
func r13BuffersAreCounted(c *core.Ctx, p *load.Program, rule string) {
	n := 0
	for _, fn := range pkgFuncs(p, "tar") {
		ord := ordinals{}
		ssax.Instrs(fn, func(ins ssa.Instruction) {
			a, ok := ins.(*ssa.Alloc)
			if !ok || !a.Heap {
				return
			}
			st, ok := a.Type().(*types.Pointer).Elem().Underlying().(*types.Struct)
			if !ok {
				return
			}
			// the pool's element type: a struct with a field that points back to a struct holding a channel of it
			isElem := false
			for i := 0; i < st.NumFields(); i++ {
				pt, ok := st.Field(i).Type().(*types.Pointer)
				if !ok {
					continue
				}
				ps, ok := pt.Elem().Underlying().(*types.Struct)
				if !ok {
					continue
				}
				for j := 0; j < ps.NumFields(); j++ {
					if ch, ok := ps.Field(j).Type().Underlying().(*types.Chan); ok && types.Identical(ch.Elem(), a.Type()) {
						isElem = true
					}
				}
			}
			if !isElem {
				return
			}
			n++
			key := fname(fn) + "|" + ord.next("buffer-allocated-after-reservation")
			reserved := false
			for _, f := range ssax.FactsAtInstr(a) {
				if cl, ok := f.Cond.(*ssa.Call); ok && f.Val {
					if callee := ssax.StaticCallee(cl); callee != nil && callee.Pkg != nil && callee.Pkg.Pkg.Path() == "sync/atomic" && strings.HasPrefix(callee.Name(), "CompareAndSwap") {
						reserved = true
					}
				}
			}
			c.Check(reserved, rule, key, p.Pos(a.Pos()), "the allocation follows the successful reservation of a slot",
				fmt.Sprintf("%s allocates a pool buffer without having reserved its slot in the pool's counter (no dominating successful CompareAndSwap): more buffers than the channel's capacity can exist, and the Done() that hands the last one back blocks for ever — inside a writer the unpack waits for", fname(fn)))
		})
	}
	if n == 0 {
		c.Hard("anchor: allocation of the buffer pool's element type in package tar")
	}
}
