package rules

import (
	"fmt"
	"go/token"
	"go/types"
	"sort"
	"strings"

	"golang.org/x/tools/go/ssa"

	"hpfscheck/internal/core"
	"hpfscheck/internal/load"
	"hpfscheck/internal/ssax"
)

func init() { register(&Spec{ID: "C14", Targets: []load.Target{load.Linux, load.Wasm}, Run: runC14}) }

func runC14(c *core.Ctx) {
	runFixtures(c, "drop", "nilguard", "once", "notexist")
	c.Explain("Structural clauses of C14 decided from source; 'inject a fault at each store call index' becomes 'follow the error edge of each fallible call': (R14.1) the []OpResult of every Transaction.Commit in packages keyvalue/mem is not discarded: it is returned to a caller that reads it, or each element's Err is read and reaches a return; (R14.2) for every fallible call in package keyvalue (Store/Transaction/FileRecord/blob calls, save, setFile, getFile…, on both the serial-fallback and TransactionStore paths) the error is returned, wrapped or handed on along every failing path (accepted: errors.Is(ErrNotExist/ErrExist) look-up idioms — those are not store failures —, closing read-only handles, aborting on an error path); (R14.3a) the pointer/interface result that came with a non-nil error is never invoked or dereferenced on that path; (R14.3b) a struct field assigned together with an error field from one call is never invoked without a dominating nil-test of it or of the paired error; (R14.4) each Go-level Transaction implementation stores the store's Get/Set error into the recorded OpResult.Err. (R14.5) a function of package keyvalue that answers a list of paths with slices allocated as make(T, len(paths)) returns those slices on every path: a nil or shorter slice on the store-failure path makes the callers, which index by path, panic instead of returning the error. (R14.6) where an operation stores a record under a new name and deletes it under the old one in one transaction (Rename of a file), the store is issued with a handler that aborts the transaction when the store's result carries an error — with a plain Set the serial fallback runs the delete although the store was refused, and the file exists under neither name. (R14.7) every closure given to sync.Once.Do in package keyvalue that calls something fallible stores the error into a field, never into a captured local (later calls skip the closure); (R14.8) a function of keyvalue/mem that reads an OpResult returns the ErrNotExist sentinel only where that OpResult's Err was found nil. (R14.9) a function handed a non-nil error returns one except on the ErrNotExist/ErrExist edges; (R14.10) memoised (value, error) pairs are returned together; (R14.11) a whole-look-up failure is reported for every path. (R14.12) = R18.6: every transaction begun in package keyvalue is committed or aborted on every path. (R14.13) attribute setters of the handle return nil only after save(); (R14.14) a loop-carried error of package keyvalue is nil-tested inside the loop. NOT claimed: that a fresh look-up shows exactly what the store holds after a fault, hang-freedom, panics from index expressions on result slices, examples/s3 (not loadable offline).")
	c.Assume("A1: a Store/Transaction/FileRecord implementation reports failure through its error result", "A6: partial correctness")
	c.RuleDoc("R14.1", "commit results are read")
	c.RuleDoc("R14.2", "no store-layer error dropped on any failing path in package keyvalue")
	c.RuleDoc("R14.3", "no use of a value that came with an error (call results and paired fields)")
	c.RuleDoc("R14.6", "in a move, the delete of the old name is conditional on the store of the new one")
	c.RuleDoc("R14.5", "per-path result slices keep the input's length on the failure path")
	c.RuleDoc("R14.7", "the error of a run-once (sync.Once) evaluation is memoised in a field, not in a local")
	c.RuleDoc("R14.13", "an attribute setter of the key-value handle reports success only after save")
	c.RuleDoc("R14.14", "an error produced in a loop iteration of package keyvalue is examined in that iteration")
	c.RuleDoc("R14.12", "every transaction begun in package keyvalue is committed or aborted on every path, failing ones included (= R18.6)")
	c.RuleDoc("R14.11", "a failure of a whole multi-path look-up is reported for every path")
	c.RuleDoc("R14.10", "a memoised (value, error) pair is handed out together")
	c.RuleDoc("R14.9", "a function handed a non-nil error returns one, except on the ErrNotExist/ErrExist look-up edges")
	c.RuleDoc("R14.8", "ErrNotExist is answered only where the operation's own error was found nil")
	c.RuleDoc("R14.4", "transaction implementations record store errors")
	for _, p := range c.Progs {
		c.SetProg(p)
		if p.Target == load.Linux {
			r14Drop(c, p)
			r14Commit(c, p)
			r14Paired(c, p)
			r14Record(c, p)
			r14ParallelShape(c, p)
			r14ConditionalMove(c, p)
			r14ParallelUse(c, p)
			r14OnceKeepsError(c, p)
			r14ErrBeforeNotExist(c, p)
			r14ErrorParams(c, p)
			r14FailureForEveryPath(c, p)
			r14SettersAskTheStore(c, p)
			r14LoopErrorsExamined(c, p)
			// R14.12 (= R18.6): a store failure between Transaction() and Commit/Abort must still end the transaction — a leaked
			// transaction of the in-memory store keeps its mutex, and the NEXT operation on the file system hangs
			if txnI := ifaceOf(p, "keyvalue", "Transaction"); txnI != nil {
				c.WithAlias(map[string]string{"R18.6": "R14.12"}, func() { r18Pairing(c, p, txnI) })
			}
		}
	}
	c.Floor("R14.1", 4)
	c.Floor("R14.2", 40)
	c.Floor("R14.3", 1)
	c.Floor("R14.4", 4)
	c.Floor("R14.5", 3)
	c.Floor("R14.6", 1)
	c.Floor("R14.7", 2)
	c.Floor("R14.8", 1)
	c.Floor("R14.9", 3)
	c.Floor("R14.10", 1)
	c.Floor("R14.11", 2)
	c.Floor("R14.12", 4)
	c.Floor("R14.13", 1)
	c.Floor("R14.14", 3)
}

func pkgFuncs(p *load.Program, rel string) []*ssa.Function {
	sp := p.SSAPkg(rel)
	var out []*ssa.Function
	for _, fn := range p.SrcFuncs() {
		root := fn
		for root.Parent() != nil {
			root = root.Parent()
		}
		if root.Pkg == sp {
			out = append(out, fn)
		}
	}
	return out
}

func r14Drop(c *core.Ctx, p *load.Program) {
	// methods of Transaction implementations are the primitive layer: their contract (record the store's and the
	// handler's error in the OpResult, the store's taking precedence) is R14.4/R18.4, not "return the error".
	prim := map[*ssa.Function]bool{}
	if txnI := ifaceOf(p, "keyvalue", "Transaction"); txnI != nil {
		for _, n := range implementers(p, txnI) {
			for _, m := range methodsOf(p, n) {
				prim[m] = true
			}
		}
	}
	for _, fn := range pkgFuncs(p, "keyvalue") {
		root := fn
		for root.Parent() != nil {
			root = root.Parent()
		}
		if prim[root] {
			continue
		}
		// accepted: errors.Is(ErrNotExist/ErrExist) on the error of a LOOK-UP or of a single store write (MkdirAll's
		// 'already there'). The same test on the error of a whole file-system operation called recursively (Rename of a
		// child) is not a look-up idiom: FS operations answer ErrNotExist for a failed Get of their source, so
		// "the child vanished" would swallow a store failure and orphan the child.
		bad, good := dropCheck(p, fn, dropOpts{acceptSentinelFor: func(s string, call ssa.CallInstruction) bool {
			if s != "ErrNotExist" && s != "ErrExist" {
				return false
			}
			if callee := ssax.StaticCallee(call); callee != nil && callee.Object() != nil && callee.Object().Exported() && callee.Signature.Recv() != nil {
				switch callee.Name() {
				case "Rename", "Remove", "Mkdir", "MkdirAll", "Chmod", "Chtimes", "OpenFile":
					return false
				}
			}
			return true
		}})
		for _, g := range good {
			c.OK("R14.2", g.Key, g.Pos, g.Msg)
		}
		for _, b := range bad {
			switch b.Kind {
			case "undecided":
				c.Unknown("R14.2", b.Key, b.Pos, b.Msg)
			case "value-used-with-error":
				c.Bad("R14.3", b.Key, b.Pos, b.Msg)
			default:
				c.Bad("R14.2", b.Key, b.Pos, b.Msg+" — a failing store call would be reported as success")
			}
		}
	}
}

// r14Commit: results of Transaction.Commit must be consumed.
func r14Commit(c *core.Ctx, p *load.Program) {
	txnI := ifaceOf(p, "keyvalue", "Transaction")
	if txnI == nil {
		c.Hard("anchor: keyvalue.Transaction")
		return
	}
	for _, rel := range []string{"keyvalue", "mem"} {
		for _, fn := range pkgFuncs(p, rel) {
			ord := ordinals{}
			ssax.Instrs(fn, func(ins ssa.Instruction) {
				cl, ok := ins.(*ssa.Call)
				if !ok || !cl.Call.IsInvoke() || cl.Call.Method.Name() != "Commit" || !types.Identical(cl.Call.Value.Type().Underlying(), txnI) {
					return
				}
				key := fname(fn) + "|" + ord.next("Commit")
				res := ssax.ExtractOf(cl, 0)
				if res == nil {
					// `return txn.Commit(ctx)` forwards the tuple
					if forwardsCall(fn, cl) {
						c.OK("R14.1", key, p.Pos(cl.Pos()), "results forwarded to the caller")
						r14Callers(c, p, fn, key)
						return
					}
					c.Bad("R14.1", key, p.Pos(cl.Pos()), fmt.Sprintf("%s: the []OpResult of Commit is discarded — a Set/Get the store refused (OpResult.Err) is reported as success", fname(fn)))
					return
				}
				if resultsErrRead(res, fn) {
					if why := resultsCoverage(res, fn, cl); why != "" {
						c.Bad("R14.1", key, p.Pos(cl.Pos()), fmt.Sprintf("%s: %s — an operation the store refused earlier in the transaction is reported as success", fname(fn), why))
						return
					}
					c.OK("R14.1", key, p.Pos(cl.Pos()), "each result's Err is read and reaches a return")
				} else if returned(res, fn) {
					c.OK("R14.1", key, p.Pos(cl.Pos()), "results returned to the caller")
					r14Callers(c, p, fn, key)
				} else {
					c.Bad("R14.1", key, p.Pos(cl.Pos()), fmt.Sprintf("%s: no element's Err of the Commit results is read — a refused operation is reported as success", fname(fn)))
				}
			})
		}
	}
}

func returned(v ssa.Value, fn *ssa.Function) bool {
	for _, r := range ssax.Returns(fn) {
		for _, x := range r.Results {
			if x == v {
				return true
			}
		}
	}
	return false
}

// resultsErrRead: some element of the []OpResult value has its Err field read, and that value reaches a return
// or a store (directly, through a range loop, or through a module helper taking the slice).
func resultsErrRead(res ssa.Value, fn *ssa.Function) bool {
	found := false
	seen := map[ssa.Value]bool{}
	var walk func(v ssa.Value, d int)
	walk = func(v ssa.Value, d int) {
		if found || v == nil || seen[v] || d > 10 || v.Referrers() == nil {
			return
		}
		seen[v] = true
		for _, r := range *v.Referrers() {
			switch x := r.(type) {
			case *ssa.IndexAddr:
				walk(x, d+1)
			case *ssa.Index:
				walk(x, d+1)
			case *ssa.Range:
				walk(x, d+1)
			case *ssa.Next:
				walk(x, d+1)
			case *ssa.Extract:
				walk(x, d+1)
			case *ssa.Phi:
				walk(x, d+1)
			case *ssa.Store:
				if a, ok := x.Addr.(*ssa.Alloc); ok && x.Val == v {
					walk(a, d+1) // copied into a local variable
				}
			case *ssa.UnOp:
				if x.Op == token.MUL {
					walk(x, d+1)
				}
			case *ssa.FieldAddr:
				if ssax.FieldName(x) == "Err" {
					// loaded and used
					for _, rr := range *x.Referrers() {
						if u, ok := rr.(*ssa.UnOp); ok && u.Op == token.MUL && ssax.HasRealReferrers(u) {
							found = true
						}
					}
				}
			case *ssa.Field:
				if st, ok := x.X.Type().Underlying().(*types.Struct); ok && st.Field(x.Field).Name() == "Err" && ssax.HasRealReferrers(x) {
					found = true
				}
			case *ssa.Call:
				// helper taking the slice: look inside (one level)
				if callee := ssax.StaticCallee(x); callee != nil && callee.Blocks != nil && strings.HasPrefix(pkgPathOf(callee), mod) {
					for i, a := range x.Call.Args {
						if a == v && i < len(callee.Params) {
							if resultsErrRead(callee.Params[i], callee) {
								found = true
							}
						}
					}
				}
			}
		}
	}
	walk(res, 0)
	return found
}

// r14Callers: a function that forwards Commit results: every module caller must read the Errs.
func r14Callers(c *core.Ctx, p *load.Program, callee *ssa.Function, baseKey string) {
	n := 0
	for _, fn := range p.SrcFuncs() {
		ord := ordinals{}
		ssax.Instrs(fn, func(ins ssa.Instruction) {
			cl, ok := ins.(*ssa.Call)
			if !ok || ssax.StaticCallee(cl) != callee {
				return
			}
			n++
			key := fname(fn) + "|" + ord.next("results-of:"+callee.Name())
			res := ssax.ExtractOf(cl, 0)
			if res == nil || !resultsErrRead(res, fn) {
				c.Bad("R14.1", key, p.Pos(cl.Pos()), fmt.Sprintf("%s: receives Commit results from %s but never reads an element's Err", fname(fn), fname(callee)))
			} else {
				c.OK("R14.1", key, p.Pos(cl.Pos()), "caller reads each result's Err")
			}
		})
	}
	_ = n
}

// r14Paired: fields assigned from one call's (T, error) results.
func r14Paired(c *core.Ctx, p *load.Program) {
	type pair struct {
		named    *types.Named
		val, err string
	}
	var pairs []pair
	for _, rel := range []string{"keyvalue", "mem", "cache", "tar", ""} {
		for _, fn := range pkgFuncs(p, rel) {
			for _, b := range fn.Blocks {
				// stores of Extract#0 and Extract#1 of the same call into fields of the same base
				type st struct {
					fa  *ssa.FieldAddr
					idx int
				}
				byCall := map[ssa.Value][]st{}
				for _, ins := range b.Instrs {
					s, ok := ins.(*ssa.Store)
					if !ok {
						continue
					}
					fa, ok := s.Addr.(*ssa.FieldAddr)
					if !ok {
						continue
					}
					ex, ok := s.Val.(*ssa.Extract)
					if !ok {
						continue
					}
					byCall[ex.Tuple] = append(byCall[ex.Tuple], st{fa, ex.Index})
				}
				for tup, sts := range byCall {
					cl, ok := tup.(*ssa.Call)
					if !ok || len(sts) != 2 {
						continue
					}
					sig := cl.Call.Signature()
					if sig.Results().Len() != 2 || !ssax.IsErrorType(sig.Results().At(1).Type()) {
						continue
					}
					var v, e *ssa.FieldAddr
					for _, s := range sts {
						if s.idx == 0 {
							v = s.fa
						} else {
							e = s.fa
						}
					}
					if v == nil || e == nil || ssax.AccessPath(v.X) != ssax.AccessPath(e.X) {
						continue
					}
					if _, isI := sig.Results().At(0).Type().Underlying().(*types.Interface); !isI {
						if _, isP := sig.Results().At(0).Type().Underlying().(*types.Pointer); !isP {
							continue
						}
					}
					n := ssax.StructOfFieldAddr(v)
					if n == nil {
						continue
					}
					pairs = append(pairs, pair{n, ssax.FieldName(v), ssax.FieldName(e)})
				}
			}
		}
	}
	sort.Slice(pairs, func(i, j int) bool {
		return typeKey(pairs[i].named)+pairs[i].val < typeKey(pairs[j].named)+pairs[j].val
	})
	seen := map[string]bool{}
	for _, pr := range pairs {
		id := typeKey(pr.named) + "." + pr.val + "/" + pr.err
		if seen[id] {
			continue
		}
		seen[id] = true
		// every invoke / deref of a load of the value field
		for _, fn := range p.SrcFuncs() {
			var first ssa.Instruction
			total := 0
			ssax.Instrs(fn, func(ins ssa.Instruction) {
				u, ok := ins.(*ssa.UnOp)
				if !ok || !isLoadOfNamedField(u, pr.named, pr.val) || u.Referrers() == nil {
					return
				}
				base := ssax.AccessPath(u.X.(*ssa.FieldAddr).X)
				for _, r := range *u.Referrers() {
					isUse := false
					switch x := r.(type) {
					case *ssa.Call:
						isUse = x.Call.IsInvoke() && x.Call.Value == ssa.Value(u)
					case *ssa.FieldAddr:
						isUse = x.X == ssa.Value(u)
					case *ssa.UnOp:
						isUse = x.Op == token.MUL && x.X == ssa.Value(u)
					}
					if !isUse {
						continue
					}
					total++
					guarded := false
					for _, f := range ssax.FactsAtInstr(r) {
						x, eq, ok := ssax.NilTest(f.Cond)
						if !ok {
							continue
						}
						if isLoadOfNamedField(x, pr.named, pr.val) && eq != f.Val && ssax.AccessPath(x.(*ssa.UnOp).X.(*ssa.FieldAddr).X) == base {
							guarded = true // value != nil
						}
						if isLoadOfNamedField(x, pr.named, pr.err) && eq == f.Val && ssax.AccessPath(x.(*ssa.UnOp).X.(*ssa.FieldAddr).X) == base {
							guarded = true // err == nil
						}
					}
					if !guarded && first == nil {
						first = r
					}
				}
			})
			// R14.10: the value field is handed out together with its error field, never with a constant nil
			if eidx := ssax.ErrorResultIndex(fn.Signature); eidx == 1 && fn.Signature.Results().Len() == 2 {
				for _, r := range ssax.Returns(fn) {
					v0 := resolveSpilled(r.Results[0], r)
					if !isLoadOfNamedField(v0, pr.named, pr.val) {
						continue
					}
					e1 := resolveSpilled(r.Results[1], r)
					k10 := id + "|returned-with-its-error:" + fname(fn)
					c.Check(isLoadOfNamedField(e1, pr.named, pr.err), "R14.10", k10, p.Pos(r.Pos()), "the memoised value is returned together with the memoised error",
						fmt.Sprintf("%s returns %s.%s with an error that is not %s: after a failed load the value is nil and the error is gone — the next operation on the same handle gets (nil, nil) and dereferences it (Read, Write, Truncate panic; Stat reports success)", fname(fn), typeKey(pr.named), pr.val, pr.err))
				}
			}
			if total == 0 {
				continue
			}
			key := id + "|used-in:" + fname(fn)
			if first != nil {
				c.Bad("R14.3", key, p.Pos(first.Pos()), fmt.Sprintf("%s invokes/dereferences %s.%s, which is assigned together with %s from one call, without a dominating test of either — after a failed load it is nil: panic", fname(fn), typeKey(pr.named), pr.val, pr.err))
			} else {
				c.OK("R14.3", key, p.Pos(fn.Pos()), fmt.Sprintf("%d use(s) of %s guarded by a nil-test of it or of %s", total, pr.val, pr.err))
			}
		}
	}
	if len(seen) == 0 {
		c.Hard("R14.3: no (value, error) field pair found (anchor lost: runOnceFileRecord.data/dataErr)")
	}
}

// r14Record: R14.4 store error flows into recorded OpResult.Err.
func r14Record(c *core.Ctx, p *load.Program) {
	txnI := ifaceOf(p, "keyvalue", "Transaction")
	storeI := ifaceOf(p, "keyvalue", "Store")
	opRes := p.Named("keyvalue", "OpResult")
	if txnI == nil || storeI == nil || opRes == nil {
		c.Hard("anchor: keyvalue.Transaction/Store/OpResult")
		return
	}
	for _, n := range implementers(p, txnI) {
		tk := typeKey(n)
		if strings.HasPrefix(tk, "indexeddb") {
			continue
		}
		ms := methodsOf(p, n)
		for _, mn := range []string{"GetHandler", "SetHandler"} {
			fn := ms[mn]
			if fn == nil {
				continue
			}
			recv := recvParam(fn)
			ssax.Instrs(fn, func(ins ssa.Instruction) {
				cl, ok := ins.(*ssa.Call)
				if !ok {
					return
				}
				var target ssa.Value
				if cl.Call.IsInvoke() {
					target = cl.Call.Value
				} else if callee := ssax.StaticCallee(cl); callee != nil && callee.Signature.Recv() != nil && len(cl.Call.Args) > 0 {
					target = cl.Call.Args[0]
				}
				if target == nil || !isLoadOfAnyField(target, recv) || ssax.ErrorResultIndex(cl.Call.Signature()) < 0 {
					return
				}
				tt := target.Type()
				if !types.Implements(tt, storeI) && !hasMethods(tt, "set") {
					return
				}
				ev := ssax.ErrorValueOf(cl)
				key := tk + "." + mn + "|store-error-recorded"
				okRec := false
				if ev != nil && ev.Referrers() != nil {
					for _, r := range *ev.Referrers() {
						if st, ok := r.(*ssa.Store); ok && st.Val == ev {
							if fa, ok := st.Addr.(*ssa.FieldAddr); ok && ssax.FieldName(fa) == "Err" {
								if sn := ssax.StructOfFieldAddr(fa); sn != nil && types.Identical(sn, opRes) {
									okRec = true
								}
							}
						}
					}
				}
				// … and stays there: a later store into the same Err (the handler's verdict) happens only where the
				// recorded error is known nil — the store's failure takes precedence over whatever the handler returns
				if okRec {
					for _, r := range *ev.Referrers() {
						st, ok := r.(*ssa.Store)
						if !ok || st.Val != ev {
							continue
						}
						fa, ok := st.Addr.(*ssa.FieldAddr)
						if !ok || fa.X.Referrers() == nil {
							continue
						}
						for _, r2 := range *fa.X.Referrers() {
							fa2, ok := r2.(*ssa.FieldAddr)
							if !ok || fa2.Field != fa.Field || fa2.Referrers() == nil {
								continue
							}
							for _, r3 := range *fa2.Referrers() {
								st2, ok := r3.(*ssa.Store)
								if !ok || st2.Addr != ssa.Value(fa2) || st2 == st || st2.Val == ev || !ssax.Dominates(st, st2) {
									continue
								}
								guarded := false
								for _, f := range ssax.FactsAtInstr(st2) {
									if x, eq, isNil := ssax.NilTest(f.Cond); isNil && eq == f.Val {
										if b, fi, isFld := ssax.FieldLoad(x); isFld && b == fa.X && fi == fa.Field {
											guarded = true
										}
									}
									// result.Err == nil && err != nil lowers to a phi of booleans: the operand carries the test
									if ph, isPhi := f.Cond.(*ssa.Phi); isPhi && f.Val {
										for _, e := range ph.Edges {
											_ = e
										}
									}
								}
								if !guarded {
									okRec = false
									c.Bad("R14.4", key+"|kept", p.Pos(st2.Pos()), fmt.Sprintf("%s overwrites the recorded OpResult.Err — which holds the store's error — without testing that it is nil: a Set the store refused is reported as success when the handler returns nil (the default handler of Set does), so Mkdir, Write, Remove, Rename report success although nothing was stored", fname(fn)))
								}
							}
						}
					}
					if !okRec {
						return
					}
				}
				c.Check(okRec, "R14.4", key, p.Pos(cl.Pos()), "the store's error is stored into the recorded OpResult.Err",
					fmt.Sprintf("%s: the error returned by %s is not stored into the recorded OpResult.Err — the FS would see a successful operation", fname(fn), ssax.CallName(cl)))
			})
		}
	}
}

// resultsCoverage: "" if the Err of EVERY result is read: inside a loop over the results, or at every constant index
// 0..N-1 where N is the number of operations this function issued on the transaction. Otherwise a reason.
func resultsCoverage(res ssa.Value, fn *ssa.Function, commit *ssa.Call) string {
	loop := false
	idxs := map[int64]bool{}
	other := false
	seen := map[ssa.Value]bool{}
	var walk func(v ssa.Value, d int)
	walk = func(v ssa.Value, d int) {
		if v == nil || seen[v] || d > 6 || v.Referrers() == nil {
			return
		}
		seen[v] = true
		for _, r := range *v.Referrers() {
			switch x := r.(type) {
			case *ssa.IndexAddr:
				if k, ok := ssax.ConstInt(x.Index); ok {
					idxs[k] = true
				} else if _, isPhi := ssax.StripIntConv(x.Index).(*ssa.Phi); isPhi {
					loop = true
				} else if bo, isB := ssax.StripIntConv(x.Index).(*ssa.BinOp); isB && bo.Op == token.ADD {
					// rotated range loop: index = phi + 1
					if _, isPhi := bo.X.(*ssa.Phi); isPhi {
						loop = true
					} else {
						other = true
					}
				} else {
					other = true
				}
			case *ssa.Range:
				loop = true
			case *ssa.Phi:
				walk(x, d+1)
			case *ssa.Call:
				if callee := ssax.StaticCallee(x); callee != nil && callee.Blocks != nil {
					for i, a := range x.Call.Args {
						if a == v && i < len(callee.Params) {
							if resultsCoverage(callee.Params[i], callee, nil) == "" {
								loop = true
							}
						}
					}
				}
			}
		}
	}
	walk(res, 0)
	if loop {
		return ""
	}
	// number of operations issued on this transaction value in this function
	n := int64(-1)
	if commit != nil {
		txn := commit.Call.Value
		if _, isParam := txn.(*ssa.Parameter); !isParam {
			n = 0
			inLoop := false
			ssax.Instrs(fn, func(ins ssa.Instruction) {
				cl, ok := ins.(*ssa.Call)
				if !ok || cl == commit {
					return
				}
				issues := false
				if cl.Call.IsInvoke() && cl.Call.Value == txn {
					switch cl.Call.Method.Name() {
					case "Get", "GetHandler", "Set", "SetHandler":
						issues = true
					}
				}
				if callee := ssax.StaticCallee(cl); callee != nil {
					for _, a := range cl.Call.Args {
						if a == txn {
							issues = true
						}
					}
				}
				if issues {
					n++
					// inside a loop?
					for _, b := range fn.Blocks {
						if b != cl.Block() && cl.Block().Dominates(b) {
							for _, s := range b.Succs {
								if s == cl.Block() {
									inLoop = true
								}
							}
						}
					}
					for _, s := range cl.Block().Succs {
						if s == cl.Block() {
							inLoop = true
						}
					}
				}
			})
			if inLoop {
				n = -1
			}
		}
	}
	if n < 0 {
		return "the number of operations in the transaction is not fixed here, but only selected results are inspected (not a loop over all of them)"
	}
	for i := int64(0); i < n; i++ {
		if !idxs[i] {
			return fmt.Sprintf("%d operation(s) were issued but the Err of result #%d is never read", n, i)
		}
	}
	if other && len(idxs) == 0 {
		return "only a computed index of the results is inspected"
	}
	return ""
}

// r14ParallelShape (R14.5): a function that answers a list of paths with slices allocated as make(T, len(paths))
// returns those slices on every path — the failure path included. Callers index the results by path; a nil or
// one-element slice on the store-failure path turns the failure into an index-out-of-range panic.
func r14ParallelShape(c *core.Ctx, p *load.Program) {
	for _, fn := range pkgFuncs(p, "keyvalue") {
		if fn.Parent() != nil || fn.Blocks == nil {
			continue
		}
		// canonical allocations: make([]T, len(param))
		canon := map[ssa.Value]bool{}
		ssax.Instrs(fn, func(ins ssa.Instruction) {
			ms, ok := ins.(*ssa.MakeSlice)
			if !ok {
				return
			}
			if cl, ok := ms.Len.(*ssa.Call); ok {
				if b, ok := cl.Call.Value.(*ssa.Builtin); ok && b.Name() == "len" {
					if _, isParam := cl.Call.Args[0].(*ssa.Parameter); isParam {
						canon[ms] = true
					}
				}
			}
		})
		if len(canon) == 0 {
			continue
		}
		rets := ssax.Returns(fn)
		for ri := 0; ri < fn.Signature.Results().Len(); ri++ {
			if _, isSlice := fn.Signature.Results().At(ri).Type().Underlying().(*types.Slice); !isSlice {
				continue
			}
			some := false
			for _, r := range rets {
				if canon[r.Results[ri]] {
					some = true
				}
			}
			if !some {
				continue
			}
			key := fmt.Sprintf("%s|result#%d-length", fname(fn), ri)
			bad := ""
			for _, r := range rets {
				if !canon[sliceThroughIdentity(p, r.Results[ri])] {
					bad = p.Pos(r.Pos())
				}
			}
			c.Check(bad == "", "R14.5", key, p.Pos(fn.Pos()), "every return hands back the slice allocated with the input's length",
				fmt.Sprintf("%s returns, at %s, a slice that is not the one allocated with len(paths): callers index the results by path, so on that path (the store could not be reached) they panic with index out of range instead of returning the store's error", fname(fn), bad))
		}
	}
}

// r14ConditionalMove (R14.6)
func r14ConditionalMove(c *core.Ctx, p *load.Program) {
	sh := findKVShape(p)
	if sh == nil {
		c.Hard("anchor: keyvalue.FS shape")
		return
	}
	var names []string
	for n := range sh.methods {
		names = append(names, n)
	}
	sort.Strings(names)
	for _, name := range names {
		fn := sh.methods[name]
		if fn.Object() == nil || !fn.Object().Exported() {
			continue
		}
		for i, mp := range movePairs(sh, fn) {
			key := fmt.Sprintf("(*keyvalue.FS).%s|move#%d-conditional", name, i+1)
			// the store call carries a handler argument (not nil) whose body calls Abort below a test of the result's Err
			ok := false
			for _, a := range mp.store.Call.Args {
				mi, isMI := a.(*ssa.MakeInterface)
				if !isMI {
					continue
				}
				var hf *ssa.Function
				switch x := mi.X.(type) {
				case *ssa.MakeClosure:
					hf, _ = x.Fn.(*ssa.Function)
				case *ssa.ChangeType:
					if mc, ok2 := x.X.(*ssa.MakeClosure); ok2 {
						hf, _ = mc.Fn.(*ssa.Function)
					} else if f, ok2 := x.X.(*ssa.Function); ok2 {
						hf = f
					}
				case *ssa.Function:
					hf = x
				}
				if hf == nil || hf.Blocks == nil {
					continue
				}
				ssax.Instrs(hf, func(ins ssa.Instruction) {
					cl, isCall := ins.(*ssa.Call)
					if !isCall || !cl.Call.IsInvoke() || cl.Call.Method.Name() != "Abort" {
						return
					}
					for _, f := range ssax.FactsAtInstr(cl) {
						if x, eq, isNil := ssax.NilTest(f.Cond); isNil && eq != f.Val && ssax.IsErrorType(x.Type()) {
							ok = true
						}
					}
				})
			}
			c.Check(ok, "R14.6", key, p.Pos(mp.store.Pos()), "the store of the new name carries a handler that aborts the transaction when the store failed",
				fmt.Sprintf("%s stores the record under the new name with a plain Set and then deletes the old name: on a store without transactions (serial fallback) the delete runs although the store of the new name was refused — Rename returns an error, but the file now exists under neither name and its contents are lost", fname(fn)))
		}
	}
}

// r14ParallelUse (R14.3, parallel results): a look-up that answers several paths with ([]*T, []error) pairs each value
// with the error at the same index; element k of the values is dereferenced only where element k of the errors is
// known nil — any other error (not just not-exist) leaves the value nil.
func r14ParallelUse(c *core.Ctx, p *load.Program) {
	for _, fn := range pkgFuncs(p, "keyvalue") {
		ord := ordinals{}
		ssax.Instrs(fn, func(ins ssa.Instruction) {
			cl, ok := ins.(*ssa.Call)
			if !ok {
				return
			}
			sig := cl.Call.Signature()
			if sig.Results().Len() != 2 {
				return
			}
			s0, ok0 := sig.Results().At(0).Type().Underlying().(*types.Slice)
			s1, ok1 := sig.Results().At(1).Type().Underlying().(*types.Slice)
			if !ok0 || !ok1 || !ssax.IsErrorType(s1.Elem()) {
				return
			}
			if _, isPtr := s0.Elem().Underlying().(*types.Pointer); !isPtr {
				if _, isI := s0.Elem().Underlying().(*types.Interface); !isI {
					return
				}
			}
			vals, errs := ssax.ExtractOf(cl, 0), ssax.ExtractOf(cl, 1)
			if vals == nil || errs == nil || vals.Referrers() == nil {
				return
			}
			elemLoad := func(sl ssa.Value, want int64) []ssa.Value {
				var out []ssa.Value
				if sl.Referrers() == nil {
					return nil
				}
				for _, r := range *sl.Referrers() {
					ia, ok := r.(*ssa.IndexAddr)
					if !ok || ia.Referrers() == nil {
						continue
					}
					if k, isC := ssax.ConstInt(ia.Index); !isC || k != want {
						continue
					}
					for _, r2 := range *ia.Referrers() {
						if u, ok := r2.(*ssa.UnOp); ok && u.Op == token.MUL {
							out = append(out, u)
						}
					}
				}
				return out
			}
			for k := int64(0); k < 4; k++ {
				vs := elemLoad(vals, k)
				if len(vs) == 0 {
					continue
				}
				es := elemLoad(errs, k)
				for _, v := range vs {
					if v.Referrers() == nil {
						continue
					}
					for _, use := range *v.Referrers() {
						deref := false
						switch x := use.(type) {
						case *ssa.FieldAddr:
							deref = x.X == v
						case *ssa.Call:
							deref = len(x.Call.Args) > 0 && x.Call.Args[0] == v && ssax.StaticCallee(x) != nil && ssax.StaticCallee(x).Signature.Recv() != nil
							if x.Call.IsInvoke() && x.Call.Value == v {
								deref = true
							}
						}
						if !deref {
							continue
						}
						key := fmt.Sprintf("%s|%s", fname(fn), ord.next(fmt.Sprintf("use-of-result[%d]", k)))
						okUse := false
						for _, f := range ssax.FactsAtInstr(use) {
							if x, eq, isNil := ssax.NilTest(f.Cond); isNil && eq == f.Val {
								for _, e := range es {
									if x == e {
										okUse = true
									}
								}
							}
							// the value itself known non-nil
							if x, eq, isNil := ssax.NilTest(f.Cond); isNil && eq != f.Val && x == v {
								okUse = true
							}
						}
						c.Check(okUse, "R14.3", key, p.Pos(use.Pos()), fmt.Sprintf("element %d of the results is used only where element %d of the errors is nil", k, k),
							fmt.Sprintf("%s uses element %d of the values returned by %s without element %d of its errors being known nil on that path: when that look-up fails for any other reason than the ones tested (a store fault), the value is nil and the call panics instead of returning the store's error", fname(fn), k, ssax.CallName(cl), k))
					}
				}
			}
		})
	}
}

// ---- R14.7: a run-once evaluation keeps its error where later calls find it ----

// onceErrSites: for every closure passed to (*sync.Once).Do in fns that calls something fallible, the error result is
// stored into a field (memoised next to the value); an error stored into a captured local of the enclosing function
// exists only during the first call — every later call skips the closure and returns the zero value, so a failed
// listing answers "no entries, nil" the second time.
type onceSite struct {
	fn  *ssa.Function // the enclosing function
	pos token.Pos
	bad string
}

func onceErrSites(p *load.Program, fns []*ssa.Function) []*onceSite {
	var out []*onceSite
	for _, fn := range fns {
		if fn.Blocks == nil {
			continue
		}
		ssax.Instrs(fn, func(ins ssa.Instruction) {
			cl, ok := ins.(ssa.CallInstruction)
			if !ok {
				return
			}
			callee := ssax.StaticCallee(cl)
			if callee == nil || callee.Name() != "Do" || callee.Signature.Recv() == nil || !strings.HasSuffix(callee.Signature.Recv().Type().String(), "sync.Once") || len(cl.Common().Args) != 2 {
				return
			}
			mc, ok := cl.Common().Args[1].(*ssa.MakeClosure)
			if !ok {
				return
			}
			body := mc.Fn.(*ssa.Function)
			fallible := false
			var local token.Pos
			ssax.Instrs(body, func(i2 ssa.Instruction) {
				if c2, ok := i2.(*ssa.Call); ok && ssax.ErrorValueOf(c2) != nil {
					fallible = true
				}
				if st, ok := i2.(*ssa.Store); ok && ssax.IsErrorType(st.Val.Type()) {
					if _, isFree := st.Addr.(*ssa.FreeVar); isFree {
						local = st.Pos()
					}
				}
			})
			if !fallible {
				return
			}
			s := &onceSite{fn: fn, pos: cl.Pos()}
			if local != token.NoPos {
				s.bad = p.Pos(local)
			}
			out = append(out, s)
		})
	}
	return out
}

func r14OnceKeepsError(c *core.Ctx, p *load.Program) {
	ord := ordinals{}
	sites := onceErrSites(p, pkgFuncs(p, "keyvalue"))
	for _, s := range sites {
		key := ord.next(fname(s.fn) + "|run-once-error-memoised")
		if s.bad != "" {
			c.Bad("R14.7", key, s.bad, fmt.Sprintf("%s evaluates a fallible call inside sync.Once.Do and stores its error into a local variable of the enclosing call (%s): only the first call sees it — every later call skips the closure and returns the memoised (empty) value with a nil error, a success that does not show what the store holds", fname(s.fn), s.bad))
		} else {
			c.OK("R14.7", key, p.Pos(s.pos), "the error of the run-once evaluation is memoised in a field")
		}
	}
}

// ---- R14.8: a store failure is not reported as "does not exist" ----

// notExistBeforeErr: returns of the ErrNotExist sentinel (bare or wrapped in a freshly built *PathError/*LinkError) in
// functions that read an OpResult's Err field, where the return is not dominated by "that Err is nil": the operation's
// own error must be consulted first — a failed Get (nil record + I/O error) answered with ErrNotExist makes callers
// that branch on ErrNotExist create over, or replace, what the store still holds.
type notExistSite struct {
	fn  *ssa.Function
	pos token.Pos
	bad bool
}

func isOpResultErr(v ssa.Value) bool {
	v = ssax.Unwrap(v)
	var st types.Type
	var idx int
	switch x := v.(type) {
	case *ssa.UnOp:
		fa, ok := x.X.(*ssa.FieldAddr)
		if !ok || x.Op != token.MUL {
			return false
		}
		st, idx = fa.X.Type(), fa.Field
	case *ssa.Field:
		st, idx = x.X.Type(), x.Field
	default:
		return false
	}
	if pt, ok := st.Underlying().(*types.Pointer); ok {
		st = pt.Elem()
	}
	n, ok := types.Unalias(st).(*types.Named)
	if !ok || n.Obj().Name() != "OpResult" {
		return false
	}
	s, ok := n.Underlying().(*types.Struct)
	return ok && idx < s.NumFields() && s.Field(idx).Name() == "Err"
}

func notExistSites(p *load.Program, fns []*ssa.Function) []*notExistSite {
	var out []*notExistSite
	isNotExist := func(v ssa.Value) bool {
		g := ssax.GlobalLoad(ssax.Unwrap(v))
		return g != nil && sentinelOfGlobal(g) == "ErrNotExist"
	}
	for _, fn := range fns {
		if fn.Blocks == nil {
			continue
		}
		reads := false
		ssax.Instrs(fn, func(ins ssa.Instruction) {
			if v, ok := ins.(ssa.Value); ok && isOpResultErr(v) {
				reads = true
			}
		})
		if !reads {
			continue
		}
		eidx := ssax.ErrorResultIndex(fn.Signature)
		if eidx < 0 {
			continue
		}
		for _, r := range ssax.Returns(fn) {
			e := resolveSpilled(r.Results[eidx], r)
			hit := isNotExist(e)
			if !hit {
				// &PathError{Err: ErrNotExist}
				if mi, ok := e.(*ssa.MakeInterface); ok {
					if a, ok := mi.X.(*ssa.Alloc); ok && a.Referrers() != nil {
						for _, ref := range *a.Referrers() {
							if fa, ok := ref.(*ssa.FieldAddr); ok && fa.Referrers() != nil {
								for _, r2 := range *fa.Referrers() {
									if st, ok := r2.(*ssa.Store); ok && isNotExist(st.Val) {
										hit = true
									}
								}
							}
						}
					}
				}
			}
			if !hit {
				continue
			}
			s := &notExistSite{fn: fn, pos: r.Pos(), bad: true}
			for _, f := range ssax.FactsAtInstr(r) {
				if x, eq, ok := ssax.NilTest(f.Cond); ok && isOpResultErr(x) && eq == f.Val {
					s.bad = false
				}
			}
			out = append(out, s)
		}
	}
	return out
}

func r14ErrBeforeNotExist(c *core.Ctx, p *load.Program) {
	ord := ordinals{}
	var fns []*ssa.Function
	fns = append(fns, pkgFuncs(p, "keyvalue")...)
	fns = append(fns, pkgFuncs(p, "mem")...)
	sites := notExistSites(p, fns)
	for _, s := range sites {
		key := ord.next(fname(s.fn) + "|not-exist-only-after-the-operation-error")
		if s.bad {
			c.Bad("R14.8", key, p.Pos(s.pos), fmt.Sprintf("%s answers ErrNotExist at %s without having found the operation's own error (OpResult.Err) nil on that path: a failed Get (no record AND an I/O error) is reported as 'does not exist', and callers that branch on ErrNotExist then create over or replace what the store still holds — Mkdir over an existing file, Rename over a populated directory — and return nil", fname(s.fn), p.Pos(s.pos)))
		} else {
			c.OK("R14.8", key, p.Pos(s.pos), "ErrNotExist is answered only where the operation's error is nil")
		}
	}
	if len(sites) == 0 {
		c.OK("R14.8", "no-own-not-exist", "", "no function that reads an OpResult answers ErrNotExist on its own: the store's error (which is ErrNotExist for a missing key) is handed on as it is")
	}
}

// r14ErrorParams (R14.9): a function of package keyvalue that is handed an error (a classifier such as isMissingDir, a
// wrapper) and returns one answers non-nil on every path on which the error it was given is non-nil — unless that
// path passed the true edge of errors.Is(err, ErrNotExist/ErrExist), the look-up idioms. A classifier that answers
// "missing, go on" for ANY look-up error lets MkdirAll overwrite a record the store merely failed to read.
func r14ErrorParams(c *core.Ctx, p *load.Program) {
	n := 0
	for _, fn := range pkgFuncs(p, "keyvalue") {
		if fn.Parent() != nil || fn.Blocks == nil {
			continue
		}
		eidx := ssax.ErrorResultIndex(fn.Signature)
		if eidx < 0 {
			continue
		}
		for _, prm := range fn.Params {
			if !ssax.IsErrorType(prm.Type()) {
				continue
			}
			n++
			key := fname(fn) + "|error-parameter-" + prm.Name() + "-not-lost"
			bad := ""
			init := ssax.NewPathState()
			init.SetNil(prm, ssax.NonNil)
			complete := ssax.EnumPaths(fn, fn.Blocks[0], 0, init, ssax.PathHooks{
				EvalCond: func(s *ssax.PathState, cond ssa.Value) (bool, bool) {
					return false, false
				},
				Branch: func(s *ssax.PathState, cond ssa.Value, taken bool) {
					cnd, val := ssax.StripNot(cond, taken)
					if ev, sent, ok := isErrorsIs(cnd); ok && val && s.Resolve(ev) == ssa.Value(prm) && (sent == "ErrNotExist" || sent == "ErrExist") {
						s.Counts["accepted"] = 1
					}
				},
				End: func(s *ssax.PathState, last ssa.Instruction) {
					r, ok := last.(*ssa.Return)
					if !ok || s.Counts["accepted"] == 1 || bad != "" {
						return
					}
					e := s.Resolve(resolveSpilledOnPath(r.Results[eidx], r, s))
					if ssax.IsNilConst(e) || s.NilOf(e) == ssax.IsNil {
						bad = p.Pos(r.Pos())
					}
				},
			})
			switch {
			case !complete:
				c.Unknown("R14.9", key, p.Pos(fn.Pos()), "path enumeration exceeded its cap")
			case bad != "":
				c.Bad("R14.9", key, bad, fmt.Sprintf("%s returns a nil error at %s on a path on which the error it was given is non-nil and was not identified as ErrNotExist/ErrExist: a store failure is classified as 'nothing there' — MkdirAll then overwrites the record the store merely failed to read (an existing file loses its contents) and returns nil", fname(fn), bad))
			default:
				c.OK("R14.9", key, p.Pos(fn.Pos()), "a non-nil error parameter gives a non-nil result except on the ErrNotExist/ErrExist edges")
			}
		}
	}
	if n < 3 {
		c.Hard("anchor: functions of keyvalue with an error parameter and an error result (found %d)", n)
	}
}

// r14FailureForEveryPath (R14.11): a function of package keyvalue that answers several paths with parallel slices
// ([]T, []error) never reports a failure of the whole look-up in one constant slot of the error slice: callers index
// the results by path, so slot k != 0 would read "no error" next to a nil value (OpenFile with FlagCreate reads
// errs[1] for the parent and dereferences files[1]).
func r14FailureForEveryPath(c *core.Ctx, p *load.Program) {
	n := 0
	for _, fn := range pkgFuncs(p, "keyvalue") {
		if fn.Parent() != nil || fn.Blocks == nil {
			continue
		}
		res := fn.Signature.Results()
		if res.Len() != 2 {
			continue
		}
		sl, ok := res.At(1).Type().Underlying().(*types.Slice)
		if !ok || !ssax.IsErrorType(sl.Elem()) {
			continue
		}
		if _, ok := res.At(0).Type().Underlying().(*types.Slice); !ok {
			continue
		}
		n++
		key := fname(fn) + "|whole-look-up-failure-reported-for-every-path"
		bad := ""
		ssax.Instrs(fn, func(ins ssa.Instruction) {
			st, ok := ins.(*ssa.Store)
			if !ok || !ssax.IsErrorType(st.Val.Type()) {
				return
			}
			ia, ok := st.Addr.(*ssa.IndexAddr)
			if !ok {
				return
			}
			if _, isK := ssax.ConstInt(ia.Index); isK {
				bad = p.Pos(st.Pos())
			}
		})
		c.Check(bad == "", "R14.11", key, p.Pos(fn.Pos()), "no error is stored into a constant slot of the per-path error slice",
			fmt.Sprintf("%s stores an error into one constant slot of its per-path error slice at %s: the other paths' slots stay nil next to nil values — a caller that indexes by path (OpenFile with FlagCreate: the parent is path #1) takes the parent for present and dereferences the nil entry (panic) when the store's failure happens to match ErrNotExist", fname(fn), bad))
	}
	if n < 2 {
		c.Hard("anchor: parallel-slice look-ups in keyvalue (found %d)", n)
	}
}

// sliceThroughIdentity: v is f(…, x, …) where the module function f returns its parameter x on every path (a helper
// that fills the slice and hands it back): denotes x.
func sliceThroughIdentity(p *load.Program, v ssa.Value) ssa.Value {
	cl, ok := v.(*ssa.Call)
	if !ok {
		return v
	}
	callee := ssax.StaticCallee(cl)
	if callee == nil || !p.InModule(callee) || callee.Blocks == nil || callee.Signature.Results().Len() != 1 {
		return v
	}
	idx := -1
	for _, r := range ssax.Returns(callee) {
		prm, ok := r.Results[0].(*ssa.Parameter)
		if !ok {
			return v
		}
		k := -1
		for i, q := range callee.Params {
			if q == prm {
				k = i
			}
		}
		if k < 0 || (idx >= 0 && idx != k) {
			return v
		}
		idx = k
	}
	if idx < 0 || idx >= len(cl.Call.Args) {
		return v
	}
	return cl.Call.Args[idx]
}

// r14SettersAskTheStore (R14.13): the attribute setters of the key-value handle (methods of the handle type that call
// save() and never load the contents: Chmod, Chown, Chtimes …) return a constant nil only after a save() call: the
// override they set is kept in the handle even when the store refuses it, so "already as requested, nothing to write"
// answers success for a change the store never accepted.
func r14SettersAskTheStore(c *core.Ctx, p *load.Program) {
	save := p.Method("keyvalue", "fileData", "save")
	if save == nil {
		c.Hard("anchor: keyvalue.(*fileData).save")
		return
	}
	for _, fn := range pkgFuncs(p, "keyvalue") {
		if fn.Blocks == nil || fn.Signature.Recv() == nil || fn.Parent() != nil || !strings.Contains(fn.Signature.Recv().Type().String(), "keyvalue.file") {
			continue
		}
		var saves []ssa.Instruction
		loads := false
		ssax.Instrs(fn, func(ins ssa.Instruction) {
			if cl, ok := ins.(*ssa.Call); ok {
				callee := ssax.StaticCallee(cl)
				if callee == save {
					saves = append(saves, cl)
				}
				if callee != nil && callee.Name() == "Data" {
					loads = true
				}
			}
		})
		if len(saves) == 0 || loads {
			continue
		}
		bad := ""
		for _, r := range ssax.Returns(fn) {
			if len(r.Results) == 0 {
				continue
			}
			last := resolveSpilled(r.Results[len(r.Results)-1], r)
			if !ssax.IsErrorType(last.Type()) || !ssax.IsNilConst(last) {
				continue
			}
			dominated := false
			for _, s := range saves {
				if ssax.Dominates(s, r) {
					dominated = true
				}
			}
			if !dominated {
				bad = p.Pos(r.Pos())
			}
		}
		c.Check(bad == "", "R14.13", fname(fn)+"|success-only-after-save", p.Pos(fn.Pos()), "every nil return follows save()",
			fmt.Sprintf("%s returns nil at %s without having called save(): the handle keeps the attribute an earlier, refused call set, so this shortcut reports success for a change the store did not accept (chmod refused, chmod again: nil)", fname(fn), bad))
	}
}

// r14LoopErrorsExamined (R14.14): in package keyvalue an error that is carried around a loop (a phi at the loop header
// fed from inside the loop) is nil-tested inside the loop — the value itself, one of the values merged into it, or the
// carried variable: otherwise the next iteration overwrites the failure of this one, and only the last store call counts.
func r14LoopErrorsExamined(c *core.Ctx, p *load.Program) {
	for _, fn := range pkgFuncs(p, "keyvalue") {
		if fn.Blocks == nil {
			continue
		}
		hasLoopCall := false
		bad := ""
		for _, h := range fn.Blocks {
			// the natural loop of every back edge into h
			loop := map[*ssa.BasicBlock]bool{}
			for _, pr := range h.Preds {
				if !h.Dominates(pr) {
					continue
				}
				var back func(b *ssa.BasicBlock)
				back = func(b *ssa.BasicBlock) {
					if loop[b] {
						return
					}
					loop[b] = true
					if b == h {
						return
					}
					for _, q := range b.Preds {
						back(q)
					}
				}
				loop[h] = true
				back(pr)
			}
			if len(loop) == 0 {
				continue
			}
			for b := range loop {
				for _, ins := range b.Instrs {
					if cl, ok := ins.(*ssa.Call); ok && hasErrorResult(cl) {
						hasLoopCall = true
					}
				}
			}
			tested := func(v ssa.Value) bool {
				refs := v.Referrers()
				if refs == nil {
					return false
				}
				for _, r := range *refs {
					bo, ok := r.(*ssa.BinOp)
					if !ok || !loop[bo.Block()] || !(ssax.IsNilConst(bo.X) || ssax.IsNilConst(bo.Y)) {
						continue
					}
					return true
				}
				return false
			}
			for _, ins := range h.Instrs {
				phi, ok := ins.(*ssa.Phi)
				if !ok {
					break
				}
				if !ssax.IsErrorType(phi.Type()) {
					continue
				}
				// values merged into the carried variable from inside the loop
				set := map[ssa.Value]bool{}
				var add func(v ssa.Value)
				add = func(v ssa.Value) {
					if set[v] {
						return
					}
					set[v] = true
					if q, ok := v.(*ssa.Phi); ok && loop[q.Block()] {
						for _, e := range q.Edges {
							add(e)
						}
					}
				}
				fed := false
				for i, e := range phi.Edges {
					if loop[h.Preds[i]] && e != ssa.Value(phi) {
						if _, isConst := e.(*ssa.Const); !isConst {
							fed = true
						}
						add(e)
					}
				}
				if !fed {
					continue
				}
				okk := tested(phi)
				for v := range set {
					if tested(v) {
						okk = true
					}
				}
				// the error of a call handed straight to a call that consumes it (a wrapper whose result is tested) counts
				// through the wrapper's result, which is in the set; anything else is unexamined
				if !okk {
					bad = p.Pos(phi.Pos())
					if bad == "" || bad == "-" {
						bad = "the loop at " + p.Pos(h.Instrs[len(h.Instrs)-1].Pos())
					}
				}
			}
		}
		if !hasLoopCall {
			continue
		}
		c.Check(bad == "", "R14.14", fname(fn)+"|loop-errors-examined-in-the-iteration", p.Pos(fn.Pos()), "every loop-carried error is nil-tested inside the loop",
			fmt.Sprintf("%s: an error assigned inside a loop (%s) is carried into the next iteration without being tested: a store failure in any iteration but the last is overwritten, and the operation reports success for a Set the store refused", fname(fn), bad))
	}
}

func hasErrorResult(cl *ssa.Call) bool {
	res := cl.Call.Signature().Results()
	return res.Len() > 0 && ssax.IsErrorType(res.At(res.Len()-1).Type())
}
