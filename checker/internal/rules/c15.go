package rules

import (
	"fmt"
	"go/token"
	"go/types"
	"sort"
	"strings"

	"golang.org/x/tools/go/ssa"

	"hpfscheck/internal/core"
	"hpfscheck/internal/load"
	"hpfscheck/internal/ssax"
)

func init() { register(&Spec{ID: "C15", Targets: []load.Target{load.Linux}, Run: runC15}) }

type guardSpec struct {
	rel, typ, field string
	kind            string // mutex:<field> | atomic | once:<field>
	why             string
}

// guardedBy is the frozen guarded-by table; every line was confirmed by reading the code.
var guardedBy = []guardSpec{
	{"keyvalue/blob", "Bytes", "bytes", "mutex:mu", "the byte slice is shared by all handles of a file and by the store record; views share the mutex"},
	{"keyvalue/blob", "Bytes", "length", "atomic", "read without the lock by Len()"},
	{"keyvalue", "unsafeSerialTransaction", "nextOp", "atomic", "operation ids are handed out from several goroutines"},
	{"keyvalue", "unsafeSerialTransaction", "results", "mutex:resultsMu", "results map written by every operation"},
	{"tar", "bufferPool", "count", "atomic", "buffers are provisioned from the reader and returned by writer goroutines"},
	{"keyvalue", "runOnceFileRecord", "dataDone", "atomic", "published flag of the lazily loaded data"},
	{"keyvalue", "runOnceFileRecord", "data", "once:dataOnce", "written once inside dataOnce.Do"},
	{"keyvalue", "runOnceFileRecord", "dataErr", "once:dataOnce", "written once inside dataOnce.Do"},
	{"keyvalue", "runOnceFileRecord", "dirNames", "once:dirNamesOnce", "written once inside dirNamesOnce.Do"},
	{"keyvalue", "runOnceFileRecord", "dirNamesErr", "once:dirNamesOnce", "written once inside dirNamesOnce.Do"},
	{"keyvalue", "runOnceFileRecord", "size", "once:sizeOnce", "written once inside sizeOnce.Do"},
	{"keyvalue", "runOnceFileRecord", "mode", "once:modeOnce", "written once inside modeOnce.Do"},
	{"keyvalue", "runOnceFileRecord", "modTime", "once:modTimeOnce", "written once inside modTimeOnce.Do"},
	{"keyvalue", "runOnceFileRecord", "sys", "once:sysOnce", "written once inside sysOnce.Do"},
}

func runC15(c *core.Ctx) {
	runFixtures(c, "locks", "rangecb")
	c.Explain("Linearizability, race freedom in general and deadlock freedom over interleavings are NOT decidable by a sound static argument available here (no pointer analysis, no scheduler model); the race detector and systematic schedule enumeration are other technique families. Two necessary conditions are decided: (R15.1) a guarded-by table (14 lines, each confirmed by reading): the blob's byte slice is touched through a receiver only with the blob mutex held; mirrored/handed-out counters and published flags only through sync/atomic; the serial transaction's result map only under its mutex; the lazily loaded record fields are written only inside the matching sync.Once.Do closure and read only after that Do has returned in the same function (or after the atomic published flag was seen). A shared blob touched without its guard IS a data race. (R15.2) check-then-act in one transaction: each mutating operation of the key-value FS issues the look-ups its decision depends on and the resulting Set on the same Transaction value — otherwise two goroutines can both pass the check (two Mkdir of one name both return nil, which no sequential order produces); (R15.3) in every method of the slice-backed blob the comparisons that justify a slice of the mutex-guarded buffer read its length while the mutex is held, in the critical section that slices — a bounds check made before locking lets a concurrent Truncate through another handle turn the guarded index into a panic; an unlocked pre-check that is repeated under the lock is accepted (no dispatch under the blob lock is R19.4, checked under C19); (R15.4) the in-memory store's transaction constructor holds the store mutex at every successful return — a read-only transaction that skips it sees a rename half done; (R15.5) an operation of the key-value FS that writes more than one record (Rename of a file: new name and old name) issues all its writes on one Transaction value, so no other goroutine's transaction can run between them; (R15.6) every plain map field of a struct that owns a mutex (mem, keyvalue, tar, mount, cache, pathlock) is accessed only with that mutex held, constructors excepted; (R15.7) no method of keyvalue.FS stores into a field of the FS value (no lock protects it and all goroutines share it). The property itself is not claimed. (R15.8/R15.9/R15.10) the analyses of R19.4 (no lock-taking call under a blob mutex), R19.3 (views share the mutex) and R14.3 (a value that came with an error is neither used nor kept) under this property. (R15.11) a handle grows its content by an amount read in another critical section (known finding); (R15.12 = R19.13) no blob method returns with its mutex held; (R15.13) in-memory records are immutable once stored. (R15.14) handles mutate the loaded content blob, never a View/Slice of it; (R15.15) sync.Map Range callbacks store no slice element at an index unbounded by len. (R15.16) no Bytes() of a content blob is sliced with computed bounds; (R15.17) no transaction operation reaches an Unlock its function did not Lock.")
	c.Assume("lock identity by access path; single receiver per method (no aliasing of two blobs in one method other than fresh results)")
	c.RuleDoc("R15.1", "guarded-by table")
	c.RuleDoc("R15.2", "check-then-act within one transaction")
	c.RuleDoc("R15.4", "every transaction of the in-memory store holds the store mutex")
	c.RuleDoc("R15.5", "the records of one multi-record update are written on one transaction")
	c.RuleDoc("R15.6", "plain map fields of mutex-owning structs are accessed only with the mutex held")
	c.RuleDoc("R15.13", "records of the in-memory store are immutable once stored")
	c.RuleDoc("R15.14", "a handle mutates the content blob it loaded, never a view of it taken outside the blob's critical section")
	c.RuleDoc("R15.15", "a callback of a concurrent map's Range writes no slice element at an index the dominating guards do not bound by the slice's length")
	c.RuleDoc("R15.16", "no handle slices the byte slice of the shared content blob with computed bounds (bounds are checked by the blob, under its mutex)")
	c.RuleDoc("R15.17", "no operation of an in-memory transaction releases a mutex it did not take (the store stays locked from Transaction() to Commit/Abort)")
	c.RuleDoc("R15.12", "no method of the slice-backed blob returns with its mutex held (= R19.13)")
	c.RuleDoc("R15.11", "the amount a handle grows its content by is read in the critical section that grows (known finding)")
	c.RuleDoc("R15.8", "no call that can take another lock while a blob's mutex is held (= R19.4)")
	c.RuleDoc("R15.9", "a view shares the mutex of the blob it aliases (= R19.3)")
	c.RuleDoc("R15.10", "a value that came with an error is neither used nor kept (= R14.3): an entry removed by another goroutine between listing and Stat must not become a nil element")
	c.RuleDoc("R15.7", "methods of the key-value FS keep no per-call state in the shared FS value")
	c.RuleDoc("R15.3", "blob bounds are checked inside the critical section that slices the buffer")
	for _, p := range c.Progs {
		c.SetProg(p)
		for _, g := range guardedBy {
			r15Guard(c, p, g)
		}
		r15CheckThenAct(c, p)
		if txnI := ifaceOf(p, "keyvalue", "Transaction"); txnI != nil {
			for _, n := range implementers(p, txnI) {
				r18CtorHoldsLock(c, p, n, "R15.4")
			}
		}
		r15OneTransaction(c, p)
		r15MapsUnderMutex(c, p, "mem", "keyvalue", "tar", "mount", "cache", "internal/pathlock")
		r15StatelessFS(c, p)
		r15RecordsImmutable(c, p)
		r15MutateTheSharedBlob(c, p)
		r15RangeCallbacksAppend(c, p, "mem", "mount")
		r15NoRawBytesWindow(c, p)
		r15OpsKeepTheStoreLocked(c, p, "R15.17")
		if p.Target == load.Linux {
			r15GrowFromStaleLength(c, p)
		}
		if blobI := ifaceOf(p, "keyvalue/blob", "Blob"); blobI != nil {
			for _, n := range implementers(p, blobI) {
				if sh := discoverBlobShape(p, n); sh != nil && sh.dataField != "" {
					r19SameSection(c, p, sh, "R15.3")
					// R15.8 (= R19.4): nothing that can take another lock is called while the blob's mutex is held (two
					// copies a->b and b->a would each hold one mutex and wait for the other); R15.9 (= R19.3): a view
					// shares its parent's mutex, so a read through a view serialises with a write to the blob
					c.WithAlias(map[string]string{"R19.4": "R15.8", "R19.3": "R15.9"}, func() { r19SliceBacked(c, p, sh) })
					r19NoLockLeak(c, p, sh, "R15.12")
				}
			}
		}
		// R15.10 (= R14.3): a value that came with an error (an entry removed by another goroutine between the listing
		// and its Stat) is neither used nor kept
		if p.Target == load.Linux {
			c.WithAlias(map[string]string{"R14.3": "R15.10"}, func() { r14Drop(c, p); r14Paired(c, p); r14ParallelUse(c, p) })
		}
	}
	c.Floor("R15.1", 14)
	c.Floor("R15.2", 7)
	c.Floor("R15.3", 3)
	c.Floor("R15.4", 1)
	c.Floor("R15.5", 1)
	c.Floor("R15.7", 15)
	c.Floor("R15.8", 4)
	c.Floor("R15.9", 2)
	c.Floor("R15.10", 1)
	c.Floor("R15.12", 4)
	c.Floor("R15.13", 1)
	c.Floor("R15.14", 4)
	c.Floor("R15.15", 3)
	c.Floor("R15.16", 1)
	c.Floor("R15.17", 4)
}

func r15Guard(c *core.Ctx, p *load.Program, g guardSpec) {
	n := p.Named(g.rel, g.typ)
	key := g.rel + "." + g.typ + "." + g.field + "|" + g.kind
	if n == nil {
		c.Hard("R15.1: type %s.%s of the guarded-by table not found", g.rel, g.typ)
		return
	}
	st, ok := n.Underlying().(*types.Struct)
	found := false
	if ok {
		for i := 0; i < st.NumFields(); i++ {
			if st.Field(i).Name() == g.field {
				found = true
			}
		}
	}
	if !found {
		c.Hard("R15.1: field %s.%s.%s of the guarded-by table not found", g.rel, g.typ, g.field)
		return
	}
	var probs []string
	accesses := 0
	for _, fn := range p.SrcFuncs() {
		root := fn
		for root.Parent() != nil {
			root = root.Parent()
		}
		var ls map[ssa.Instruction]ssax.LockSet
		// Do-closures of the matching Once
		inDoOf := map[*ssa.Function]bool{}
		ssax.Instrs(fn, func(ins ssa.Instruction) {
			fa, ok := ins.(*ssa.FieldAddr)
			if !ok || ssax.FieldName(fa) != g.field {
				return
			}
			sn := ssax.StructOfFieldAddr(fa)
			if sn == nil || !types.Identical(sn, n) {
				return
			}
			// fresh object under construction in this function: not yet published
			if isFreshBase(fa.X) {
				return
			}
			accesses++
			switch {
			case strings.HasPrefix(g.kind, "mutex:"):
				mu := strings.TrimPrefix(g.kind, "mutex:")
				if ls == nil {
					ls = ssax.Locksets(fn, true, nil)
				}
				base := ssax.AccessPath(fa.X)
				if base == "" && derivesFromCall(fa.X) {
					accesses--
					return // result of a call that returns a fresh copy (Bytes(): newB.(*Bytes).bytes)
				}
				if base == "" {
					probs = append(probs, fmt.Sprintf("%s accesses it at %s through a value the analysis cannot name", fname(fn), p.Pos(fa.Pos())))
					return
				}
				if _, held := ls[fa][base+"."+mu]; !held {
					// result of a call that returns a fresh copy (Bytes(): newB.(*Bytes).bytes)
					if derivesFromCall(fa.X) {
						accesses--
						return
					}
					probs = append(probs, fmt.Sprintf("%s touches it at %s without %s.%s held", fname(fn), p.Pos(fa.Pos()), base, mu))
				}
			case g.kind == "atomic":
				for _, r := range *fa.Referrers() {
					switch x := r.(type) {
					case *ssa.Call:
						if callee := ssax.StaticCallee(x); callee == nil || callee.Pkg == nil || callee.Pkg.Pkg.Path() != "sync/atomic" {
							probs = append(probs, fmt.Sprintf("%s passes its address to %s at %s", fname(fn), ssax.CallName(x), p.Pos(x.Pos())))
						}
					case *ssa.DebugRef:
					case *ssa.Convert, *ssa.ChangeType:
						// (*int64)(&u.nextOp) handed to atomic
						cv := r.(ssa.Value)
						for _, rr := range *cv.Referrers() {
							if cl, ok := rr.(*ssa.Call); ok {
								if callee := ssax.StaticCallee(cl); callee != nil && callee.Pkg != nil && callee.Pkg.Pkg.Path() == "sync/atomic" {
									continue
								}
							}
							if _, ok := rr.(*ssa.DebugRef); !ok {
								probs = append(probs, fmt.Sprintf("%s accesses it non-atomically at %s", fname(fn), p.Pos(rr.Pos())))
							}
						}
					default:
						probs = append(probs, fmt.Sprintf("%s reads or writes it directly at %s (must go through sync/atomic)", fname(fn), p.Pos(r.Pos())))
					}
				}
			case strings.HasPrefix(g.kind, "once:"):
				once := strings.TrimPrefix(g.kind, "once:")
				for _, r := range *fa.Referrers() {
					switch x := r.(type) {
					case *ssa.Store:
						if !isDoClosureOf(fn, n, once, inDoOf) {
							probs = append(probs, fmt.Sprintf("%s writes it at %s outside %s.Do", fname(fn), p.Pos(x.Pos()), once))
						}
					case *ssa.UnOp:
						if isDoClosureOf(fn, n, once, inDoOf) {
							continue
						}
						if !afterDo(fn, x, n, once) && !afterAtomicFlag(x) {
							probs = append(probs, fmt.Sprintf("%s reads it at %s without %s.Do having returned before (in this function) and without the atomic published flag", fname(fn), p.Pos(x.Pos()), once))
						}
					}
				}
			}
		})
	}
	if len(probs) == 0 {
		c.OK("R15.1", key, p.Pos(n.Obj().Pos()), fmt.Sprintf("%d access(es) all under the guard (%s)", accesses, g.why))
	} else {
		c.Bad("R15.1", key, p.Pos(n.Obj().Pos()), fmt.Sprintf("%s.%s.%s is guarded by %s (%s): %s — a data race on state shared between handles/goroutines", g.rel, g.typ, g.field, g.kind, g.why, dedup(probs)))
	}
}

func isFreshBase(v ssa.Value) bool {
	switch x := v.(type) {
	case *ssa.Alloc:
		return true
	case *ssa.Call:
		// result of a constructor call in this function
		_ = x
		return true
	case *ssa.Extract:
		return true
	case *ssa.FieldAddr:
		return isFreshBase(x.X)
	}
	return false
}

func derivesFromCall(v ssa.Value) bool {
	for i := 0; i < 6; i++ {
		switch x := v.(type) {
		case *ssa.Call:
			return true
		case *ssa.Extract:
			v = x.Tuple
		case *ssa.TypeAssert:
			v = x.X
		case *ssa.UnOp:
			v = x.X
		default:
			return false
		}
	}
	return false
}

// isDoClosureOf: fn is a closure passed to (<recv>.<once>).Do in its parent.
func isDoClosureOf(fn *ssa.Function, n *types.Named, once string, memo map[*ssa.Function]bool) bool {
	par := fn.Parent()
	if par == nil {
		return false
	}
	res := false
	ssax.Instrs(par, func(ins ssa.Instruction) {
		cl, ok := ins.(*ssa.Call)
		if !ok || !ssax.CalleeIs(cl, "sync", "(*Once).Do") || len(cl.Call.Args) != 2 {
			return
		}
		fa, ok := cl.Call.Args[0].(*ssa.FieldAddr)
		if !ok || ssax.FieldName(fa) != once {
			return
		}
		if mc, ok := cl.Call.Args[1].(*ssa.MakeClosure); ok && mc.Fn == fn {
			res = true
		}
	})
	return res
}

// afterDo: the load is dominated by a (<recv>.<once>).Do call in the same function.
func afterDo(fn *ssa.Function, load ssa.Instruction, n *types.Named, once string) bool {
	ok := false
	ssax.Instrs(fn, func(ins ssa.Instruction) {
		cl, isC := ins.(*ssa.Call)
		if !isC || !ssax.CalleeIs(cl, "sync", "(*Once).Do") {
			return
		}
		if fa, isF := cl.Call.Args[0].(*ssa.FieldAddr); isF && ssax.FieldName(fa) == once && ssax.Dominates(cl, load) {
			ok = true
		}
	})
	return ok
}

// afterAtomicFlag: the load is dominated by a fact "atomic.LoadX(&recv.flag) > 0".
func afterAtomicFlag(load ssa.Instruction) bool {
	for _, f := range ssax.FactsAtInstr(load) {
		bo, ok := f.Cond.(*ssa.BinOp)
		if !ok || !f.Val {
			continue
		}
		for _, side := range []ssa.Value{bo.X, bo.Y} {
			if cl, ok := side.(*ssa.Call); ok {
				if callee := ssax.StaticCallee(cl); callee != nil && callee.Pkg != nil && callee.Pkg.Pkg.Path() == "sync/atomic" && strings.HasPrefix(callee.Name(), "Load") && (bo.Op == token.GTR || bo.Op == token.NEQ || bo.Op == token.GEQ) {
					return true
				}
			}
		}
	}
	return false
}

// ---- R15.2 ----

func r15CheckThenAct(c *core.Ctx, p *load.Program) {
	sh := findKVShape(p)
	if sh == nil {
		c.Hard("anchor: keyvalue.FS")
		return
	}
	txnI := ifaceOf(p, "keyvalue", "Transaction")
	// functions that begin a transaction themselves
	begins := map[*ssa.Function]bool{}
	for _, fn := range pkgFuncs(p, "keyvalue") {
		ssax.Instrs(fn, func(ins ssa.Instruction) {
			cl, ok := ins.(*ssa.Call)
			if !ok {
				return
			}
			sig := cl.Call.Signature()
			if sig.Results().Len() == 2 && txnI != nil && types.Identical(sig.Results().At(0).Type().Underlying(), txnI) && !forwardsCall(fn, cl) {
				begins[fn] = true
			}
		})
	}
	// transitive: reaches a begin through static calls
	var reachBegin func(fn *ssa.Function, seen map[*ssa.Function]bool) []*ssa.Function
	reachBegin = func(fn *ssa.Function, seen map[*ssa.Function]bool) []*ssa.Function {
		if fn == nil || seen[fn] || fn.Blocks == nil {
			return nil
		}
		seen[fn] = true
		var out []*ssa.Function
		if begins[fn] {
			out = append(out, fn)
		}
		ssax.Instrs(fn, func(ins ssa.Instruction) {
			if ci, ok := ins.(ssa.CallInstruction); ok {
				if callee := ssax.StaticCallee(ci); callee != nil && strings.HasSuffix(pkgPathOf(callee), "/keyvalue") {
					out = append(out, reachBegin(callee, seen)...)
				}
			}
		})
		return out
	}
	var names []string
	for n := range sh.methods {
		names = append(names, n)
	}
	sort.Strings(names)
	for _, name := range names {
		fn := sh.methods[name]
		if fn.Object() == nil || !fn.Object().Exported() {
			continue
		}
		// does it both look up and store?
		looks, stores := 0, 0
		distinct := map[*ssa.Function]bool{}
		ssax.Instrs(fn, func(ins ssa.Instruction) {
			ci, ok := ins.(ssa.CallInstruction)
			if !ok {
				return
			}
			callee := ssax.StaticCallee(ci)
			if callee == nil {
				return
			}
			bs := reachBegin(callee, map[*ssa.Function]bool{})
			if len(bs) == 0 {
				return
			}
			for _, b := range bs {
				distinct[b] = true
				if writesInTxn(b) {
					stores++
				} else {
					looks++
				}
			}
		})
		if looks == 0 || stores == 0 {
			continue
		}
		if isPureForward(fn) {
			continue // Open -> OpenFile: the obligation is the callee's
		}
		key := fname(fn) + "|check-then-act"
		// atomic only if the operation begins exactly one transaction itself and hands it to look-up and store
		if begins[fn] && len(distinct) == 0 {
			c.OK("R15.2", key, p.Pos(fn.Pos()), "look-ups and stores share the operation's own transaction")
		} else {
			var bn []string
			for b := range distinct {
				bn = append(bn, fname(b))
			}
			sort.Strings(bn)
			c.Bad("R15.2", key, p.Pos(fn.Pos()), fmt.Sprintf("%s decides on %d look-up(s) and then stores in %d further step(s), each in a transaction of its own (begun in %s): two goroutines can both pass the check before either stores — e.g. two concurrent Mkdir of one name both return nil, which no sequential order produces", fname(fn), looks, stores, strings.Join(bn, ", ")))
		}
	}
}

// writesInTxn: the transaction-beginning function issues a Set on a transaction (directly or through the record-store helper).
func writesInTxn(fn *ssa.Function) bool {
	w := false
	var visit func(f *ssa.Function, d int)
	seen := map[*ssa.Function]bool{}
	visit = func(f *ssa.Function, d int) {
		if f == nil || seen[f] || d > 2 || f.Blocks == nil {
			return
		}
		seen[f] = true
		ssax.Instrs(f, func(ins ssa.Instruction) {
			if cl, ok := ins.(*ssa.Call); ok {
				if cl.Call.IsInvoke() && (cl.Call.Method.Name() == "Set" || cl.Call.Method.Name() == "SetHandler") {
					w = true
				}
				if callee := ssax.StaticCallee(cl); callee != nil && strings.HasSuffix(pkgPathOf(callee), "/keyvalue") {
					for _, a := range cl.Call.Args {
						if strings.HasSuffix(typeString(a.Type()), "Transaction") {
							visit(callee, d+1)
						}
					}
				}
			}
		})
	}
	visit(fn, 0)
	return w
}

// isPureForward: the function consists of one call to another method of its receiver whose results it returns.
func isPureForward(fn *ssa.Function) bool {
	calls := 0
	var only *ssa.Call
	ssax.Instrs(fn, func(ins ssa.Instruction) {
		if cl, ok := ins.(*ssa.Call); ok {
			if _, isB := cl.Call.Value.(*ssa.Builtin); !isB {
				calls++
				only = cl
			}
		}
	})
	if calls != 1 || only == nil {
		return false
	}
	callee := ssax.StaticCallee(only)
	if callee == nil || callee.Signature.Recv() == nil || len(only.Call.Args) == 0 || only.Call.Args[0] != ssa.Value(recvParam(fn)) {
		return false
	}
	return forwardsCall(fn, only)
}

// r15OneTransaction (R15.5): in every keyvalue.FS method that both stores a record under one of its name parameters
// and deletes another (a move), store and delete are issued on the same Transaction value.
func r15OneTransaction(c *core.Ctx, p *load.Program) {
	sh := findKVShape(p)
	if sh == nil {
		c.Hard("anchor: keyvalue.FS shape")
		return
	}
	for name, fn := range sh.methods {
		if fn.Object() == nil || !fn.Object().Exported() {
			continue
		}
		type w struct {
			cl  *ssa.Call
			txn ssa.Value
			del bool
		}
		byBlockDom := []w{}
		ssax.Instrs(fn, func(ins ssa.Instruction) {
			cl, ok := ins.(*ssa.Call)
			if !ok {
				return
			}
			callee := ssax.StaticCallee(cl)
			pi, isSet := sh.setFns[callee]
			if callee == nil || !isSet {
				return
			}
			if _, isParam := cl.Call.Args[pi].(*ssa.Parameter); !isParam {
				return
			}
			var txn ssa.Value
			for _, a := range cl.Call.Args {
				if strings.HasSuffix(typeString(a.Type()), "keyvalue.Transaction") {
					txn = a
				}
			}
			byBlockDom = append(byBlockDom, w{cl, txn, ssax.IsNilConst(cl.Call.Args[pi+1])})
		})
		// pairs (store of a record under one parameter, delete of another) where one dominates the other
		n := 0
		for _, a := range byBlockDom {
			for _, b := range byBlockDom {
				if a.del || !b.del || !ssax.Dominates(a.cl, b.cl) {
					continue
				}
				pa, pb := a.cl.Call.Args[sh.setFns[ssax.StaticCallee(a.cl)]], b.cl.Call.Args[sh.setFns[ssax.StaticCallee(b.cl)]]
				if pa == pb {
					continue
				}
				// only the move of the record itself: the stored record was loaded from the deleted name
				if lp := sh.lookupPathOf(a.cl.Call.Args[sh.setFns[ssax.StaticCallee(a.cl)]+1], 0); lp == nil || lp != pb {
					continue
				}
				if recordIsDirOnPath(sh, a.cl, pb) {
					continue
				}
				n++
				key := fmt.Sprintf("(*keyvalue.FS).%s|move#%d", name, n)
				c.Check(a.txn != nil && a.txn == b.txn, "R15.5", key, p.Pos(b.cl.Pos()), "the record is stored under the new name and deleted under the old one on the same transaction",
					fmt.Sprintf("%s stores the record under %s and deletes it under %s in separate transactions: between the two commits the file exists under both names, which another goroutine can observe and no sequential order produces", fname(fn), vname(pa), vname(pb)))
			}
		}
	}
}

// recordIsDirOnPath: the store happens in the directory branch of a rename (the children are moved one by one
// between the two record writes: that sequence cannot be one transaction with the present Transaction interface and
// is covered by the R15.2 known findings).
func recordIsDirOnPath(sh *kvShape, at *ssa.Call, moved ssa.Value) bool {
	for _, f := range ssax.FactsAtInstr(at) {
		cl, ok := f.Cond.(*ssa.Call)
		if !ok || !f.Val || !isIsDirCall(cl) {
			continue
		}
		var recv ssa.Value
		if cl.Call.IsInvoke() {
			recv = cl.Call.Value
		} else if len(cl.Call.Args) > 0 {
			recv = cl.Call.Args[0]
		}
		if lp := sh.lookupPathOf(recv, 0); lp != nil && lp == moved {
			return true
		}
	}
	return false
}

// movePair: in a method of the key-value FS, a store of a loaded record under one name parameter that dominates the
// delete of the name it was loaded from (the move of a regular file in Rename).
type movePair struct{ store, del *ssa.Call }

func movePairs(sh *kvShape, fn *ssa.Function) []movePair {
	type w struct {
		cl  *ssa.Call
		del bool
	}
	var ws []w
	ssax.Instrs(fn, func(ins ssa.Instruction) {
		cl, ok := ins.(*ssa.Call)
		if !ok {
			return
		}
		callee := ssax.StaticCallee(cl)
		pi, isSet := sh.setFns[callee]
		if callee == nil || !isSet {
			return
		}
		if _, isParam := cl.Call.Args[pi].(*ssa.Parameter); !isParam {
			return
		}
		ws = append(ws, w{cl, ssax.IsNilConst(cl.Call.Args[pi+1])})
	})
	var out []movePair
	for _, a := range ws {
		for _, b := range ws {
			if a.del || !b.del || !ssax.Dominates(a.cl, b.cl) {
				continue
			}
			pa := a.cl.Call.Args[sh.setFns[ssax.StaticCallee(a.cl)]]
			pb := b.cl.Call.Args[sh.setFns[ssax.StaticCallee(b.cl)]]
			if pa == pb {
				continue
			}
			if lp := sh.lookupPathOf(a.cl.Call.Args[sh.setFns[ssax.StaticCallee(a.cl)]+1], 0); lp == nil || lp != pb {
				continue
			}
			if recordIsDirOnPath(sh, a.cl, pb) {
				continue
			}
			out = append(out, movePair{a.cl, b.cl})
		}
	}
	return out
}

// r15MapsUnderMutex (R15.6): in a struct that owns a sync.Mutex, every access to a plain (non-sync) map field happens
// with that mutex held (must-lockset), constructors excepted. A map read while another goroutine writes it is a fatal
// "concurrent map iteration and map write", whatever the paths involved.
func r15MapsUnderMutex(c *core.Ctx, p *load.Program, pkgs ...string) {
	for _, rel := range pkgs {
		pk := p.Pkg(rel)
		if pk == nil {
			continue
		}
		for _, name := range pk.Types.Scope().Names() {
			tn, ok := pk.Types.Scope().Lookup(name).(*types.TypeName)
			if !ok {
				continue
			}
			named, ok := tn.Type().(*types.Named)
			if !ok {
				continue
			}
			st, ok := named.Underlying().(*types.Struct)
			if !ok {
				continue
			}
			mu := ""
			var maps []string
			for i := 0; i < st.NumFields(); i++ {
				f := st.Field(i)
				ts := f.Type().String()
				if ts == "sync.Mutex" || ts == "sync.RWMutex" || ts == "*sync.Mutex" || ts == "*sync.RWMutex" {
					mu = f.Name()
				}
				if _, isMap := f.Type().Underlying().(*types.Map); isMap {
					maps = append(maps, f.Name())
				}
			}
			if mu == "" || len(maps) == 0 {
				continue
			}
			for _, mf := range maps {
				key := typeKey(named) + "." + mf + "|map-under-" + mu
				var bad []string
				n := 0
				for _, fn := range p.SrcFuncs() {
					if constructs(fn, named) {
						continue
					}
					var ls map[ssa.Instruction]ssax.LockSet
					ssax.Instrs(fn, func(ins ssa.Instruction) {
						u, ok := ins.(*ssa.UnOp)
						if !ok || u.Op != token.MUL {
							return
						}
						fa, ok := u.X.(*ssa.FieldAddr)
						if !ok || ssax.FieldName(fa) != mf {
							return
						}
						if sn := ssax.StructOfFieldAddr(fa); sn == nil || !types.Identical(sn, named) {
							return
						}
						n++
						if ls == nil {
							ls = ssax.Locksets(fn, true, nil)
						}
						held := false
						for k := range ls[ins] {
							if strings.HasSuffix(k, "."+mu) {
								held = true
							}
						}
						if !held {
							bad = append(bad, fname(fn)+" at "+p.Pos(u.Pos()))
						}
					})
				}
				c.Check(len(bad) == 0, "R15.6", key, p.Pos(tn.Pos()), fmt.Sprintf("%d accesses, all with %s held", n, mu),
					fmt.Sprintf("%s.%s is a plain map in a struct that owns %s, but it is read or written without the mutex held: %s — one goroutine iterating while another writes is a fatal runtime error (and a data race)", typeKey(named), mf, mu, strings.Join(bad, "; ")))
			}
		}
	}
}

// r15StatelessFS (R15.7): methods of the key-value FS write no field of the FS value: it is shared by every goroutine
// using the file system and has no lock of its own, so any per-call scratch state kept in it (a reused slice…) is
// shared between concurrent calls on unrelated paths.
func r15StatelessFS(c *core.Ctx, p *load.Program) {
	n := p.Named("keyvalue", "FS")
	if n == nil {
		c.Hard("anchor: keyvalue.FS")
		return
	}
	ms := methodsOf(p, n)
	var names []string
	for k := range ms {
		names = append(names, k)
	}
	sort.Strings(names)
	for _, mn := range names {
		fn := ms[mn]
		if fn.Blocks == nil {
			continue
		}
		recv := recvParam(fn)
		key := "keyvalue.FS." + mn + "|writes-no-field"
		bad := ""
		ssax.InstrsDeep(fn, func(f *ssa.Function, ins ssa.Instruction) {
			st, ok := ins.(*ssa.Store)
			if !ok {
				return
			}
			fa, ok := st.Addr.(*ssa.FieldAddr)
			if !ok {
				return
			}
			base := fa.X
			if fv, ok := base.(*ssa.FreeVar); ok {
				base = ssax.ResolveFreeVar(fv)
			}
			if base == ssa.Value(recv) {
				bad = ssax.FieldName(fa) + " at " + p.Pos(st.Pos())
			}
		})
		c.Check(bad == "", "R15.7", key, p.Pos(fn.Pos()), "the method stores into no field of the shared FS value",
			fmt.Sprintf("%s stores into the field %s of the FS value, which all goroutines share and no lock protects: two concurrent calls (even on unrelated paths) overwrite each other's state", fname(fn), bad))
	}
}

// r15GrowFromStaleLength (R15.11): a handle method that grows the content blob by an amount computed from an earlier
// Len() of the same blob does so in two separate critical sections of the blob (Len locks and unlocks, Grow locks
// again): two handles writing at once both see the old length and both grow — "aa" and "bb" written at offset 0 of an
// empty file leave 4 bytes. The blob API offers only the relative Grow, so the handle cannot make the step atomic.
func r15GrowFromStaleLength(c *core.Ctx, p *load.Program) {
	fileT := p.Named("keyvalue", "file")
	grow := p.Func("keyvalue/blob", "Grow")
	if fileT == nil || grow == nil {
		c.Hard("anchor: keyvalue.file / blob.Grow")
		return
	}
	n := 0
	for _, fn := range methodList(p, fileT) {
		ord := ordinals{}
		ssax.Instrs(fn, func(ins ssa.Instruction) {
			cl, ok := ins.(*ssa.Call)
			if !ok || ssax.StaticCallee(cl) != grow || len(cl.Call.Args) != 2 {
				return
			}
			data := cl.Call.Args[0]
			fromLen := dependsOn(cl.Call.Args[1], func(v ssa.Value) bool {
				lc, ok := v.(*ssa.Call)
				return ok && lc.Call.IsInvoke() && lc.Call.Method.Name() == "Len" && lc.Call.Value == data
			})
			if !fromLen {
				return
			}
			n++
			key := fname(fn) + "|" + ord.next("grow-amount-read-in-the-same-critical-section")
			c.Bad("R15.11", key, p.Pos(cl.Pos()), fmt.Sprintf("%s grows the content by an amount computed from an earlier Len() of the same blob: Len and Grow are two separate critical sections of the blob, so two handles writing at once both see the old length and both grow (WriteAt(\"aa\",0) and WriteAt(\"bb\",0) on an empty file through two handles leave 4 bytes, \"aa\\x00\\x00\") — no sequential order of the two writes gives that file", fname(fn)))
		})
	}
	if n == 0 {
		c.OK("R15.11", "no-relative-grow-from-len", "", "no handle method grows the content by an amount derived from a separate Len() call")
	}
}

// r15RecordsImmutable (R15.13): a record of the in-memory store is never changed after it was put into the table:
// every store into a field of the record type happens on a value allocated in the same function (a fresh record being
// built). Records already returned by Get sit inside Stat results and open handles and are read lazily, outside the
// store's mutex: updating one in place changes results other goroutines already hold (and races with their reads).
func r15RecordsImmutable(c *core.Ctx, p *load.Program) {
	recI := ifaceOf(p, "keyvalue", "FileRecord")
	if recI == nil {
		c.Hard("anchor: keyvalue.FileRecord")
		return
	}
	var recT *types.Named
	for _, n := range implementers(p, recI) {
		if n.Obj().Pkg() != nil && strings.HasSuffix(n.Obj().Pkg().Path(), "/mem") {
			recT = n
		}
	}
	if recT == nil {
		c.Hard("anchor: the in-memory FileRecord type")
		return
	}
	bad := ""
	sites := 0
	for _, fn := range pkgFuncs(p, "mem") {
		ssax.Instrs(fn, func(ins ssa.Instruction) {
			st, ok := ins.(*ssa.Store)
			if !ok {
				return
			}
			fa, ok := st.Addr.(*ssa.FieldAddr)
			if !ok {
				return
			}
			if n := ssax.StructOfFieldAddr(fa); n == nil || !types.Identical(n, recT) {
				return
			}
			sites++
			if _, fresh := fa.X.(*ssa.Alloc); !fresh && bad == "" {
				bad = p.Pos(st.Pos()) + " in " + fname(fn)
			}
		})
	}
	key := typeKey(recT) + "|fields-written-only-while-the-record-is-built"
	switch {
	case sites == 0:
		c.Hard("anchor: construction of the in-memory record")
	case bad != "":
		c.Bad("R15.13", key, bad, fmt.Sprintf("a field of an in-memory record that was not allocated in the same function is written at %s: records handed out by Get live on in Stat results and open handles and are read outside the store's mutex — a result already returned to one goroutine changes under it when another goroutine saves the file (and the lazy read races with the write)", bad))
	default:
		c.OK("R15.13", key, p.Pos(recT.Obj().Pos()), "every field store targets a record allocated in the same function")
	}
}

// r15MutateTheSharedBlob (R15.14): in package keyvalue, the blob handed to blob.Set / blob.Grow / blob.Truncate is the
// content the handle loaded, not the result of a View or Slice of it. A view captures the backing array at the moment
// it is taken, outside the critical section of the mutation that follows: when another handle grows the content in
// between (append reallocates), the write lands in the abandoned array — it reports success and is lost, without a
// data race.
func r15MutateTheSharedBlob(c *core.Ctx, p *load.Program) {
	isWindow := func(v ssa.Value) bool {
		cl, ok := v.(*ssa.Call)
		if !ok {
			return false
		}
		if ssax.CalleeIs(cl, mod+"/keyvalue/blob", "View") || ssax.CalleeIs(cl, mod+"/keyvalue/blob", "Slice") {
			return true
		}
		if m := ssax.InvokeMethod(cl); m != nil && (m.Name() == "View" || m.Name() == "Slice") {
			return true
		}
		if callee := ssax.StaticCallee(cl); callee != nil && callee.Signature.Recv() != nil && (callee.Name() == "View" || callee.Name() == "Slice") {
			return true
		}
		return false
	}
	for _, fn := range pkgFuncs(p, "keyvalue") {
		ord := ordinals{}
		ssax.Instrs(fn, func(ins ssa.Instruction) {
			cl, ok := ins.(*ssa.Call)
			if !ok || len(cl.Call.Args) == 0 {
				return
			}
			op := ""
			for _, n := range []string{"Set", "Grow", "Truncate"} {
				if ssax.CalleeIs(cl, mod+"/keyvalue/blob", n) {
					op = n
				}
			}
			if op == "" {
				return
			}
			key := fname(fn) + "|" + ord.next("blob."+op)
			c.Check(!originIs(cl.Call.Args[0], isWindow), "R15.14", key, p.Pos(cl.Pos()), "the mutated blob is not a view or slice of the content",
				fmt.Sprintf("%s applies blob.%s to a View/Slice of the content instead of the content blob itself: the view fixes the backing array before the mutation's critical section begins, so when another handle grows the file in between (append reallocates) the bytes land in the abandoned array — the call reports success and the data is lost", fname(fn), op))
		})
	}
}

// r15RangeCallbacksAppend (R15.15): the callback of a sync.Map Range collects by append (or into a map); it stores no
// slice element at an index unless the dominating guards bound the index by the slice's length. The map is read
// without the store mutex (lazy directory listings), so a slice sized by an earlier pass over the same map is too
// short when an entry was added in between (index out of range panic) and holds "" names when one was removed.
func r15RangeCallbacksAppend(c *core.Ctx, p *load.Program, rels ...string) {
	for _, rel := range rels {
		for _, fn := range pkgFuncs(p, rel) {
			r15RangeCallbacksIn(c, p, fn, "R15.15")
		}
	}
}

func r15RangeCallbacksIn(c *core.Ctx, p *load.Program, fn *ssa.Function, rule string) {
	ord := ordinals{}
	ssax.Instrs(fn, func(ins ssa.Instruction) {
		cl, ok := ins.(*ssa.Call)
		if !ok || !ssax.CalleeIs(cl, "sync", "(*Map).Range") || len(cl.Call.Args) < 2 {
			return
		}
		key := fname(fn) + "|" + ord.next("range-callback")
		var cb *ssa.Function
		originIs(cl.Call.Args[1], func(v ssa.Value) bool {
			switch x := v.(type) {
			case *ssa.MakeClosure:
				cb, _ = x.Fn.(*ssa.Function)
			case *ssa.Function:
				cb = x
			}
			return cb != nil
		})
		if cb == nil || cb.Blocks == nil {
			c.Unknown(rule, key, p.Pos(cl.Pos()), fmt.Sprintf("%s: the callback handed to Range could not be resolved", fname(fn)))
			return
		}
		bad := ""
		ssax.Instrs(cb, func(ci ssa.Instruction) {
			st, ok := ci.(*ssa.Store)
			if !ok {
				return
			}
			ia, ok := st.Addr.(*ssa.IndexAddr)
			if !ok {
				return
			}
			if _, isSlice := ia.X.Type().Underlying().(*types.Slice); !isSlice {
				return
			}
			canon := func(v ssa.Value) (ssax.Term, bool) {
				v = ssax.StripIntConv(v)
				if k, ok := ssax.ConstInt(v); ok {
					return ssax.Term{IsConst: true, Const: k}, true
				}
				if lc, ok := v.(*ssa.Call); ok {
					if b, ok := lc.Call.Value.(*ssa.Builtin); ok && b.Name() == "len" && sameCellLoad(lc.Call.Args[0], ia.X) {
						return ssax.Term{Sym: "LEN"}, true
					}
				}
				if u, ok := v.(*ssa.UnOp); ok && u.Op == token.MUL {
					return ssax.Term{Sym: "cell:" + u.X.Name()}, true
				}
				return ssax.Term{Sym: "v:" + v.Name()}, true
			}
			b := ssax.NewBounds(ssax.FactsAtInstr(st), canon)
			t, _ := canon(ia.Index)
			if !b.LE(t, ssax.Term{Sym: "LEN"}, -1) {
				bad = p.Pos(st.Pos())
			}
		})
		c.Check(bad == "", rule, key, p.Pos(cl.Pos()), "the callback stores no slice element at an unguarded index",
			fmt.Sprintf("%s: the Range callback writes a slice element at %s at an index no dominating comparison bounds by the slice's length: the map is read without the store mutex, so a slice sized by an earlier pass is too short when another goroutine added an entry in between (index out of range panic) and keeps empty names when one was removed", fname(fn), bad))
	})
}

// sameCellLoad: a and b are loads of the same cell (or the same value).
func sameCellLoad(a, b ssa.Value) bool {
	if a == b {
		return true
	}
	ua, ok1 := a.(*ssa.UnOp)
	ub, ok2 := b.(*ssa.UnOp)
	return ok1 && ok2 && ua.X == ub.X
}

// r15NoRawBytesWindow (R15.16): package keyvalue never slices the result of a blob's Bytes() with non-constant
// bounds. The bounds would come from an earlier Len() — a separate critical section — and another handle that
// truncates the file in between turns the read into a "slice bounds out of range" panic; blob.View / blob.Slice check
// the bounds and slice under one lock. Sites without any such slice discharge the rule once per function that calls Bytes().
func r15NoRawBytesWindow(c *core.Ctx, p *load.Program) {
	blobI := ifaceOf(p, "keyvalue/blob", "Blob")
	for _, fn := range pkgFuncs(p, "keyvalue") {
		ord := ordinals{}
		ssax.Instrs(fn, func(ins ssa.Instruction) {
			cl, ok := ins.(*ssa.Call)
			if !ok {
				return
			}
			m := ssax.InvokeMethod(cl)
			if m == nil || m.Name() != "Bytes" || blobI == nil || !types.Implements(cl.Call.Value.Type(), blobI) {
				return
			}
			key := fname(fn) + "|" + ord.next("blob-bytes")
			bad := ""
			if cl.Referrers() != nil {
				for _, r := range *cl.Referrers() {
					if sl, ok := r.(*ssa.Slice); ok && sl.X == ssa.Value(cl) {
						_, lc := constOrNil(sl.Low)
						_, hc := constOrNil(sl.High)
						if !lc || !hc {
							bad = p.Pos(sl.Pos())
						}
					}
				}
			}
			c.Check(bad == "", "R15.16", key, p.Pos(cl.Pos()), "the blob's bytes are not re-sliced with computed bounds",
				fmt.Sprintf("%s slices the result of the content blob's Bytes() at %s with computed bounds: the bounds come from an earlier Len(), another handle can shrink the file in between, and the read panics with 'slice bounds out of range' instead of returning — blob.View/blob.Slice check and slice under the blob's own lock", fname(fn), bad))
		})
	}
}

// r15OpsKeepTheStoreLocked (R15.17 / R18.10): from Get/GetHandler/Set/SetHandler of every transaction type of package
// mem (and the module functions they call, three levels) no Unlock/RUnlock is reachable that is not dominated by the
// matching Lock in the same function: an operation that releases the store mutex around its handler ("a handler is
// the caller's code") lets another transaction in between the operations of one rename — the file is visible under
// both names, a state no sequential order has.
func r15OpsKeepTheStoreLocked(c *core.Ctx, p *load.Program, rule string) {
	txnI := ifaceOf(p, "keyvalue", "Transaction")
	if txnI == nil {
		c.Hard("anchor: keyvalue.Transaction")
		return
	}
	for _, n := range implementers(p, txnI) {
		tk := typeKey(n)
		if !strings.HasPrefix(tk, "mem.") {
			continue
		}
		ms := methodsOf(p, n)
		for _, mn := range txnOpMethods {
			fn := ms[mn]
			if fn == nil {
				continue
			}
			bad := ""
			seen := map[*ssa.Function]bool{}
			var visit func(f *ssa.Function, d int)
			visit = func(f *ssa.Function, d int) {
				if f == nil || seen[f] || f.Blocks == nil || d > 3 || !p.InModule(f) {
					return
				}
				seen[f] = true
				ssax.Instrs(f, func(ins ssa.Instruction) {
					ci, ok := ins.(ssa.CallInstruction)
					if !ok {
						return
					}
					if op, path := ssax.MutexOp(ci); op == ssax.OpUnlock || op == ssax.OpRUnlock {
						taken := false
						ssax.Instrs(f, func(j ssa.Instruction) {
							if cj, ok := j.(ssa.CallInstruction); ok {
								if _, isDefer := j.(*ssa.Defer); isDefer {
									return
								}
								if op2, path2 := ssax.MutexOp(cj); (op2 == ssax.OpLock || op2 == ssax.OpRLock) && path2 == path && ssax.Dominates(j, ins) {
									taken = true
								}
							}
						})
						if !taken && bad == "" {
							bad = fname(f) + " at " + p.Pos(ins.Pos())
						}
					}
					visit(ssax.StaticCallee(ci), d+1)
				})
			}
			visit(fn, 0)
			c.Check(bad == "", rule, tk+"."+mn+"|keeps-the-store-locked", p.Pos(fn.Pos()), "no release of a mutex it did not take is reachable from the operation",
				fmt.Sprintf("%s reaches an Unlock of a mutex the function did not lock (%s): the store mutex taken by Transaction() is given up in the middle of the transaction — another goroutine's transaction runs between two operations of this one and sees (or overwrites) its partial effects; a file rename shows the file under both names", fname(fn), bad))
		}
	}
}
