package rules

import (
	"fmt"
	"go/token"
	"go/types"
	"sort"
	"strings"

	"golang.org/x/tools/go/ssa"

	"hpfscheck/internal/core"
	"hpfscheck/internal/load"
	"hpfscheck/internal/ssax"
)

func init() {
	register(&Spec{ID: "C16", Targets: []load.Target{load.Linux, load.Windows}, Run: runC16})
}

func runC16(c *core.Ctx) {
	runFixtures(c, "paging", "bounds")
	c.Explain("Structural clauses of C16 decided from source, for every io/fs.File implementation whose ReadDir(n) computes its own page window (keyvalue.file, cache.dir; pure delegations such as os.file are inventoried): (R16.1) an io.EOF return exists, control-dependent on n > 0 and on a cursor/length comparison, and that comparison is evaluated before every nil-error return reachable with n > 0; (R16.3) every path to a nil-error return that slices the listing also stores the cursor, and every value stored to the cursor depends on the old cursor or on the listing length, never on n alone; (R16.2) every slice of the listing has bounds entailed by dominating guards (no panic when the cursor is at/after the end); (R16.4) by-name listings are sorted by construction: the helper ends in io/fs.ReadDir and every ReadDirFS implementation of the module returns entries from a sorting source; (R16.5) a failing ReadDirNames is returned wrapped in a *PathError. (R16.7) a sum that involves the caller's count n is formed only where n is already bounded from above by a dominating comparison of n itself (n < remaining): 'cursor + n' compared afterwards overflows for a huge n on a handle whose cursor is not zero, and the listing slice then panics — the difference constraints of R16.2 are over mathematical integers and do not see this. (R16.8) the mount table matches names on element boundaries, so a listed sibling of a mount point is Stat'ed in the file system that listed it. (R16.9) no failing return is reachable after a paging ReadDir advanced its cursor. (R16.10) = R10.3, (R16.11) = R07.4 under C16; (R16.12) a paging ReadDir stores old cursor + (high - low) of the returned window on every path. (R16.13) DirEntry.Type() is type bits only; (R16.14) = R10.4: cache directory pages are cut from the source listing of the same call. (R16.15) only the Lstat method of package os asks os.Lstat; (R16.16) = R08.7 under C16. NOT claimed: exactly-once delivery across pages as a value-level fact, agreement of entries with Stat, mount-point children.")
	c.Assume("A2: io/fs.ReadDir and os.ReadDir return entries sorted by name", "A6: partial correctness")
	c.RuleDoc("R16.1", "EOF exit exists and guards every nil-error return with n>0")
	c.RuleDoc("R16.2", "listing slice bounds entailed by guards")
	c.RuleDoc("R16.3", "cursor stored on every paging path; stored value depends on old cursor or listing length")
	c.RuleDoc("R16.4", "by-name listings sorted by construction")
	c.RuleDoc("R16.5", "listing failure wrapped in *PathError")
	c.RuleDoc("R16.10", "the cache's info memo holds the source's Stat of the full name only (= R10.3)")
	c.RuleDoc("R16.11", "no file system handed out derives from a one-time route resolution (= R07.4)")
	c.RuleDoc("R16.12", "a paging ReadDir moves its cursor by exactly the number of entries of the page it returns")
	c.RuleDoc("R16.13", "a directory entry's Type() answers type bits only (FileMode.Type() or a delegate's Type())")
	c.RuleDoc("R16.15", "in package os only the Lstat method asks os.Lstat")
	c.RuleDoc("R16.16", "no File helper but SeekFile moves the handle position (= R08.7)")
	c.RuleDoc("R16.14", "the cache's directory handle lists the source in every call and cuts its pages from that listing (= R10.4)")
	c.RuleDoc("R16.9", "the cursor of a paging ReadDir moves only for a page that is returned")
	c.RuleDoc("R16.8", "the mount table matches names against mount points on path-element boundaries (listed siblings are Stat'ed in the file system that listed them)")
	c.RuleDoc("R16.7", "the page end is computed without integer overflow")
	c.RuleDoc("R16.6", "the paged listing is stable per handle (memoised or sorted); children are enumerated on element boundaries")
	for _, p := range c.Progs {
		c.SetProg(p)
		fileI := stdIface(p, "io/fs", "File")
		if fileI == nil {
			c.Hard("anchor: io/fs.File")
			continue
		}
		windowing, delegating := 0, []string{}
		for _, n := range implementers(p, fileI) {
			tk := typeKey(n)
			if strings.HasPrefix(tk, "fstest.") {
				continue
			}
			fn := methodsOf(p, n)["ReadDir"]
			if fn == nil || len(fn.Params) != 2 {
				continue
			}
			if bt, ok := fn.Params[1].Type().Underlying().(*types.Basic); !ok || bt.Kind() != types.Int {
				continue
			}
			win := listingSlices(fn)
			if len(win) == 0 {
				delegating = append(delegating, tk)
				continue
			}
			windowing++
			r16Window(c, p, tk, fn, win)
			r16NoOverflow(c, p, tk, fn)
			r16CursorAfterSuccess(c, p, tk, fn)
			r16CursorMovesByPage(c, p, tk, fn, win, "R16.12")
		}
		c.Info("readdir_delegating_"+p.Target.GOOS, delegating)
		if windowing < 2 {
			c.Hard("anchor: expected >= 2 windowing ReadDir implementations, found %d", windowing)
		}
		r16Sorted(c, p)
		r16EntryTypeIsTypeBits(c, p)
		// R16.16 (= R08.7): no File helper but SeekFile moves the handle's position (ReadDirFile that rewinds for n <= 0
		// hands out the children of earlier pages again)
		c.WithAlias(map[string]string{"R08.7": "R16.16"}, func() { r08NoSeekEmulation(c, p, helperFuncs(p)) })
		r16ListingFollowsLinks(c, p)
		// R16.8: the mount table resolves a name on element boundaries: a sibling whose name merely starts with a mount
		// point's name ("lib64" next to the mount point "lib") is listed by the root but would be Stat'ed inside the mount
		boundaryTests(c, p, "R16.8", "mount")
		// R16.10 (= R10.3): the cache's info memo holds only what the source's Stat answered for the FULL name: an entry
		// memoised under its base name makes a later listing disagree with Stat; R16.11 (= R07.4): no file system handed out
		// derives from a one-time route resolution (mount points below it would drop out of its listings)
		if sh := findCacheShape(p); sh != nil && sh.stat != nil {
			c.WithAlias(map[string]string{"R10.3": "R16.10"}, func() { r10Memo(c, p, sh) })
			// R16.14 (= R10.4): the cache's directory handle cuts its pages from the source's listing of this very call
			c.WithAlias(map[string]string{"R10.4": "R16.14"}, func() { r10Dir(c, p, sh) })
		}
		c.WithAlias(map[string]string{"R07.4": "R16.11"}, func() { r07Routes(c, p, p.SrcFuncs(), "") })
		// R16.6b: the in-memory store enumerates children by key prefix on element boundaries only
		if fr := p.Method("mem", "fileRecord", "ReadDirNames"); fr != nil {
			for _, v := range prefixTests(p, fr) {
				c.Check(v.ok, "R16.6", "mem.fileRecord.ReadDirNames|"+v.key, v.pos, v.msg, v.msg)
			}
		} else {
			c.Hard("anchor: mem.fileRecord.ReadDirNames")
		}
	}
	c.Floor("R16.6", 3)
	c.Floor("R16.7", 2)
	c.Floor("R16.8", 1)
	c.Floor("R16.9", 2)
	c.Floor("R16.12", 2)
	c.Floor("R16.13", 1)
	c.Floor("R16.14", 3)
	c.Floor("R16.15", 1)
	c.Floor("R16.16", 1)
	c.Floor("R16.10", 1)
	c.Floor("R16.11", 8)
	c.Floor("R16.1", 2)
	c.Floor("R16.2", 2)
	c.Floor("R16.3", 2)
	c.Floor("R16.4", 2)
}

// listingSlices: Slice instructions over a []string / []DirEntry with non-constant bounds.
func listingSlices(fn *ssa.Function) []*ssa.Slice {
	var out []*ssa.Slice
	ssax.Instrs(fn, func(ins ssa.Instruction) {
		s, ok := ins.(*ssa.Slice)
		if !ok {
			return
		}
		st, ok := s.X.Type().Underlying().(*types.Slice)
		if !ok {
			return
		}
		if b, isB := st.Elem().Underlying().(*types.Basic); isB && b.Kind() == types.Uint8 {
			return
		}
		if s.Low == nil && s.High == nil {
			return
		}
		out = append(out, s)
	})
	return out
}

func cursorField(fn *ssa.Function) (string, []*ssa.Store) {
	recv := recvParam(fn)
	var stores []*ssa.Store
	name := ""
	ssax.Instrs(fn, func(ins ssa.Instruction) {
		st, ok := ins.(*ssa.Store)
		if !ok {
			return
		}
		fa, ok := st.Addr.(*ssa.FieldAddr)
		if !ok || fa.X != ssa.Value(recv) {
			return
		}
		if bt, ok := fa.Type().(*types.Pointer).Elem().Underlying().(*types.Basic); ok && bt.Info()&types.IsInteger != 0 {
			name = ssax.FieldName(fa)
			stores = append(stores, st)
		}
	})
	return name, stores
}

// dependsOn: backward slice of v (through arithmetic, conversions, phis) contains a value satisfying pred.
func dependsOn(v ssa.Value, pred func(ssa.Value) bool) bool {
	seen := map[ssa.Value]bool{}
	var walk func(x ssa.Value, d int) bool
	walk = func(x ssa.Value, d int) bool {
		if x == nil || seen[x] || d > 20 {
			return false
		}
		seen[x] = true
		if pred(x) {
			return true
		}
		switch y := x.(type) {
		case *ssa.BinOp:
			return walk(y.X, d+1) || walk(y.Y, d+1)
		case *ssa.UnOp:
			if y.Op != token.MUL {
				return walk(y.X, d+1)
			}
		case *ssa.Convert:
			return walk(y.X, d+1)
		case *ssa.ChangeType:
			return walk(y.X, d+1)
		case *ssa.Phi:
			for _, e := range y.Edges {
				if walk(e, d+1) {
					return true
				}
			}
		case *ssa.Call:
			if b, ok := y.Call.Value.(*ssa.Builtin); ok && (b.Name() == "min" || b.Name() == "max") {
				for _, a := range y.Call.Args {
					if walk(a, d+1) {
						return true
					}
				}
			}
		}
		return false
	}
	return walk(v, 0)
}

func isLenCall(v ssa.Value) bool {
	c, ok := v.(*ssa.Call)
	if !ok {
		return false
	}
	b, ok := c.Call.Value.(*ssa.Builtin)
	return ok && b.Name() == "len"
}

func r16Window(c *core.Ctx, p *load.Program, tk string, fn *ssa.Function, win []*ssa.Slice) {
	recv := recvParam(fn)
	nPrm := fn.Params[1]
	cur, stores := cursorField(fn)
	pos := p.Pos(fn.Pos())
	if cur == "" {
		c.Bad("R16.3", tk+".ReadDir|cursor", pos, fmt.Sprintf("%s: windowing ReadDir keeps no integer cursor field on the handle", fname(fn)))
		return
	}
	isCursorLoad := func(v ssa.Value) bool { return isLoadOfField(v, recv, cur) }
	isN := func(v ssa.Value) bool { return ssax.StripIntConv(v) == ssa.Value(nPrm) }
	condMentions := func(cond ssa.Value, pred func(ssa.Value) bool) bool {
		bo, ok := cond.(*ssa.BinOp)
		if !ok {
			return false
		}
		return dependsOn(bo.X, pred) || dependsOn(bo.Y, pred)
	}
	// ---- R16.1 ----
	var eofRet *ssa.Return
	var lenGuard *ssa.If
	for _, r := range ssax.Returns(fn) {
		e := r.Results[len(r.Results)-1]
		if !ssax.IsGlobalLoad(e, "io", "EOF") {
			continue
		}
		hasN, hasLen := false, false
		var lg *ssa.If
		for _, f := range ssax.FactsAtInstr(r) {
			if condMentions(f.Cond, isN) {
				// must be the n > 0 side
				if nPositive(f, nPrm) {
					hasN = true
				}
			}
			if condMentions(f.Cond, func(v ssa.Value) bool { return isCursorLoad(v) || isLenCall(v) }) {
				hasLen = true
				lg = f.If
			}
		}
		if hasN && hasLen {
			eofRet, lenGuard = r, lg
		}
	}
	key := tk + ".ReadDir|eof-exit"
	if eofRet == nil {
		c.Bad("R16.1", key, pos, fmt.Sprintf("%s: no return of io.EOF that is control-dependent on n > 0 and on a cursor/length comparison — an exhausted directory keeps answering (empty page, nil) forever", fname(fn)))
	} else {
		// every path to a return with a nil error either decided n <= 0 or evaluated the end-of-directory test
		bad := ""
		gcond, _ := ssax.StripNot(lenGuard.Cond, true)
		ssax.EnumPaths(fn, fn.Blocks[0], 0, nil, ssax.PathHooks{
			Branch: func(s *ssax.PathState, cond ssa.Value, taken bool) {
				cnd, val := ssax.StripNot(cond, taken)
				if cnd == gcond {
					s.Counts["guard"] = 1
				}
				f := ssax.Fact{Cond: cnd, Val: val}
				if condMentions(cnd, isN) && nDecided(f, nPrm) {
					s.Counts["nle0"] = 1
				}
			},
			End: func(s *ssax.PathState, last ssa.Instruction) {
				r := last.(*ssa.Return)
				if r == eofRet {
					return
				}
				e := resolveSpilled(r.Results[len(r.Results)-1], r)
				if !ssax.IsNilConst(e) {
					return
				}
				if s.Counts["guard"] == 0 && s.Counts["nle0"] == 0 {
					bad = p.Pos(r.Pos())
				}
			},
		})
		if bad != "" {
			c.Bad("R16.1", key, p.Pos(eofRet.Pos()), fmt.Sprintf("%s: the nil-error return at %s is reachable with n > 0 without passing the end-of-directory test", fname(fn), bad))
		} else {
			c.OK("R16.1", key, p.Pos(eofRet.Pos()), "io.EOF return under n > 0 and cursor/length test; the test dominates every nil-error return reachable with n > 0")
		}
	}
	// ---- R16.2 bounds of the listing slices ----
	canon, axioms := windowCanon(isCursorLoad, nil)
	ord := ordinals{}
	for _, s := range win {
		k2 := tk + ".ReadDir|" + ord.next("window")
		missing := windowBounds(s, canon, axioms)
		if len(missing) > 0 {
			// the window may be computed by a helper of the package: judged at the helper's returns
			if viaHelper, ok := windowViaHelper(s, canon); ok {
				missing = viaHelper
			}
		}
		if len(missing) == 0 {
			c.OK("R16.2", k2, p.Pos(s.Pos()), "window bounds entailed on every incoming path")
		} else {
			c.Bad("R16.2", k2, p.Pos(s.Pos()), fmt.Sprintf("%s: listing[%s:%s] can panic or run backwards: not entailed: %s (e.g. cursor beyond the end after a non-positive count or Seek)", fname(fn), vname(s.Low), vname(s.High), strings.Join(missing, ", ")))
		}
	}
	// ---- R16.3 ----
	k3 := tk + ".ReadDir|cursor-advance"
	var problems []string
	for _, st := range stores {
		if !dependsOn(st.Val, func(v ssa.Value) bool { return isCursorLoad(v) || isLenCall(v) }) {
			problems = append(problems, fmt.Sprintf("store at %s sets the cursor to a value that depends neither on the old cursor nor on the listing length", p.Pos(st.Pos())))
		}
	}
	// every path that slices the listing and returns nil stores the cursor
	isStore := map[ssa.Instruction]bool{}
	for _, st := range stores {
		isStore[st] = true
	}
	isWin := map[ssa.Instruction]bool{}
	for _, s := range win {
		isWin[s] = true
	}
	ssax.EnumPaths(fn, fn.Blocks[0], 0, nil, ssax.PathHooks{
		Instr: func(s *ssax.PathState, ins ssa.Instruction) {
			if isStore[ins] {
				s.Counts["store"]++
			}
			if isWin[ins] {
				s.Counts["win"]++
			}
		},
		Branch: func(s *ssax.PathState, cond ssa.Value, taken bool) {
			cnd, val := ssax.StripNot(cond, taken)
			if condMentions(cnd, isN) && nPositive(ssax.Fact{Cond: cnd, Val: val}, nPrm) {
				s.Counts["npos"] = 1
			}
		},
		End: func(s *ssax.PathState, last ssa.Instruction) {
			r := last.(*ssa.Return)
			e := resolveSpilled(r.Results[len(r.Results)-1], r)
			if !ssax.IsNilConst(e) {
				return
			}
			if s.Counts["win"] > 0 && s.Counts["store"] == 0 {
				problems = append(problems, fmt.Sprintf("a path returning a page with nil error at %s never stores the cursor", p.Pos(r.Pos())))
			}
			if s.Counts["win"] == 0 && s.Counts["npos"] == 0 && len(r.Results) > 0 && !ssax.IsNilConst(s.Resolve(r.Results[0])) {
				problems = append(problems, fmt.Sprintf("a path returns entries at %s without cutting them at the cursor (n <= 0 answered with the whole listing): after an earlier page the same entries are handed out again, and the cursor does not advance — os.File returns the remainder", p.Pos(r.Pos())))
			}
			if s.Counts["npos"] > 0 && s.Counts["win"] == 0 {
				problems = append(problems, fmt.Sprintf("a path with n > 0 returns a page at %s that was never windowed by the cursor (the whole listing again)", p.Pos(r.Pos())))
			}
		},
	})
	if len(problems) > 0 {
		c.Bad("R16.3", k3, pos, fmt.Sprintf("%s: %s — the next page would repeat or skip entries", fname(fn), dedup(problems)))
	} else {
		c.OK("R16.3", k3, pos, fmt.Sprintf("%d cursor store(s), all depending on old cursor/length; every paging path stores the cursor", len(stores)))
	}
	// ---- R16.6: every page of one handle must be cut from the same ordering ----
	{
		var src *ssa.Call
		for _, s := range win {
			v := s.X
			if ex, ok := v.(*ssa.Extract); ok {
				if cl, ok := ex.Tuple.(*ssa.Call); ok {
					src = cl
				}
			}
			if ph, ok := v.(*ssa.Phi); ok {
				for _, e := range ph.Edges {
					if ex, ok := e.(*ssa.Extract); ok {
						if cl, ok := ex.Tuple.(*ssa.Call); ok {
							src = cl
						}
					}
				}
			}
		}
		k6 := tk + ".ReadDir|stable-order"
		switch {
		case src == nil:
			if _, _, isField := ssax.FieldLoad(win[0].X); isField {
				c.OK("R16.6", k6, pos, "pages are cut from a list kept in the handle")
			} else {
				c.Unknown("R16.6", k6, pos, fmt.Sprintf("%s: cannot find where the paged listing comes from (unrecognised shape)", fname(fn)))
			}
		case listingIsStable(p, src, 0):
			c.OK("R16.6", k6, p.Pos(src.Pos()), "the listing is memoised per handle (sync.Once) or comes from a sorting source")
		default:
			c.Bad("R16.6", k6, p.Pos(src.Pos()), fmt.Sprintf("%s cuts each page out of a listing obtained afresh from %s, which neither memoises nor sorts it: a store that enumerates in varying order (sync.Map.Range) makes pages skip and repeat children", fname(fn), ssax.CallName(src)))
		}
	}
	// ---- R16.5 ----
	ssax.Instrs(fn, func(ins ssa.Instruction) {
		cl, ok := ins.(*ssa.Call)
		if !ok {
			return
		}
		callee := ssax.StaticCallee(cl)
		if callee == nil || callee.Name() != "ReadDirNames" {
			return
		}
		ev := ssax.ErrorValueOf(cl)
		k5 := tk + ".ReadDir|listing-error-wrapped"
		if ev == nil {
			c.Bad("R16.5", k5, p.Pos(cl.Pos()), fmt.Sprintf("%s: error of ReadDirNames discarded", fname(fn)))
			return
		}
		good := false
		for _, r := range ssax.Returns(fn) {
			isNil, known := ssax.KnownNil(ssax.FactsAtInstr(r), ev)
			if !known || isNil {
				continue
			}
			e := resolveSpilled(r.Results[len(r.Results)-1], r)
			info := classifyErr(e)
			if info.Wrap["PathError"] {
				for _, st := range pathErrStores(e) {
					if st.Val == ev {
						good = true
					}
				}
			}
		}
		c.Check(good, "R16.5", k5, p.Pos(cl.Pos()), "listing failure (ErrNotDir for a non-directory) returned as *PathError{Err: err}",
			fmt.Sprintf("%s: a failing ReadDirNames (listing a non-directory) is not returned as a *PathError carrying that error", fname(fn)))
	})
}

func pathErrStores(e ssa.Value) []*ssa.Store {
	e = ssax.Unwrap(e)
	if a, ok := e.(*ssa.Alloc); ok {
		return fieldStores(a, "Err")
	}
	return nil
}

func dedup(in []string) string {
	seen := map[string]bool{}
	var out []string
	for _, s := range in {
		if !seen[s] {
			seen[s] = true
			out = append(out, s)
		}
	}
	return strings.Join(out, "; ")
}

func vname(v ssa.Value) string {
	if v == nil {
		return ""
	}
	v = ssax.StripIntConv(v)
	if p, ok := v.(*ssa.Parameter); ok {
		return p.Name()
	}
	return v.Name()
}

func listName(v ssa.Value) string {
	// all loads/values of the listing inside one ReadDir denote the same list when they come from the same call
	switch x := v.(type) {
	case *ssa.Extract:
		return x.Tuple.Name()
	case *ssa.Phi:
		return x.Name()
	case *ssa.UnOp:
		// every load of the same field denotes the same list inside one ReadDir (no CSE in SSA)
		if ap := ssax.AccessPath(x); ap != "" {
			return "field:" + ap
		}
	}
	return v.Name()
}

// nPositive: fact f says n > 0 (or n >= 1).
func nPositive(f ssax.Fact, n *ssa.Parameter) bool {
	b := ssax.NewBounds([]ssax.Fact{f}, func(v ssa.Value) (ssax.Term, bool) {
		v = ssax.StripIntConv(v)
		if k, ok := ssax.ConstInt(v); ok {
			return ssax.Term{IsConst: true, Const: k}, true
		}
		if v == ssa.Value(n) {
			return ssax.Term{Sym: "n"}, true
		}
		return ssax.Term{Sym: "v:" + v.Name()}, true
	})
	return b.LE(ssax.Term{IsConst: true, Const: 1}, ssax.Term{Sym: "n"}, 0)
}

// nDecided: fact f bounds n from above by 0 (n <= 0).
func nDecided(f ssax.Fact, n *ssa.Parameter) bool {
	b := ssax.NewBounds([]ssax.Fact{f}, func(v ssa.Value) (ssax.Term, bool) {
		v = ssax.StripIntConv(v)
		if k, ok := ssax.ConstInt(v); ok {
			return ssax.Term{IsConst: true, Const: k}, true
		}
		if v == ssa.Value(n) {
			return ssax.Term{Sym: "n"}, true
		}
		return ssax.Term{Sym: "v:" + v.Name()}, true
	})
	return b.LE(ssax.Term{Sym: "n"}, ssax.Term{IsConst: true}, 0)
}

// windowBounds checks 0 <= lo <= hi <= len(list) for a slice whose bounds may be phis: every feasible
// combination of phi alternatives is checked under the facts of the edges that select them.
func windowBounds(s *ssa.Slice, canon ssax.Canon, axioms func(*ssax.Bounds)) []string {
	return windowBoundsAt(s.Low, s.High, s, ssax.Term{Sym: "len:" + listName(s.X)}, canon, axioms)
}

// windowBoundsAt: which of 0 <= low, low <= high, high <= L are not entailed at `at` (phis of low/high expanded per
// incoming edge with that edge's facts).
func windowBoundsAt(low, high ssa.Value, at ssa.Instruction, L ssax.Term, canon ssax.Canon, axioms func(*ssax.Bounds)) []string {
	zero := ssax.Term{IsConst: true}
	type alt struct {
		v     ssa.Value
		facts []ssax.Fact
		eqs   [][2]ssa.Value  // phi == incoming value on this alternative
		blk   *ssa.BasicBlock // block of the phi that was expanded last (nil if none)
		edge  int
	}
	var expand func(v ssa.Value, depth int) []alt
	expand = func(v ssa.Value, depth int) []alt {
		if v == nil {
			return []alt{{v: nil}}
		}
		ph, ok := ssax.StripIntConv(v).(*ssa.Phi)
		if !ok || depth > 2 {
			return []alt{{v: v}}
		}
		var out []alt
		for i, pred := range ph.Block().Preds {
			fs := append([]ssax.Fact{}, ssax.FactsAt(pred)...)
			if ifi, ok := pred.Instrs[len(pred.Instrs)-1].(*ssa.If); ok && pred.Succs[0] != pred.Succs[1] {
				cnd, val := ssax.StripNot(ifi.Cond, pred.Succs[0] == ph.Block())
				fs = append(fs, ssax.Fact{Cond: cnd, Val: val, If: ifi})
			}
			for _, sub := range expand(ph.Edges[i], depth+1) {
				eqs := append([][2]ssa.Value{{ph, ph.Edges[i]}}, sub.eqs...)
				out = append(out, alt{v: sub.v, facts: append(fs, sub.facts...), eqs: eqs, blk: ph.Block(), edge: i})
			}
		}
		return out
	}
	los, his := expand(low, 0), expand(high, 0)
	missing := map[string]bool{}
	for _, lo := range los {
		for _, hi := range his {
			if lo.blk != nil && lo.blk == hi.blk && lo.edge != hi.edge {
				continue // phis of one block take their values from the same edge
			}
			facts := append(append(append([]ssax.Fact{}, ssax.FactsAtInstr(at)...), lo.facts...), hi.facts...)
			if contradictory(facts) {
				continue
			}
			var lt, ht ssax.Term
			if lo.v != nil {
				lt, _ = canon(lo.v)
			}
			if hi.v != nil {
				ht, _ = canon(hi.v)
			}
			b := ssax.NewBounds(facts, canon)
			b.Assert(zero, L, 0) // a length is never negative
			for _, eq := range append(append([][2]ssa.Value{}, lo.eqs...), hi.eqs...) {
				x, _ := canon(eq[0])
				y, _ := canon(eq[1])
				b.Assert(x, y, 0)
				b.Assert(y, x, 0)
			}
			axioms(b)
			if lo.v != nil && !b.LE(zero, lt, 0) {
				missing["0 <= low"] = true
			}
			if hi.v != nil {
				if !b.LE(ht, L, 0) {
					missing["high <= len"] = true
				}
				if lo.v != nil && !b.LE(lt, ht, 0) {
					missing["low <= high"] = true
				}
			} else if lo.v != nil && !b.LE(lt, L, 0) {
				missing["low <= len"] = true
			}
		}
	}
	var out []string
	for k := range missing {
		out = append(out, k)
	}
	sort.Strings(out)
	return out
}

// contradictory: the same condition is required both true and false.
func contradictory(fs []ssax.Fact) bool {
	seen := map[ssa.Value]bool{}
	for _, f := range fs {
		if v, ok := seen[f.Cond]; ok && v != f.Val {
			return true
		}
		seen[f.Cond] = f.Val
	}
	return false
}

// ---- R16.4 ----
func r16Sorted(c *core.Ctx, p *load.Program) {
	helper := p.Func("", "ReadDir")
	if helper == nil {
		c.Hard("anchor: hackpadfs.ReadDir")
		return
	}
	sortingSource := func(cl *ssa.Call) bool {
		callee := ssax.StaticCallee(cl)
		if callee == nil {
			return false
		}
		switch {
		case ssax.FuncIs(callee, "io/fs", "ReadDir"), ssax.FuncIs(callee, "os", "ReadDir"), ssax.FuncIs(callee, mod, "ReadDir"):
			return true
		}
		return false
	}
	// helper: the return not under a capability assertion comes from io/fs.ReadDir
	ok := false
	for _, r := range ssax.Returns(helper) {
		if cl := callProducing(r.Results[0]); cl != nil && ssax.CalleeIs(cl, "io/fs", "ReadDir") {
			ok = true
		}
	}
	// or: the listing of the opened directory handle is kept in a variable that is passed through package sort
	// before it is returned (the variable has that one assignment)
	ssax.Instrs(helper, func(ins ssa.Instruction) {
		sc, isCall := ins.(*ssa.Call)
		if !isCall || len(sc.Call.Args) == 0 {
			return
		}
		callee := ssax.StaticCallee(sc)
		if callee == nil || callee.Pkg == nil || (callee.Pkg.Pkg.Path() != "sort" && callee.Pkg.Pkg.Path() != "slices") {
			return
		}
		arg := sc.Call.Args[0]
		if mi, isMI := arg.(*ssa.MakeInterface); isMI {
			arg = mi.X
		}
		ld, isLoad := arg.(*ssa.UnOp)
		if !isLoad {
			return
		}
		cell, isCell := ld.X.(*ssa.Alloc)
		if !isCell || cell.Referrers() == nil {
			return
		}
		stores, fromListing := 0, false
		for _, r := range *cell.Referrers() {
			if st, isSt := r.(*ssa.Store); isSt && st.Addr == ssa.Value(cell) {
				stores++
				if ex, isEx := st.Val.(*ssa.Extract); isEx && ex.Index == 0 {
					if lc, isLC := ex.Tuple.(*ssa.Call); isLC && lc.Call.IsInvoke() && lc.Call.Method.Name() == "ReadDir" && ssax.Dominates(st, sc) {
						fromListing = true
					}
				}
			}
		}
		// the sorted variable is what the function returns
		returned := false
		for _, r := range *cell.Referrers() {
			if u, isU := r.(*ssa.UnOp); isU && ssax.Dominates(sc, u) && u.Referrers() != nil {
				for _, rr := range *u.Referrers() {
					switch rr.(type) {
					case *ssa.Return, *ssa.Store:
						returned = true
					}
				}
			}
		}
		if stores == 1 && fromListing && returned {
			ok = true
		}
	})
	c.Check(ok, "R16.4", "hackpadfs.ReadDir|fallback-sorts", p.Pos(helper.Pos()), "the generic fallback sorts by name (io/fs.ReadDir, or the handle's listing passed through sort before it is returned)", "hackpadfs.ReadDir: the generic fallback neither ends in io/fs.ReadDir nor sorts the handle's listing before returning it: listings are not sorted by construction")
	rdI := ifaceOf(p, "", "ReadDirFS")
	if rdI == nil {
		c.Hard("anchor: hackpadfs.ReadDirFS")
		return
	}
	for _, n := range implementers(p, rdI) {
		tk := typeKey(n)
		if strings.HasPrefix(tk, "fstest.") {
			continue
		}
		fn := methodSetFuncs(p, n)["ReadDir"]
		if fn == nil || fn.Blocks == nil {
			continue
		}
		good := true
		any := false
		sorts := false
		ssax.Instrs(fn, func(ins ssa.Instruction) {
			if cl, ok := ins.(*ssa.Call); ok {
				if callee := ssax.StaticCallee(cl); callee != nil && callee.Pkg != nil && (callee.Pkg.Pkg.Path() == "sort" || callee.Pkg.Pkg.Path() == "slices") {
					sorts = true
				}
			}
		})
		for _, r := range ssax.Returns(fn) {
			v := r.Results[0]
			if ssax.IsNilConst(v) {
				continue
			}
			any = true
			cl := callProducing(v)
			if cl != nil {
				// a per-entry wrapper (replaces s[i] by something built from s[i], returns s) keeps the order
				if arg := elementwiseWrapperArg(cl); arg != nil {
					cl = callProducing(arg)
				}
			}
			if cl == nil || !sortingSource(cl) {
				good = false
			}
		}
		c.Check((good && any) || sorts, "R16.4", tk+".ReadDir|sorted-source", p.Pos(fn.Pos()), "entries come from a sorting source (os.ReadDir / io/fs.ReadDir / the helper)",
			fmt.Sprintf("%s: ReadDirFS implementation returns entries that come neither from os.ReadDir / io/fs.ReadDir / hackpadfs.ReadDir nor from an explicit sort", fname(fn)))
	}
}

// listingIsStable: the call returns a listing with a per-handle stable order: its callee stores the result under a
// sync.Once (memoised), sorts it, or is a sorting source (io/fs.ReadDir, os.ReadDir, the ReadDir helper).
func listingIsStable(p *load.Program, cl *ssa.Call, depth int) bool {
	callee := ssax.StaticCallee(cl)
	if callee == nil || depth > 2 {
		return false
	}
	if ssax.FuncIs(callee, "io/fs", "ReadDir") || ssax.FuncIs(callee, "os", "ReadDir") || ssax.FuncIs(callee, mod, "ReadDir") {
		return true
	}
	if callee.Blocks == nil {
		return false
	}
	stable := false
	ssax.Instrs(callee, func(ins ssa.Instruction) {
		c2, ok := ins.(*ssa.Call)
		if !ok {
			return
		}
		if ssax.CalleeIs(c2, "sync", "(*Once).Do") {
			stable = true
		}
		if cal := ssax.StaticCallee(c2); cal != nil && cal.Pkg != nil && (cal.Pkg.Pkg.Path() == "sort" || cal.Pkg.Pkg.Path() == "slices") {
			stable = true
		}
	})
	return stable
}

// r16NoOverflow (R16.7)
func r16NoOverflow(c *core.Ctx, p *load.Program, tk string, root *ssa.Function) {
	ord := ordinals{}
	// ReadDir itself and the helpers it hands n to (the window arithmetic may live in one)
	for _, body := range opBodies(root) {
		nPrm := body.param(root.Params[1])
		if nPrm == nil {
			continue
		}
		r16NoOverflowIn(c, p, tk, root, body.fn, nPrm, ord)
	}
}

func r16NoOverflowIn(c *core.Ctx, p *load.Program, tk string, root, fn *ssa.Function, nPrm *ssa.Parameter, ord ordinals) {
	isN := func(v ssa.Value) bool { return ssax.StripIntConv(v) == ssa.Value(nPrm) }
	ssax.Instrs(fn, func(ins ssa.Instruction) {
		bo, ok := ins.(*ssa.BinOp)
		if !ok || bo.Op != token.ADD {
			return
		}
		if _, isInt := bo.Type().Underlying().(*types.Basic); !isInt || (!isN(bo.X) && !isN(bo.Y)) {
			return
		}
		if _, isConst := bo.X.(*ssa.Const); isConst {
			return
		}
		if _, isConst := bo.Y.(*ssa.Const); isConst {
			return
		}
		key := tk + ".ReadDir|" + ord.next("sum-with-n")
		bounded := false
		for _, f := range ssax.FactsAtInstr(bo) {
			cmp, ok := f.Cond.(*ssa.BinOp)
			if !ok {
				continue
			}
			// n < e / n <= e (true) or e > n / e >= n (true), or their negations the other way round
			upper := false
			switch {
			case isN(cmp.X) && !dependsOn(cmp.Y, isN):
				upper = (f.Val && (cmp.Op == token.LSS || cmp.Op == token.LEQ)) || (!f.Val && (cmp.Op == token.GTR || cmp.Op == token.GEQ))
			case isN(cmp.Y) && !dependsOn(cmp.X, isN):
				upper = (f.Val && (cmp.Op == token.GTR || cmp.Op == token.GEQ)) || (!f.Val && (cmp.Op == token.LSS || cmp.Op == token.LEQ))
			}
			if upper {
				if _, isConst := cmp.X.(*ssa.Const); isConst {
					continue // n > 0 style tests bound n from below only
				}
				if k, isConst := ssax.ConstInt(cmp.Y); isConst && k <= 0 {
					continue
				}
				bounded = true
			}
		}
		c.Check(bounded, "R16.7", key, p.Pos(bo.Pos()), "the sum with n is formed only where n is bounded above by a dominating comparison",
			fmt.Sprintf("%s adds the caller's count n to the cursor before n is bounded (%s): for a huge n on a handle that already returned a page the sum overflows to a negative number and the listing slice panics — compare n with the remainder (length - cursor) first", fname(fn), p.Pos(bo.Pos())))
	})
}

// r16CursorAfterSuccess (R16.9): in a windowing ReadDir no error return is reachable after the cursor was advanced:
// the page's entries are built first (each child is Stat'ed, which can fail), the cursor moves only when the page is
// going to be returned. A cursor advanced first makes a failed page disappear: the caller that retries or keeps
// paging never sees those children.
func r16CursorAfterSuccess(c *core.Ctx, p *load.Program, tk string, fn *ssa.Function) {
	cur, stores := cursorField(fn)
	if cur == "" || len(stores) == 0 {
		return
	}
	eidx := ssax.ErrorResultIndex(fn.Signature)
	if eidx < 0 {
		return
	}
	bad := ""
	for _, st := range stores {
		b := st.Block()
		idx := 0
		for i, ins := range b.Instrs {
			if ins == ssa.Instruction(st) {
				idx = i
			}
		}
		ssax.EnumPaths(fn, b, idx+1, ssax.NewPathState(), ssax.PathHooks{
			End: func(ps *ssax.PathState, last ssa.Instruction) {
				r, ok := last.(*ssa.Return)
				if !ok || bad != "" {
					return
				}
				e := ps.Resolve(resolveSpilledOnPath(r.Results[eidx], r, ps))
				if ssax.IsNilConst(e) || ps.NilOf(e) == ssax.IsNil || ssax.IsGlobalLoad(ssax.Unwrap(e), "io", "EOF") {
					return
				}
				bad = p.Pos(r.Pos())
			},
		})
	}
	c.Check(bad == "", "R16.9", tk+".ReadDir|cursor-advanced-only-for-a-returned-page", p.Pos(fn.Pos()), "no failing return is reachable after the cursor was advanced",
		fmt.Sprintf("%s advances the handle's cursor and can still fail afterwards (return at %s): the entries of the failed page are consumed — a caller that keeps paging gets a, b, e, f, g of a..g, and a retried ReadDir(-1) answers an empty list with a nil error", fname(fn), bad))
}

// r16CursorMovesByPage (R16.12 / R10.13): on every path to a store of the paging cursor, the stored value is the old
// cursor plus (high - low) of the listing window the call returns, as linear forms with the phis resolved per path.
// "cursor = end" agrees with that while the cursor lies inside the listing, and differs once a Seek has put it past
// the end (start is clamped to the length, the cursor is pulled back to it): sibling implementations then disagree on
// every later relative Seek.
func r16CursorMovesByPage(c *core.Ctx, p *load.Program, tk string, fn *ssa.Function, win []*ssa.Slice, rule string) {
	cur, stores := cursorField(fn)
	if cur == "" || len(stores) == 0 || len(win) == 0 {
		return
	}
	recv := recvParam(fn)
	var ps0 *ssax.PathState
	atom := func(v ssa.Value) (string, bool) {
		v = ssax.StripIntConv(v)
		if isLoadOfField(v, recv, cur) {
			return "CURSOR", true
		}
		if cl, ok := v.(*ssa.Call); ok {
			if b, ok := cl.Call.Value.(*ssa.Builtin); ok && b.Name() == "len" {
				x := cl.Call.Args[0]
				if ps0 != nil {
					x = ps0.Resolve(x)
				}
				if sl, isSlice := x.(*ssa.Slice); isSlice && sl.Low != nil && sl.High != nil {
					return "", false // len(x[lo:hi]) is hi - lo (linOfWith)
				}
				return fmt.Sprintf("len(%p)", x), true
			}
		}
		return "", false
	}
	for i, st := range stores {
		key := tk + ".ReadDir|" + fmt.Sprintf("cursor-moves-by-the-page#%d", i+1)
		paths, okPaths := 0, 0
		complete := ssax.EnumPaths(fn, fn.Blocks[0], 0, ssax.NewPathState(), ssax.PathHooks{
			Instr: func(ps *ssax.PathState, ins ssa.Instruction) {
				if ins != ssa.Instruction(st) || ps.Counts["seen"] == 1 {
					return
				}
				ps.Counts["seen"] = 1
				paths++
				ps0 = ps
				stored := linOfWith(ps, st.Val, 0, atom)
				curF := linForm{atoms: map[string]int64{"CURSOR": 1}}
				for _, w := range win {
					if w.Low == nil || w.High == nil {
						continue
					}
					want := curF.add(linOfWith(ps, w.High, 0, atom), 1).add(linOfWith(ps, w.Low, 0, atom), -1)
					if stored.equal(want) {
						okPaths++
						return
					}
				}
			},
		})
		switch {
		case !complete:
			c.Unknown(rule, key, p.Pos(st.Pos()), "path enumeration exceeded its cap")
		case paths > 0 && paths == okPaths:
			c.OK(rule, key, p.Pos(st.Pos()), fmt.Sprintf("on each of %d paths the stored cursor is the old cursor plus the size of the returned window", paths))
		default:
			c.Bad(rule, key, p.Pos(st.Pos()), fmt.Sprintf("%s: on %d of %d paths the cursor stored at %s is not 'old cursor + (high - low)' of the page returned: with the cursor beyond the end of the listing (after a Seek) the start is clamped and the cursor is pulled back to the listing's length, where the sibling implementation leaves it — every later relative Seek and page then differs between a file system and a cache or view of it", fname(fn), paths-okPaths, paths, p.Pos(st.Pos())))
		}
	}
}

// r16EntryTypeIsTypeBits (R16.13): Type() of every io/fs.DirEntry implementation of the module returns
// FileMode.Type() of a mode, another entry's Type(), or a value masked with io/fs.ModeType. "The mode without the
// permission bits" keeps setuid/setgid/sticky: a 1777 directory is listed with kind dt--------- while Stat (and the
// entry's own Info()) say d---------.
func r16EntryTypeIsTypeBits(c *core.Ctx, p *load.Program) {
	entI := stdIface(p, "io/fs", "DirEntry")
	if entI == nil {
		c.Hard("anchor: io/fs.DirEntry")
		return
	}
	const modeType = int64(1)<<31 | 1<<27 | 1<<25 | 1<<24 | 1<<26 | 1<<21 | 1<<19 // io/fs.ModeType
	n := 0
	for _, t := range implementers(p, entI) {
		if strings.HasPrefix(typeKey(t), "fstest.") {
			continue
		}
		fn := methodsOf(p, t)["Type"]
		if fn == nil || fn.Blocks == nil {
			continue
		}
		n++
		bad := ""
		for _, r := range ssax.Returns(fn) {
			v := resolveSpilled(r.Results[0], r)
			ok := false
			switch x := v.(type) {
			case *ssa.Call:
				if callee := ssax.StaticCallee(x); callee != nil && callee.Name() == "Type" {
					ok = true
				}
				if m := ssax.InvokeMethod(x); m != nil && m.Name() == "Type" {
					ok = true
				}
			case *ssa.BinOp:
				if x.Op == token.AND {
					for _, side := range []ssa.Value{x.X, x.Y} {
						if k, isK := ssax.ConstInt(side); isK && k&^modeType == 0 {
							ok = true
						}
					}
				}
			case *ssa.Const:
				ok = true
			}
			if !ok {
				bad = p.Pos(r.Pos())
			}
		}
		c.Check(bad == "", "R16.13", typeKey(t)+".Type|type-bits-only", p.Pos(fn.Pos()), "Type() returns FileMode.Type() / a delegate's Type() / a ModeType-masked value",
			fmt.Sprintf("%s returns at %s a mode that is not reduced to its type bits: for a child with setuid, setgid or sticky set the entry's kind carries bits outside io/fs.ModeType and disagrees with Stat of the child and with the entry's own Info()", fname(fn), bad))
	}
	if n == 0 {
		c.Hard("anchor: DirEntry implementations with a Type method")
	}
}

// windowCanon builds the canonicaliser and the axioms of the window-bounds check: the cursor is one symbol CUR (never
// negative, A8), len(listing) one symbol per listing, sums and differences are coupled with their operands. lenSym, if
// not nil, names further values that denote a listing's length (a helper's parameter, say).
func windowCanon(isCursor func(ssa.Value) bool, lenSym func(ssa.Value) (string, bool)) (ssax.Canon, func(*ssax.Bounds)) {
	type sumRec struct{ s, a, b ssax.Term }
	var sums, diffs []sumRec
	var canon ssax.Canon
	ts := func(t ssax.Term) string {
		if t.IsConst {
			return fmt.Sprint(t.Const)
		}
		return t.Sym
	}
	canon = func(v ssa.Value) (ssax.Term, bool) {
		v = ssax.StripIntConv(v)
		if k, ok := ssax.ConstInt(v); ok {
			return ssax.Term{IsConst: true, Const: k}, true
		}
		if isCursor(v) {
			return ssax.Term{Sym: "CUR"}, true
		}
		if lenSym != nil {
			if sym, ok := lenSym(v); ok {
				return ssax.Term{Sym: sym}, true
			}
		}
		if cl, ok := v.(*ssa.Call); ok && isLenCall(cl) {
			return ssax.Term{Sym: "len:" + listName(cl.Call.Args[0])}, true
		}
		if pr, ok := v.(*ssa.Parameter); ok {
			return ssax.Term{Sym: "p:" + pr.Name()}, true
		}
		if bo, ok := v.(*ssa.BinOp); ok && bo.Op == token.ADD {
			a, _ := canon(bo.X)
			b, _ := canon(bo.Y)
			st := ssax.Term{Sym: "(" + ts(a) + "+" + ts(b) + ")"}
			sums = append(sums, sumRec{st, a, b})
			// the commuted reading too: a+b = b+a
			sums = append(sums, sumRec{st, b, a})
			return st, true
		}
		if bo, ok := v.(*ssa.BinOp); ok && bo.Op == token.SUB {
			a, _ := canon(bo.X)
			b, _ := canon(bo.Y)
			dt := ssax.Term{Sym: "(" + ts(a) + "-" + ts(b) + ")"}
			diffs = append(diffs, sumRec{dt, a, b})
			return dt, true
		}
		return ssax.Term{Sym: "v:" + v.Name()}, true
	}
	axioms := func(b *ssax.Bounds) {
		// A8: the cursor never goes negative (it starts at 0 and R16.3 checks what is stored into it)
		b.Assert(ssax.Term{IsConst: true}, ssax.Term{Sym: "CUR"}, 0)
		for i := 0; i < 2; i++ {
			for _, sr := range sums {
				b.Sum(sr.s, sr.a, sr.b)
			}
			for _, dr := range diffs {
				b.Diff(dr.s, dr.a, dr.b)
				// x < a - t  <=>  x + t < a, for a sum with the same t
				for _, sr := range sums {
					if sr.b == dr.b {
						b.Couple(sr.s, sr.a, dr.s, dr.a)
					}
				}
			}
		}
	}
	return canon, axioms
}

// windowViaHelper: the bounds of listing[low:high] are the two results of one call of a helper of the package
// ("readDirRange(cursor, len(listing), n)"). The check is made where the arithmetic is: at every return of the helper,
// with the parameter that receives the cursor read as the cursor and the one that receives len(listing) as the length.
// ok=false: not that shape.
func windowViaHelper(s *ssa.Slice, canon ssax.Canon) (missing []string, ok bool) {
	lo, ok1 := ssax.StripIntConv(s.Low).(*ssa.Extract)
	hi, ok2 := ssax.StripIntConv(s.High).(*ssa.Extract)
	if s.Low == nil || s.High == nil || !ok1 || !ok2 || lo.Tuple != hi.Tuple {
		return nil, false
	}
	call, isCall := lo.Tuple.(*ssa.Call)
	if !isCall {
		return nil, false
	}
	h := ssax.StaticCallee(call)
	if h == nil || h.Blocks == nil || h.Pkg != s.Parent().Pkg || len(h.Params) != len(call.Call.Args) {
		return nil, false
	}
	L := "len:" + listName(s.X)
	var curP, lenP *ssa.Parameter
	for i, a := range call.Call.Args {
		t, _ := canon(a)
		switch t.Sym {
		case "CUR":
			curP = h.Params[i]
		case L:
			lenP = h.Params[i]
		}
	}
	if lenP == nil {
		return nil, false
	}
	hc, hax := windowCanon(func(v ssa.Value) bool { return curP != nil && v == ssa.Value(curP) }, func(v ssa.Value) (string, bool) {
		if v == ssa.Value(lenP) {
			return L, true
		}
		return "", false
	})
	miss := map[string]bool{}
	for _, r := range ssax.Returns(h) {
		if lo.Index >= len(r.Results) || hi.Index >= len(r.Results) {
			return nil, false
		}
		for _, m := range windowBoundsAt(r.Results[lo.Index], r.Results[hi.Index], r, ssax.Term{Sym: L}, hc, hax) {
			miss[m] = true
		}
	}
	for m := range miss {
		missing = append(missing, m)
	}
	sort.Strings(missing)
	return missing, true
}

// r16ListingFollowsLinks (R16.15, who-may-call): in package os only the Lstat method of the FS calls os.Lstat. Every
// other by-name operation follows symbolic links like the os function it wraps: a listing that first asks Lstat whether
// the name "is a directory" refuses a symbolic link to a directory with ErrNotDir, while Stat says it is one and a handle
// lists it.
func r16ListingFollowsLinks(c *core.Ctx, p *load.Program) {
	if p.Target == load.Wasm {
		return
	}
	n := 0
	for _, fn := range pkgFuncs(p, "os") {
		ord := ordinals{}
		ssax.Instrs(fn, func(ins ssa.Instruction) {
			cl, ok := ins.(*ssa.Call)
			if !ok || !ssax.CalleeIs(cl, "os", "Lstat") {
				return
			}
			n++
			root := fn
			for root.Parent() != nil {
				root = root.Parent()
			}
			c.Check(root.Name() == "Lstat", "R16.15", fname(fn)+"|"+ord.next("os.Lstat"), p.Pos(cl.Pos()), "os.Lstat is called by the Lstat method only",
				fmt.Sprintf("%s asks os.Lstat about a name: what it decides from the answer differs from Stat for a symbolic link — a by-name listing (or any other operation) of a link to a directory is refused as 'not a directory' while Stat and an opened handle treat it as one", fname(fn)))
		})
	}
	if n == 0 {
		c.Hard("anchor: os.Lstat call in package os")
	}
}

// elementwiseWrapperArg: cl calls a function with a body whose every return hands back one of its slice parameters, and
// whose only writes to that slice are stores to s[i] of something built from s[i] (no append, no re-slicing, no call
// that receives the slice): the argument bound to that parameter, else nil. Such a function cannot reorder, drop or
// add entries.
func elementwiseWrapperArg(cl *ssa.Call) ssa.Value {
	callee := ssax.StaticCallee(cl)
	if callee == nil || callee.Blocks == nil || len(callee.Params) != len(cl.Call.Args) {
		return nil
	}
	var param *ssa.Parameter
	for _, r := range ssax.Returns(callee) {
		if len(r.Results) != 1 {
			return nil
		}
		q, ok := r.Results[0].(*ssa.Parameter)
		if !ok || (param != nil && q != param) {
			return nil
		}
		param = q
	}
	if param == nil {
		return nil
	}
	if _, isSlice := param.Type().Underlying().(*types.Slice); !isSlice {
		return nil
	}
	ok := true
	ssax.Instrs(callee, func(ins ssa.Instruction) {
		switch x := ins.(type) {
		case *ssa.Call:
			for _, a := range x.Call.Args {
				if a == ssa.Value(param) {
					if b, isB := x.Call.Value.(*ssa.Builtin); !isB || b.Name() != "len" {
						ok = false
					}
				}
			}
		case *ssa.Slice:
			if x.X == ssa.Value(param) {
				ok = false
			}
		case *ssa.Store:
			if ia, isIA := x.Addr.(*ssa.IndexAddr); isIA && ia.X == ssa.Value(param) {
				// the element stored is built from the element read at the same index (the struct literal goes through a
				// local cell, so the read is looked for in the function rather than in the stored value's operands)
				same := false
				ssax.Instrs(callee, func(in2 ssa.Instruction) {
					if ld, isLd := in2.(*ssa.UnOp); isLd {
						if ia2, isIA2 := ld.X.(*ssa.IndexAddr); isIA2 && ia2.X == ssa.Value(param) && ia2.Index == ia.Index {
							same = true
						}
					}
				})
				if !same {
					ok = false
				}
			}
		}
	})
	if !ok {
		return nil
	}
	for i, q := range callee.Params {
		if q == param {
			return cl.Call.Args[i]
		}
	}
	return nil
}
