package rules

import (
	"fmt"
	"go/token"
	"go/types"
	"sort"
	"strings"

	"golang.org/x/tools/go/ssa"

	"hpfscheck/internal/core"
	"hpfscheck/internal/load"
	"hpfscheck/internal/ssax"
)

func init() {
	register(&Spec{ID: "C17", Targets: []load.Target{load.Linux, load.Windows}, Run: runC17})
}

func runC17(c *core.Ctx) {
	runFixtures(c, "nilguard", "pool", "lockleak")
	c.Explain("Structural clauses of C17 decided from source: (R17.1) for every pointer field of a struct that some method assigns nil (the closed mark of keyvalue.file), every dereference of that field in every other method — including promoted fields/methods of the embedded pointer — is dominated by a non-nil test of the field, directly or at every call site of an unexported helper; (R17.2) every type implementing io/fs.File has a closed state: Close writes a receiver field or delegates to an inner handle's Close, and every other exported method tests that field before its first effect or delegates to the inner handle; (R17.3) the failing side of each closed-guard returns an ErrClosed-class error; (R17.4) every store write-back reachable from a File method happens in a transaction that first looks the path up and skips the write when it no longer exists; (R17.5) path-sensitive form of R17.2: in every exported method of every File type, each return with a nil error lies on a path that loaded the closed mark / inner handle or called another method of the same receiver — a fast path that answers before the check (an empty buffer, a cached value) succeeds on a closed handle; (R17.6) no value of a type implementing io/fs.File is put into a sync.Pool (a recycled struct makes a closed handle work again and lets it move another handle's position); (R17.7) no method of the OS-backed File type calls a path-taking function of package os (os.Chmod, os.Stat…): after Close the handle's methods fail with ErrClosed, while a by-name fallback would succeed and act on whatever file has that name now. (R17.8) every error a method of the OS-backed handle returns is the translated error of the inner *os.File call (a closed handle answers ErrClosed whatever the arguments). (R17.9) Close marks the handle only after testing its closed mark. (R17.10) no handle method returns with a mutex held; (R17.11) File helpers hand their file's error on. (R17.12) methods of the os-backed handle return the error of their *os.File call. (R17.13) Close of the os-backed handle closes the *os.File on every path. NOT claimed: independence of offsets between handles over histories (the offset is a per-handle struct field, inventoried only), equality of the error with os.File's for each call.")
	c.Assume("A6: partial correctness", "closers are not invoked from within other methods of the same handle (checked: no static call to a closer from a sibling method)")
	c.RuleDoc("R17.1", "nullable pointer field: every dereference guarded by a dominating non-nil test")
	c.RuleDoc("R17.5", "every success return of a handle method lies on a path that consulted the closed mark or delegated")
	c.RuleDoc("R17.10", "no method of a file handle returns with a mutex held")
	c.RuleDoc("R17.13", "Close of the os-backed handle closes the *os.File on every path")
	c.RuleDoc("R17.12", "a method of the os-backed handle returns the error of the *os.File call it makes")
	c.RuleDoc("R17.11", "a File helper hands its file's error on instead of answering with its own")
	c.RuleDoc("R17.9", "a second Close fails")
	c.RuleDoc("R17.8", "every error of the OS-backed handle is the inner *os.File's (a closed handle answers ErrClosed whatever the arguments)")
	c.RuleDoc("R17.7", "methods of the OS-backed file act through the held *os.File only")
	c.RuleDoc("R17.6", "handle values are never recycled through a pool")
	c.RuleDoc("R17.2", "every File type has a closed state that every method consults or delegates")
	c.RuleDoc("R17.3", "closed-guard failing edge returns ErrClosed-class error")
	c.RuleDoc("R17.4", "write-back from a handle is conditional on the path still existing")
	for _, p := range c.Progs {
		c.SetProg(p)
		r17Nullable(c, p)
		r17ClosedState(c, p)
		r17NoPool(c, p, p.SrcFuncs())
		r17HandleOnly(c, p)
		r17WrapperAnswersLast(c, p)
		r17HelpersKeepTheHandleError(c, p)
		r17OSHandleErrorsKept(c, p)
		r17OSCloseAlwaysCloses(c, p)
		if fileI := stdIface(p, "io/fs", "File"); fileI != nil {
			var hm []*ssa.Function
			for _, n := range implementers(p, fileI) {
				if strings.HasPrefix(typeKey(n), "fstest.") {
					continue
				}
				hm = append(hm, methodList(p, n)...)
			}
			if r17NoLockLeakInHandles(c, p, hm, "R17.10") == 0 {
				c.OK("R17.10", "no-handle-method-locks", "", "no method of a file-handle type takes a mutex of its receiver")
			}
		}
		if p.Target == load.Linux {
			r17WriteBack(c, p)
		}
	}
	c.Floor("R17.1", 10)
	c.Floor("R17.2", 5)
	c.Floor("R17.5", 30)
	c.Floor("R17.7", 10)
	c.Floor("R17.8", 10)
	c.Floor("R17.9", 2)
	c.Floor("R17.12", 8)
	c.Floor("R17.13", 1)
	c.Floor("R17.11", 8)
	c.Floor("R17.3", 8)
	c.Floor("R17.4", 1)
}

type nullableField struct {
	named   *types.Named
	field   string
	closers map[*ssa.Function]bool
}

func findNullableFields(p *load.Program) []*nullableField {
	var out []*nullableField
	for _, pk := range p.Pkgs {
		sc := pk.Types.Scope()
		for _, name := range sc.Names() {
			tn, ok := sc.Lookup(name).(*types.TypeName)
			if !ok || tn.IsAlias() {
				continue
			}
			named, ok := tn.Type().(*types.Named)
			if !ok {
				continue
			}
			if _, ok := named.Underlying().(*types.Struct); !ok {
				continue
			}
			byField := map[string]*nullableField{}
			for _, fn := range methodsOf(p, named) {
				recv := recvParam(fn)
				ssax.Instrs(fn, func(ins ssa.Instruction) {
					st, ok := ins.(*ssa.Store)
					if !ok || !ssax.IsNilConst(st.Val) {
						return
					}
					fa, ok := st.Addr.(*ssa.FieldAddr)
					if !ok || fa.X != ssa.Value(recv) {
						return
					}
					if _, isPtr := fa.Type().(*types.Pointer).Elem().Underlying().(*types.Pointer); !isPtr {
						return
					}
					f := ssax.FieldName(fa)
					if byField[f] == nil {
						byField[f] = &nullableField{named: named, field: f, closers: map[*ssa.Function]bool{}}
					}
					byField[f].closers[fn] = true
				})
			}
			var fs []string
			for f := range byField {
				fs = append(fs, f)
			}
			sort.Strings(fs)
			for _, f := range fs {
				out = append(out, byField[f])
			}
		}
	}
	return out
}

// isLoadOfNamedField: v loads field `field` of struct type `named` through any base pointer.
func isLoadOfNamedField(v ssa.Value, named *types.Named, field string) bool {
	u, ok := v.(*ssa.UnOp)
	if !ok || u.Op != token.MUL {
		return false
	}
	fa, ok := u.X.(*ssa.FieldAddr)
	if !ok || ssax.FieldName(fa) != field {
		return false
	}
	n := ssax.StructOfFieldAddr(fa)
	return n != nil && types.Identical(n, named)
}

// derefsOfField lists instructions in fn that dereference a load of <anything>.field of struct type named.
func derefsOfField(fn *ssa.Function, named *types.Named, field string) []ssa.Instruction {
	var out []ssa.Instruction
	ssax.Instrs(fn, func(ins ssa.Instruction) {
		u, ok := ins.(*ssa.UnOp)
		if !ok || !isLoadOfNamedField(u, named, field) || u.Referrers() == nil {
			return
		}
		for _, r := range *u.Referrers() {
			switch r := r.(type) {
			case *ssa.FieldAddr:
				if r.X == ssa.Value(u) {
					out = append(out, r)
				}
			case *ssa.UnOp:
				if r.Op == token.MUL && r.X == ssa.Value(u) {
					out = append(out, r)
				}
			case *ssa.Call:
				if !r.Call.IsInvoke() && len(r.Call.Args) > 0 && r.Call.Args[0] == ssa.Value(u) {
					if callee := ssax.StaticCallee(r); callee != nil && callee.Signature.Recv() != nil {
						out = append(out, r)
					}
				}
			}
		}
	})
	return out
}

// derefBase returns the loaded nullable value an instruction dereferences.
func derefBase(ins ssa.Instruction) ssa.Value {
	switch r := ins.(type) {
	case *ssa.FieldAddr:
		return r.X
	case *ssa.UnOp:
		return r.X
	case *ssa.Call:
		return r.Call.Args[0]
	}
	return nil
}

// nonNilGuardAt: a dominating fact "<same access path> != nil" holds at ins (ins dereferences a load of the field).
func nonNilGuardAt(ins ssa.Instruction, named *types.Named, field string) *ssa.If {
	want := ssax.AccessPath(derefBase(ins))
	if want == "" {
		return nil
	}
	return nonNilGuardFor(ins, want, named, field)
}

func nonNilGuardFor(at ssa.Instruction, wantPath string, named *types.Named, field string) *ssa.If {
	for _, f := range ssax.FactsAtInstr(at) {
		x, eq, ok := ssax.NilTest(f.Cond)
		if !ok {
			continue
		}
		if isLoadOfNamedField(x, named, field) && eq != f.Val && ssax.AccessPath(x) == wantPath {
			return f.If
		}
	}
	return nil
}

func r17Nullable(c *core.Ctx, p *load.Program) {
	nfs := findNullableFields(p)
	if len(nfs) == 0 {
		c.OKTrivial("R17.1", "no-nullable-pointer-field", "-", "no method assigns nil to a pointer field of its receiver")
	}
	for _, nf := range nfs {
		tk := typeKey(nf.named)
		methods := methodsOf(p, nf.named)
		// wrapper types: structs of the same package holding a *T; their methods see the same nullable field
		for _, w := range wrapperTypes(p, nf.named) {
			for n, fn := range methodsOf(p, w) {
				methods[w.Obj().Name()+"."+n] = fn
			}
		}
		var names []string
		for n := range methods {
			names = append(names, n)
		}
		sort.Strings(names)
		// field must not be re-assigned outside closers/constructors in sibling methods
		guardOK := map[*ssa.Function]bool{} // method -> all derefs guarded locally
		for _, n := range names {
			fn := methods[n]
			ds := derefsOfField(fn, nf.named, nf.field)
			if len(ds) == 0 {
				continue
			}
			all := true
			for _, d := range ds {
				if nonNilGuardAt(d, nf.named, nf.field) == nil {
					all = false
				}
			}
			guardOK[fn] = all
		}
		// resolve helpers through call sites (fixpoint, unexported methods only)
		var callerGuarded func(fn *ssa.Function, depth int) (bool, string)
		callerGuarded = func(fn *ssa.Function, depth int) (bool, string) {
			if fn.Object() != nil && fn.Object().Exported() {
				return false, "exported method"
			}
			if depth > 3 {
				return false, "helper chain too deep"
			}
			sites := 0
			for _, other := range p.SrcFuncs() {
				var bad string
				ssax.Instrs(other, func(ins ssa.Instruction) {
					cl, ok := ins.(ssa.CallInstruction)
					if !ok || ssax.StaticCallee(cl) != fn || bad != "" {
						return
					}
					sites++
					orecv := recvParam(other)
					args := cl.Common().Args
					if orecv == nil || len(args) == 0 || args[0] != ssa.Value(orecv) || !isMethodIn(methods, other) {
						bad = "called at " + p.Pos(cl.Pos()) + " on a receiver that is not the caller's own"
						return
					}
					if nonNilGuardFor(cl, orecv.Name()+"."+nf.field, nf.named, nf.field) != nil {
						return
					}
					if ok2, _ := callerGuarded(other, depth+1); ok2 {
						return
					}
					bad = "called at " + p.Pos(cl.Pos()) + " in " + fname(other) + " without a dominating non-nil test"
				})
				if bad != "" {
					return false, bad
				}
			}
			if sites == 0 {
				return false, "no static call site (address taken or dead)"
			}
			return true, ""
		}
		for _, n := range names {
			fn := methods[n]
			recv := recvParam(fn)
			ds := derefsOfField(fn, nf.named, nf.field)
			if len(ds) == 0 {
				continue
			}
			key := tk + "." + n + "|nil-guard:" + nf.field
			if guardOK[fn] {
				c.OK("R17.1", key, p.Pos(fn.Pos()), fmt.Sprintf("%d dereference(s) of %s dominated by a non-nil test", len(ds), nf.field))
				// R17.3 on the guard(s)
				seenIf := map[*ssa.If]bool{}
				for _, d := range ds {
					g := nonNilGuardAt(d, nf.named, nf.field)
					if g == nil || seenIf[g] {
						continue
					}
					seenIf[g] = true
					r17GuardClass(c, p, fn, g, recv, nf.field, tk+"."+n)
				}
				continue
			}
			if ok, why := callerGuarded(fn, 0); ok {
				c.OK("R17.1", key, p.Pos(fn.Pos()), "unexported helper: every call site is dominated by a non-nil test of the caller's "+nf.field)
				continue
			} else {
				var first ssa.Instruction
				for _, d := range ds {
					if nonNilGuardAt(d, nf.named, nf.field) == nil {
						first = d
						break
					}
				}
				var closerNames []string
				for cfn := range nf.closers {
					closerNames = append(closerNames, cfn.Name())
				}
				sort.Strings(closerNames)
				c.Bad("R17.1", key, p.Pos(first.Pos()), fmt.Sprintf("%s dereferences %s.%s, which %s sets to nil, without a dominating non-nil test (%s): nil-pointer panic after %s", fname(fn), tk, nf.field, strings.Join(closerNames, "/"), why, strings.Join(closerNames, "/")))
			}
		}
		// sibling methods must not call a closer
		for _, n := range names {
			fn := methods[n]
			if nf.closers[fn] || len(derefsOfField(fn, nf.named, nf.field)) == 0 {
				continue // pure delegation (wrapper Close) has no dereference whose guard a closer could invalidate
			}
			ssax.Instrs(fn, func(ins ssa.Instruction) {
				if cl, ok := ins.(ssa.CallInstruction); ok {
					if callee := ssax.StaticCallee(cl); callee != nil && nf.closers[callee] {
						c.Bad("R17.1", tk+"."+n+"|calls-closer", p.Pos(cl.Pos()), fmt.Sprintf("%s calls closer %s: non-nil facts do not survive it", fname(fn), fname(callee)))
					}
				}
			})
		}
	}
}

// r17GuardClass: the nil side of guard g returns an ErrClosed-class error.
func isMethodIn(ms map[string]*ssa.Function, fn *ssa.Function) bool {
	for _, f := range ms {
		if f == fn {
			return true
		}
	}
	return false
}

// wrapperTypes: named struct types of T's package with a field of type *T.
func wrapperTypes(p *load.Program, t *types.Named) []*types.Named {
	var out []*types.Named
	sc := t.Obj().Pkg().Scope()
	for _, name := range sc.Names() {
		tn, ok := sc.Lookup(name).(*types.TypeName)
		if !ok || tn.IsAlias() {
			continue
		}
		n, ok := tn.Type().(*types.Named)
		if !ok || n == t {
			continue
		}
		st, ok := n.Underlying().(*types.Struct)
		if !ok {
			continue
		}
		for i := 0; i < st.NumFields(); i++ {
			if pt, ok := st.Field(i).Type().(*types.Pointer); ok && types.Identical(pt.Elem(), t) {
				out = append(out, n)
				break
			}
		}
	}
	return out
}

func r17GuardClass(c *core.Ctx, p *load.Program, fn *ssa.Function, g *ssa.If, recv ssa.Value, field, keyBase string) {
	cond, val := ssax.StripNot(g.Cond, true)
	_, eq, _ := ssax.NilTest(cond)
	// successor taken when field == nil
	nilSucc := g.Block().Succs[1]
	if eq == val {
		nilSucc = g.Block().Succs[0]
	}
	key := keyBase + "|closed-error-class"
	_, ev, isErr := blockReturnsError(nilSucc)
	if !isErr {
		c.Bad("R17.3", key, p.Pos(g.Pos()), fmt.Sprintf("%s: when %s is nil (handle closed) the method does not return an error", fname(fn), field))
		return
	}
	info := classifyErr(ev)
	// the nil side hands over to another method of the same receiver, whose own guard answers the closed handle
	if cl := callProducing(ev); cl != nil && !info.only("ErrClosed", false) {
		if callee := ssax.StaticCallee(cl); callee != nil && len(cl.Call.Args) > 0 && cl.Call.Args[0] == recv && callee != fn {
			if g2 := nonNilGuardOfMethod(callee, field); g2 != nil {
				c2, v2 := ssax.StripNot(g2.Cond, true)
				_, eq2, _ := ssax.NilTest(c2)
				ns := g2.Block().Succs[1]
				if eq2 == v2 {
					ns = g2.Block().Succs[0]
				}
				if _, ev2, ok := blockReturnsError(ns); ok && classifyErr(ev2).only("ErrClosed", false) {
					c.OK("R17.3", key, p.Pos(g.Pos()), "on the closed side the method delegates to "+fname(callee)+", whose guard returns an ErrClosed-class error")
					return
				}
			}
		}
	}
	if info.only("ErrClosed", false) {
		c.OK("R17.3", key, p.Pos(g.Pos()), "closed handle returns an ErrClosed-class error "+info.String())
	} else {
		c.Bad("R17.3", key, p.Pos(g.Pos()), fmt.Sprintf("%s: the error returned for a closed handle is %s, must match ErrClosed", fname(fn), info))
	}
}

// ---- R17.2 ----

func r17ClosedState(c *core.Ctx, p *load.Program) {
	fileI := stdIface(p, "io/fs", "File")
	if fileI == nil {
		c.Hard("anchor: io/fs.File")
		return
	}
	impls := implementers(p, fileI)
	var names []string
	for _, n := range impls {
		names = append(names, typeKey(n))
	}
	c.Info("file_types_"+p.Target.GOOS, names)
	for _, n := range impls {
		tk := typeKey(n)
		if strings.HasPrefix(tk, "fstest.") || strings.HasPrefix(tk, "internal/") {
			continue
		}
		ms := methodsOf(p, n)
		closeFn := ms["Close"]
		if closeFn == nil {
			continue
		}
		recv := recvParam(closeFn)
		// closed mark: receiver field written by Close, or inner handle Close delegates to
		markField, innerField := "", ""
		ssax.Instrs(closeFn, func(ins ssa.Instruction) {
			switch x := ins.(type) {
			case *ssa.Store:
				if fa, ok := x.Addr.(*ssa.FieldAddr); ok && fa.X == ssa.Value(recv) {
					markField = ssax.FieldName(fa)
				}
			case *ssa.Call:
				name := ""
				var target ssa.Value
				if x.Call.IsInvoke() {
					name, target = x.Call.Method.Name(), x.Call.Value
				} else if callee := ssax.StaticCallee(x); callee != nil && callee.Signature.Recv() != nil && len(x.Call.Args) > 0 {
					name, target = callee.Name(), x.Call.Args[0]
				}
				if name == "Close" {
					if b, f, ok := ssax.FieldLoad(target); ok && b == ssa.Value(recv) {
						innerField = recv.Type().Underlying().(*types.Pointer).Elem().Underlying().(*types.Struct).Field(f).Name()
					}
				}
			}
		})
		key := tk + "|closed-state"
		if markField == "" && innerField == "" {
			c.Bad("R17.2", key, p.Pos(closeFn.Pos()), fmt.Sprintf("%s: Close neither marks the handle (no receiver field written) nor closes an inner handle — calls after Close cannot fail", fname(closeFn)))
			continue
		}
		// R17.9: Close itself fails on a handle that is already closed: where it marks the handle with a field of its
		// own, the marking store is reached only after a test of that field (the 'already closed' branch returned)
		if markField != "" && innerField == "" {
			var mark *ssa.Store
			ssax.Instrs(closeFn, func(ins ssa.Instruction) {
				if x, ok := ins.(*ssa.Store); ok {
					if fa, ok := x.Addr.(*ssa.FieldAddr); ok && fa.X == ssa.Value(recv) && ssax.FieldName(fa) == markField {
						mark = x
					}
				}
			})
			tested := false
			if mark != nil {
				for _, f := range ssax.FactsAtInstr(mark) {
					if dependsOn(f.Cond, func(v ssa.Value) bool { return isLoadOfField(v, recv, markField) }) {
						tested = true
					}
					if x, _, ok := ssax.NilTest(f.Cond); ok && isLoadOfField(x, recv, markField) {
						tested = true
					}
				}
			}
			c.Check(tested, "R17.9", tk+"|second-close-fails", p.Pos(closeFn.Pos()), "Close marks the handle only after testing that it is not closed yet",
				fmt.Sprintf("%s marks the handle closed without having tested whether it already is: a second Close returns nil instead of an error matching ErrClosed (os.File: 'close: file already closed')", fname(closeFn)))
		}
		// every other exported method consults the mark or delegates to the inner handle
		var bad []string
		var mnames []string
		for mn := range ms {
			mnames = append(mnames, mn)
		}
		sort.Strings(mnames)
		checked := 0
		for _, mn := range mnames {
			fn := ms[mn]
			if mn == "Close" || fn.Object() == nil || !fn.Object().Exported() {
				continue
			}
			r := recvParam(fn)
			if !methodHasEffectOrResult(fn) {
				continue
			}
			checked++
			consults := false
			ssax.Instrs(fn, func(ins ssa.Instruction) {
				switch x := ins.(type) {
				case *ssa.UnOp:
					if markField != "" && isLoadOfField(x, r, markField) {
						consults = true
					}
					if innerField != "" && isLoadOfField(x, r, innerField) {
						consults = true
					}
				case *ssa.Call:
					// delegation to another method of the same receiver that is itself checked
					if callee := ssax.StaticCallee(x); callee != nil && len(x.Call.Args) > 0 && x.Call.Args[0] == ssa.Value(r) && ms[callee.Name()] == callee {
						consults = true
					}
				}
			})
			if !consults {
				bad = append(bad, mn)
			}
		}
		// R17.5: path-sensitive form — every success return of a method lies on a path that consulted the mark.
		// A call of another method of the receiver counts only if that method is itself checked on every success path
		// (an unexported helper that answers from a cache before looking at the mark is not).
		checkedMemo := map[*ssa.Function]int{} // 0 unknown, 1 in progress/assumed, 2 checked, 3 unchecked
		var successChecked func(fn *ssa.Function) (bool, *ssa.Return, bool)
		successChecked = func(fn *ssa.Function) (bool, *ssa.Return, bool) {
			r := recvParam(fn)
			eidx := ssax.ErrorResultIndex(fn.Signature)
			var badRet *ssa.Return
			complete := ssax.EnumPaths(fn, fn.Blocks[0], 0, nil, ssax.PathHooks{
				Instr: func(s *ssax.PathState, ins ssa.Instruction) {
					switch x := ins.(type) {
					case *ssa.UnOp:
						if (markField != "" && isLoadOfField(x, r, markField)) || (innerField != "" && isLoadOfField(x, r, innerField)) {
							s.Counts["consulted"] = 1
						}
					case *ssa.Call:
						if callee := ssax.StaticCallee(x); callee != nil && len(x.Call.Args) > 0 && x.Call.Args[0] == ssa.Value(r) && ms[callee.Name()] == callee && callee != fn {
							st := checkedMemo[callee]
							if st == 0 {
								checkedMemo[callee] = 1
								if callee.Blocks != nil && ssax.ErrorResultIndex(callee.Signature) >= 0 {
									okc, _, compl := successChecked(callee)
									if okc && compl {
										st = 2
									} else {
										st = 3
									}
								} else {
									st = 3
								}
								checkedMemo[callee] = st
							}
							if st == 1 || st == 2 {
								s.Counts["consulted"] = 1
							}
						}
					}
				},
				End: func(s *ssax.PathState, last ssa.Instruction) {
					ret, ok := last.(*ssa.Return)
					if !ok || eidx < 0 || eidx >= len(ret.Results) {
						return
					}
					ev := s.Resolve(ret.Results[eidx])
					if s.Counts["consulted"] == 0 && (ssax.IsNilConst(ev) || s.NilOf(ev) == ssax.IsNil) && badRet == nil {
						badRet = ret
					}
				},
			})
			return badRet == nil, badRet, complete
		}
		for _, mn := range mnames {
			fn := ms[mn]
			if mn == "Close" || fn.Object() == nil || !fn.Object().Exported() || !methodHasEffectOrResult(fn) || fn.Blocks == nil {
				continue
			}
			_, badRet, complete := successChecked(fn)
			_ = badRet
			eidx := ssax.ErrorResultIndex(fn.Signature)
			_ = eidx
			k5 := tk + "." + mn + "|success-only-after-closed-check"
			switch {
			case !complete:
				c.Unknown("R17.5", k5, p.Pos(fn.Pos()), "path enumeration exceeded its cap")
			case badRet != nil:
				c.Bad("R17.5", k5, p.Pos(badRet.Pos()), fmt.Sprintf("%s returns a nil error on a path that never consulted the closed mark (%s%s) nor delegated to a checked method: on a closed handle this call reports success where os.File fails with ErrClosed", fname(fn), markField, innerField))
			default:
				c.OK("R17.5", k5, p.Pos(fn.Pos()), "every success return follows a look at the closed mark or a delegation")
			}
		}
		if len(bad) > 0 {
			c.Bad("R17.2", key, p.Pos(closeFn.Pos()), fmt.Sprintf("%s: methods %v never consult the closed mark (%s%s) nor delegate to the inner handle: they keep working after Close", tk, bad, markField, innerField))
		} else {
			c.OK("R17.2", key, p.Pos(closeFn.Pos()), fmt.Sprintf("Close marks %q/%q; %d other exported methods consult it or delegate", markField, innerField, checked))
		}
	}
}

// methodHasEffectOrResult: any method with results other than pure constant getters counts.
func methodHasEffectOrResult(fn *ssa.Function) bool {
	return fn.Signature.Results().Len() > 0 && ssax.ErrorResultIndex(fn.Signature) >= 0
}

// ---- R17.4 ----

func r17WriteBack(c *core.Ctx, p *load.Program) {
	// write-back entry: the method of keyvalue's file data that handle mutators call to persist (reaches Transaction.Set)
	fileI := stdIface(p, "io/fs", "File")
	txnI := ifaceOf(p, "keyvalue", "Transaction")
	if fileI == nil || txnI == nil {
		c.Hard("anchor: io/fs.File / keyvalue.Transaction")
		return
	}
	kv := p.Named("keyvalue", "file")
	if kv == nil {
		c.Hard("anchor: keyvalue.file")
		return
	}
	ms := methodSetFuncs(p, kv)
	// functions reachable from File-interface mutators of keyvalue.file through static calls (bounded)
	mutators := []string{"Write", "WriteAt", "Truncate", "Chmod", "WriteBlob", "WriteBlobAt"}
	reach := map[*ssa.Function]bool{}
	var visit func(fn *ssa.Function, d int)
	visit = func(fn *ssa.Function, d int) {
		if fn == nil || reach[fn] || d > 6 || !p.InModule(fn) {
			return
		}
		reach[fn] = true
		ssax.Instrs(fn, func(ins ssa.Instruction) {
			if cl, ok := ins.(ssa.CallInstruction); ok {
				visit(ssax.StaticCallee(cl), d+1)
			}
		})
	}
	for _, m := range mutators {
		if fn := ms[m]; fn != nil {
			visit(fn, 0)
		}
	}
	// Set sites among reachable functions
	n := 0
	var fns []*ssa.Function
	for fn := range reach {
		fns = append(fns, fn)
	}
	sort.Slice(fns, func(i, j int) bool { return fname(fns[i]) < fname(fns[j]) })
	for _, fn := range fns {
		ord := ordinals{}
		ssax.Instrs(fn, func(ins ssa.Instruction) {
			cl, ok := ins.(*ssa.Call)
			if !ok || !cl.Call.IsInvoke() || (cl.Call.Method.Name() != "Set" && cl.Call.Method.Name() != "SetHandler") {
				return
			}
			if !types.Identical(cl.Call.Value.Type().Underlying(), txnI) {
				return
			}
			n++
			key := fname(fn) + "|" + ord.next("txn.Set")
			// conditional: in the same function (or its static caller chain to the write-back entry) a Get/GetHandler of the
			// same transaction precedes, and the Set is control-dependent on its result (not-exist => skip).
			cond := setIsConditional(p, fn, cl, reach)
			if cond {
				c.OK("R17.4", key, p.Pos(cl.Pos()), "write-back Set is preceded by an existence lookup in the same transaction and skipped when the path is gone")
			} else {
				c.Bad("R17.4", key, p.Pos(cl.Pos()), fmt.Sprintf("%s: Set reachable from handle mutators (%s) is unconditional: writing through a handle opened before Remove/Rename re-creates the old name", fname(fn), strings.Join(mutators, ",")))
			}
		})
	}
	if n == 0 {
		c.Hard("R17.4: no Transaction.Set reachable from keyvalue.file mutators (anchor lost)")
	}
}

// setIsConditional: some function on the static call chain between the handle mutators and this Set issues
// txn.Get/GetHandler on the same transaction value before the Set, and a branch on that lookup's outcome can skip the Set.
func setIsConditional(p *load.Program, fn *ssa.Function, set *ssa.Call, reach map[*ssa.Function]bool) bool {
	txn := set.Call.Value
	// same function: a GetHandler/Get on the same txn value that dominates the Set
	found := false
	ssax.Instrs(fn, func(ins ssa.Instruction) {
		cl, ok := ins.(*ssa.Call)
		if !ok || !cl.Call.IsInvoke() || cl.Call.Value != txn {
			return
		}
		if (cl.Call.Method.Name() == "GetHandler" || cl.Call.Method.Name() == "Get") && ssax.Dominates(cl, set) {
			found = true
		}
	})
	if found {
		return true
	}
	// txn is a parameter: look at callers in the reachable set
	if prm, ok := txn.(*ssa.Parameter); ok {
		idx := -1
		for i, q := range fn.Params {
			if q == prm {
				idx = i
			}
		}
		all, any := true, false
		for caller := range reach {
			ssax.Instrs(caller, func(ins ssa.Instruction) {
				cl, ok := ins.(*ssa.Call)
				if !ok || ssax.StaticCallee(cl) != fn {
					return
				}
				any = true
				arg := cl.Call.Args[idx]
				got := false
				ssax.Instrs(caller, func(i2 ssa.Instruction) {
					c2, ok := i2.(*ssa.Call)
					if ok && c2.Call.IsInvoke() && c2.Call.Value == arg && (c2.Call.Method.Name() == "GetHandler" || c2.Call.Method.Name() == "Get") && ssax.Dominates(c2, cl) {
						got = true
					}
				})
				if !got {
					all = false
				}
			})
		}
		return any && all
	}
	return false
}

// r17NoPool (R17.6): no value whose type implements io/fs.File is put into a sync.Pool.
func r17NoPool(c *core.Ctx, p *load.Program, fns []*ssa.Function) {
	fileI := stdIface(p, "io/fs", "File")
	for _, fn := range fns {
		ord := ordinals{}
		ssax.Instrs(fn, func(ins ssa.Instruction) {
			cl, ok := ins.(*ssa.Call)
			if !ok || !ssax.CalleeIs(cl, "sync", "(*Pool).Put") || len(cl.Call.Args) < 2 {
				return
			}
			key := fname(fn) + "|" + ord.next("pool-put")
			v := cl.Call.Args[1]
			if mi, ok := v.(*ssa.MakeInterface); ok {
				v = mi.X
			}
			if fileI != nil && types.Implements(v.Type(), fileI) {
				c.Bad("R17.6", key, p.Pos(cl.Pos()), fmt.Sprintf("%s puts a %s into a sync.Pool: whoever closed that handle still holds the pointer, and once the struct is handed out again the closed handle works again, moves the new handle's position and can close it", fname(fn), typeString(v.Type())))
			} else {
				c.OK("R17.6", key, p.Pos(cl.Pos()), "pooled value is not a file handle")
			}
		})
	}
}

// nonNilGuardOfMethod: the first If of fn's entry block chain that nil-tests the field `field` of the receiver.
func nonNilGuardOfMethod(fn *ssa.Function, field string) *ssa.If {
	if fn == nil || fn.Blocks == nil {
		return nil
	}
	recv := recvParam(fn)
	if recv == nil {
		return nil
	}
	b := fn.Blocks[0]
	for i := 0; i < 3 && b != nil; i++ {
		ifi, ok := b.Instrs[len(b.Instrs)-1].(*ssa.If)
		if !ok {
			return nil
		}
		cond, _ := ssax.StripNot(ifi.Cond, true)
		if x, _, isNil := ssax.NilTest(cond); isNil && isLoadOfField(x, recv, field) {
			return ifi
		}
		return nil
	}
	return nil
}

// r17HandleOnly (R17.7)
func r17HandleOnly(c *core.Ctx, p *load.Program) {
	n := p.Named("os", "file")
	if n == nil {
		c.Hard("anchor: os.file")
		return
	}
	ms := methodsOf(p, n)
	var names []string
	for k := range ms {
		names = append(names, k)
	}
	sort.Strings(names)
	for _, mn := range names {
		fn := ms[mn]
		if fn.Blocks == nil {
			continue
		}
		key := "os.file." + mn + "|handle-only"
		bad := ""
		ssax.InstrsDeep(fn, func(_ *ssa.Function, ins ssa.Instruction) {
			cl, ok := ins.(*ssa.Call)
			if !ok {
				return
			}
			callee := ssax.StaticCallee(cl)
			if callee == nil || !isStdOSFunc(callee) || callee.Signature.Recv() != nil {
				return
			}
			// a package-level os function taking a path
			for _, a := range cl.Call.Args {
				if isStr(a.Type()) {
					bad = ssax.CallName(cl) + " at " + p.Pos(cl.Pos())
				}
			}
		})
		c.Check(bad == "", "R17.7", key, p.Pos(fn.Pos()), "acts through the held *os.File only",
			fmt.Sprintf("%s calls %s, a by-name function of package os: on a closed handle the *os.File method fails with ErrClosed but the by-name call succeeds — the method returns nil after Close and changes whatever file has that name now", fname(fn), bad))
	}
}

// r17WrapperAnswersLast (R17.8): the OS-backed handle is a thin wrapper: every error a method returns is (a
// translation of) the error the inner *os.File gave for the same call. An error the wrapper builds on its own ahead
// of the inner call (argument validation) is also returned on a closed handle, where os.File answers ErrClosed.
func r17WrapperAnswersLast(c *core.Ctx, p *load.Program) {
	n := p.Named("os", "file")
	if n == nil {
		c.Hard("anchor: os.file")
		return
	}
	isInner := func(cl *ssa.Call) bool {
		callee := ssax.StaticCallee(cl)
		if callee == nil || callee.Signature.Recv() == nil {
			return false
		}
		return strings.HasSuffix(callee.Signature.Recv().Type().String(), "*os.File")
	}
	var fromInner func(v ssa.Value, d int, seen map[ssa.Value]bool) bool
	fromInner = func(v ssa.Value, d int, seen map[ssa.Value]bool) bool {
		if v == nil || d > 8 {
			return false
		}
		if seen[v] {
			return true
		}
		seen[v] = true
		switch x := v.(type) {
		case *ssa.Extract:
			if cl, ok := x.Tuple.(*ssa.Call); ok {
				return isInner(cl)
			}
		case *ssa.Call:
			if isInner(x) {
				return true
			}
			if callee := ssax.StaticCallee(x); callee != nil && p.InModule(callee) {
				// a translator: follows its error argument
				for _, a := range x.Call.Args {
					if ssax.IsErrorType(a.Type()) {
						return fromInner(a, d+1, seen)
					}
				}
			}
		case *ssa.Phi:
			for _, e := range x.Edges {
				if !fromInner(e, d+1, seen) {
					return false
				}
			}
			return true
		case *ssa.Const:
			return x.IsNil()
		}
		return false
	}
	cnt := 0
	for _, fn := range methodList(p, n) {
		eidx := ssax.ErrorResultIndex(fn.Signature)
		if eidx < 0 {
			continue
		}
		cnt++
		key := fname(fn) + "|error-is-the-inner-handle's"
		bad := ""
		for _, r := range ssax.Returns(fn) {
			if !fromInner(resolveSpilled(r.Results[eidx], r), 0, map[ssa.Value]bool{}) {
				bad = p.Pos(r.Pos())
			}
		}
		c.Check(bad == "", "R17.8", key, p.Pos(fn.Pos()), "every returned error is the translated error of the inner *os.File call",
			fmt.Sprintf("%s returns at %s an error that does not come from the inner *os.File: the wrapper answers on its own (argument validation ahead of the call), so on a closed handle the caller gets that error instead of ErrClosed — os.File answers ErrClosed for any arguments", fname(fn), bad))
	}
	if cnt < 10 {
		c.Hard("anchor: methods of os.file returning an error (found %d)", cnt)
	}
}

// r17HelpersKeepTheHandleError (R17.11): a package-level helper that takes a File and calls one of its methods hands
// that method's error on — returned, or wrapped — on every path on which it is non-nil; it does not answer with an
// error of its own instead. Handles without the optional method report ErrClosed only through the probing call
// (SyncFile's fallback Stat): replacing its error by ErrNotImplemented makes a closed handle look merely incapable.
func r17HelpersKeepTheHandleError(c *core.Ctx, p *load.Program) {
	n := 0
	for _, fn := range helperFuncs(p) {
		if len(fn.Params) == 0 || !hasMethods(fn.Params[0].Type(), "Read", "Stat", "Close") {
			continue
		}
		bad, good := dropCheck(p, fn, dropOpts{noOverride: true, only: func(ci ssa.CallInstruction) bool {
			return ci.Common().IsInvoke() && ci.Common().Value == ssa.Value(fn.Params[0])
		}})
		for _, g := range good {
			n++
			c.OK("R17.11", g.Key, g.Pos, g.Msg)
		}
		for _, b := range bad {
			n++
			if b.Kind == "undecided" {
				c.Unknown("R17.11", b.Key, b.Pos, b.Msg)
			} else {
				c.Bad("R17.11", b.Key, b.Pos, b.Msg+" — the helper answers with an error of its own: on a closed handle the caller is told ErrNotImplemented (or nothing) instead of ErrClosed")
			}
		}
	}
	if n == 0 {
		c.Hard("anchor: File helpers calling a method of their file")
	}
}

// r17NoLockLeakInHandles (R17.10): no method of a file-handle type returns with a mutex of its receiver held (explicit
// Unlock on that path or a dominating deferred Unlock): a closed-handle early return that forgets the Unlock makes the
// NEXT call on the closed handle block for ever instead of failing with ErrClosed.
func r17NoLockLeakInHandles(c *core.Ctx, p *load.Program, fns []*ssa.Function, rule string) int {
	n := 0
	for _, fn := range fns {
		if fn == nil || fn.Blocks == nil {
			continue
		}
		locks := false
		type dfr struct {
			ins  ssa.Instruction
			path string
		}
		var defers []dfr
		ssax.Instrs(fn, func(ins ssa.Instruction) {
			ci, ok := ins.(ssa.CallInstruction)
			if !ok {
				return
			}
			op, path := ssax.MutexOp(ci)
			_, isDefer := ins.(*ssa.Defer)
			if (op == ssax.OpLock || op == ssax.OpRLock) && !isDefer {
				locks = true
			}
			if isDefer && (op == ssax.OpUnlock || op == ssax.OpRUnlock) {
				defers = append(defers, dfr{ins, path})
			}
		})
		if !locks {
			continue
		}
		n++
		ls := ssax.Locksets(fn, false, nil)
		bad := ""
		for _, r := range ssax.Returns(fn) {
			for k := range ls[r] {
				released := false
				for _, d := range defers {
					if d.path == k && ssax.Dominates(d.ins, r) {
						released = true
					}
				}
				if !released {
					bad = p.Pos(r.Pos())
				}
			}
		}
		c.Check(bad == "", rule, fname(fn)+"|mutex-released-on-every-return", p.Pos(fn.Pos()), "no return is reached with a mutex held",
			fmt.Sprintf("%s can return at %s with a mutex of its receiver still locked: the call itself answers correctly, the next call on the same handle blocks for ever", fname(fn), bad))
	}
	return n
}

// r17OSHandleErrorsKept (R17.12): every method of the os-backed file handle returns (translated) the error of the
// *os.File method it calls, on every path on which that error is non-nil. An allow-list ("only EIO/ENOSPC mean data
// was lost, anything else is not a failure") swallows "file already closed": Sync on a closed handle answers nil.
func r17OSHandleErrorsKept(c *core.Ctx, p *load.Program) {
	if p.Target == load.Wasm {
		return
	}
	n := p.Named("os", "file")
	if n == nil {
		c.Hard("anchor: os.file")
		return
	}
	cnt := 0
	for _, fn := range methodList(p, n) {
		bad, good := dropCheck(p, fn, dropOpts{only: func(ci ssa.CallInstruction) bool {
			callee := ssax.StaticCallee(ci)
			return callee != nil && callee.Pkg != nil && callee.Pkg.Pkg.Path() == "os" && callee.Signature.Recv() != nil
		}})
		for _, g := range good {
			cnt++
			c.OK("R17.12", g.Key, g.Pos, g.Msg)
		}
		for _, b := range bad {
			cnt++
			if b.Kind == "undecided" {
				c.Unknown("R17.12", b.Key, b.Pos, b.Msg)
			} else {
				c.Bad("R17.12", b.Key, b.Pos, b.Msg+" — on a closed handle the os call fails with 'file already closed' and the method must say so")
			}
		}
	}
	if cnt == 0 {
		c.Hard("anchor: *os.File calls in the methods of os.file")
	}
}

// r17OSCloseAlwaysCloses (R17.13): every path through Close of the os-backed handle calls (*os.File).Close. A Close
// that returns early (a failing Sync before it: fsync of a FIFO or /dev/null answers EINVAL) leaves the descriptor
// open — every later call on the "closed" handle succeeds, and a second Close answers EINVAL instead of ErrClosed.
func r17OSCloseAlwaysCloses(c *core.Ctx, p *load.Program) {
	if p.Target == load.Wasm {
		return
	}
	fn := p.Method("os", "file", "Close")
	if fn == nil || fn.Blocks == nil {
		c.Hard("anchor: os.file.Close")
		return
	}
	bad := ""
	ssax.EnumPaths(fn, fn.Blocks[0], 0, ssax.NewPathState(), ssax.PathHooks{
		Instr: func(ps *ssax.PathState, ins ssa.Instruction) {
			if ci, ok := ins.(ssa.CallInstruction); ok {
				if callee := ssax.StaticCallee(ci); callee != nil && callee.Name() == "Close" && callee.Pkg != nil && callee.Pkg.Pkg.Path() == "os" {
					ps.Counts["closed"] = 1
				}
			}
		},
		End: func(ps *ssax.PathState, last ssa.Instruction) {
			if _, isRet := last.(*ssa.Return); isRet && ps.Counts["closed"] == 0 && bad == "" {
				bad = p.Pos(last.Pos())
			}
		},
	})
	c.Check(bad == "", "R17.13", "os.file.Close|always-closes-the-descriptor", p.Pos(fn.Pos()), "every path calls (*os.File).Close",
		fmt.Sprintf("(*os.file).Close returns at %s without having closed the *os.File: the handle stays usable after a Close that reported an error — Read, Write, Seek and Stat on it succeed, the descriptor leaks, and a second Close does not answer ErrClosed", bad))
}
