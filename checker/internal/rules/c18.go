package rules

import (
	"fmt"
	"go/types"
	"sort"
	"strings"

	"golang.org/x/tools/go/ssa"

	"hpfscheck/internal/core"
	"hpfscheck/internal/load"
	"hpfscheck/internal/ssax"
)

func init() { register(&Spec{ID: "C18", Targets: []load.Target{load.Linux, load.Wasm}, Run: runC18}) }

var txnOpMethods = []string{"Get", "GetHandler", "Set", "SetHandler"}

type txnShape struct {
	p       *load.Program
	named   *types.Named
	methods map[string]*ssa.Function
	opID    types.Type // keyvalue.OpID
	opRes   types.Type // keyvalue.OpResult
	storeI  *types.Interface
	memo    map[string][2]int
}

func runC18(c *core.Ctx) {
	runFixtures(c, "locks", "drop")
	c.Explain("Structural clauses of C18 decided from source for every Go-level keyvalue.Transaction implementation found by type (mem.transaction, keyvalue.unsafeSerialTransaction): (R18.1) on every path through Get/GetHandler/Set/SetHandler exactly one result is recorded and its Op is the id returned; (R18.2) every path allocates exactly one id, including the aborted path; (R18.3) every store access in an op method is dominated by the not-aborted edge of an abort check; (R18.4) the handler's error flows into the recorded result's Err; (R18.5) a transaction type whose constructor returns holding a mutex releases it on every path of Commit and of Abort, and each release is idempotent (sync.Once) so Abort followed by Commit cannot unlock twice; (R18.6) in package keyvalue every successfully begun transaction is followed by Commit or Abort on every path (paths that fail only because a callee's ValidPath gate rejected the name are pruned, assumption A7); (R18.7) Commit returns the recorded results in id order (append order, or index-by-id), and with append order every operation reserves its slot before its handler runs (a handler may issue further operations); (R18.8) the in-memory store's transaction constructor holds the store mutex at every successful return (a mode-dependent early return without the lock lets that transaction observe another's partial effects); (R18.9) a transaction's cancel function is invoked only by its Abort and Commit methods — an operation that aborts on its own turns one store error into 'context canceled' for the whole transaction and loses every result. (R18.10) = R15.13: records of the in-memory store are immutable once stored. NOT claimed: isolation between concurrent transactions beyond R18.8, that a Get reflects earlier Sets (values), liveness.")
	c.Assume("A6: partial correctness — 'on every path' means every path that returns",
		"A7: inside keyvalue.FS a name that reaches setFileTxn was validated by the caller chain (C04/R04.1 checks the gates); paths on which only that validation fails are not required to end the transaction")
	c.RuleDoc("R18.1", "exactly one result recorded per op call on every path; recorded Op == returned id")
	c.RuleDoc("R18.2", "exactly one id allocated per op call on every path (incl. aborted)")
	c.RuleDoc("R18.3", "store access dominated by not-aborted edge")
	c.RuleDoc("R18.4", "handler error flows into recorded OpResult.Err")
	c.RuleDoc("R18.8", "a constructor that returns transactions holding the store mutex does so on every successful return")
	c.RuleDoc("R18.10", "records of the in-memory store are immutable once stored: a Get result does not change with a later Set (= R15.13)")
	c.RuleDoc("R18.9", "a transaction's cancel function is invoked only by Abort and Commit")
	c.RuleDoc("R18.5", "store mutex released on all paths of Commit/Abort, idempotently")
	c.RuleDoc("R18.6", "begin/end pairing of transactions in package keyvalue")
	c.RuleDoc("R18.7", "Commit returns results in id order")
	for _, p := range c.Progs {
		c.SetProg(p)
		txnI := ifaceOf(p, "keyvalue", "Transaction")
		storeI := ifaceOf(p, "keyvalue", "Store")
		opID := p.Named("keyvalue", "OpID")
		opRes := p.Named("keyvalue", "OpResult")
		if txnI == nil || storeI == nil || opID == nil || opRes == nil {
			c.Hard("anchor: keyvalue.Transaction/Store/OpID/OpResult not all found")
			continue
		}
		impls := implementers(p, txnI)
		var names []string
		for _, n := range impls {
			names = append(names, typeKey(n))
		}
		c.Info("transaction_types_"+p.Target.GOOS, names)
		goLevel := 0
		for _, n := range impls {
			if strings.HasPrefix(typeKey(n), "indexeddb") {
				continue // JS-backed: inventoried only
			}
			goLevel++
			sh := &txnShape{p: p, named: n, methods: methodsOf(p, n), opID: opID, opRes: opRes, storeI: storeI, memo: map[string][2]int{}}
			r18Ops(c, sh)
			r18Release(c, sh)
			r18Order(c, sh)
			r18WhoAborts(c, sh)
		}
		if goLevel < 2 {
			c.Hard("anchor: expected at least 2 Go-level Transaction implementations, found %d", goLevel)
		}
		if p.Target == load.Linux {
			r18Pairing(c, p, txnI)
			// R18.10 (= R15.13): records of the in-memory store are immutable once stored — a Set that updates the stored object in
			// place changes what an earlier Get of the same transaction (and results already returned) say
			c.WithAlias(map[string]string{"R15.13": "R18.10"}, func() { r15RecordsImmutable(c, p) })
		}
	}
	c.Floor("R18.1", 8)
	c.Floor("R18.2", 8)
	c.Floor("R18.3", 4)
	c.Floor("R18.4", 4)
	c.Floor("R18.5", 2)
	c.Floor("R18.8", 1)
	c.Floor("R18.9", 4)
	c.Floor("R18.10", 1)
	c.Floor("R18.6", 4)
	c.Floor("R18.7", 2)
}

// isResultCollection: []OpResult or map[OpID]OpResult.
func (sh *txnShape) isResultCollection(t types.Type) bool {
	switch u := t.Underlying().(type) {
	case *types.Slice:
		return types.Identical(u.Elem(), sh.opRes)
	case *types.Map:
		return types.Identical(u.Elem(), sh.opRes)
	}
	return false
}

// weight classifies an instruction of a method of the transaction type: (records, allocations).
func (sh *txnShape) weight(fn *ssa.Function, ins ssa.Instruction, kind string, stack map[*ssa.Function]bool) (min, max int) {
	recv := recvParam(fn)
	switch x := ins.(type) {
	case *ssa.Store:
		fa, ok := x.Addr.(*ssa.FieldAddr)
		if !ok || fa.X != ssa.Value(recv) {
			return 0, 0
		}
		ft := fa.Type().(*types.Pointer).Elem()
		if kind == "record" && sh.isResultCollection(ft) {
			return 1, 1
		}
		if kind == "alloc" && types.Identical(ft, sh.opID) {
			return 1, 1
		}
	case *ssa.MapUpdate:
		if kind == "record" && isLoadOfAnyField(x.Map, recv) && sh.isResultCollection(x.Map.Type()) {
			return 1, 1
		}
	case *ssa.Call:
		callee := ssax.StaticCallee(x)
		if callee == nil {
			return 0, 0
		}
		if kind == "alloc" && callee.Pkg != nil && callee.Pkg.Pkg.Path() == "sync/atomic" && strings.HasPrefix(callee.Name(), "Add") {
			if fieldAddrOf(x.Call.Args[0], recv) {
				return 1, 1
			}
		}
		// same-receiver helper / delegation
		if callee.Signature.Recv() != nil && len(x.Call.Args) > 0 && x.Call.Args[0] == ssa.Value(recv) && sh.methods[callee.Name()] == callee {
			if stack[callee] {
				return 0, 0
			}
			return sh.summary(callee, kind, stack)
		}
	}
	return 0, 0
}

func isLoadOfAnyField(v ssa.Value, base ssa.Value) bool {
	b, _, ok := ssax.FieldLoad(v)
	return ok && b == base
}

func fieldAddrOf(v ssa.Value, base ssa.Value) bool {
	for i := 0; i < 4; i++ {
		switch x := v.(type) {
		case *ssa.FieldAddr:
			return x.X == base
		case *ssa.Convert:
			v = x.X
		case *ssa.ChangeType:
			v = x.X
		default:
			return false
		}
	}
	return false
}

// summary returns (min,max) count of kind-sites over all paths of fn.
func (sh *txnShape) summary(fn *ssa.Function, kind string, stack map[*ssa.Function]bool) (int, int) {
	k := kind + "|" + fn.Name()
	if v, ok := sh.memo[k]; ok {
		return v[0], v[1]
	}
	if stack == nil {
		stack = map[*ssa.Function]bool{}
	}
	stack[fn] = true
	defer delete(stack, fn)
	min, max := 1<<30, -1
	ok := ssax.EnumPaths(fn, fn.Blocks[0], 0, nil, ssax.PathHooks{
		Instr: func(s *ssax.PathState, ins ssa.Instruction) {
			mn, mx := sh.weight(fn, ins, kind, stack)
			s.Counts["max"] += mx
			s.Counts["min"] += mn
		},
		End: func(s *ssax.PathState, last ssa.Instruction) {
			if s.Counts["max"] > max {
				max = s.Counts["max"]
			}
			if s.Counts["min"] < min {
				min = s.Counts["min"]
			}
		},
	})
	_ = ok
	if max < 0 {
		min, max = 0, 0
	}
	sh.memo[k] = [2]int{min, max}
	return min, max
}

func r18Ops(c *core.Ctx, sh *txnShape) {
	p := sh.p
	tk := typeKey(sh.named)
	for _, mn := range txnOpMethods {
		fn := sh.methods[mn]
		if fn == nil {
			c.Hard("anchor: %s has no method %s", tk, mn)
			continue
		}
		recv := recvParam(fn)
		pos := p.Pos(fn.Pos())
		// R18.1 / R18.2 by path counting
		for _, k := range []struct{ rule, kind, what string }{{"R18.1", "record", "result recorded"}, {"R18.2", "alloc", "operation id allocated"}} {
			mnC, mxC := pathCounts(sh, fn, k.kind)
			key := tk + "." + mn + "|" + k.kind + "-once"
			if mnC == 1 && mxC == 1 {
				c.OK(k.rule, key, pos, fmt.Sprintf("exactly one %s on every path", k.what))
			} else {
				c.Bad(k.rule, key, pos, fmt.Sprintf("%s: over all paths the number of times a %s is min=%d max=%d, must be exactly 1 (Commit must return one result per call with matching, unique ids)", fname(fn), k.what, mnC, mxC))
			}
		}
		// recorded Op == returned id
		var opVals []ssa.Value
		ssax.Instrs(fn, func(ins ssa.Instruction) {
			st, ok := ins.(*ssa.Store)
			if !ok {
				return
			}
			fa, ok := st.Addr.(*ssa.FieldAddr)
			if !ok {
				return
			}
			if n := ssax.StructOfFieldAddr(fa); n != nil && types.Identical(n, sh.opRes) && ssax.FieldName(fa) == "Op" {
				opVals = append(opVals, st.Val)
			}
		})
		if len(opVals) > 0 {
			key := tk + "." + mn + "|op-is-returned-id"
			good := true
			for _, r := range ssax.Returns(fn) {
				ret := r.Results[0]
				// `return result.Op` of a local result whose Op was stored once (possibly through whole-struct copies of
				// other locals): that stored value
				if u, ok := ret.(*ssa.UnOp); ok {
					if fa, ok := u.X.(*ssa.FieldAddr); ok && ssax.FieldName(fa) == "Op" {
						if base, ok := fa.X.(*ssa.Alloc); ok {
							if v := storedField(base, "Op", 0); v != nil {
								ret = v
							}
						}
					}
				}
				for _, ov := range opVals {
					if ret != ov {
						good = false
					}
				}
			}
			c.Check(good, "R18.1", key, pos, "the id stored in every recorded result is the value returned", fmt.Sprintf("%s: a recorded OpResult.Op is not the id this call returns (results could not be matched to calls)", fname(fn)))
		}
		// R18.3 store access dominated by not-aborted edge
		ord := ordinals{}
		ssax.Instrs(fn, func(ins ssa.Instruction) {
			cl, ok := ins.(*ssa.Call)
			if !ok {
				return
			}
			var target ssa.Value
			if cl.Call.IsInvoke() {
				target = cl.Call.Value
			} else if callee := ssax.StaticCallee(cl); callee != nil && callee.Signature.Recv() != nil && len(cl.Call.Args) > 0 {
				target = cl.Call.Args[0]
			}
			if target == nil || !isLoadOfAnyField(target, recv) {
				return
			}
			tt := target.Type()
			if !types.Implements(tt, sh.storeI) && !hasMethods(tt, "Get", "Set") && !hasMethods(tt, "set") {
				return
			}
			key := tk + "." + mn + "|" + ord.next("store-access")
			okDom := false
			for _, f := range ssax.FactsAtInstr(cl) {
				x, eq, isNilT := ssax.NilTest(f.Cond)
				if !isNilT || eq != f.Val {
					continue // need "x == nil" to be true
				}
				if !ssax.IsErrorType(x.Type()) {
					continue
				}
				if src := callProducing(x); src != nil && reachesCtxErr(p, ssax.StaticCallee(src), 3) && abortCheckSound(ssax.StaticCallee(src)) {
					okDom = true
				}
			}
			c.Check(okDom, "R18.3", key, p.Pos(cl.Pos()), "store access dominated by the not-aborted edge of the abort check",
				fmt.Sprintf("%s: call %s touches the store without a dominating 'not aborted' check — calls after Abort must have no effect on the store", fname(fn), ssax.CallName(cl)))
		})
		// R18.4 handler error flows into the recorded result
		ssax.Instrs(fn, func(ins ssa.Instruction) {
			cl, ok := ins.(*ssa.Call)
			if !ok {
				return
			}
			key := tk + "." + mn + "|handler-error"
			if cl.Call.IsInvoke() && cl.Call.Method.Name() == "Handle" {
				cell, _ := handlerErrCell(cl)
				recorded := cell != nil && loadedAfterAndRecorded(sh, fn, cl, cell)
				c.Check(recorded, "R18.4", key, p.Pos(cl.Pos()), "handler error is stored into the Err of the result that is recorded",
					fmt.Sprintf("%s: the error returned by handler.Handle does not reach the recorded OpResult.Err (a failing handler would be reported as success)", fname(fn)))
				return
			}
			// the handler may be run by a helper of the transaction: the error must still reach the result this method records
			helper := ssax.StaticCallee(cl)
			if helper == nil || !p.InModule(helper) || helper.Blocks == nil {
				return
			}
			var hcall *ssa.Call
			ssax.Instrs(helper, func(hi ssa.Instruction) {
				if h, ok := hi.(*ssa.Call); ok && h.Call.IsInvoke() && h.Call.Method.Name() == "Handle" {
					hcall = h
				}
			})
			if hcall == nil {
				return
			}
			recorded := false
			why := "the helper never stores the handler's error into an OpResult.Err"
			cell, param := handlerErrCell(hcall)
			switch {
			case cell != nil && loadedAfterAndRecorded(sh, helper, hcall, cell):
				recorded = true // the helper records the result itself
			case cell != nil && cellIsReturned(helper, hcall, cell):
				recorded = flowsToRecord(sh, fn, cl)
				why = "the helper returns the result with the handler's error, but the caller does not record that value"
			case cell != nil:
				why = fmt.Sprintf("%s stores the handler's error into its own copy of the result (a by-value parameter or local), which is neither recorded nor returned", fname(helper))
			case param != nil:
				// stored through a pointer parameter: the caller's cell must be what is recorded afterwards
				idx := -1
				for i, hp := range helper.Params {
					if hp == param {
						idx = i
					}
				}
				why = "the helper fills the result through a pointer, but the caller does not record the pointed-to result afterwards"
				if idx >= 0 && idx < len(cl.Call.Args) {
					if a, ok := cl.Call.Args[idx].(*ssa.Alloc); ok {
						recorded = loadedAfterAndRecorded(sh, fn, cl, a)
					}
				}
			}
			c.Check(recorded, "R18.4", key, p.Pos(cl.Pos()), "handler error (through a helper) is stored into the Err of the result that is recorded",
				fmt.Sprintf("%s: the handler runs in %s and its error does not reach the recorded OpResult.Err — %s (a failing handler would be reported as success)", fname(fn), fname(helper), why))
		})
	}
}

// handlerErrCell finds where the error returned by the Handle call is stored as an Err field: a local cell (Alloc), or a
// pointer parameter.
func handlerErrCell(cl *ssa.Call) (*ssa.Alloc, *ssa.Parameter) {
	if cl.Referrers() == nil {
		return nil, nil
	}
	for _, r := range *cl.Referrers() {
		st, ok := r.(*ssa.Store)
		if !ok || st.Val != ssa.Value(cl) {
			continue
		}
		fa, ok := st.Addr.(*ssa.FieldAddr)
		if !ok || ssax.FieldName(fa) != "Err" {
			continue
		}
		switch x := fa.X.(type) {
		case *ssa.Alloc:
			return x, nil
		case *ssa.Parameter:
			return nil, x
		}
	}
	return nil, nil
}

// loadedAfterAndRecorded: cell is loaded after the call 'after' and the loaded value is recorded.
func loadedAfterAndRecorded(sh *txnShape, fn *ssa.Function, after *ssa.Call, cell *ssa.Alloc) bool {
	if cell.Referrers() == nil {
		return false
	}
	for _, r := range *cell.Referrers() {
		u, ok := r.(*ssa.UnOp)
		if !ok {
			continue
		}
		if after.Block().Dominates(u.Block()) && u.Block() != after.Block() || u.Block() == after.Block() && ssax.Dominates(after, u) {
			if flowsToRecord(sh, fn, u) {
				return true
			}
		}
	}
	return false
}

// cellIsReturned: a load of cell after the call is a result of every return of fn.
func cellIsReturned(fn *ssa.Function, after *ssa.Call, cell *ssa.Alloc) bool {
	rets := ssax.Returns(fn)
	if len(rets) == 0 {
		return false
	}
	for _, r := range rets {
		ok := false
		for _, res := range r.Results {
			if u, isLoad := res.(*ssa.UnOp); isLoad && u.X == ssa.Value(cell) {
				ok = true
			}
		}
		if !ok {
			return false
		}
	}
	return true
}

func pathCounts(sh *txnShape, fn *ssa.Function, kind string) (int, int) {
	return sh.summary(fn, kind, nil)
}

func hasMethods(t types.Type, names ...string) bool {
	ms := types.NewMethodSet(t)
	for _, n := range names {
		found := false
		for i := 0; i < ms.Len(); i++ {
			if ms.At(i).Obj().Name() == n {
				found = true
			}
		}
		if !found {
			return false
		}
	}
	return true
}

// callProducing returns the call whose (error) result v is.
func callProducing(v ssa.Value) *ssa.Call {
	switch x := v.(type) {
	case *ssa.Call:
		return x
	case *ssa.Extract:
		if c, ok := x.Tuple.(*ssa.Call); ok {
			return c
		}
	}
	return nil
}

// reachesCtxErr: fn (transitively through static calls, bounded) invokes context.Context.Err or Done.
func reachesCtxErr(p *load.Program, fn *ssa.Function, depth int) bool {
	if fn == nil || depth < 0 || fn.Blocks == nil {
		return false
	}
	found := false
	ssax.Instrs(fn, func(ins ssa.Instruction) {
		cl, ok := ins.(ssa.CallInstruction)
		if !ok || found {
			return
		}
		if m := ssax.InvokeMethod(cl); m != nil && (m.Name() == "Err" || m.Name() == "Done") && m.Pkg() != nil && m.Pkg().Path() == "context" {
			found = true
			return
		}
		if callee := ssax.StaticCallee(cl); callee != nil && p.InModule(callee) {
			if reachesCtxErr(p, callee, depth-1) {
				found = true
			}
		}
	})
	return found
}

// flowsToRecord: value v (a loaded OpResult) reaches append(...) stored to a result collection or a recorder call.
func flowsToRecord(sh *txnShape, fn *ssa.Function, v ssa.Value) bool {
	seen := map[ssa.Value]bool{}
	var walk func(x ssa.Value, d int) bool
	walk = func(x ssa.Value, d int) bool {
		if d > 8 || seen[x] || x.Referrers() == nil {
			return false
		}
		seen[x] = true
		for _, r := range *x.Referrers() {
			switch r := r.(type) {
			case *ssa.Store:
				if r.Val == x {
					if ia, ok := r.Addr.(*ssa.IndexAddr); ok {
						// results[slot] = result: a store into an element of the result collection kept in the receiver
						if _, _, isField := ssax.FieldLoad(ia.X); isField && sh.isResultCollection(ia.X.Type()) {
							return true
						}
						if walk(ia.X, d+1) {
							return true
						}
					}
					if fa, ok := r.Addr.(*ssa.FieldAddr); ok && sh.isResultCollection(fa.Type().(*types.Pointer).Elem()) {
						return true
					}
				}
			case *ssa.Slice:
				if walk(r, d+1) {
					return true
				}
			case *ssa.Call:
				if b, ok := r.Call.Value.(*ssa.Builtin); ok && b.Name() == "append" {
					if walk(r, d+1) {
						return true
					}
				}
				if callee := ssax.StaticCallee(r); callee != nil && sh.methods[callee.Name()] == callee {
					if mn, mx := sh.summary(callee, "record", nil); mn == 1 && mx == 1 {
						return true
					}
				}
			case *ssa.MapUpdate:
				if r.Value == x {
					return true
				}
			}
		}
		return false
	}
	return walk(v, 0)
}

// ---- R18.5 ----

// heldAtReturn: lock classes must-held at some return of fn (constructor that returns with the lock held).
func heldAtReturn(fn *ssa.Function) map[string]bool {
	out := map[string]bool{}
	ls := ssax.Locksets(fn, true, nil)
	classOf := map[string]string{}
	ssax.Instrs(fn, func(ins ssa.Instruction) {
		if cl, ok := ins.(*ssa.Call); ok {
			if op, ap := ssax.MutexOp(cl); op == ssax.OpLock {
				classOf[ap] = lockClass(cl.Call.Args[0])
			}
		}
	})
	for _, r := range ssax.Returns(fn) {
		for ap := range ls[r] {
			if c := classOf[ap]; c != "" {
				out[c] = true
			}
		}
	}
	// deferred unlocks release at exit
	ssax.Instrs(fn, func(ins ssa.Instruction) {
		if d, ok := ins.(*ssa.Defer); ok {
			if op, _ := ssax.MutexOp(d); op == ssax.OpUnlock {
				delete(out, lockClass(d.Call.Args[0]))
			}
		}
	})
	return out
}

func r18Release(c *core.Ctx, sh *txnShape) {
	p := sh.p
	tk := typeKey(sh.named)
	// constructor: a module function returning this type (as interface or pointer) with a lock held
	held := map[string]bool{}
	for _, fn := range p.SrcFuncs() {
		if !constructs(fn, sh.named) {
			continue
		}
		for cls := range heldAtReturn(fn) {
			held[cls] = true
		}
	}
	if len(held) == 0 {
		c.OKTrivial("R18.5", tk+"|no-lock-held-at-construction", "-", "constructor does not return holding a mutex; nothing to release")
		// ... unless the store it belongs to owns a mutex: R18.8 names a constructor that never takes it
		r18CtorHoldsLock(c, p, sh.named, "R18.8")
		return
	}
	r18CtorHoldsLock(c, p, sh.named, "R18.8")
	var classes []string
	for k := range held {
		classes = append(classes, k)
	}
	sort.Strings(classes)
	for _, cls := range classes {
		for _, mn := range []string{"Commit", "Abort"} {
			fn := sh.methods[mn]
			if fn == nil {
				c.Hard("anchor: %s has no %s", tk, mn)
				continue
			}
			key := tk + "." + mn + "|release:" + cls
			raw, once := 0, 0
			minRel := 1 << 30
			isRelease := func(ins ssa.Instruction) (bool, bool) { // (release, idempotent)
				cl, ok := ins.(*ssa.Call)
				if !ok {
					return false, false
				}
				if op, _ := ssax.MutexOp(cl); op == ssax.OpUnlock && lockClass(cl.Call.Args[0]) == cls {
					return true, false
				}
				if ssax.CalleeIs(cl, "sync", "(*Once).Do") && len(cl.Call.Args) == 2 && closureUnlocks(cl.Call.Args[1], cls) {
					return true, true
				}
				return false, false
			}
			ssax.Instrs(fn, func(ins ssa.Instruction) {
				if r, idem := isRelease(ins); r {
					if idem {
						once++
					} else {
						raw++
					}
				}
			})
			ssax.EnumPaths(fn, fn.Blocks[0], 0, nil, ssax.PathHooks{
				Instr: func(s *ssax.PathState, ins ssa.Instruction) {
					if r, _ := isRelease(ins); r {
						s.Counts["rel"]++
					}
				},
				End: func(s *ssax.PathState, _ ssa.Instruction) {
					if s.Counts["rel"] < minRel {
						minRel = s.Counts["rel"]
					}
				},
			})
			switch {
			case minRel == 0 || minRel == 1<<30:
				c.Bad("R18.5", key, p.Pos(fn.Pos()), fmt.Sprintf("%s: a path returns without releasing %s, which the constructor left locked — the store stays locked forever", fname(fn), cls))
			case raw > 0:
				c.Bad("R18.5", key, p.Pos(fn.Pos()), fmt.Sprintf("%s: releases %s with a bare Unlock; Abort (e.g. from a handler) followed by Commit unlocks twice (fatal error). The release must be idempotent (sync.Once)", fname(fn), cls))
			default:
				c.OK("R18.5", key, p.Pos(fn.Pos()), fmt.Sprintf("released on every path through sync.Once (%d site(s))", once))
			}
		}
	}
}

// constructs: fn returns a freshly allocated *named (possibly as an interface).
func constructs(fn *ssa.Function, named *types.Named) bool {
	ok := false
	for _, r := range ssax.Returns(fn) {
		for _, v := range r.Results {
			v = ssax.Unwrap(v)
			if a, isA := v.(*ssa.Alloc); isA {
				if pt, isP := a.Type().(*types.Pointer); isP && types.Identical(pt.Elem(), named) {
					ok = true
				}
			}
		}
	}
	return ok
}

// closureUnlocks: v is a bound-method closure of Unlock on a mutex of class cls, or a closure whose body unlocks it.
func closureUnlocks(v ssa.Value, cls string) bool {
	mc, ok := v.(*ssa.MakeClosure)
	if !ok {
		return false
	}
	fn := mc.Fn.(*ssa.Function)
	if strings.Contains(fn.Synthetic, "bound method wrapper") && strings.HasSuffix(fn.Name(), "Unlock$bound") {
		return len(mc.Bindings) == 1 && lockClass(mc.Bindings[0]) == cls
	}
	found := false
	ssax.Instrs(fn, func(ins ssa.Instruction) {
		if cl, ok := ins.(*ssa.Call); ok {
			if op, _ := ssax.MutexOp(cl); op == ssax.OpUnlock {
				arg := cl.Call.Args[0]
				if lockClass(arg) == cls {
					found = true
				}
			}
		}
	})
	return found
}

// ---- R18.7 ----
func r18Order(c *core.Ctx, sh *txnShape) {
	p := sh.p
	tk := typeKey(sh.named)
	fn := sh.methods["Commit"]
	if fn == nil {
		return
	}
	recv := recvParam(fn)
	key := tk + ".Commit|results-in-id-order"
	good, how := false, ""
	for _, r := range ssax.Returns(fn) {
		v := r.Results[0]
		if ssax.IsNilConst(v) {
			continue
		}
		if isLoadOfAnyField(v, recv) {
			if _, isSlice := v.Type().Underlying().(*types.Slice); isSlice {
				good, how = true, "returns the append-ordered results slice itself"
				continue
			}
		}
		if mk, ok := v.(*ssa.MakeSlice); ok {
			// every store into it must be indexed by the map key (the op id)
			indexedByID := false
			bad := false
			for _, ref := range *mk.Referrers() {
				ia, ok := ref.(*ssa.IndexAddr)
				if !ok {
					continue
				}
				idx := ssax.StripIntConv(ia.Index)
				if ex, ok := idx.(*ssa.Extract); ok {
					if _, isNext := ex.Tuple.(*ssa.Next); isNext && ex.Index == 1 {
						indexedByID = true
						continue
					}
				}
				bad = true
			}
			if indexedByID && !bad {
				good, how = true, "fills a fresh slice at index = op id"
				continue
			}
		}
		good, how = false, "unrecognised"
		break
	}
	// append-ordered results: a handler may issue further operations (the interface documents it), so the slot of
	// an operation must be reserved before its handler runs — otherwise the nested operation's result comes first
	if good && strings.HasPrefix(how, "returns the append-ordered") {
		for _, mn := range txnOpMethods {
			op := sh.methods[mn]
			if op == nil {
				continue
			}
			orecv := recvParam(op)
			ssax.Instrs(op, func(ins ssa.Instruction) {
				hc, ok := ins.(*ssa.Call)
				if !ok || !hc.Call.IsInvoke() || hc.Call.Method.Name() != "Handle" {
					return
				}
				k2 := tk + "." + mn + "|slot-reserved-before-handler"
				reserved := false
				ssax.Instrs(op, func(i2 ssa.Instruction) {
					if !ssax.Dominates(i2, hc) {
						return
					}
					if mnW, mxW := sh.weight(op, i2, "record", map[*ssa.Function]bool{}); mnW == 1 && mxW == 1 {
						reserved = true
					}
				})
				_ = orecv
				c.Check(reserved, "R18.7", k2, p.Pos(hc.Pos()), "the result's slot is appended before the handler runs",
					fmt.Sprintf("%s appends its result only after handler.Handle returns: an operation issued by the handler (which the Transaction interface allows) is appended first, so Commit returns results[i].Op != i", fname(op)))
			})
		}
	}
	if good {
		c.OK("R18.7", key, p.Pos(fn.Pos()), how)
	} else {
		c.Bad("R18.7", key, p.Pos(fn.Pos()), fmt.Sprintf("%s: the returned results are neither the append-ordered slice nor a slice filled at index = op id; call order of results is not guaranteed", fname(fn)))
	}
}

// ---- R18.6 ----
func r18Pairing(c *core.Ctx, p *load.Program, txnI *types.Interface) {
	pk := p.SSAPkg("keyvalue")
	if pk == nil {
		c.Hard("anchor: package keyvalue")
		return
	}
	for _, fn := range p.SrcFuncs() {
		if fn.Package() != pk && (fn.Parent() == nil || fn.Parent().Package() != pk) {
			continue
		}
		ord := ordinals{}
		for _, b := range fn.Blocks {
			for idx, ins := range b.Instrs {
				cl, ok := ins.(*ssa.Call)
				if !ok {
					continue
				}
				sig := cl.Call.Signature()
				if sig.Results().Len() != 2 || !ssax.IsErrorType(sig.Results().At(1).Type()) {
					continue
				}
				rt := sig.Results().At(0).Type()
				if it, isI := rt.Underlying().(*types.Interface); !isI || !types.Identical(it, txnI) {
					continue
				}
				// the wrapper that merely forwards (returns the pair) is not a begin site
				if forwardsCall(fn, cl) {
					continue
				}
				key := fname(fn) + "|" + ord.next("begin")
				txn := ssax.ExtractOf(cl, 0)
				errV := ssax.ExtractOf(cl, 1)
				if txn == nil {
					c.Bad("R18.6", key, p.Pos(cl.Pos()), fmt.Sprintf("%s: transaction value discarded, it can never be ended", fname(fn)))
					continue
				}
				init := ssax.NewPathState()
				if errV != nil {
					init.SetNil(errV, ssax.IsNil)
				}
				init.SetNil(txn, ssax.NonNil)
				var leak string
				complete := ssax.EnumPaths(fn, b, idx+1, init, ssax.PathHooks{
					Instr: func(s *ssax.PathState, ins ssa.Instruction) {
						c2, ok := ins.(*ssa.Call)
						if !ok {
							return
						}
						if c2.Call.IsInvoke() && (c2.Call.Method.Name() == "Commit" || c2.Call.Method.Name() == "Abort") && s.Resolve(c2.Call.Value) == ssa.Value(txn) {
							s.Counts["ended"] = 1
						}
						// a helper that ends the transaction it is given on all its paths
						if callee := ssax.StaticCallee(c2); callee != nil && p.InModule(callee) {
							for ai, a := range c2.Call.Args {
								if s.Resolve(a) == ssa.Value(txn) && ai < len(callee.Params) && endsTxn(callee, callee.Params[ai]) {
									s.Counts["ended"] = 1
								}
							}
						}
					},
					Branch: func(s *ssax.PathState, cond ssa.Value, taken bool) {
						// prune: error of a validation-only-failing callee is non-nil
						if x, eq, ok := ssax.NilTest(cond); ok {
							nonNil := eq != taken
							if nonNil {
								if src := callProducing(s.Resolve(x)); src != nil && validationOnlyFailure(ssax.StaticCallee(src)) {
									s.Counts["pruned"] = 1
								}
							}
						}
					},
					End: func(s *ssax.PathState, last ssa.Instruction) {
						if s.Counts["ended"] == 0 && s.Counts["pruned"] == 0 && leak == "" {
							leak = p.Pos(last.Pos())
						}
					},
				})
				if !complete {
					c.Unknown("R18.6", key, p.Pos(cl.Pos()), fmt.Sprintf("%s: path enumeration cap exceeded", fname(fn)))
					continue
				}
				if leak != "" {
					c.Bad("R18.6", key, p.Pos(cl.Pos()), fmt.Sprintf("%s: a path from the successful Transaction() to the return at %s neither commits nor aborts — an in-memory store stays locked", fname(fn), leak))
				} else {
					c.OK("R18.6", key, p.Pos(cl.Pos()), "every path after a successful begin reaches Commit or Abort")
				}
			}
		}
	}
}

func forwardsCall(fn *ssa.Function, cl *ssa.Call) bool {
	for _, r := range ssax.Returns(fn) {
		if len(r.Results) == 2 {
			e0, ok0 := r.Results[0].(*ssa.Extract)
			e1, ok1 := r.Results[1].(*ssa.Extract)
			if ok0 && ok1 && e0.Tuple == ssa.Value(cl) && e1.Tuple == ssa.Value(cl) {
				return true
			}
		}
		if len(r.Results) == 1 && r.Results[0] == ssa.Value(cl) {
			return true
		}
	}
	// `return f()` of a tuple call compiles to extracts as above; also accept direct tuple return
	return false
}

// validationOnlyFailure: every return of fn with a possibly non-nil error is dominated by a ValidPath(...)==false fact.
func validationOnlyFailure(fn *ssa.Function) bool {
	if fn == nil || fn.Blocks == nil {
		return false
	}
	idx := ssax.ErrorResultIndex(fn.Signature)
	if idx < 0 {
		return false
	}
	any := false
	for _, r := range ssax.Returns(fn) {
		e := r.Results[idx]
		if ssax.IsNilConst(e) {
			continue
		}
		any = true
		// a wrapper that returns the error of a validation-only-failing callee (setFileTxn -> setFileTxnHandler)
		if cl := callProducing(e); cl != nil {
			if callee := ssax.StaticCallee(cl); callee != nil && callee != fn && validationOnlyFailure(callee) {
				continue
			}
		}
		dom := false
		for _, f := range ssax.FactsAtInstr(r) {
			if cl, ok := f.Cond.(*ssa.Call); ok && !f.Val && isValidPathCall(cl) {
				dom = true
			}
		}
		if !dom {
			return false
		}
	}
	return any
}

// isValidPathCall: call to hackpadfs.ValidPath or io/fs.ValidPath.
func isValidPathCall(cl *ssa.Call) bool {
	return ssax.CalleeIs(cl, mod, "ValidPath") || ssax.CalleeIs(cl, "io/fs", "ValidPath")
}

// endsTxn: every path of fn invokes Commit or Abort on parameter prm.
func endsTxn(fn *ssa.Function, prm *ssa.Parameter) bool {
	if fn.Blocks == nil {
		return false
	}
	all := true
	ssax.EnumPaths(fn, fn.Blocks[0], 0, nil, ssax.PathHooks{
		Instr: func(s *ssax.PathState, ins ssa.Instruction) {
			if c, ok := ins.(*ssa.Call); ok && c.Call.IsInvoke() && (c.Call.Method.Name() == "Commit" || c.Call.Method.Name() == "Abort") && s.Resolve(c.Call.Value) == ssa.Value(prm) {
				s.Counts["ended"] = 1
			}
		},
		End: func(s *ssax.PathState, _ ssa.Instruction) {
			if s.Counts["ended"] == 0 {
				all = false
			}
		},
	})
	return all
}

// r18CtorHoldsLock (R18.8 / R15.4): a constructor that hands out transactions holding the store mutex does so on
// every successful return — isolation between transactions is unconditional.
func r18CtorHoldsLock(c *core.Ctx, p *load.Program, named *types.Named, rule string) {
	tk := typeKey(named)
	for _, fn := range p.SrcFuncs() {
		if !constructs(fn, named) {
			continue
		}
		if len(heldAtReturn(fn)) == 0 {
			// a store that owns a mutex hands out transactions that hold it: a constructor that takes no lock at all
			// ("locked by the first operation") lets an idle or read-only transaction run inside another's
			if mu := recvMutexField(fn); mu != "" {
				c.Bad(rule, tk+"|"+fname(fn)+"|every-transaction-holds-the-lock", p.Pos(fn.Pos()), fmt.Sprintf("%s builds a transaction of a store that owns the mutex %s and returns without holding it on any path: the transaction is no critical section from Transaction() on — operations of two transactions interleave until each happens to take the lock, and a transaction that only reads never excludes a writer's partial effects", fname(fn), mu))
			}
			continue
		}
		ls := ssax.Locksets(fn, true, nil)
		eidx := ssax.ErrorResultIndex(fn.Signature)
		key := tk + "|" + fname(fn) + "|every-transaction-holds-the-lock"
		bad := ""
		for _, r := range ssax.Returns(fn) {
			if eidx >= 0 && eidx < len(r.Results) && !ssax.IsNilConst(r.Results[eidx]) {
				continue // failing construction
			}
			if len(ls[r]) == 0 {
				bad = p.Pos(r.Pos())
			}
		}
		c.Check(bad == "", rule, key, p.Pos(fn.Pos()), "every successful return of the constructor holds the store mutex",
			fmt.Sprintf("%s returns a transaction at %s without holding the store mutex that its other returns hold: such a transaction runs between the operations of an open read-write transaction and observes its partial effects (e.g. a rename's new name already set, the old one not yet deleted)", fname(fn), bad))
	}
}

// r18WhoAborts (R18.9, who-may-call): the cancel function kept in a transaction (a context.CancelFunc field) is
// invoked only by the type's Abort and Commit methods. An operation method that cancels on its own (say, after a
// failing store.Set) makes Commit report 'context canceled' and drop every recorded result.
func r18WhoAborts(c *core.Ctx, sh *txnShape) {
	p := sh.p
	tk := typeKey(sh.named)
	var names []string
	for n := range sh.methods {
		names = append(names, n)
	}
	sort.Strings(names)
	for _, mn := range names {
		fn := sh.methods[mn]
		recv := recvParam(fn)
		if recv == nil || fn.Blocks == nil {
			continue
		}
		calls := 0
		var first ssa.Instruction
		ssax.InstrsDeep(fn, func(_ *ssa.Function, ins ssa.Instruction) {
			ci, ok := ins.(ssa.CallInstruction)
			if !ok || ci.Common().IsInvoke() {
				return
			}
			v := ci.Common().Value
			if !strings.HasSuffix(typeString(v.Type()), "context.CancelFunc") {
				return
			}
			if _, _, isField := ssax.FieldLoad(v); !isField {
				return
			}
			calls++
			if first == nil {
				first = ins
			}
		})
		key := tk + "." + mn + "|cancel-calls"
		switch {
		case mn == "Abort" || mn == "Commit":
			c.OK("R18.9", key, p.Pos(fn.Pos()), fmt.Sprintf("%d call(s) of the cancel function: this method ends the transaction", calls))
		case calls == 0:
			c.OK("R18.9", key, p.Pos(fn.Pos()), "does not cancel the transaction")
		default:
			c.Bad("R18.9", key, p.Pos(first.Pos()), fmt.Sprintf("%s cancels the transaction itself: only Abort and Commit may end it — after this call every later operation is skipped and Commit returns 'context canceled' without the per-call results, so the store's actual error and all other results are lost", fname(fn)))
		}
	}
}

// abortCheckSound: the abort checker answers "not aborted" (nil error) only behind its look at the context: every
// return of a nil error is dominated by the instruction that consults the context (ctx.Err(), a select on
// ctx.Done()). A mode-dependent early 'return op, nil' ahead of it lets that kind of operation run on an aborted
// transaction, which has already released the store's lock.
func abortCheckSound(fn *ssa.Function) bool {
	if fn == nil || fn.Blocks == nil {
		return false
	}
	eidx := ssax.ErrorResultIndex(fn.Signature)
	if eidx < 0 {
		return false
	}
	var checks []ssa.Instruction
	ssax.Instrs(fn, func(ins ssa.Instruction) {
		switch x := ins.(type) {
		case *ssa.Select:
			checks = append(checks, x)
		case ssa.CallInstruction:
			if m := ssax.InvokeMethod(x); m != nil && m.Name() == "Err" && m.Pkg() != nil && m.Pkg().Path() == "context" {
				checks = append(checks, ins)
			}
		}
	})
	if len(checks) == 0 {
		return true // the check is made by a callee: judged there
	}
	for _, r := range ssax.Returns(fn) {
		e := resolveSpilled(r.Results[eidx], r)
		if !ssax.IsNilConst(e) {
			if ph, ok := e.(*ssa.Phi); ok {
				hasNil := false
				for _, ed := range ph.Edges {
					if ssax.IsNilConst(ed) {
						hasNil = true
					}
				}
				if !hasNil {
					continue
				}
			} else {
				continue
			}
		}
		dominated := false
		for _, ck := range checks {
			if ssax.Dominates(ck, r) {
				dominated = true
			}
		}
		if !dominated {
			return false
		}
	}
	return true
}

// storedField: the single value stored into field name of the local struct a — directly, or in the local struct that
// a was copied from as a whole.
func storedField(a *ssa.Alloc, name string, depth int) ssa.Value {
	if a.Referrers() == nil || depth > 3 {
		return nil
	}
	var direct []ssa.Value
	var copied []*ssa.Alloc
	for _, r := range *a.Referrers() {
		switch x := r.(type) {
		case *ssa.FieldAddr:
			if ssax.FieldName(x) == name && x.Referrers() != nil {
				for _, rr := range *x.Referrers() {
					if st, ok := rr.(*ssa.Store); ok {
						direct = append(direct, st.Val)
					}
				}
			}
		case *ssa.Store:
			if x.Addr == ssa.Value(a) {
				if u, ok := x.Val.(*ssa.UnOp); ok {
					if src, ok := u.X.(*ssa.Alloc); ok {
						copied = append(copied, src)
					}
				}
			}
		}
	}
	if len(direct) == 1 && len(copied) == 0 {
		return direct[0]
	}
	if len(direct) == 0 && len(copied) == 1 {
		return storedField(copied[0], name, depth+1)
	}
	return nil
}

// recvMutexField: the name of a sync.Mutex / sync.RWMutex field of fn's receiver struct ("" if none).
func recvMutexField(fn *ssa.Function) string {
	rp := recvParam(fn)
	if rp == nil {
		return ""
	}
	t := rp.Type()
	if pt, ok := t.(*types.Pointer); ok {
		t = pt.Elem()
	}
	st, ok := t.Underlying().(*types.Struct)
	if !ok {
		return ""
	}
	for i := 0; i < st.NumFields(); i++ {
		ft := st.Field(i).Type().String()
		if ft == "sync.Mutex" || ft == "sync.RWMutex" || ft == "*sync.Mutex" || ft == "*sync.RWMutex" {
			return st.Field(i).Name()
		}
	}
	return ""
}
