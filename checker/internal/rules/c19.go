package rules

import (
	"fmt"
	"go/token"
	"go/types"
	"sort"
	"strings"

	"golang.org/x/tools/go/ssa"

	"hpfscheck/internal/core"
	"hpfscheck/internal/load"
	"hpfscheck/internal/ssax"
)

func init() { register(&Spec{ID: "C19", Targets: allTargets, Run: runC19}) }

// blobShape describes a slice-backed Blob implementation discovered from types.
type blobShape struct {
	named     *types.Named
	dataField string // the []byte field
	lenField  string // int64 field mirrored through sync/atomic (from Len())
	muField   string // *sync.Mutex / sync.Mutex field ("" if none)
	methods   map[string]*ssa.Function
}

func discoverBlobShape(p *load.Program, n *types.Named) *blobShape {
	st, ok := n.Underlying().(*types.Struct)
	if !ok {
		return nil
	}
	sh := &blobShape{named: n, methods: methodsOf(p, n)}
	for i := 0; i < st.NumFields(); i++ {
		f := st.Field(i)
		switch t := f.Type().(type) {
		case *types.Slice:
			if b, ok := t.Elem().(*types.Basic); ok && b.Kind() == types.Uint8 {
				sh.dataField = f.Name()
			}
		}
		ts := f.Type().String()
		if ts == "*sync.Mutex" || ts == "sync.Mutex" {
			sh.muField = f.Name()
		}
	}
	// length field: the field read atomically by Len()
	if l := sh.methods["Len"]; l != nil {
		ssax.Instrs(l, func(i ssa.Instruction) {
			c, ok := i.(*ssa.Call)
			if !ok {
				return
			}
			if fn := ssax.StaticCallee(c); fn != nil && fn.Pkg != nil && fn.Pkg.Pkg.Path() == "sync/atomic" && strings.HasPrefix(fn.Name(), "Load") {
				if fa, ok := c.Call.Args[0].(*ssa.FieldAddr); ok {
					sh.lenField = ssax.FieldName(fa)
				}
			}
		})
	}
	return sh
}

// lenCanon builds the canonicaliser for integer terms inside a method of a blob type.
func (sh *blobShape) canon(fn *ssa.Function) ssax.Canon {
	recv := recvParam(fn)
	var canon ssax.Canon
	canon = func(v ssa.Value) (ssax.Term, bool) {
		// a value of a guard helper whose facts were imported (ssax.ImportGuards) is read through the call's arguments
		v = ssax.StripIntConv(ssax.SubstValue(ssax.StripIntConv(v)))
		if k, ok := ssax.ConstInt(v); ok {
			return ssax.Term{IsConst: true, Const: k}, true
		}
		switch x := v.(type) {
		case *ssa.Parameter:
			return ssax.Term{Sym: paramSym(x)}, true
		case *ssa.Call:
			if callee := ssax.StaticCallee(x); callee != nil {
				if callee.Name() == "Len" && callee.Signature.Recv() != nil && len(x.Call.Args) == 1 && ssax.SubstValue(x.Call.Args[0]) == ssa.Value(recv) {
					return ssax.Term{Sym: "LEN(recv)"}, true
				}
				if callee.Pkg != nil && callee.Pkg.Pkg.Path() == "sync/atomic" && strings.HasPrefix(callee.Name(), "Load") {
					if fa, ok := x.Call.Args[0].(*ssa.FieldAddr); ok && ssax.SubstValue(fa.X) == ssa.Value(recv) && ssax.FieldName(fa) == sh.lenField {
						return ssax.Term{Sym: "LEN(recv)"}, true
					}
				}
			}
			if b, ok := x.Call.Value.(*ssa.Builtin); ok && b.Name() == "len" {
				return ssax.Term{Sym: sh.lenOf(x.Call.Args[0], recv)}, true
			}
		}
		return ssax.Term{Sym: "v:" + v.Name()}, true
	}
	return canon
}

func (sh *blobShape) lenOf(x ssa.Value, recv *ssa.Parameter) string {
	if recv != nil && sh.dataField != "" {
		if base, _, ok := ssax.FieldLoad(x); ok && ssax.SubstValue(base) == ssa.Value(recv) && isLoadOfField(x, base, sh.dataField) {
			return "LEN(recv)"
		}
	}
	return "len:" + x.Name()
}

func runC19(c *core.Ctx) {
	runFixtures(c, "bounds", "locks")
	c.Explain("Structural clauses of C19 decided from source: (R19.1) every slice/make whose bounds depend on a parameter in a slice-backed Blob method is entailed safe by the dominating comparisons (difference-constraint closure), and every int64 parameter of View/Slice/Set/Grow/Truncate has a 'negative => error' guard dominating all mutations; (R19.2) View/Slice select receiver data by [start:end]; (R19.3) View aliases (shares array and mutex), Slice copies into a fresh allocation; (R19.4) no interface dispatch / re-locking call while the blob mutex may be held; (R19.5) every store to the data field is followed by the atomic length mirror in the same block; (R19.6) in the js/wasm typed-array Blob every value written to the mirrored length is non-negative by guards or was accepted by a typed-array allocation (guard-set differences to blob.Bytes are listed as information only: the JS engine clamps or validates the rest), and View/Slice use subarray/slice(start,end). (R19.7) the length reads behind the guards of a slice of the mutex-guarded buffer are made inside the critical section that slices (an unlocked fast-path test repeated under the lock is accepted): a bound checked before locking is stale when another handle resizes the blob, and the slice panics instead of returning an error. (R19.8) no method of the slice-backed blob contains an explicit panic: 'cannot happen' errors of its own methods do happen when another handle resizes the blob between a length read and the call (Bytes() panicked this way). (R19.9) View and Slice of every Blob type return a blob value other than the receiver (no full-range 'return b' fast path). (R19.10) in the js/wasm blob a slice that is made the Go-side cache is not returned to the caller as well. (R19.11) no Blob method returns a package-level blob; (R19.12, js/wasm) the typed-array blob repeats each mutation on its Go-side cache with its own parameters. (R19.16, js/wasm) Truncate of the typed-array blob records a length bounded by the current length; (R19.13) no method returns with the mutex held; (R19.14) View and Slice have identical error guards. (R19.15) caller-sized allocations under the mutex run under a deferred Unlock with recover. NOT claimed: byte-exact equality with a []byte model over operation sequences, aliasing after Grow reallocates, behaviour of the JS engine.")
	c.Assume("A5: all length reads of one receiver inside one method denote one value (sequential reading; concurrent resize between check and use is C15's matter)",
		"A2: stdlib (sync, sync/atomic, builtin copy/append) behaves as documented; int64->int conversions do not truncate (64-bit int; the 386 target is type-checked in the thorough tier only)")
	c.RuleDoc("R19.1", "every parameter-dependent slice/make bound in a slice-backed Blob method is entailed by dominating guards; negative => error guard per int64 parameter")
	c.RuleDoc("R19.2", "View/Slice select receiver data with low=start, high=end")
	c.RuleDoc("R19.3", "View result aliases receiver array+mutex; Slice result is a fresh allocation filled by copy")
	c.RuleDoc("R19.4", "no invoke / lock-acquiring call while the blob mutex may be held")
	c.RuleDoc("R19.5", "store to data field is followed by atomic length mirror")
	c.RuleDoc("R19.11", "no Blob method returns a package-level (shared) blob")
	c.RuleDoc("R19.15", "a caller-sized allocation under the blob mutex is survivable (deferred Unlock + recover)")
	c.RuleDoc("R19.14", "View and Slice of one blob type refuse the same arguments")
	c.RuleDoc("R19.13", "no method of the slice-backed blob returns with its mutex held")
	c.RuleDoc("R19.12", "the typed-array blob repeats each mutation on its Go-side cache with the same arguments")
	c.RuleDoc("R19.10", "the typed-array blob never returns the slice that backs its Go-side cache")
	c.RuleDoc("R19.9", "View and Slice never return the receiver itself")
	c.RuleDoc("R19.8", "no method of the slice-backed blob panics on purpose")
	c.RuleDoc("R19.7", "the bounds of a slice of the mutex-guarded buffer are checked inside the critical section that slices")
	c.RuleDoc("R19.16", "typed-array Blob (js/wasm): Truncate records a length no larger than the current one")
	c.RuleDoc("R19.6", "typed-array Blob (js/wasm): stored length is guarded non-negative or validated by an allocation")
	var refGuards map[string][]string
	for _, p := range c.Progs {
		c.SetProg(p)
		blobI := ifaceOf(p, "keyvalue/blob", "Blob")
		if blobI == nil {
			c.Hard("anchor: interface keyvalue/blob.Blob not found")
			continue
		}
		impls := implementers(p, blobI)
		if len(impls) == 0 {
			c.Hard("anchor: no type implements keyvalue/blob.Blob")
			continue
		}
		var names []string
		for _, n := range impls {
			names = append(names, typeKey(n))
		}
		c.Info("blob_types_"+p.Target.GOOS, names)
		for _, n := range impls {
			r19FreshView(c, p, n)
			r19NoSharedResult(c, p, n, blobI)
			sh := discoverBlobShape(p, n)
			if sh == nil {
				continue
			}
			if sh.dataField != "" {
				r19SliceBacked(c, p, sh)
				r19SameSection(c, p, sh, "R19.7")
				r19NoPanic(c, p, sh)
				r19NoLockLeak(c, p, sh, "R19.13")
				r19ViewSliceAgree(c, p, sh)
				r19AllocUnderDeferredUnlock(c, p, sh)
				if refGuards == nil {
					refGuards = guardSets(sh)
				}
			}
		}
		if p.Target == load.Wasm {
			r19CacheNotHandedOut(c, p)
			for _, n := range impls {
				sh := discoverBlobShape(p, n)
				if sh == nil || sh.dataField != "" {
					continue
				}
				r19Sibling(c, p, sh, refGuards)
				r19MirrorPassesParams(c, p, n)
			}
		}
	}
	c.Floor("R19.1", 9)
	c.Floor("R19.2", 2)
	c.Floor("R19.3", 4)
	c.Floor("R19.4", 4)
	c.Floor("R19.5", 2)
	c.Floor("R19.6", 2)
	c.Floor("R19.16", 1)
	c.Floor("R19.7", 3)
	c.Floor("R19.8", 6)
	c.Floor("R19.9", 4)
	c.Floor("R19.10", 1)
	c.Floor("R19.11", 2)
	c.Floor("R19.12", 3)
	c.Floor("R19.13", 4)
	c.Floor("R19.14", 1)
	c.Floor("R19.15", 1)
}

var blobOps = []string{"View", "Slice", "Set", "Grow", "Truncate"}

func r19SliceBacked(c *core.Ctx, p *load.Program, sh *blobShape) {
	tk := typeKey(sh.named)
	var mnames []string
	for n := range sh.methods {
		mnames = append(mnames, n)
	}
	sort.Strings(mnames)
	for _, mn := range mnames {
		fn := sh.methods[mn]
		recv := recvParam(fn)
		if recv == nil {
			continue
		}
		canon := sh.canon(fn)
		ord := ordinals{}
		// ---- R19.1 bounds ----
		ssax.Instrs(fn, func(ins ssa.Instruction) {
			switch x := ins.(type) {
			case *ssa.Slice:
				if _, ok := x.X.Type().Underlying().(*types.Slice); !ok {
					return // slicing an array pointer (varargs) or string
				}
				if x.Low == nil && x.High == nil {
					return
				}
				_, lowConst := constOrNil(x.Low)
				_, highConst := constOrNil(x.High)
				key := tk + "." + mn + "|" + ord.next("slice")
				if lowConst && highConst {
					c.OKTrivial("R19.1", key, p.Pos(x.Pos()), "constant bounds")
					return
				}
				missing := sliceMissing(ssax.ImportGuards(ssax.FactsAtInstr(x), p.InModule), canon, sh, x, recv)
				if len(missing) == 0 {
					c.OK("R19.1", key, p.Pos(x.Pos()), "bounds entailed by dominating guards")
				} else {
					c.Bad("R19.1", key, p.Pos(x.Pos()), fmt.Sprintf("%s: slice expression %s can panic: not entailed by dominating guards: %s", fname(fn), sliceStr(x), strings.Join(missing, ", ")))
				}
			case *ssa.MakeSlice:
				key := tk + "." + mn + "|" + ord.next("make")
				if _, ok := ssax.ConstInt(x.Len); ok {
					c.OKTrivial("R19.1", key, p.Pos(x.Pos()), "constant length")
					return
				}
				b := ssax.NewBounds(ssax.ImportGuards(ssax.FactsAtInstr(x), p.InModule), canon)
				zero := ssax.Term{IsConst: true}
				ok := false
				desc := ""
				if bo, isb := ssax.StripIntConv(x.Len).(*ssa.BinOp); isb && bo.Op == token.SUB {
					a, _ := canon(bo.X)
					s, _ := canon(bo.Y)
					ok = b.LE(s, a, 0)
					desc = "length is a difference that may be negative (subtrahend <= minuend not entailed)"
				} else if lc, isLen := ssax.StripIntConv(x.Len).(*ssa.Call); isLen && isLenCall(lc) {
					ok = true // len(x) is never negative
				} else {
					n, _ := canon(x.Len)
					ok = b.LE(zero, n, 0)
					desc = "length may be negative (0 <= n not entailed)"
				}
				if ok {
					c.OK("R19.1", key, p.Pos(x.Pos()), "length non-negative by dominating guards")
				} else {
					c.Bad("R19.1", key, p.Pos(x.Pos()), fmt.Sprintf("%s: make([]byte, n) can panic: %s", fname(fn), desc))
				}
			}
		})
		// ---- R19.1 negative => error guard per int64 parameter of the blob operations ----
		if isBlobOp(mn) {
			muts := mutationSites(fn, recv, sh)
			for _, prm := range fn.Params[1:] {
				bt, ok := prm.Type().Underlying().(*types.Basic)
				if !ok || bt.Info()&types.IsInteger == 0 {
					continue
				}
				key := tk + "." + mn + "|neg-guard:" + prm.Name()
				g := findNegGuard(fn, prm, canon)
				if g == nil {
					g = negGuardInHelper(p, sh, fn, prm)
				}
				if g == nil {
					c.Bad("R19.1", key, p.Pos(fn.Pos()), fmt.Sprintf("%s: no guard rejects a negative %s with an error", fname(fn), prm.Name()))
					continue
				}
				bad := ""
				for _, m := range muts {
					if !g.Block().Dominates(m.Block()) {
						bad = p.Pos(m.Pos())
					}
				}
				if bad != "" {
					c.Bad("R19.1", key, p.Pos(g.Pos()), fmt.Sprintf("%s: receiver is mutated at %s on a path that does not pass the negative-%s guard", fname(fn), bad, prm.Name()))
				} else {
					c.OK("R19.1", key, p.Pos(g.Pos()), fmt.Sprintf("negative %s returns an error before any of %d mutation sites", prm.Name(), len(muts)))
				}
			}
		}
		// ---- R19.2 / R19.3 ----
		if mn == "View" || mn == "Slice" {
			r19Select(c, p, sh, fn, mn)
		}
		// ---- R19.4 ----
		r19NoDispatchUnderLock(c, p, sh, fn)
		// ---- R19.5 ----
		r19LengthMirror(c, p, sh, fn)
	}
}

// paramSym names a parameter by position so that siblings with different parameter names compare equal.
func paramSym(x *ssa.Parameter) string {
	for i, q := range x.Parent().Params {
		if q == x {
			return fmt.Sprintf("p:%d", i)
		}
	}
	return "p:" + x.Name()
}

func isBlobOp(n string) bool {
	for _, o := range blobOps {
		if o == n {
			return true
		}
	}
	return false
}

func constOrNil(v ssa.Value) (int64, bool) {
	if v == nil {
		return 0, true
	}
	return ssax.ConstInt(v)
}

func sliceStr(x *ssa.Slice) string {
	n := func(v ssa.Value) string {
		if v == nil {
			return ""
		}
		v = ssax.StripIntConv(v)
		if p, ok := v.(*ssa.Parameter); ok {
			return p.Name()
		}
		return v.Name()
	}
	return fmt.Sprintf("data[%s:%s]", n(x.Low), n(x.High))
}

// mutationSites: stores to receiver fields, atomic stores to receiver fields and copy() into receiver data.
func mutationSites(fn *ssa.Function, recv *ssa.Parameter, sh *blobShape) []ssa.Instruction {
	var out []ssa.Instruction
	ssax.Instrs(fn, func(i ssa.Instruction) {
		switch x := i.(type) {
		case *ssa.Store:
			if fa, ok := x.Addr.(*ssa.FieldAddr); ok && fa.X == ssa.Value(recv) {
				out = append(out, x)
			}
		case *ssa.Call:
			if b, ok := x.Call.Value.(*ssa.Builtin); ok && b.Name() == "copy" {
				if derivesFromField(x.Call.Args[0], recv, sh.dataField) {
					out = append(out, x)
				}
			}
			if fnc := ssax.StaticCallee(x); fnc != nil && fnc.Pkg != nil && fnc.Pkg.Pkg.Path() == "sync/atomic" && strings.HasPrefix(fnc.Name(), "Store") {
				if fa, ok := x.Call.Args[0].(*ssa.FieldAddr); ok && fa.X == ssa.Value(recv) {
					out = append(out, x)
				}
			}
		}
	})
	return out
}

func derivesFromField(v ssa.Value, recv *ssa.Parameter, field string) bool {
	for i := 0; i < 8; i++ {
		if isLoadOfField(v, recv, field) {
			return true
		}
		s, ok := v.(*ssa.Slice)
		if !ok {
			return false
		}
		v = s.X
	}
	return false
}

// findNegGuard finds an If whose taken edge under "prm < 0" returns a non-nil error.
func findNegGuard(fn *ssa.Function, prm *ssa.Parameter, canon ssax.Canon) *ssa.If {
	var found *ssa.If
	for _, b := range fn.Blocks {
		ifi, ok := b.Instrs[len(b.Instrs)-1].(*ssa.If)
		if !ok || found != nil {
			continue
		}
		for branch := 0; branch < 2; branch++ {
			cnd, val := ssax.StripNot(ifi.Cond, branch == 0)
			bo, ok := cnd.(*ssa.BinOp)
			if !ok {
				continue
			}
			bs := ssax.NewBounds([]ssax.Fact{{Cond: bo, Val: val}}, canon)
			pt := ssax.Term{Sym: paramSym(prm)}
			zero := ssax.Term{IsConst: true}
			// taken edge entails prm <= -1, and nothing else about prm is needed
			if !bs.LE(pt, zero, -1) {
				continue
			}
			// the edge must be exactly a negativity test: p < 0 / p <= -1 (not p < LEN etc.)
			if !isNegativityTest(bo, prm) {
				continue
			}
			if _, _, isErr := blockReturnsError(b.Succs[branch]); isErr {
				found = ifi
			}
		}
	}
	return found
}

// negGuardInHelper: prm is handed to a guard helper of the module whose error result is tested in fn (the failing
// edge returns an error) and which itself rejects a negative value of the corresponding parameter; the If in fn that
// tests the helper's error is the guard.
func negGuardInHelper(p *load.Program, sh *blobShape, fn *ssa.Function, prm *ssa.Parameter) *ssa.If {
	var found *ssa.If
	for _, b := range fn.Blocks {
		ifi, ok := b.Instrs[len(b.Instrs)-1].(*ssa.If)
		if !ok || found != nil {
			continue
		}
		for branch := 0; branch < 2; branch++ {
			cnd, val := ssax.StripNot(ifi.Cond, branch == 0)
			x, eq, isNil := ssax.NilTest(cnd)
			if !isNil || eq == val || !ssax.IsErrorType(x.Type()) {
				continue // need the edge on which the error is non-nil
			}
			call := callProducing(x)
			if call == nil {
				continue
			}
			callee := ssax.StaticCallee(call)
			if callee == nil || callee.Blocks == nil || !p.InModule(callee) || len(callee.Params) != len(call.Call.Args) {
				continue
			}
			if _, _, isErr := blockReturnsError(b.Succs[branch]); !isErr {
				continue
			}
			for i, a := range call.Call.Args {
				if ssax.StripIntConv(a) == ssa.Value(prm) && findNegGuard(callee, callee.Params[i], sh.canon(callee)) != nil {
					found = ifi
				}
			}
		}
	}
	return found
}

func isNegativityTest(bo *ssa.BinOp, prm *ssa.Parameter) bool {
	x, y := ssax.StripIntConv(bo.X), ssax.StripIntConv(bo.Y)
	if x == ssa.Value(prm) {
		_, ok := ssax.ConstInt(y)
		return ok
	}
	if y == ssa.Value(prm) {
		_, ok := ssax.ConstInt(x)
		return ok
	}
	return false
}

func r19Select(c *core.Ctx, p *load.Program, sh *blobShape, fn *ssa.Function, mn string) {
	recv := recvParam(fn)
	tk := typeKey(sh.named)
	if len(fn.Params) < 3 {
		c.Hard("%s: expected (start, end) parameters", fname(fn))
		return
	}
	start, end := fn.Params[1], fn.Params[2]
	var sel *ssa.Slice
	var anySlice *ssa.Slice
	ssax.Instrs(fn, func(i ssa.Instruction) {
		s, ok := i.(*ssa.Slice)
		if !ok || !isLoadOfField(s.X, recv, sh.dataField) {
			return
		}
		anySlice = s
		if s.Low != nil && s.High != nil && ssax.StripIntConv(s.Low) == ssa.Value(start) && ssax.StripIntConv(s.High) == ssa.Value(end) {
			sel = s
		}
	})
	key := tk + "." + mn + "|select"
	pos := p.Pos(fn.Pos())
	if sel == nil {
		what := "no slice expression over the receiver's data"
		if anySlice != nil {
			what = "the slice expression over the receiver's data (" + sliceStr(anySlice) + ") does not use low=start and high=end"
		}
		c.Bad("R19.2", key, pos, fmt.Sprintf("%s: result is not selected by [start:end]: %s", fname(fn), what))
	} else {
		c.OK("R19.2", key, p.Pos(sel.Pos()), "data[start:end] selects the result")
	}
	// R19.3: how the returned blob is built
	key3 := tk + "." + mn + "|alias-or-copy"
	var ctor *ssa.Call
	ssax.Instrs(fn, func(i ssa.Instruction) {
		if cl, ok := i.(*ssa.Call); ok {
			if callee := ssax.StaticCallee(cl); callee != nil && callee.Signature.Recv() == nil && callee.Pkg != nil && callee.Pkg.Pkg == sh.named.Obj().Pkg() {
				if pt, ok := callee.Signature.Results().At(0).Type().(*types.Pointer); callee.Signature.Results().Len() == 1 && ok && pt.Elem() == types.Type(sh.named) {
					ctor = cl
				}
			}
		}
	})
	if ctor == nil || len(ctor.Call.Args) != 1 {
		c.Unknown("R19.3", key3, pos, fmt.Sprintf("%s: cannot find the constructor call building the result (unrecognised shape)", fname(fn)))
		return
	}
	arg := ctor.Call.Args[0]
	sharesMu := false
	ssax.Instrs(fn, func(i ssa.Instruction) {
		if st, ok := i.(*ssa.Store); ok {
			if fa, ok := st.Addr.(*ssa.FieldAddr); ok && fa.X == ssa.Value(ctor) && ssax.FieldName(fa) == sh.muField && isLoadOfField(st.Val, recv, sh.muField) {
				sharesMu = true
			}
		}
	})
	switch mn {
	case "View":
		if sel != nil && arg == ssa.Value(sel) && (sh.muField == "" || sharesMu) {
			c.OK("R19.3", key3, p.Pos(ctor.Pos()), "view wraps data[start:end] of the receiver and shares its mutex")
		} else {
			c.Bad("R19.3", key3, p.Pos(ctor.Pos()), fmt.Sprintf("%s: a view must alias the receiver: result must wrap the receiver's data[start:end] directly and share its mutex (wraps-selected=%v shares-mutex=%v)", fname(fn), sel != nil && arg == ssa.Value(sel), sharesMu))
		}
	case "Slice":
		mk, isMake := arg.(*ssa.MakeSlice)
		filled := false
		if isMake && sel != nil {
			ssax.Instrs(fn, func(i ssa.Instruction) {
				if cl, ok := i.(*ssa.Call); ok {
					if b, ok := cl.Call.Value.(*ssa.Builtin); ok && b.Name() == "copy" && cl.Call.Args[0] == ssa.Value(mk) && cl.Call.Args[1] == ssa.Value(sel) {
						filled = true
					}
				}
			})
		}
		if isMake && filled && !sharesMu {
			c.OK("R19.3", key3, p.Pos(ctor.Pos()), "slice result is a fresh allocation filled by copy(data[start:end])")
		} else {
			c.Bad("R19.3", key3, p.Pos(ctor.Pos()), fmt.Sprintf("%s: a slice must be an independent copy: fresh-allocation=%v filled-from-data[start:end]=%v shares-mutex=%v", fname(fn), isMake, filled, sharesMu))
		}
	}
}

// lockClass identifies a mutex by (struct type, field) of the last FieldAddr in its operand.
func lockClass(v ssa.Value) string {
	for i := 0; i < 6; i++ {
		switch x := v.(type) {
		case *ssa.UnOp:
			v = x.X
			continue
		case *ssa.FieldAddr:
			if n := ssax.StructOfFieldAddr(x); n != nil {
				return typeKeyAny(n) + "." + ssax.FieldName(x)
			}
			return ""
		}
		break
	}
	return ""
}

func typeKeyAny(n *types.Named) string {
	if n.Obj().Pkg() == nil {
		return n.Obj().Name()
	}
	return strings.TrimPrefix(strings.TrimPrefix(n.Obj().Pkg().Path(), mod), "/") + "." + n.Obj().Name()
}

// lockAcquirers: functions of the module that (transitively through static calls, depth<=4) lock a mutex of class cls.
func lockAcquirers(p *load.Program, cls string) map[*ssa.Function]bool {
	direct := map[*ssa.Function]bool{}
	for _, fn := range p.SrcFuncs() {
		ssax.Instrs(fn, func(i ssa.Instruction) {
			if cl, ok := i.(ssa.CallInstruction); ok {
				if op, _ := ssax.MutexOp(cl); op == ssax.OpLock || op == ssax.OpRLock {
					if lockClass(cl.Common().Args[0]) == cls {
						direct[fn] = true
					}
				}
			}
		})
	}
	res := map[*ssa.Function]bool{}
	for f := range direct {
		res[f] = true
	}
	for round := 0; round < 4; round++ {
		for _, fn := range p.SrcFuncs() {
			if res[fn] {
				continue
			}
			ssax.Instrs(fn, func(i ssa.Instruction) {
				if cl, ok := i.(ssa.CallInstruction); ok {
					if callee := ssax.StaticCallee(cl); callee != nil && res[callee] {
						if _, isGo := i.(*ssa.Go); !isGo {
							res[fn] = true
						}
					}
				}
			})
		}
	}
	return res
}

func r19NoDispatchUnderLock(c *core.Ctx, p *load.Program, sh *blobShape, fn *ssa.Function) {
	if sh.muField == "" {
		return
	}
	tk := typeKey(sh.named)
	cls := typeKey(sh.named) + "." + sh.muField
	hasLock := false
	ssax.Instrs(fn, func(i ssa.Instruction) {
		if cl, ok := i.(*ssa.Call); ok {
			if op, _ := ssax.MutexOp(cl); op == ssax.OpLock {
				hasLock = true
			}
		}
	})
	if !hasLock {
		return
	}
	acq := lockAcquirers(p, cls)
	ls := ssax.Locksets(fn, false, nil)
	key := tk + "." + fn.Name() + "|critical-section"
	var bad []string
	n := 0
	ssax.Instrs(fn, func(i ssa.Instruction) {
		held := ls[i]
		if len(held) == 0 {
			return
		}
		cl, ok := i.(*ssa.Call)
		if !ok {
			return
		}
		n++
		if cl.Call.IsInvoke() {
			bad = append(bad, fmt.Sprintf("interface call %s at %s", ssax.CallName(cl), p.Pos(cl.Pos())))
			return
		}
		if callee := ssax.StaticCallee(cl); callee != nil && acq[callee] {
			bad = append(bad, fmt.Sprintf("call to %s (acquires %s) at %s", fname(callee), cls, p.Pos(cl.Pos())))
		}
		if _, isBuiltin := cl.Call.Value.(*ssa.Builtin); !isBuiltin && ssax.StaticCallee(cl) == nil {
			bad = append(bad, fmt.Sprintf("dynamic call at %s", p.Pos(cl.Pos())))
		}
	})
	if len(bad) > 0 {
		c.Bad("R19.4", key, p.Pos(fn.Pos()), fmt.Sprintf("%s: while %s may be held: %s (a view of the same blob shares the mutex: self-deadlock)", fname(fn), cls, strings.Join(bad, "; ")))
	} else {
		c.OK("R19.4", key, p.Pos(fn.Pos()), fmt.Sprintf("%d calls inside the critical section, none dispatches or re-locks", n))
	}
}

func r19LengthMirror(c *core.Ctx, p *load.Program, sh *blobShape, fn *ssa.Function) {
	recv := recvParam(fn)
	if sh.lenField == "" {
		return
	}
	tk := typeKey(sh.named)
	ord := ordinals{}
	for _, b := range fn.Blocks {
		for idx, ins := range b.Instrs {
			st, ok := ins.(*ssa.Store)
			if !ok {
				continue
			}
			fa, ok := st.Addr.(*ssa.FieldAddr)
			if !ok || fa.X != ssa.Value(recv) || ssax.FieldName(fa) != sh.dataField {
				continue
			}
			key := tk + "." + fn.Name() + "|" + ord.next("data-store")
			mirrored := false
			for _, later := range b.Instrs[idx+1:] {
				cl, ok := later.(*ssa.Call)
				if !ok {
					continue
				}
				if op, _ := ssax.MutexOp(cl); op == ssax.OpUnlock {
					break
				}
				callee := ssax.StaticCallee(cl)
				if callee == nil || callee.Pkg == nil || callee.Pkg.Pkg.Path() != "sync/atomic" || !strings.HasPrefix(callee.Name(), "Store") {
					continue
				}
				a0, ok := cl.Call.Args[0].(*ssa.FieldAddr)
				if !ok || a0.X != ssa.Value(recv) || ssax.FieldName(a0) != sh.lenField {
					continue
				}
				v := ssax.StripIntConv(cl.Call.Args[1])
				if lc, ok := v.(*ssa.Call); ok {
					if bi, ok := lc.Call.Value.(*ssa.Builtin); ok && bi.Name() == "len" && (isLoadOfField(lc.Call.Args[0], recv, sh.dataField) || lc.Call.Args[0] == st.Val) {
						mirrored = true
					}
				}
			}
			if mirrored {
				c.OK("R19.5", key, p.Pos(st.Pos()), "followed by atomic store of len(data) before unlock")
			} else {
				c.Bad("R19.5", key, p.Pos(st.Pos()), fmt.Sprintf("%s: store to %s is not followed (same block, before Unlock) by the atomic store of len(%s) to %s — Len() and the bounds checks would read a stale length", fname(fn), sh.dataField, sh.dataField, sh.lenField))
			}
		}
	}
}

// guardSets computes, per blob operation and integer parameter, the set of normalised rejecting guards.
func guardSets(sh *blobShape) map[string][]string {
	out := map[string][]string{}
	for _, mn := range blobOps {
		fn := sh.methods[mn]
		if fn == nil {
			continue
		}
		canon := sh.canon(fn)
		set := map[string]bool{}
		for _, b := range fn.Blocks {
			ifi, ok := b.Instrs[len(b.Instrs)-1].(*ssa.If)
			if !ok {
				continue
			}
			for branch := 0; branch < 2; branch++ {
				if _, _, isErr := blockReturnsError(b.Succs[branch]); !isErr {
					continue
				}
				cnd, val := ssax.StripNot(ifi.Cond, branch == 0)
				bo, ok := cnd.(*ssa.BinOp)
				if !ok {
					continue
				}
				if g := normGuard(bo, val, canon); g != "" {
					set[g] = true
				}
				// the error of a guard helper handed on: the helper's own refusals count, read through the arguments
				if x, eq, isNil := ssax.NilTest(cnd); isNil && eq != val && ssax.IsErrorType(x.Type()) {
					if call := callProducing(x); call != nil {
						if callee := ssax.StaticCallee(call); callee != nil && callee.Blocks != nil && callee.Pkg == fn.Pkg && len(callee.Params) == len(call.Call.Args) {
							subst := map[ssa.Value]ssa.Value{}
							for i, prm := range callee.Params {
								subst[prm] = call.Call.Args[i]
							}
							hc := ssax.Fact{Subst: subst}.Canon(canon)
							for _, hb := range callee.Blocks {
								hif, ok := hb.Instrs[len(hb.Instrs)-1].(*ssa.If)
								if !ok {
									continue
								}
								for hbr := 0; hbr < 2; hbr++ {
									if _, _, isErr := blockReturnsError(hb.Succs[hbr]); !isErr {
										continue
									}
									hcnd, hval := ssax.StripNot(hif.Cond, hbr == 0)
									if hbo, ok := hcnd.(*ssa.BinOp); ok {
										if g := normGuard(hbo, hval, hc); g != "" {
											set[g] = true
										}
									}
								}
							}
						}
					}
				}
			}
		}
		var l []string
		for g := range set {
			l = append(l, g)
		}
		sort.Strings(l)
		out[mn] = l
	}
	return out
}

// normGuard renders a comparison taken with truth val as "a < b" / "a <= b" over canonical terms
// with parameters renamed positionally-independent (by name) and constants folded to strict form.
func normGuard(bo *ssa.BinOp, val bool, canon ssax.Canon) string {
	op := bo.Op
	if !val {
		switch op {
		case token.LSS:
			op = token.GEQ
		case token.LEQ:
			op = token.GTR
		case token.GTR:
			op = token.LEQ
		case token.GEQ:
			op = token.LSS
		default:
			return ""
		}
	}
	x, _ := canon(bo.X)
	y, _ := canon(bo.Y)
	ts := func(t ssax.Term) string {
		if t.IsConst {
			return fmt.Sprint(t.Const)
		}
		return t.Sym
	}
	// only guards relating a parameter to 0, LEN(recv) or another parameter are part of the contract
	rel := func(t ssax.Term) bool {
		return t.IsConst || strings.HasPrefix(t.Sym, "p:") || t.Sym == "LEN(recv)"
	}
	if !rel(x) || !rel(y) || (x.IsConst && y.IsConst) {
		return ""
	}
	if !strings.HasPrefix(x.Sym, "p:") && !strings.HasPrefix(y.Sym, "p:") {
		return ""
	}
	switch op {
	case token.LSS:
		return ts(x) + " < " + ts(y)
	case token.GTR:
		return ts(y) + " < " + ts(x)
	case token.LEQ:
		return ts(x) + " <= " + ts(y)
	case token.GEQ:
		return ts(y) + " <= " + ts(x)
	}
	return ""
}

func r19Sibling(c *core.Ctx, p *load.Program, sh *blobShape, ref map[string][]string) {
	tk := typeKey(sh.named)
	got := guardSets(sh)
	diffs := map[string]interface{}{}
	for _, mn := range blobOps {
		fn := sh.methods[mn]
		if fn == nil {
			c.Bad("R19.6", tk+"."+mn+"|exists", "-", fmt.Sprintf("%s has no %s method but the reference has", tk, mn))
			continue
		}
		have := map[string]bool{}
		for _, g := range got[mn] {
			have[g] = true
		}
		var missing []string
		for _, g := range ref[mn] {
			if !have[g] {
				missing = append(missing, g)
			}
		}
		if len(missing) > 0 {
			// informational: the JS engine clamps/validates most of these itself; only R19.6 below is an obligation
			diffs[mn] = missing
		}
		recv := recvParam(fn)
		canon := sh.canon(fn)
		ord := ordinals{}
		// R19.6: every value stored into the mirrored length is non-negative by guards, a measured Length(),
		// or was accepted by a typed-array allocation whose success edge dominates the store.
		ssax.Instrs(fn, func(ins ssa.Instruction) {
			cl, ok := ins.(*ssa.Call)
			if !ok {
				return
			}
			callee := ssax.StaticCallee(cl)
			if callee == nil || callee.Pkg == nil || callee.Pkg.Pkg.Path() != "sync/atomic" || !strings.HasPrefix(callee.Name(), "Store") {
				return
			}
			fa, ok := cl.Call.Args[0].(*ssa.FieldAddr)
			if !ok || fa.X != ssa.Value(recv) || ssax.FieldName(fa) != sh.lenField {
				return
			}
			key := tk + "." + mn + "|" + ord.next("length-store")
			v := ssax.StripIntConv(cl.Call.Args[1])
			b := ssax.NewBounds(ssax.FactsAtInstr(cl), canon)
			t, _ := canon(v)
			if mn == "Truncate" {
				// R19.16: Truncate only ever shortens — the length it records is at most the length it found
				c.Check(b.LE(t, ssax.Term{Sym: "LEN(recv)"}, 0), "R19.16", key+"-shrinks", p.Pos(cl.Pos()), "the recorded length is at most the current length by dominating guards",
					fmt.Sprintf("%s records a length that the dominating comparisons do not bound by the current length: Truncate(size) with size past the end must leave the blob alone, here Len() would report %s while the typed array (which clamps slice's end) keeps its old, shorter contents — Len() and Bytes() disagree from then on", fname(fn), "the requested size"))
			}
			if b.LE(ssax.Term{IsConst: true}, t, 0) {
				c.OK("R19.6", key, p.Pos(cl.Pos()), "stored length non-negative by dominating guards")
				return
			}
			if acceptedByAllocation(v, cl) {
				c.OK("R19.6", key, p.Pos(cl.Pos()), "stored length was accepted by a typed-array allocation whose success edge dominates the store")
				return
			}
			c.Bad("R19.6", key, p.Pos(cl.Pos()), fmt.Sprintf("%s: the length mirror is set to a value that may be negative (no dominating guard, not validated by an allocation): a negative argument modifies the blob", fname(fn)))
		})
		// R19.3 (typed array): View aliases through subarray(start,end), Slice copies through slice(start,end)
		if mn == "View" || mn == "Slice" {
			want := map[string]string{"View": "subarray", "Slice": "slice"}[mn]
			key := tk + "." + mn + "|js-selector"
			found, okArgs := false, false
			ssax.Instrs(fn, func(ins ssa.Instruction) {
				cl, ok := ins.(*ssa.Call)
				if !ok {
					return
				}
				callee := ssax.StaticCallee(cl)
				if callee == nil || callee.Name() != "Call" || len(cl.Call.Args) < 3 {
					return
				}
				name, ok := ssax.ConstString(cl.Call.Args[1])
				if !ok || (name != "subarray" && name != "slice") {
					return
				}
				if name == want {
					found = true
					okArgs = variadicArgsAre(cl.Call.Args[2], fn.Params[1], fn.Params[2])
				}
			})
			// the cached Go bytes of the result follow the same discipline: View -> View (alias), Slice -> Slice (copy)
			other := map[string]string{"View": "Slice", "Slice": "View"}[mn]
			wrongCache := ""
			ssax.Instrs(fn, func(ins ssa.Instruction) {
				if cl, ok := ins.(*ssa.Call); ok {
					if callee := ssax.StaticCallee(cl); callee != nil && callee.Name() == other && callee.Signature.Recv() != nil && strings.HasSuffix(typeString(callee.Signature.Recv().Type()), "blob.Bytes") {
						wrongCache = p.Pos(cl.Pos())
					}
				}
			})
			if wrongCache != "" {
				c.Bad("R19.3", key+"-cache", p.Pos(fn.Pos()), fmt.Sprintf("%s builds the cached Go bytes of its result with Bytes.%s at %s: a %s must %s the cached bytes too, otherwise writes show through (or fail to) once Bytes() has been called", fname(fn), other, wrongCache, strings.ToLower(mn), map[string]string{"View": "alias", "Slice": "copy"}[mn]))
			} else {
				c.OK("R19.3", key+"-cache", p.Pos(fn.Pos()), "cached Go bytes built with the same-named operation")
			}
			if found && okArgs {
				c.OK("R19.3", key, p.Pos(fn.Pos()), fmt.Sprintf("result selected by JS %s(start, end)", want))
			} else {
				c.Bad("R19.3", key, p.Pos(fn.Pos()), fmt.Sprintf("%s: result must be produced by the typed array's %s(start, end) (found=%v, args-in-order=%v) — subarray aliases, slice copies", fname(fn), want, found, okArgs))
			}
		}
	}
	// R19.6 (plain stores): a blob built in place (`&Blob{length: ...}`) gets a length that was measured (Length() of the
	// JS value, len), is a non-negative constant, or is non-negative by the dominating guards — the JS engine clamps
	// subarray/slice bounds, so "end - start" of unvalidated arguments is neither the array's length nor non-negative
	for _, fn := range pkgFuncs(p, pkgRelOf(sh)) {
		ord := ordinals{}
		ssax.Instrs(fn, func(ins ssa.Instruction) {
			st, ok := ins.(*ssa.Store)
			if !ok {
				return
			}
			fa, ok := st.Addr.(*ssa.FieldAddr)
			if !ok || ssax.FieldName(fa) != sh.lenField {
				return
			}
			if n := ssax.StructOfFieldAddr(fa); n == nil || !types.Identical(n, sh.named) {
				return
			}
			key := fname(fn) + "|" + ord.next("length-field-store")
			v := ssax.StripIntConv(st.Val)
			okv := false
			if k, isK := ssax.ConstInt(v); isK && k >= 0 {
				okv = true
			}
			if originIs(v, func(x ssa.Value) bool {
				cl, ok := x.(*ssa.Call)
				if !ok {
					return false
				}
				if b, ok := cl.Call.Value.(*ssa.Builtin); ok && b.Name() == "len" {
					return true
				}
				callee := ssax.StaticCallee(cl)
				return callee != nil && (callee.Name() == "Length" || callee.Name() == "Len")
			}) {
				okv = true
			}
			if !okv {
				canon := sh.canon(fn)
				b := ssax.NewBounds(ssax.FactsAtInstr(st), canon)
				t, _ := canon(v)
				okv = b.LE(ssax.Term{IsConst: true}, t, 0)
			}
			c.Check(okv, "R19.6", key, p.Pos(st.Pos()), "the length stored into a new blob is measured, constant or non-negative by guards",
				fmt.Sprintf("%s stores a computed, unvalidated length into a blob it builds: the typed array behind it was clamped by the JS engine (subarray/slice accept any bounds), so Len() can be negative or larger than what Bytes() returns — View(3, 1) of 4 bytes is an empty view with Len() == -2", fname(fn)))
		})
	}
	c.Info("sibling_guard_differences_info_only", diffs)
}

// acceptedByAllocation: v was passed to a (safejs.Value).New(...) call whose error==nil edge dominates `at`.
func acceptedByAllocation(v ssa.Value, at ssa.Instruction) bool {
	ok := false
	refs := v.Referrers()
	if refs == nil {
		return false
	}
	// v flows into the variadic []any of the New call through MakeInterface + store
	var reach func(x ssa.Value, depth int)
	seen := map[ssa.Value]bool{}
	reach = func(x ssa.Value, depth int) {
		if depth > 6 || seen[x] || x.Referrers() == nil {
			return
		}
		seen[x] = true
		for _, r := range *x.Referrers() {
			switch r := r.(type) {
			case *ssa.MakeInterface:
				reach(r, depth+1)
			case *ssa.Convert:
				reach(r, depth+1)
			case *ssa.Store:
				if ia, isIA := r.Addr.(*ssa.IndexAddr); isIA && r.Val == x {
					reach(ia.X, depth+1)
				}
			case *ssa.Slice:
				reach(r, depth+1)
			case *ssa.Call:
				callee := ssax.StaticCallee(r)
				if callee == nil || callee.Name() != "New" {
					continue
				}
				e := ssax.ErrorValueOf(r)
				if e == nil {
					continue
				}
				if isNil, known := ssax.KnownNil(ssax.FactsAtInstr(at), e); known && isNil {
					ok = true
				}
			}
		}
	}
	reach(v, 0)
	return ok
}

// variadicArgsAre checks that the []any passed as variadic argument holds exactly the given values in order.
func variadicArgsAre(sl ssa.Value, want ...ssa.Value) bool {
	s, ok := sl.(*ssa.Slice)
	if !ok {
		return false
	}
	arr, ok := s.X.(*ssa.Alloc)
	if !ok {
		return false
	}
	got := map[int64]ssa.Value{}
	for _, r := range *arr.Referrers() {
		ia, ok := r.(*ssa.IndexAddr)
		if !ok {
			continue
		}
		idx, ok := ssax.ConstInt(ia.Index)
		if !ok {
			return false
		}
		for _, rr := range *ia.Referrers() {
			if st, ok := rr.(*ssa.Store); ok {
				got[idx] = ssax.StripIntConv(ssax.Unwrap(st.Val))
			}
		}
	}
	if len(got) != len(want) {
		return false
	}
	for i, w := range want {
		if got[int64(i)] != w {
			return false
		}
	}
	return true
}

// sliceMissing: which of the bounds obligations of slice expression x are not entailed by the given facts.
func sliceMissing(facts []ssax.Fact, canon func(ssa.Value) (ssax.Term, bool), sh *blobShape, x *ssa.Slice, recv *ssa.Parameter) []string {
	b := ssax.NewBounds(facts, canon)
	L := ssax.Term{Sym: sh.lenOf(x.X, recv)}
	zero := ssax.Term{IsConst: true}
	var missing []string
	need := func(ok bool, what string) {
		if !ok {
			missing = append(missing, what)
		}
	}
	var lo, hi ssax.Term
	if x.Low != nil {
		lo, _ = canon(x.Low)
		need(b.LE(zero, lo, 0), "0 <= low")
	}
	if x.High != nil {
		hi, _ = canon(x.High)
		need(b.LE(hi, L, 0), "high <= len")
		if x.Low != nil {
			need(b.LE(lo, hi, 0), "low <= high")
		} else {
			need(b.LE(zero, hi, 0), "0 <= high")
		}
	} else if x.Low != nil {
		need(b.LE(lo, L, 0), "low <= len")
	}
	return missing
}

// r19SameSection (R19.7 / R15.3): the length reads behind the guards of a slice of the mutex-guarded buffer are
// made while the mutex is held, in the critical section that slices — otherwise a resize by another handle between
// check and use turns the guarded index into a panic (check-then-act).
func r19SameSection(c *core.Ctx, p *load.Program, sh *blobShape, rule string) {
	if sh.muField == "" || sh.dataField == "" {
		return
	}
	tk := typeKey(sh.named)
	var mnames []string
	for n := range sh.methods {
		mnames = append(mnames, n)
	}
	sort.Strings(mnames)
	for _, mn := range mnames {
		fn := sh.methods[mn]
		recv := recvParam(fn)
		if recv == nil || fn.Blocks == nil {
			continue
		}
		canon := sh.canon(fn)
		var ls map[ssa.Instruction]ssax.LockSet
		held := func(at ssa.Instruction) bool {
			if ls == nil {
				ls = ssax.Locksets(fn, true, nil)
			}
			for k := range ls[at] {
				if strings.HasSuffix(k, "."+sh.muField) {
					return true
				}
			}
			return false
		}
		ord := ordinals{}
		ssax.Instrs(fn, func(ins ssa.Instruction) {
			x, ok := ins.(*ssa.Slice)
			if !ok || (x.Low == nil && x.High == nil) {
				return
			}
			if _, ok := x.X.Type().Underlying().(*types.Slice); !ok {
				return
			}
			// only slices of the receiver's guarded buffer
			base, fidx, isField := ssax.FieldLoad(x.X)
			if !isField || base != ssa.Value(recv) {
				return
			}
			if st, ok := sh.named.Underlying().(*types.Struct); !ok || st.Field(fidx).Name() != sh.dataField {
				return
			}
			_, lowConst := constOrNil(x.Low)
			_, highConst := constOrNil(x.High)
			if lowConst && highConst {
				return
			}
			key := tk + "." + mn + "|" + ord.next("slice-section")
			L := sh.lenOf(x.X, recv)
			var outside []string
			var inside []ssax.Fact
			all := ssax.ImportGuards(ssax.FactsAtInstr(x), p.InModule)
			for _, f := range all {
				keep := true
				if bo, ok := f.Cond.(*ssa.BinOp); ok {
					for _, side := range []ssa.Value{bo.X, bo.Y} {
						t, ok := f.Canon(canon)(side)
						if !ok || t.Sym != L {
							continue
						}
						// the instruction that read the length (for a guard helper: the call that ran it)
						v := ssax.StripIntConv(side)
						if f.Via != nil {
							v = f.Via
						}
						if ri, ok := v.(ssa.Instruction); ok && !held(ri) {
							outside = append(outside, p.Pos(ri.Pos()))
							keep = false
						}
					}
				}
				if keep {
					inside = append(inside, f)
				}
			}
			if len(sliceMissing(all, canon, sh, x, recv)) > 0 {
				return // not entailed at all: R19.1 reports it
			}
			if len(outside) > 0 && len(sliceMissing(inside, canon, sh, x, recv)) == 0 {
				outside = nil // re-checked under the lock: the unlocked test is only a fast path
			}
			switch {
			case !held(x):
				c.Bad(rule, key, p.Pos(x.Pos()), fmt.Sprintf("%s slices the buffer without holding %s", fname(fn), sh.muField))
			case len(outside) > 0:
				c.Bad(rule, key, p.Pos(x.Pos()), fmt.Sprintf("%s: the length compared with the bounds of %s was read at %s, before %s is locked: another handle can shrink the buffer between the check and the slice, which then panics instead of returning an error (check-then-act)", fname(fn), sliceStr(x), strings.Join(outside, ", "), sh.muField))
			default:
				c.OK(rule, key, p.Pos(x.Pos()), "bounds are checked and used inside one critical section")
			}
		})
	}
}

// r19NoPanic (R19.8)
func r19NoPanic(c *core.Ctx, p *load.Program, sh *blobShape) {
	tk := typeKey(sh.named)
	var mnames []string
	for n := range sh.methods {
		mnames = append(mnames, n)
	}
	sort.Strings(mnames)
	for _, mn := range mnames {
		fn := sh.methods[mn]
		if fn.Blocks == nil {
			continue
		}
		var pn *ssa.Panic
		ssax.InstrsDeep(fn, func(_ *ssa.Function, ins ssa.Instruction) {
			if x, ok := ins.(*ssa.Panic); ok && pn == nil {
				pn = x
			}
		})
		key := tk + "." + mn + "|no-deliberate-panic"
		if pn != nil {
			c.Bad("R19.8", key, p.Pos(pn.Pos()), fmt.Sprintf("%s panics on purpose: the error it treats as impossible (an out-of-bounds answer of another method of the same blob) does occur when a second handle resizes the blob between this method's length read and that call — blob operations report failures as errors, never as panics", fname(fn)))
		} else {
			c.OK("R19.8", key, p.Pos(fn.Pos()), "no explicit panic")
		}
	}
}

// r19FreshView (R19.9): View and Slice of every Blob type hand out a new blob value, never the receiver itself — a
// view that IS the parent is resized with it (Grow/Truncate on one side changes the other's length), which a view
// with its own length is not.
func r19FreshView(c *core.Ctx, p *load.Program, n *types.Named) {
	ms := methodsOf(p, n)
	for _, mn := range []string{"View", "Slice"} {
		fn := ms[mn]
		if fn == nil || fn.Blocks == nil {
			continue
		}
		recv := recvParam(fn)
		key := typeKey(n) + "." + mn + "|never-returns-the-receiver"
		bad := ""
		for _, r := range ssax.Returns(fn) {
			v := resolveSpilled(r.Results[0], r) // functions with defer return through result cells
			for i := 0; i < 3; i++ {
				switch x := v.(type) {
				case *ssa.MakeInterface:
					v = x.X
				case *ssa.ChangeInterface:
					v = x.X
				}
			}
			if v == ssa.Value(recv) {
				bad = p.Pos(r.Pos())
			}
		}
		c.Check(bad == "", "R19.9", key, p.Pos(fn.Pos()), "every return hands out another blob value than the receiver",
			fmt.Sprintf("%s returns the receiver itself at %s (a full-range fast path): Truncate or Grow on that 'view' resizes the parent, and resizing the parent changes the view's Len and Bytes — a view has its own length", fname(fn), bad))
	}
}

// r19CacheNotHandedOut (R19.10): in the typed-array blob, a byte slice that becomes the Go-side cache (it is wrapped
// with blob.NewBytes and stored into the cache field) is not also returned to the caller: Bytes() promises a copy, and
// a caller scribbling on the returned slice would change what later Bytes() calls answer while the JS value stays.
func r19CacheNotHandedOut(c *core.Ctx, p *load.Program) {
	for _, fn := range pkgFuncs(p, "indexeddb/idbblob") {
		ord := ordinals{}
		ssax.Instrs(fn, func(ins ssa.Instruction) {
			nb, ok := ins.(*ssa.Call)
			if !ok || !ssax.CalleeIs(nb, mod+"/keyvalue/blob", "NewBytes") || len(nb.Call.Args) != 1 {
				return
			}
			// stored into an atomic.Value (the cache)?
			stored := false
			if nb.Referrers() != nil {
				for _, r := range *nb.Referrers() {
					if mi, ok := r.(*ssa.MakeInterface); ok && mi.Referrers() != nil {
						for _, r2 := range *mi.Referrers() {
							if sc, ok := r2.(*ssa.Call); ok && ssax.CalleeIs(sc, "sync/atomic", "(*Value).Store") {
								stored = true
							}
						}
					}
				}
			}
			if !stored {
				return
			}
			key := fname(fn) + "|" + ord.next("cache-fill")
			buf := nb.Call.Args[0]
			returned := false
			for _, r := range ssax.Returns(fn) {
				for _, v := range r.Results {
					if v == buf {
						returned = true
					}
				}
			}
			c.Check(!returned, "R19.10", key, p.Pos(nb.Pos()), "the slice that backs the cache is not returned",
				fmt.Sprintf("%s returns the very slice it has just made the Go-side cache of the blob: the caller holds the cache's backing array, so writing to the result of Bytes() changes what later Bytes()/Slice() calls answer while the typed array is unchanged", fname(fn)))
		})
	}
}

// r19NoSharedResult (R19.11): no method of a Blob implementation returns a Blob loaded from a package-level variable:
// a shared "empty" result makes every zero-length Slice the same object, so growing or writing one of them shows up
// in all the others (and in empty Slices of unrelated blobs).
func r19NoSharedResult(c *core.Ctx, p *load.Program, n *types.Named, blobI *types.Interface) {
	for _, fn := range methodList(p, n) {
		if fn.Object() == nil || !fn.Object().Exported() {
			continue
		}
		for ri := 0; ri < fn.Signature.Results().Len(); ri++ {
			if !types.Identical(fn.Signature.Results().At(ri).Type().Underlying(), blobI) {
				continue
			}
			key := fname(fn) + "|result-is-not-a-shared-object"
			bad := ""
			for _, r := range ssax.Returns(fn) {
				var walk func(v ssa.Value, d int, seen map[ssa.Value]bool)
				walk = func(v ssa.Value, d int, seen map[ssa.Value]bool) {
					if v == nil || d > 6 || seen[v] {
						return
					}
					seen[v] = true
					v = resolveSpilled(v, r)
					switch x := v.(type) {
					case *ssa.MakeInterface:
						walk(x.X, d+1, seen)
					case *ssa.ChangeInterface:
						walk(x.X, d+1, seen)
					case *ssa.Phi:
						for _, e := range x.Edges {
							walk(e, d+1, seen)
						}
					case *ssa.UnOp:
						if g, ok := x.X.(*ssa.Global); ok && x.Op == token.MUL {
							bad = fmt.Sprintf("%s (returned at %s)", g.Name(), p.Pos(r.Pos()))
						}
					}
				}
				walk(r.Results[ri], 0, map[ssa.Value]bool{})
			}
			c.Check(bad == "", "R19.11", key, p.Pos(fn.Pos()), "every returned Blob is built in the call",
				fmt.Sprintf("%s returns the package-level object %s as its result: every call that takes this shortcut returns the SAME blob, so a Grow or Set on one result is visible through all the others — Slice results must be independent copies", fname(fn), bad))
		}
	}
}

// r19MirrorPassesParams (R19.12, js/wasm): a method M of the typed-array blob that repeats the operation on its
// Go-side cache (a *blob.Bytes) calls the cache's method of the same name with M's own parameters, unchanged and in
// order — Grow(off) must grow the cache by off, not by the new length.
func r19MirrorPassesParams(c *core.Ctx, p *load.Program, n *types.Named) {
	cnt := 0
	for _, fn := range methodList(p, n) {
		ord := ordinals{}
		ssax.Instrs(fn, func(ins ssa.Instruction) {
			cl, ok := ins.(*ssa.Call)
			if !ok {
				return
			}
			callee := ssax.StaticCallee(cl)
			if callee == nil || callee.Name() != fn.Name() || callee.Signature.Recv() == nil || callee == fn {
				return
			}
			if !strings.HasSuffix(callee.Signature.Recv().Type().String(), "keyvalue/blob.Bytes") {
				return
			}
			cnt++
			key := fname(fn) + "|" + ord.next("mirror-call-passes-parameters")
			bad := ""
			for i := 1; i < len(cl.Call.Args) && i < len(fn.Params); i++ {
				if cl.Call.Args[i] != ssa.Value(fn.Params[i]) {
					bad = fmt.Sprintf("argument #%d is %s, not the parameter %s", i, vname(cl.Call.Args[i]), fn.Params[i].Name())
				}
			}
			c.Check(bad == "", "R19.12", key, p.Pos(cl.Pos()), "the cache repeats the operation with the same arguments",
				fmt.Sprintf("%s repeats the operation on its Go-side cache with other arguments (%s): the typed array and Len() stay right, but Bytes() — served from the cache — returns other bytes than the blob holds", fname(fn), bad))
		})
	}
	if cnt < 3 {
		c.Hard("anchor: mirror calls of the typed-array blob on its cache (found %d)", cnt)
	}
}

// r19NoLockLeak (R19.13 / R15.12): every return of a method of the slice-backed blob is reached with the blob's mutex
// released — explicitly on that path, or by a deferred Unlock that dominates the return. The mutex is shared by a
// file's contents and all its views: one error return that forgets to unlock blocks every handle of that file, in
// every goroutine, for ever.
func r19NoLockLeak(c *core.Ctx, p *load.Program, sh *blobShape, rule string) {
	tk := typeKey(sh.named)
	var names []string
	for n := range sh.methods {
		names = append(names, n)
	}
	sort.Strings(names)
	for _, mn := range names {
		fn := sh.methods[mn]
		if fn == nil || fn.Blocks == nil {
			continue
		}
		locks := false
		type dfr struct {
			ins  ssa.Instruction
			path string
		}
		var defers []dfr
		ssax.Instrs(fn, func(ins ssa.Instruction) {
			ci, ok := ins.(ssa.CallInstruction)
			if !ok {
				return
			}
			op, path := ssax.MutexOp(ci)
			if op == ssax.OpLock || op == ssax.OpRLock {
				if _, isDefer := ins.(*ssa.Defer); !isDefer {
					locks = true
				}
			}
			if _, isDefer := ins.(*ssa.Defer); isDefer && (op == ssax.OpUnlock || op == ssax.OpRUnlock) {
				defers = append(defers, dfr{ins, path})
			}
		})
		if !locks {
			continue
		}
		key := tk + "." + mn + "|mutex-released-on-every-return"
		ls := ssax.Locksets(fn, false, nil)
		bad := ""
		for _, r := range ssax.Returns(fn) {
			for k := range ls[r] {
				released := false
				for _, d := range defers {
					if d.path == k && ssax.Dominates(d.ins, r) {
						released = true
					}
				}
				if !released {
					bad = p.Pos(r.Pos())
				}
			}
		}
		c.Check(bad == "", rule, key, p.Pos(fn.Pos()), "no return is reached with the mutex held",
			fmt.Sprintf("%s.%s can return at %s with the blob's mutex still locked (no Unlock on that path, no dominating deferred Unlock): the mutex is shared by the contents and all their views, so after one such return every handle of that file blocks for ever", tk, mn, bad))
	}
}

// r19ViewSliceAgree (R19.14, sibling agreement): View(start, end) and Slice(start, end) of one Blob type refuse exactly
// the same argument combinations — both select data[start:end], one aliasing, one copying. A bound that is off by one
// in one of them (start >= len instead of start > len) refuses View(len, len), the empty view at the end, which the
// byte-slice model and Slice accept.
func r19ViewSliceAgree(c *core.Ctx, p *load.Program, sh *blobShape) {
	gs := guardSets(sh)
	v, okV := gs["View"]
	s, okS := gs["Slice"]
	if !okV || !okS {
		return
	}
	key := typeKey(sh.named) + "|View-and-Slice-refuse-the-same-arguments"
	same := strings.Join(v, ";") == strings.Join(s, ";")
	c.Check(same && len(v) > 0, "R19.14", key, p.Pos(sh.named.Obj().Pos()), "View and Slice have the same error guards: "+strings.Join(v, "; "),
		fmt.Sprintf("%s: View refuses {%s}, Slice refuses {%s}: the two select the same bytes and must accept the same ranges — one of them is off by one at a boundary (View(len, len) is the empty view at the end of the blob)", typeKey(sh.named), strings.Join(v, "; "), strings.Join(s, "; ")))
}

// r19AllocUnderDeferredUnlock (R19.15): a method of the slice-backed blob that allocates with a size its caller
// controls (make/append fed by a parameter) while holding the mutex releases the mutex with a DEFERRED Unlock and turns
// the runtime's allocation panic into an error (a deferred closure calling recover): `make([]byte, 1<<62)` panics
// with "len out of range" — with an explicit Unlock after it the mutex stays locked for ever, and every handle of the
// file blocks; without the recover the out-of-range argument panics instead of being answered with an error.
func r19AllocUnderDeferredUnlock(c *core.Ctx, p *load.Program, sh *blobShape) {
	tk := typeKey(sh.named)
	var names []string
	for n := range sh.methods {
		names = append(names, n)
	}
	sort.Strings(names)
	for _, mn := range names {
		fn := sh.methods[mn]
		if fn == nil || fn.Blocks == nil {
			continue
		}
		// a MakeSlice whose length IS a parameter (not a difference bounded by the checked length), executed while the
		// mutex may be held — in the method itself or in a module function it calls with that parameter under the lock
		ls := ssax.Locksets(fn, false, nil)
		var alloc *ssa.MakeSlice
		var allocFn *ssa.Function
		isParam := func(v ssa.Value) (*ssa.Parameter, bool) {
			v = stripConv(v)
			// a parameter captured by a deferred closure lives in a cell: the load of a cell whose only store is the parameter
			if u, ok := v.(*ssa.UnOp); ok && u.Op == token.MUL {
				if a, ok := u.X.(*ssa.Alloc); ok {
					if stores, _ := ssax.CellStores(a); len(stores) == 1 {
						v = stripConv(stores[0].Val)
					}
				}
			}
			pp, ok := v.(*ssa.Parameter)
			return pp, ok
		}
		underLock := false
		ssax.Instrs(fn, func(ins ssa.Instruction) {
			switch x := ins.(type) {
			case *ssa.MakeSlice:
				if _, ok := isParam(x.Len); ok {
					alloc, allocFn = x, fn
					underLock = underLock || len(ls[ins]) > 0
				}
			case *ssa.Call:
				callee := ssax.StaticCallee(x)
				if callee == nil || !p.InModule(callee) || callee.Blocks == nil {
					return
				}
				for ai, a := range x.Call.Args {
					if _, ok := isParam(a); !ok || ai >= len(callee.Params) {
						continue
					}
					ssax.Instrs(callee, func(i2 ssa.Instruction) {
						if ms, ok := i2.(*ssa.MakeSlice); ok {
							if pp, ok := isParam(ms.Len); ok && pp == callee.Params[ai] {
								alloc, allocFn = ms, callee
								underLock = underLock || len(ls[ins]) > 0
							}
						}
					})
				}
			}
		})
		if alloc == nil {
			continue
		}
		deferredUnlock, recovers := false, false
		ssax.Instrs(fn, func(ins ssa.Instruction) {
			if d, ok := ins.(*ssa.Defer); ok {
				if op, _ := ssax.MutexOp(d); op == ssax.OpUnlock || op == ssax.OpRUnlock {
					deferredUnlock = true
				}
			}
		})
		ssax.Instrs(allocFn, func(ins ssa.Instruction) {
			d, ok := ins.(*ssa.Defer)
			if !ok {
				return
			}
			if mc, ok := d.Call.Value.(*ssa.MakeClosure); ok {
				ssax.Instrs(mc.Fn.(*ssa.Function), func(i2 ssa.Instruction) {
					if cl, ok := i2.(*ssa.Call); ok {
						if b, ok := cl.Call.Value.(*ssa.Builtin); ok && b.Name() == "recover" {
							recovers = true
						}
					}
				})
			}
		})
		key := tk + "." + mn + "|caller-sized-allocation-under-the-lock-is-survivable"
		// outside the critical section the allocation still has to be survivable (an error, not a panic); under the
		// lock the Unlock must be deferred as well
		c.Check(recovers && (deferredUnlock || !underLock), "R19.15", key, p.Pos(alloc.Pos()), "the mutex is released by a deferred Unlock and the allocation panic is recovered into an error",
			fmt.Sprintf("%s.%s allocates a slice whose size the caller controls (deferred Unlock: %v, recover: %v; the Unlock matters where the mutex is held at that point): for a size the runtime cannot serve (Truncate(1<<62) on a handle grows by that much) make panics — the out-of-range argument panics instead of returning an error, and with an explicit Unlock the mutex stays locked, so every later operation on the file blocks for ever", tk, mn, deferredUnlock, recovers))
	}
}

// pkgRelOf: the module-relative directory of the package the blob type lives in.
func pkgRelOf(sh *blobShape) string {
	path := sh.named.Obj().Pkg().Path()
	return strings.TrimPrefix(strings.TrimPrefix(path, mod), "/")
}
