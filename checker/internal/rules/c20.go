package rules

import (
	"fmt"
	"go/token"
	"go/types"
	"sort"
	"strings"

	"golang.org/x/tools/go/ssa"

	"hpfscheck/internal/core"
	"hpfscheck/internal/load"
	"hpfscheck/internal/ssax"
)

func init() { register(&Spec{ID: "C20", Targets: []load.Target{load.Linux}, Run: runC20}) }

func runC20(c *core.Ctx) {
	runFixtures(c, "drop", "walkloop")
	c.Explain("Whether the conformance suite fails on each of ~60 deviant file systems is a statement about executions (mutation adequacy) and cannot be decided without running the suite, which this family may not do. Decided are properties of the suite's own code whose violation makes it blind: (R20.1) every exported scenario func Test*(testing.TB, FSOptions) of package fstest is registered in the FS or File runner; (R20.2) every exported internal/assert helper and every FSOptions.assert* method returning bool reports through tb.Error/Errorf/Fatal* (or a helper that does) on every path that returns false, and has at least one such path; (R20.3) mode comparisons keep all bits when Constraints.FileModeMask is its zero value ('disables checks on the specified bits, defaults to checking all'); (R20.4) the final-tree comparison is an equality, not a subset test; (R20.5) the skip data is collected after the parallel subtests have run; (R20.6) package fstest writes no package-level variable outside init (the verdict depends only on the FS under test); (R20.7) no subtest closure that goes parallel captures a loop variable that is one cell shared by all iterations under the module's language version (< go1.22) — such subtests all run against the last table row and the other rows are never checked; (R20.8) the helpers comparing an error with an expected *PathError/*LinkError type-assert the error value itself and do not search its chain with errors.As; (R20.9) the harness that runs tasks concurrently starts all goroutines before it waits (no WaitGroup.Wait inside the starting loop); (R20.10, contradiction rule) in every subtest closure, if the error of an operation of the library reaches an assertion on one path it does so on every path from the operation to the end of the subtest (skips excepted). The property itself (acceptance of the references, rejection of deviants) is (R20.11) no by-name listing is sorted before it is asserted on; (R20.12) errors.Is is applied in one direction, observed against expected; (R20.13) a subset assertion between two observed listings has its converse or a distinctness assertion. (R20.14) every return of the tree comparison follows the walk; (R20.15) every TestFile<Op> scenario reaches <Op> on a file handle; (R20.16) the tree walk records every listed entry; (R20.17) functions that skip consult no sentinel but ErrNotImplemented; (R20.18) read-back buffers are freshly made. (R20.19) compared strings are not lexically normalised first. NOT claimed.")
	c.Assume("testing.TB.Error/Errorf/Fatal/Fatalf/FailNow/Fail mark the test failed")
	c.RuleDoc("R20.1", "every scenario is registered")
	c.RuleDoc("R20.2", "assertion helpers can fail and always report")
	c.RuleDoc("R20.3", "zero Constraints masks nothing")
	c.RuleDoc("R20.4", "final-tree comparison is an equality")
	c.RuleDoc("R20.5", "skip data read after subtests ran")
	c.RuleDoc("R20.6", "no mutable package state")
	c.RuleDoc("R20.8", "error-type comparisons assert the error's own dynamic type (no errors.As)")
	c.RuleDoc("R20.9", "goroutines started in a loop are awaited after the loop")
	c.RuleDoc("R20.11", "the suite never sorts a by-name listing before asserting on it")
	c.RuleDoc("R20.16", "the tree walk records every listed entry: no iteration of its loop ends without the entry in the observed map")
	c.RuleDoc("R20.17", "a scenario is skipped for ErrNotImplemented only")
	c.RuleDoc("R20.19", "compared strings are not lexically normalised first")
	c.RuleDoc("R20.18", "bytes read back from the file system under test land in a fresh buffer, never in one that already holds the expected bytes")
	c.RuleDoc("R20.14", "the tree comparison walks the file system under test on every path")
	c.RuleDoc("R20.15", "every TestFile<Op> scenario calls <Op> on a file handle")
	c.RuleDoc("R20.13", "a subset assertion between two observed listings is made in both directions")
	c.RuleDoc("R20.12", "errors.Is matches the observed error against the expected one, never both ways")
	c.RuleDoc("R20.10", "an operation's error that is asserted on some paths of a subtest is asserted on all")
	c.RuleDoc("R20.7", "parallel subtest closures capture no loop variable shared between iterations")
	for _, p := range c.Progs {
		c.SetProg(p)
		pk := p.SSAPkg("fstest")
		if pk == nil {
			c.Hard("anchor: package fstest")
			continue
		}
		r20Registered(c, p, pk)
		r20Helpers(c, p)
		r20Mask(c, p)
		r20TreeCompare(c, p)
		r20SkipTiming(c, p)
		r20Globals(c, p, pk)
		r20LoopCapture(c, p)
		r20ErrType(c, p)
		r20Concurrent(c, p)
		r20NoNormalisedObservation(c, p)
		r20ErrorsIsDirection(c, p)
		r20SubsetBothWays(c, p)
		r20WalkOnEveryPath(c, p)
		r20WalkRecordsEveryEntry(c, p)
		r20SkipOnlyNotImplemented(c, p)
		r20ReadIntoFreshBuffers(c, p)
		r20NoLexicalNormalisation(c, p)
		r20FileScenarioCallsFileMethod(c, p)
		r20ErrorAssertedOnEveryPath(c, p)
	}
	c.Floor("R20.1", 30)
	c.Floor("R20.2", 15)
	c.Floor("R20.3", 4)
	c.Floor("R20.4", 1)
	c.Floor("R20.5", 2)
	c.Floor("R20.6", 1)
	c.Floor("R20.7", 3)
	c.Floor("R20.8", 2)
	c.Floor("R20.9", 1)
	c.Floor("R20.10", 100)
	c.Floor("R20.11", 2)
	c.Floor("R20.12", 3)
	c.Floor("R20.13", 1)
	c.Floor("R20.14", 1)
	c.Floor("R20.16", 1)
	c.Floor("R20.17", 1)
	c.Floor("R20.18", 10)
	c.Floor("R20.19", 1)
	c.Floor("R20.15", 8)
}

func r20Registered(c *core.Ctx, p *load.Program, pk *ssa.Package) {
	var names []string
	for n, m := range pk.Members {
		fn, ok := m.(*ssa.Function)
		if !ok || !strings.HasPrefix(n, "Test") || fn.Signature.Params().Len() != 2 {
			continue
		}
		if !strings.HasSuffix(fn.Signature.Params().At(0).Type().String(), "testing.TB") || !strings.HasSuffix(fn.Signature.Params().At(1).Type().String(), "FSOptions") {
			continue
		}
		names = append(names, n)
	}
	sort.Strings(names)
	// functions referenced as values inside the runners (functions taking (TB, FSOptions) that call a Run method repeatedly)
	referenced := map[*ssa.Function]bool{}
	for _, fn := range pkgFuncs(p, "fstest") {
		if fn.Object() != nil && fn.Object().Exported() {
			continue
		}
		ssax.Instrs(fn, func(ins ssa.Instruction) {
			cl, ok := ins.(*ssa.Call)
			if !ok {
				return
			}
			for _, a := range cl.Call.Args {
				v := ssax.Unwrap(a)
				if f, ok := v.(*ssa.Function); ok {
					referenced[f] = true
				}
				if ct, ok := a.(*ssa.ChangeType); ok {
					if f, ok := ct.X.(*ssa.Function); ok {
						referenced[f] = true
					}
				}
			}
		})
	}
	for _, n := range names {
		fn := pk.Func(n)
		c.Check(referenced[fn], "R20.1", "fstest."+n+"|registered", p.Pos(fn.Pos()), "registered in a runner",
			fmt.Sprintf("fstest.%s is an exported scenario that no runner registers: FS()/File() never execute it, so the behaviour it checks is not part of the suite's verdict", n))
	}
}

func isTBFail(ci ssa.CallInstruction) bool {
	cc := ci.Common()
	if !cc.IsInvoke() {
		return false
	}
	if !strings.HasSuffix(cc.Value.Type().String(), "testing.TB") {
		return false
	}
	switch cc.Method.Name() {
	case "Error", "Errorf", "Fatal", "Fatalf", "Fail", "FailNow":
		return true
	}
	return false
}

func r20Helpers(c *core.Ctx, p *load.Program) {
	var helpers []*ssa.Function
	for _, fn := range pkgFuncs(p, "internal/assert") {
		if fn.Parent() == nil && fn.Object() != nil && fn.Object().Exported() && fn.Signature.Results().Len() == 1 && isBoolT(fn.Signature.Results().At(0).Type()) && len(fn.Params) > 0 && strings.HasSuffix(fn.Params[0].Type().String(), "testing.TB") {
			helpers = append(helpers, fn)
		}
	}
	for _, fn := range pkgFuncs(p, "fstest") {
		if fn.Parent() == nil && fn.Signature.Recv() != nil && strings.HasPrefix(fn.Name(), "assert") && fn.Signature.Results().Len() == 1 && isBoolT(fn.Signature.Results().At(0).Type()) {
			helpers = append(helpers, fn)
		}
	}
	sort.Slice(helpers, func(i, j int) bool { return fname(helpers[i]) < fname(helpers[j]) })
	isHelper := map[*ssa.Function]bool{}
	for _, h := range helpers {
		isHelper[h] = true
	}
	for _, fn := range helpers {
		key := fname(fn) + "|reports"
		silentFalse := ""
		canFail := false
		// a deferred closure that reports (Panics/NotPanics decide in their recover handler) runs on every exit
		deferredReports := false
		ssax.Instrs(fn, func(ins ssa.Instruction) {
			if d, ok := ins.(*ssa.Defer); ok {
				if mc, ok := d.Call.Value.(*ssa.MakeClosure); ok {
					ssax.Instrs(mc.Fn.(*ssa.Function), func(i2 ssa.Instruction) {
						if ci, ok := i2.(ssa.CallInstruction); ok && isTBFail(ci) {
							deferredReports = true
						}
					})
				}
			}
		})
		complete := ssax.EnumPaths(fn, fn.Blocks[0], 0, nil, ssax.PathHooks{
			Instr: func(s *ssax.PathState, ins ssa.Instruction) {
				ci, ok := ins.(ssa.CallInstruction)
				if !ok {
					return
				}
				if isTBFail(ci) {
					s.Counts["reported"] = 1
				}
				// delegation to another helper: its false result was reported by it
				if callee := ssax.StaticCallee(ci); callee != nil && isHelper[callee] {
					s.Counts["delegated"] = 1
				}
			},
			End: func(s *ssax.PathState, last ssa.Instruction) {
				r := last.(*ssa.Return)
				v := s.Resolve(r.Results[0])
				isFalse := false
				mayFalse := true
				if k, ok := v.(*ssa.Const); ok && k.Value != nil {
					isFalse = k.Value.String() == "false"
					mayFalse = isFalse
				}
				if s.Counts["reported"] == 1 {
					canFail = true
				}
				if cl := callProducing(v); cl != nil {
					if callee := ssax.StaticCallee(cl); callee != nil && isHelper[callee] {
						canFail = true
						return // returns the delegate's verdict
					}
				}
				if isFalse && s.Counts["reported"] == 0 && s.Counts["delegated"] == 0 && silentFalse == "" {
					silentFalse = p.Pos(r.Pos())
				}
				_ = mayFalse
			},
		})
		if !complete {
			c.Unknown("R20.2", key, p.Pos(fn.Pos()), "path cap exceeded")
			continue
		}
		if deferredReports {
			canFail = true
			silentFalse = ""
		}
		switch {
		case silentFalse != "":
			c.Bad("R20.2", key, p.Pos(fn.Pos()), fmt.Sprintf("%s returns false at %s without reporting through testing.TB: a failed assertion would not fail the test", fname(fn), silentFalse))
		case !canFail:
			c.Bad("R20.2", key, p.Pos(fn.Pos()), fmt.Sprintf("%s has no path that reports a failure: an assertion that cannot fail checks nothing", fname(fn)))
		default:
			c.OK("R20.2", key, p.Pos(fn.Pos()), "every 'false' is reported; at least one path reports")
		}
	}
}

func isBoolT(t types.Type) bool {
	b, ok := t.Underlying().(*types.Basic)
	return ok && b.Kind() == types.Bool
}

// r20Mask: x & o.Constraints.FileModeMask feeding a comparison: with the zero mask every bit is dropped.
func r20Mask(c *core.Ctx, p *load.Program) {
	for _, fn := range pkgFuncs(p, "fstest") {
		ord := ordinals{}
		ssax.Instrs(fn, func(ins ssa.Instruction) {
			bo, ok := ins.(*ssa.BinOp)
			if !ok || (bo.Op != token.AND && bo.Op != token.AND_NOT) {
				return
			}
			isMask := func(v ssa.Value) bool {
				switch x := v.(type) {
				case *ssa.UnOp:
					if fa, ok := x.X.(*ssa.FieldAddr); ok && ssax.FieldName(fa) == "FileModeMask" {
						return true
					}
				case *ssa.Field:
					if st, ok := x.X.Type().Underlying().(*types.Struct); ok && st.Field(x.Field).Name() == "FileModeMask" {
						return true
					}
				}
				return false
			}
			if !isMask(bo.Y) && !isMask(bo.X) {
				return
			}
			key := fname(fn) + "|" + ord.next("mode-mask")
			if bo.Op == token.AND_NOT && isMask(bo.Y) {
				c.OK("R20.3", key, p.Pos(bo.Pos()), "mode &^ mask: the zero mask keeps every bit")
				return
			}
			c.Bad("R20.3", key, p.Pos(bo.Pos()), fmt.Sprintf("%s computes 'mode & Constraints.FileModeMask' before comparing: with the documented default (zero mask = check all bits) every bit is cleared on both sides, so no permission or type bit is ever compared — a file system returning wrong modes passes", fname(fn)))
		})
	}
}

func r20TreeCompare(c *core.Ctx, p *load.Program) {
	var fn *ssa.Function
	for _, f := range pkgFuncs(p, "fstest") {
		if f.Parent() != nil || f.Signature.Recv() == nil {
			continue
		}
		// the tree comparison: calls the walker and an assert helper on two map[string]fsEntry values
		walks := false
		ssax.Instrs(f, func(ins ssa.Instruction) {
			if cl, ok := ins.(*ssa.Call); ok {
				if callee := ssax.StaticCallee(cl); callee != nil && callee != f && strings.Contains(strings.ToLower(callee.Name()), "walk") {
					walks = true
				}
			}
		})
		if walks && strings.Contains(strings.ToLower(f.Name()), "equal") {
			fn = f
		}
	}
	if fn == nil {
		c.Hard("R20.4: the expected-tree comparison function was not found")
		return
	}
	var cmp *ssa.Call
	ssax.Instrs(fn, func(ins ssa.Instruction) {
		if cl, ok := ins.(*ssa.Call); ok {
			if callee := ssax.StaticCallee(cl); callee != nil && strings.HasSuffix(pkgPathOf(callee), "/internal/assert") {
				cmp = cl
			}
		}
	})
	key := fname(fn) + "|equality"
	if cmp == nil {
		c.Bad("R20.4", key, p.Pos(fn.Pos()), "the tree comparison calls no assertion helper")
		return
	}
	name := ssax.StaticCallee(cmp).Name()
	c.Check(name == "Equal", "R20.4", key, p.Pos(cmp.Pos()), "expected and walked trees compared with assert.Equal",
		fmt.Sprintf("%s compares the expected tree with the walked tree using assert.%s: entries the file system left behind (or created in excess) are not detected — 'an entry left behind' passes", fname(fn), name))
}

// r20SkipTiming: FS()/File() call generateTestData right after tbRun of a subtest that calls Parallel(): the
// parallel subtests are paused until the enclosing test function returns, so no skip has been recorded yet.
func r20SkipTiming(c *core.Ctx, p *load.Program) {
	for _, name := range []string{"FS", "File"} {
		fn := p.Func("fstest", name)
		if fn == nil {
			c.Hard("anchor: fstest.%s", name)
			continue
		}
		var run, gen *ssa.Call
		parallel := false
		ssax.Instrs(fn, func(ins ssa.Instruction) {
			cl, ok := ins.(*ssa.Call)
			if !ok {
				return
			}
			callee := ssax.StaticCallee(cl)
			if callee == nil {
				return
			}
			switch {
			case callee.Name() == "tbRun":
				run = cl
				// the closure passed calls tbParallel first
				for _, a := range cl.Call.Args {
					if mc, ok := a.(*ssa.MakeClosure); ok {
						ssax.Instrs(mc.Fn.(*ssa.Function), func(i2 ssa.Instruction) {
							if c2, ok := i2.(*ssa.Call); ok {
								if cal := ssax.StaticCallee(c2); cal != nil && strings.Contains(cal.Name(), "Parallel") {
									parallel = true
								}
							}
						})
					}
				}
			case callee.Name() == "generateTestData":
				gen = cl
			}
		})
		key := "fstest." + name + "|skips-after-subtests"
		if run == nil || gen == nil {
			c.OK("R20.5", key, p.Pos(fn.Pos()), "no skip collection right after a subtest run")
			continue
		}
		c.Check(!(parallel && ssax.Dominates(run, gen)), "R20.5", key, p.Pos(gen.Pos()), "skip data is not read while the subtests are paused",
			fmt.Sprintf("fstest.%s collects the skipped tests immediately after starting a subtest that calls Parallel(): parallel subtests are paused until the calling test function returns, so TestData.Skips is still empty — callers that compare Skips to detect unimplemented operations see nothing", name))
	}
}

func r20Globals(c *core.Ctx, p *load.Program, pk *ssa.Package) {
	var writes []string
	for _, fn := range pkgFuncs(p, "fstest") {
		if fn.Name() == "init" {
			continue
		}
		ssax.Instrs(fn, func(ins ssa.Instruction) {
			if st, ok := ins.(*ssa.Store); ok {
				if g, ok := st.Addr.(*ssa.Global); ok && g.Pkg == pk {
					writes = append(writes, g.Name()+" at "+p.Pos(st.Pos()))
				}
			}
		})
	}
	c.Check(len(writes) == 0, "R20.6", "fstest|no-mutable-globals", "-", "no package-level variable is written outside init",
		"package fstest writes package-level state ("+strings.Join(writes, "; ")+"): the verdict of one run can depend on earlier runs")
}

// reachesParallel: fn (or a module function it calls, two levels) calls a method named Parallel.
func reachesParallel(p *load.Program, fn *ssa.Function, depth int, seen map[*ssa.Function]bool) bool {
	if fn == nil || fn.Blocks == nil || depth > 3 || seen[fn] {
		return false
	}
	seen[fn] = true
	found := false
	ssax.Instrs(fn, func(ins ssa.Instruction) {
		ci, ok := ins.(ssa.CallInstruction)
		if !ok || found {
			return
		}
		cm := ci.Common()
		if cm.IsInvoke() && cm.Method.Name() == "Parallel" {
			found = true
			return
		}
		if callee := ssax.StaticCallee(ci); callee != nil {
			if callee.Name() == "Parallel" {
				found = true
			} else if p.InModule(callee) && reachesParallel(p, callee, depth+1, seen) {
				found = true
			}
		}
	})
	return found
}

// r20LoopCapture (R20.7): a subtest closure that goes parallel must not read a loop variable shared by all
// iterations. Under the module's language version (< go1.22) a range variable captured by a closure is one
// heap cell allocated before the loop; a parallel subtest pauses until the loop has finished, so every subtest
// then sees the last table row and the other rows are never exercised.
func r20LoopCapture(c *core.Ctx, p *load.Program) {
	for _, fn := range pkgFuncs(p, "fstest") {
		if fn.Blocks == nil {
			continue
		}
		// blocks on a cycle through b
		reach := func(from *ssa.BasicBlock) map[*ssa.BasicBlock]bool {
			seen := map[*ssa.BasicBlock]bool{}
			var st []*ssa.BasicBlock
			st = append(st, from.Succs...)
			for len(st) > 0 {
				b := st[len(st)-1]
				st = st[:len(st)-1]
				if seen[b] {
					continue
				}
				seen[b] = true
				st = append(st, b.Succs...)
			}
			return seen
		}
		ord := ordinals{}
		ssax.Instrs(fn, func(ins ssa.Instruction) {
			mc, ok := ins.(*ssa.MakeClosure)
			if !ok {
				return
			}
			cf, _ := mc.Fn.(*ssa.Function)
			if cf == nil || !reachesParallel(p, cf, 0, map[*ssa.Function]bool{}) {
				return
			}
			key := fname(fn) + "|" + ord.next("parallel-closure")
			b := mc.Block()
			mpos := mc.Pos()
			if !mpos.IsValid() {
				mpos = cf.Pos()
			}
			from := reach(b)
			if !from[b] {
				c.OKTrivial("R20.7", key, p.Pos(mpos), "parallel subtest closure is not created in a loop")
				return
			}
			bad := ""
			for _, bind := range mc.Bindings {
				a, ok := bind.(*ssa.Alloc)
				if !ok || !a.Heap {
					continue
				}
				if from[a.Block()] && reach(a.Block())[b] {
					continue // allocated per iteration (inside the loop)
				}
				// shared cell: is it written inside the loop?
				stores, _ := ssax.CellStores(a)
				for _, st := range stores {
					if from[st.Block()] {
						bad = a.Comment
						if bad == "" {
							bad = a.Name()
						}
					}
				}
			}
			c.Check(bad == "", "R20.7", key, p.Pos(mpos), "the parallel subtest closure captures only per-iteration variables",
				fmt.Sprintf("%s: a subtest closure that calls Parallel captures the loop variable %q, one cell shared by all iterations (module language version < go1.22): the parallel subtests run after the loop has ended and all see the last table row — the other rows are never checked against the file system under test", fname(fn), bad))
		})
	}
}

// r20ErrType (R20.8): the helpers that compare an error with an expected *PathError / *LinkError establish the
// dynamic type of the error itself (type assertion / IsType on the value) and never search its chain with
// errors.As, which would accept any foreign error that merely wraps a correct one.
func r20ErrType(c *core.Ctx, p *load.Program) {
	for _, fn := range pkgFuncs(p, "fstest") {
		if fn.Parent() != nil {
			continue
		}
		var expected, actual *ssa.Parameter
		for _, prm := range fn.Params {
			ts := typeString(prm.Type())
			if strings.HasSuffix(ts, "PathError") || strings.HasSuffix(ts, "LinkError") {
				expected = prm
			}
			if ssax.IsErrorType(prm.Type()) {
				actual = prm
			}
		}
		if expected == nil || actual == nil {
			continue
		}
		key := fname(fn) + "|error-type-check"
		asserted, searched := false, false
		ssax.InstrsDeep(fn, func(_ *ssa.Function, ins ssa.Instruction) {
			switch x := ins.(type) {
			case *ssa.TypeAssert:
				if x.X == ssa.Value(actual) && types.Identical(x.AssertedType, expected.Type()) {
					asserted = true
				}
			case *ssa.Call:
				if ssax.CalleeIs(x, "errors", "As") && len(x.Call.Args) > 0 && x.Call.Args[0] == ssa.Value(actual) {
					searched = true
				}
			}
		})
		switch {
		case searched:
			c.Bad("R20.8", key, p.Pos(fn.Pos()), fmt.Sprintf("%s looks for the expected error type with errors.As: a file system returning a foreign error type that merely wraps a correct %s is accepted although the scenarios promise the error IS of that type", fname(fn), typeString(expected.Type())))
		case !asserted:
			c.Bad("R20.8", key, p.Pos(fn.Pos()), fmt.Sprintf("%s never asserts that the actual error has the dynamic type %s", fname(fn), typeString(expected.Type())))
		default:
			c.OK("R20.8", key, p.Pos(fn.Pos()), "the actual error's own dynamic type is asserted")
		}
	}
}

// r20Concurrent (R20.9): a loop that starts goroutines does not wait for them inside the loop — otherwise the
// "concurrent" scenarios run one task at a time and no interleaving of the file system under test is exercised.
func r20Concurrent(c *core.Ctx, p *load.Program) {
	for _, fn := range pkgFuncs(p, "fstest") {
		if fn.Blocks == nil {
			continue
		}
		reach := func(from *ssa.BasicBlock) map[*ssa.BasicBlock]bool {
			seen := map[*ssa.BasicBlock]bool{}
			st := append([]*ssa.BasicBlock{}, from.Succs...)
			for len(st) > 0 {
				b := st[len(st)-1]
				st = st[:len(st)-1]
				if seen[b] {
					continue
				}
				seen[b] = true
				st = append(st, b.Succs...)
			}
			return seen
		}
		ord := ordinals{}
		ssax.Instrs(fn, func(ins ssa.Instruction) {
			g, ok := ins.(*ssa.Go)
			if !ok {
				return
			}
			from := reach(g.Block())
			if !from[g.Block()] {
				return // not in a loop
			}
			key := fname(fn) + "|" + ord.next("go-in-loop")
			bad := ""
			for b := range from {
				if !reach(b)[g.Block()] {
					continue // not on the cycle
				}
				for _, i2 := range b.Instrs {
					if cl, ok := i2.(*ssa.Call); ok && ssax.CalleeIs(cl, "sync", "(*WaitGroup).Wait") {
						bad = p.Pos(cl.Pos())
					}
				}
			}
			c.Check(bad == "", "R20.9", key, p.Pos(g.Pos()), "the goroutines started by this loop are awaited after the loop",
				fmt.Sprintf("%s waits for its goroutines inside the loop that starts them (%s): the tasks run strictly one after another and the concurrent scenarios exercise no interleaving — a file system that fails only under overlap passes", fname(fn), bad))
		})
	}
}

// r20ErrorAssertedOnEveryPath (R20.10, contradiction rule): if a scenario passes the error of an operation to an
// assertion on one path, it does so on every path from that operation to the end of the subtest (paths that skip the
// test excepted). A branch that returns without looking at the error accepts a file system that answers the situation
// with no error at all.
func r20ErrorAssertedOnEveryPath(c *core.Ctx, p *load.Program) {
	isAssert := func(cl *ssa.Call) bool {
		callee := ssax.StaticCallee(cl)
		if callee == nil {
			return false
		}
		if callee.Pkg != nil && strings.HasSuffix(callee.Pkg.Pkg.Path(), "internal/assert") {
			return true
		}
		return strings.HasPrefix(callee.Name(), "assert") || strings.HasPrefix(callee.Name(), "tryAssert")
	}
	for _, fn := range pkgFuncs(p, "fstest") {
		if fn.Parent() == nil || fn.Blocks == nil {
			continue // subtest closures only
		}
		ord := ordinals{}
		for _, b := range fn.Blocks {
			for idx, ins := range b.Instrs {
				op, ok := ins.(*ssa.Call)
				if !ok {
					continue
				}
				callee := ssax.StaticCallee(op)
				if callee == nil || callee.Pkg == nil || callee.Pkg.Pkg.Path() != mod || ssax.ErrorResultIndex(callee.Signature) < 0 {
					continue
				}
				ev := ssax.ErrorValueOf(op)
				if ev == nil {
					continue
				}
				passes := func(s *ssax.PathState, in2 ssa.Instruction) bool {
					cl, ok := in2.(*ssa.Call)
					if !ok || !isAssert(cl) {
						return false
					}
					for _, a := range cl.Call.Args {
						r := s.Resolve(a)
						if r == ev || ssax.Unwrap(r) == ev {
							return true
						}
						if mi, ok := r.(*ssa.MakeInterface); ok && s.Resolve(mi.X) == ev {
							return true
						}
						// the variable that holds the error, possibly normalised on the way (err = nil for an exact EOF)
						if dependsOn(a, func(v ssa.Value) bool { return v == ev }) {
							return true
						}
					}
					return false
				}
				assertedSomewhere := false
				ssax.Instrs(fn, func(in2 ssa.Instruction) {
					if passes(ssax.NewPathState(), in2) {
						assertedSomewhere = true
					}
					// through a phi (err = nil on one branch)
					if cl, ok := in2.(*ssa.Call); ok && isAssert(cl) {
						for _, a := range cl.Call.Args {
							if dependsOn(a, func(v ssa.Value) bool { return v == ev }) {
								assertedSomewhere = true
							}
						}
					}
				})
				if !assertedSomewhere {
					continue
				}
				key := fname(fn) + "|" + ord.next("error-of:"+callee.Name())
				var badRet ssa.Instruction
				complete := ssax.EnumPaths(fn, b, idx+1, nil, ssax.PathHooks{
					Instr: func(s *ssax.PathState, in2 ssa.Instruction) {
						if passes(s, in2) {
							s.Counts["asserted"] = 1
						}
						// the error was reassigned: a later operation's error takes over
						if c2, ok := in2.(*ssa.Call); ok && c2 != op {
							if cal := ssax.StaticCallee(c2); cal != nil && (cal.Name() == "Skip" || cal.Name() == "SkipNow" || cal.Name() == "Skipf") {
								s.Counts["asserted"] = 1
							}
						}
					},
					End: func(s *ssax.PathState, last ssa.Instruction) {
						if s.Counts["asserted"] == 0 && badRet == nil {
							if _, isRet := last.(*ssa.Return); isRet {
								badRet = last
							}
						}
					},
				})
				if !complete {
					continue
				}
				c.Check(badRet == nil, "R20.10", key, p.Pos(op.Pos()), "the operation's error reaches an assertion on every path to the end of the subtest",
					fmt.Sprintf("%s: the error of %s is passed to an assertion on some paths, but the path ending at %s leaves the subtest without looking at it: a file system that answers this situation with another kind of error — or with none — is accepted", fname(fn), ssax.CallName(op), posOf(p, badRet)))
			}
		}
	}
}

func posOf(p *load.Program, ins ssa.Instruction) string {
	if ins == nil {
		return "-"
	}
	return p.Pos(ins.Pos())
}

// r20NoNormalisedObservation (R20.11): the suite asserts on what the file system returned, not on a normalised copy.
// A listing obtained by name (hackpadfs.ReadDir, which must come back sorted) is never sorted by the suite before it
// is compared; listings read from a handle (ReadDirFile, unordered by contract) may be.
func r20NoNormalisedObservation(c *core.Ctx, p *load.Program) {
	n := 0
	for _, fn := range pkgFuncs(p, "fstest") {
		ord := ordinals{}
		ssax.Instrs(fn, func(ins ssa.Instruction) {
			cl, ok := ins.(*ssa.Call)
			if !ok {
				return
			}
			callee := ssax.StaticCallee(cl)
			if callee == nil || callee.Pkg == nil || callee.Pkg.Pkg.Path() != "sort" && callee.Pkg.Pkg.Path() != "slices" || len(cl.Call.Args) == 0 {
				return
			}
			if !strings.HasPrefix(callee.Name(), "Sort") && !strings.HasPrefix(callee.Name(), "Slice") && callee.Name() != "Strings" {
				return
			}
			n++
			key := fname(fn) + "|" + ord.next("sorted-value-is-not-a-by-name-listing")
			byName := originIs(cl.Call.Args[0], func(v ssa.Value) bool {
				src, ok := v.(*ssa.Call)
				if !ok {
					return false
				}
				if sc := ssax.StaticCallee(src); sc != nil && sc.Name() == "ReadDir" && pkgPathOf(sc) == mod {
					return true
				}
				return src.Call.IsInvoke() && src.Call.Method.Name() == "ReadDir" && len(src.Call.Args) == 1 && isStr(src.Call.Args[0].Type())
			})
			c.Check(!byName, "R20.11", key, p.Pos(cl.Pos()), "the sorted value is not a listing obtained by name",
				fmt.Sprintf("%s sorts a listing obtained by name (ReadDir) before asserting on it: the order the file system returned is no longer observed, so a file system whose by-name listing is complete but unsorted passes — the verdict must depend on the behaviour of the file system under test", fname(fn)))
		})
	}
	if n == 0 {
		c.Hard("anchor: sort calls in fstest")
	}
}

// r20ErrorsIsDirection (R20.12): errors.Is is not symmetric (syscall.Errno.Is: errors.Is(ENOTEMPTY, fs.ErrExist) is true,
// the converse is false). Inside one function of the suite the same two values are never matched in both directions,
// and a helper with the parameters (expected, actual error) matches errors.Is(actual, expected).
func r20ErrorsIsDirection(c *core.Ctx, p *load.Program) {
	n := 0
	var fns []*ssa.Function
	fns = append(fns, pkgFuncs(p, "fstest")...)
	fns = append(fns, pkgFuncs(p, "internal/assert")...)
	for _, fn := range fns {
		var calls []*ssa.Call
		ssax.Instrs(fn, func(ins ssa.Instruction) {
			if cl, ok := ins.(*ssa.Call); ok && ssax.CalleeIs(cl, "errors", "Is") && len(cl.Call.Args) == 2 {
				calls = append(calls, cl)
			}
		})
		if len(calls) == 0 {
			continue
		}
		var errParams []*ssa.Parameter
		for _, prm := range fn.Params {
			if ssax.IsErrorType(prm.Type()) {
				errParams = append(errParams, prm)
			}
		}
		ord := ordinals{}
		for _, cl := range calls {
			n++
			key := fname(fn) + "|" + ord.next("errors-is-direction")
			bad := ""
			for _, o := range calls {
				if o != cl && o.Call.Args[0] == cl.Call.Args[1] && o.Call.Args[1] == cl.Call.Args[0] {
					bad = "the same two errors are matched in both directions in this function"
				}
			}
			if len(errParams) == 2 && cl.Call.Args[0] == ssa.Value(errParams[0]) && cl.Call.Args[1] == ssa.Value(errParams[1]) && strings.HasPrefix(strings.ToLower(errParams[0].Name()), "expect") {
				bad = fmt.Sprintf("errors.Is(%s, %s) asks whether the expectation matches the observation", errParams[0].Name(), errParams[1].Name())
			}
			c.Check(bad == "", "R20.12", key, p.Pos(cl.Pos()), "the observed error is matched against the expected one, in one direction",
				fmt.Sprintf("%s: %s — errors.Is is asymmetric for syscall.Errno (errors.Is(ENOTEMPTY, fs.ErrExist) is true), so a wrong error kind (ErrExist where ErrNotEmpty is required) is accepted", fname(fn), bad))
		}
	}
	if n < 3 {
		c.Hard("anchor: errors.Is calls in the suite (found %d)", n)
	}
}

// originIs: some value v is copied from (through interfaces, tuples, local cells, captured variables, phis, re-slicing)
// satisfies pred.
func originIs(v ssa.Value, pred func(ssa.Value) bool) bool {
	seen := map[ssa.Value]bool{}
	var walk func(x ssa.Value, d int) bool
	walk = func(x ssa.Value, d int) bool {
		if x == nil || seen[x] || d > 16 {
			return false
		}
		seen[x] = true
		if pred(x) {
			return true
		}
		cell := func(a *ssa.Alloc) bool {
			stores, _ := ssax.CellStores(a)
			for _, st := range stores {
				if walk(st.Val, d+1) {
					return true
				}
			}
			return false
		}
		switch y := x.(type) {
		case *ssa.MakeInterface:
			return walk(y.X, d+1)
		case *ssa.ChangeInterface:
			return walk(y.X, d+1)
		case *ssa.ChangeType:
			return walk(y.X, d+1)
		case *ssa.Convert:
			return walk(y.X, d+1)
		case *ssa.Slice:
			return walk(y.X, d+1)
		case *ssa.Extract:
			return walk(y.Tuple, d+1)
		case *ssa.Phi:
			for _, e := range y.Edges {
				if walk(e, d+1) {
					return true
				}
			}
		case *ssa.UnOp:
			if y.Op != token.MUL {
				return false
			}
			if a, ok := y.X.(*ssa.Alloc); ok {
				return cell(a)
			}
			if fv, ok := y.X.(*ssa.FreeVar); ok {
				if a, ok := ssax.ResolveFreeVar(fv).(*ssa.Alloc); ok {
					return cell(a)
				}
			}
		}
		return false
	}
	return walk(v, 0)
}

// r20SubsetBothWays (R20.13): a subset assertion whose SUB side is itself an observation of the file system under
// test (pages of a directory handle) ignores multiplicity — [bar, bar] is a subset of [bar, foo]. Such an assertion
// is paired, in the same function, with the converse one (super ⊆ sub) or with an assertion that the observed entries
// differ from each other (a directory may hold more entries than the pages cover).
func r20SubsetBothWays(c *core.Ctx, p *load.Program) {
	observed := func(v ssa.Value) bool {
		seenCalls := map[ssa.Value]bool{}
		var obs func(x ssa.Value, d int) bool
		obs = func(x ssa.Value, d int) bool {
			return d < 6 && originIs(x, func(y ssa.Value) bool {
				cl, ok := y.(*ssa.Call)
				if !ok || seenCalls[y] {
					return false
				}
				seenCalls[y] = true
				if sc := ssax.StaticCallee(cl); sc != nil {
					if pkgPathOf(sc) == mod && strings.HasPrefix(sc.Name(), "ReadDir") {
						return true
					}
					if p.InModule(sc) || (sc.Pkg == nil && cl.Call.Value != nil) {
						for _, a := range cl.Call.Args {
							if obs(a, d+1) {
								return true
							}
						}
					}
				}
				if b, isB := cl.Call.Value.(*ssa.Builtin); isB && b.Name() == "append" {
					for _, a := range cl.Call.Args {
						if obs(a, d+1) {
							return true
						}
					}
				}
				return cl.Call.IsInvoke() && cl.Call.Method.Name() == "ReadDir"
			})
		}
		return obs(v, 0)
	}
	isSubset := func(cl *ssa.Call) (sub, super ssa.Value, ok bool) {
		sc := ssax.StaticCallee(cl)
		if sc == nil || !strings.Contains(sc.Name(), "Subset") || !p.InModule(sc) {
			return nil, nil, false
		}
		a := cl.Call.Args
		if len(a) < 3 {
			return nil, nil, false
		}
		return a[len(a)-2], a[len(a)-1], true
	}
	n := 0
	for _, fn := range pkgFuncs(p, "fstest") {
		var calls []*ssa.Call
		ssax.Instrs(fn, func(ins ssa.Instruction) {
			if cl, ok := ins.(*ssa.Call); ok {
				if _, _, is := isSubset(cl); is {
					calls = append(calls, cl)
				}
			}
		})
		ord := ordinals{}
		for _, cl := range calls {
			sub, super, _ := isSubset(cl)
			if !observed(sub) || !observed(super) {
				continue
			}
			n++
			key := fname(fn) + "|" + ord.next("observed-subset-has-converse")
			paired := false
			same := func(a, b ssa.Value) bool {
				if a == b {
					return true
				}
				ca, okA := a.(*ssa.Call)
				cb, okB := b.(*ssa.Call)
				if okA && okB && ssax.StaticCallee(ca) == ssax.StaticCallee(cb) && len(ca.Call.Args) == len(cb.Call.Args) {
					for i := range ca.Call.Args {
						if !sameVar(ca.Call.Args[i], cb.Call.Args[i]) && ca.Call.Args[i] != cb.Call.Args[i] {
							return false
						}
					}
					return true
				}
				return sameVar(a, b)
			}
			for _, o := range calls {
				if o == cl {
					continue
				}
				osub, osuper, _ := isSubset(o)
				if same(osub, super) && same(osuper, sub) {
					paired = true
				}
			}
			// or: the elements of an observed listing are asserted to be different from each other
			ssax.Instrs(fn, func(ins ssa.Instruction) {
				ne, ok := ins.(*ssa.Call)
				if !ok {
					return
				}
				if sc := ssax.StaticCallee(ne); sc == nil || sc.Name() != "NotEqual" || !p.InModule(sc) || len(ne.Call.Args) < 3 {
					return
				}
				elemName := func(v ssa.Value) bool {
					return originIs(v, func(y ssa.Value) bool {
						nc, ok := y.(*ssa.Call)
						if !ok || !nc.Call.IsInvoke() || nc.Call.Method.Name() != "Name" {
							return false
						}
						ld, ok := nc.Call.Value.(*ssa.UnOp)
						if !ok {
							return false
						}
						ia, ok := ld.X.(*ssa.IndexAddr)
						return ok && observed(ia.X)
					})
				}
				if elemName(ne.Call.Args[1]) && elemName(ne.Call.Args[2]) && ne.Call.Args[1] != ne.Call.Args[2] {
					paired = true
				}
			})
			c.Check(paired, "R20.13", key, p.Pos(cl.Pos()), "the converse subset assertion is made too, or the observed entries are asserted to differ",
				fmt.Sprintf("%s asserts that one observed listing is a subset of another without the converse: a subset test ignores multiplicity, so pages that repeat an entry ([bar, bar]) pass as a subset of the full listing [bar, foo] — a directory handle whose ReadDir(n) never advances is accepted", fname(fn)))
		}
	}
	if n == 0 {
		c.Hard("anchor: subset assertions between two observed listings in fstest")
	}
}

// r20WalkOnEveryPath (R20.14): the tree comparison observes the file system under test on every path: every return of
// tryAssertEqualFS is dominated by the call that walks it. The walk asserts on its own (listings succeed, every
// entry's Info() succeeds, no path twice); a shortcut for an empty expectation skips the only tree check the
// Remove/RemoveAll scenarios have, and a Remove that leaves a dangling entry passes.
func r20WalkOnEveryPath(c *core.Ctx, p *load.Program) {
	n := 0
	for _, fn := range pkgFuncs(p, "fstest") {
		if fn.Parent() != nil || fn.Name() != "tryAssertEqualFS" {
			continue
		}
		var walk ssa.Instruction
		ssax.Instrs(fn, func(ins ssa.Instruction) {
			if cl, ok := ins.(*ssa.Call); ok {
				if callee := ssax.StaticCallee(cl); callee != nil && strings.HasPrefix(callee.Name(), "walk") && p.InModule(callee) {
					walk = ins
				}
			}
		})
		n++
		key := fname(fn) + "|walk-dominates-every-return"
		if walk == nil {
			c.Bad("R20.14", key, p.Pos(fn.Pos()), fmt.Sprintf("%s no longer walks the file system under test", fname(fn)))
			continue
		}
		bad := ""
		for _, r := range ssax.Returns(fn) {
			if !ssax.Dominates(walk, r) {
				bad = p.Pos(r.Pos())
			}
		}
		c.Check(bad == "", "R20.14", key, p.Pos(fn.Pos()), "every return follows the walk of the file system under test",
			fmt.Sprintf("%s returns at %s without having walked the file system under test: the walk's own assertions (listings and Info() succeed, no path twice) are the only tree check after Remove/RemoveAll — a file system that leaves a dangling entry behind is accepted", fname(fn), bad))
	}
	if n == 0 {
		c.Hard("anchor: fstest tryAssertEqualFS")
	}
}

// r20FileScenarioCallsFileMethod (R20.15): every TestFile<Op> scenario function of the suite reaches a call of the
// File-level operation it is named after — the method <Op> on a value of a File interface type, or the helper
// <Op>File — in itself, its closures or the fstest functions it calls. Replacing the hand-written Open + file.Stat()
// by the by-name helper Stat (which prefers StatFS) turns file.Stat into a second copy of fs.Stat: File.Stat() of
// directories and nested paths is never called again.
func r20FileScenarioCallsFileMethod(c *core.Ctx, p *load.Program) {
	fileI := stdIface(p, "io/fs", "File")
	if fileI == nil {
		c.Hard("anchor: io/fs.File")
		return
	}
	n := 0
	for _, fn := range pkgFuncs(p, "fstest") {
		if fn.Parent() != nil || !strings.HasPrefix(fn.Name(), "TestFile") || fn.Signature.Recv() != nil {
			continue
		}
		op := strings.TrimPrefix(fn.Name(), "TestFile")
		if op == "" || strings.HasPrefix(op, "Concurrent") {
			continue
		}
		n++
		found := false
		seen := map[*ssa.Function]bool{}
		var visit func(f *ssa.Function, d int)
		visit = func(f *ssa.Function, d int) {
			if f == nil || seen[f] || d > 4 || f.Blocks == nil || found {
				return
			}
			seen[f] = true
			ssax.InstrsDeep(f, func(_ *ssa.Function, ins ssa.Instruction) {
				ci, ok := ins.(ssa.CallInstruction)
				if !ok {
					return
				}
				cc := ci.Common()
				if cc.IsInvoke() && cc.Method.Name() == op {
					if it, ok := cc.Value.Type().Underlying().(*types.Interface); ok && (types.Implements(cc.Value.Type(), fileI) || it.NumMethods() <= 3) {
						if lookupMethod(it, "Open") == nil {
							found = true
						}
					}
				}
				if callee := ssax.StaticCallee(ci); callee != nil {
					if callee.Name() == op+"File" && pkgPathOf(callee) == mod {
						found = true
					}
					if callee.Pkg != nil && callee.Pkg == fn.Pkg {
						visit(callee, d+1)
					}
				}
				// closures handed to fstest helpers (testStat(tb, o, func…))
				for _, a := range cc.Args {
					if mc, ok := a.(*ssa.MakeClosure); ok {
						visit(mc.Fn.(*ssa.Function), d+1)
					}
				}
			})
		}
		visit(fn, 0)
		key := fname(fn) + "|calls-the-file-operation"
		c.Check(found, "R20.15", key, p.Pos(fn.Pos()), "the scenario reaches File."+op+" (or the helper "+op+"File)",
			fmt.Sprintf("%s never calls %s on a file handle (nor the helper %sFile): the scenario named after the File operation exercises something else — with the by-name helper (which prefers the file system's own method) the handle's %s of directories and nested paths is not called by any scenario, and a handle that answers wrongly is accepted", fname(fn), op, op, op))
	}
	if n < 8 {
		c.Hard("anchor: TestFile<Op> scenario functions (found %d)", n)
	}
}

func lookupMethod(it *types.Interface, name string) *types.Func {
	for i := 0; i < it.NumMethods(); i++ {
		if it.Method(i).Name() == name {
			return it.Method(i)
		}
	}
	return nil
}

// r20WalkRecordsEveryEntry (R20.16): in the recursive walk behind the tree comparison, every iteration of the loop
// over a directory's listing stores the entry into the observed map: each back edge of that loop comes from a block
// the store dominates. An iteration that gives up early (a `continue` when Info() fails with ErrNotExist, "the entry
// was removed meanwhile") makes a listed-but-dangling name invisible — the walk's failing Info() assertion is the only
// detector of a Remove that leaves the name in its parent's listing.
func r20WalkRecordsEveryEntry(c *core.Ctx, p *load.Program) {
	n := 0
	for _, fn := range pkgFuncs(p, "fstest") {
		if fn.Parent() != nil || !strings.HasPrefix(fn.Name(), "walk") || fn.Blocks == nil {
			continue
		}
		upd, inLoop, bad := walkLoopSkips(p, fn)
		if upd == nil {
			continue
		}
		n++
		key := fname(fn) + "|every-iteration-records-the-entry"
		if !inLoop {
			c.Bad("R20.16", key, p.Pos(upd.Pos()), fmt.Sprintf("%s stores into the observed map outside any loop: the rule cannot locate the walk over the listing", fname(fn)))
			continue
		}
		c.Check(bad == "", "R20.16", key, p.Pos(upd.Pos()), "every back edge of the listing loop follows the store into the observed map",
			fmt.Sprintf("%s: an iteration of the loop over the listing can end (near %s) without recording the entry: a name the directory lists but that cannot be examined is skipped silently, so a Remove that leaves the name behind in its parent's listing is accepted — this walk is the only place that looks at a listing after a removal", fname(fn), bad))
	}
	if n == 0 {
		c.Hard("anchor: the tree walk of fstest (a walk* function that fills a map parameter)")
	}
}

// walkLoopSkips: the store of fn into a map parameter, whether it lies in a loop, and the position of a back edge of
// the innermost such loop that the store does not dominate ("" when every iteration passes through the store).
func walkLoopSkips(p *load.Program, fn *ssa.Function) (upd *ssa.MapUpdate, inLoop bool, bad string) {
	ssax.Instrs(fn, func(ins ssa.Instruction) {
		if mu, ok := ins.(*ssa.MapUpdate); ok {
			if _, isParam := mu.Map.(*ssa.Parameter); isParam {
				upd = mu
			}
		}
	})
	if upd == nil {
		return nil, false, ""
	}
	var header *ssa.BasicBlock
	for _, b := range fn.Blocks {
		isHeader := false
		for _, pr := range b.Preds {
			if b.Dominates(pr) {
				isHeader = true
			}
		}
		if isHeader && b.Dominates(upd.Block()) && (header == nil || header.Dominates(b)) {
			header = b
		}
	}
	if header == nil {
		return upd, false, ""
	}
	for _, pr := range header.Preds {
		if header.Dominates(pr) && !upd.Block().Dominates(pr) {
			bad = p.Pos(lastPos(pr))
			if bad == "" {
				bad = p.Pos(fn.Pos())
			}
		}
	}
	return upd, true, bad
}

func lastPos(b *ssa.BasicBlock) token.Pos {
	for i := len(b.Instrs) - 1; i >= 0; i-- {
		if b.Instrs[i].Pos().IsValid() {
			return b.Instrs[i].Pos()
		}
	}
	for _, pr := range b.Preds {
		for i := len(pr.Instrs) - 1; i >= 0; i-- {
			if pr.Instrs[i].Pos().IsValid() {
				return pr.Instrs[i].Pos()
			}
		}
	}
	return token.NoPos
}

// r20SkipOnlyNotImplemented (R20.17): a function of the suite that can skip the running subtest (tb.Skip*) consults,
// with errors.Is, no sentinel other than ErrNotImplemented. Every scenario calls the skip helper right before its
// error-kind assertion: a second accepted sentinel ("some platforms answer ENOTSUP") turns that wrong error kind into a
// skipped — passing — subtest.
func r20SkipOnlyNotImplemented(c *core.Ctx, p *load.Program) {
	n := 0
	for _, fn := range pkgFuncs(p, "fstest") {
		skips := false
		ssax.Instrs(fn, func(ins ssa.Instruction) {
			if ci, ok := ins.(ssa.CallInstruction); ok {
				if m := ssax.InvokeMethod(ci); m != nil && strings.HasPrefix(m.Name(), "Skip") && m.Name() != "Skipped" {
					skips = true
				}
			}
		})
		if !skips {
			continue
		}
		n++
		bad := ""
		ssax.Instrs(fn, func(ins ssa.Instruction) {
			cl, ok := ins.(*ssa.Call)
			if !ok {
				return
			}
			if _, sent, isE := isErrorsIs(cl); isE && sent != "ErrNotImplemented" && bad == "" {
				bad = sent
				if bad == "" {
					bad = "a non-sentinel value"
				}
				bad += " at " + p.Pos(cl.Pos())
			}
		})
		c.Check(bad == "", "R20.17", fname(fn)+"|skips-for-ErrNotImplemented-only", p.Pos(fn.Pos()), "the only sentinel consulted is ErrNotImplemented",
			fmt.Sprintf("%s can skip the subtest and consults errors.Is(err, %s): a file system that answers an exercised operation with that error kind is no longer failed by the error-kind assertion that follows the skip helper — the subtest is skipped, which counts as a pass", fname(fn), bad))
	}
	if n == 0 {
		c.Hard("anchor: functions of fstest that call tb.Skip")
	}
}

// r20ReadIntoFreshBuffers (R20.18): every byte slice the suite hands to Read / ReadAt of a handle of the file system
// under test (directly or through the helper it is given) originates from make([]byte, n), never from a conversion of
// a string: a buffer that already holds the expected bytes makes the comparison after the read pass when the read
// stores nothing (the write was dropped, the read failed and its results were ignored).
func r20ReadIntoFreshBuffers(c *core.Ctx, p *load.Program) {
	fromString := func(v ssa.Value) bool {
		if cv, ok := v.(*ssa.Convert); ok {
			if b, ok := cv.X.Type().Underlying().(*types.Basic); ok && b.Info()&types.IsString != 0 {
				return true
			}
		}
		return false
	}
	for _, fn := range pkgFuncs(p, "fstest") {
		ord := ordinals{}
		ssax.Instrs(fn, func(ins ssa.Instruction) {
			ci, ok := ins.(ssa.CallInstruction)
			if !ok {
				return
			}
			m := ssax.InvokeMethod(ci)
			if m == nil || (m.Name() != "Read" && m.Name() != "ReadAt") || len(ci.Common().Args) == 0 {
				return
			}
			buf := ci.Common().Args[0]
			if sl, ok := buf.Type().Underlying().(*types.Slice); !ok || !types.Identical(sl.Elem(), types.Typ[types.Byte]) {
				return
			}
			key := fname(fn) + "|" + ord.next("read-buffer")
			c.Check(!originIs(buf, fromString), "R20.18", key, p.Pos(ins.Pos()), "the buffer read into does not come from a string conversion",
				fmt.Sprintf("%s reads into a buffer that was made from a string (the bytes it wrote or expects): if the read stores nothing — the write was dropped by the file system under test, or the read failed and its results are ignored — the buffer still holds the expected bytes and the comparison passes", fname(fn)))
		})
	}
}

// r20NoLexicalNormalisation (R20.19): the suite compares the strings the file system returned: no function of package
// fstest passes a value through path.Clean, filepath.Clean, strings.ToLower/ToUpper/TrimSpace/Trim*: an error path
// "./foo" or "foo/" is a deviation the suite's scenarios exercise and must fail.
func r20NoLexicalNormalisation(c *core.Ctx, p *load.Program) {
	bad := ""
	for _, fn := range pkgFuncs(p, "fstest") {
		ssax.Instrs(fn, func(ins ssa.Instruction) {
			cl, ok := ins.(*ssa.Call)
			if !ok || bad != "" {
				return
			}
			callee := ssax.StaticCallee(cl)
			if callee == nil || callee.Pkg == nil {
				return
			}
			switch callee.Pkg.Pkg.Path() + "." + callee.Name() {
			case "path.Clean", "path/filepath.Clean", "strings.ToLower", "strings.ToUpper", "strings.TrimSpace", "strings.TrimSuffix", "strings.TrimRight", "strings.TrimLeft", "strings.Trim", "path/filepath.ToSlash":
				// only where the normalised string is compared or asserted on (a subtest name or a log line built with
				// TrimSuffix is no observation)
				if reachesComparison(cl, 0, map[ssa.Value]bool{}) {
					bad = fname(fn) + " calls " + callee.Name() + " at " + p.Pos(cl.Pos())
				}
			}
		})
	}
	c.Check(bad == "", "R20.19", "fstest|observed-strings-compared-as-returned", "-", "no lexical normalisation of compared strings",
		fmt.Sprintf("%s: a string the file system returned (an error's path) is normalised before it is compared, so a file system that answers \"./foo\", \"foo/\" or \"a//b\" where the reference answers \"foo\" is accepted", bad))
}

// reachesComparison: v flows (through phis, conversions, interface boxing, concatenation, cells, variadic slices) into an
// == / != comparison, or into a call of an assertion (package internal/assert, an assert* method, reflect.DeepEqual,
// strings.Compare/EqualFold, a testing.TB Error/Fatal).
func reachesComparison(v ssa.Value, depth int, seen map[ssa.Value]bool) bool {
	if v == nil || seen[v] || depth > 8 || v.Referrers() == nil {
		return false
	}
	seen[v] = true
	for _, r := range *v.Referrers() {
		switch x := r.(type) {
		case *ssa.BinOp:
			if x.Op == token.EQL || x.Op == token.NEQ {
				return true
			}
			if reachesComparison(x, depth+1, seen) {
				return true
			}
		case *ssa.Phi, *ssa.MakeInterface, *ssa.ChangeType, *ssa.Convert, *ssa.ChangeInterface, *ssa.Slice:
			if reachesComparison(x.(ssa.Value), depth+1, seen) {
				return true
			}
		case *ssa.Store:
			// a local cell or an element of a variadic argument slice: follow the loads of the cell / the slice
			switch a := x.Addr.(type) {
			case *ssa.Alloc:
				if a.Referrers() != nil {
					for _, rr := range *a.Referrers() {
						if ld, ok := rr.(*ssa.UnOp); ok && reachesComparison(ld, depth+1, seen) {
							return true
						}
					}
				}
			case *ssa.IndexAddr:
				if reachesComparison(a.X, depth+1, seen) {
					return true
				}
			}
		case *ssa.Call:
			callee := ssax.StaticCallee(x)
			name := ""
			pkg := ""
			if callee != nil {
				name = callee.Name()
				if callee.Pkg != nil {
					pkg = callee.Pkg.Pkg.Path()
				}
			} else if x.Call.IsInvoke() {
				name = x.Call.Method.Name()
			}
			switch {
			case strings.HasSuffix(pkg, "internal/assert"), strings.HasPrefix(strings.ToLower(name), "assert"), pkg == "reflect" && name == "DeepEqual",
				pkg == "strings" && (name == "Compare" || name == "EqualFold"),
				strings.HasPrefix(name, "Error") || strings.HasPrefix(name, "Fatal"):
				return true
			}
		}
	}
	return false
}
