package rules

import (
	"fmt"
	"go/token"
	"go/types"
	"strings"

	"golang.org/x/tools/go/ssa"

	"hpfscheck/internal/load"
	"hpfscheck/internal/ssax"
)

// E-drop: for every fallible call in a function, the error must not be silently lost on the failing continuation.

type dropFinding struct {
	Key  string // "<fn>|<callee>#n|<kind>"
	Pos  string
	Kind string // discarded | dropped | value-used-with-error
	Msg  string
	Call ssa.CallInstruction
}

type dropOK struct {
	Key, Pos, Msg string
}

// dropOpts tunes the accepted idioms for one function.
type dropOpts struct {
	// acceptSentinel: branch `errors.Is(e, S)`==true consumes e.
	acceptSentinel func(sentinel string) bool
	// acceptSentinelFor: like acceptSentinel but may look at the call whose error is consumed (nil: not used).
	acceptSentinelFor func(sentinel string, call ssa.CallInstruction) bool
	// noOverride: another non-nil error returned in place of the call's error does not count as propagation.
	noOverride bool
	// only: restrict to calls for which it returns true (nil = all fallible calls).
	only func(c ssa.CallInstruction) bool
}

// flagWriteBits: O_WRONLY|O_RDWR|O_APPEND|O_CREAT|O_TRUNC on the loaded target are read from package constants.
func writeFlagMask(p *load.Program) int64 {
	var m int64
	for _, n := range []string{"FlagWriteOnly", "FlagReadWrite", "FlagAppend", "FlagCreate", "FlagTruncate"} {
		if c, ok := p.Pkg("").Types.Scope().Lookup(n).(*types.Const); ok {
			if v, ok := constInt64(c); ok {
				m |= v
			}
		}
	}
	return m
}

func constInt64(c *types.Const) (int64, bool) {
	s := c.Val().ExactString()
	var v int64
	_, err := fmt.Sscan(s, &v)
	return v, err == nil
}

// openedForWrite classifies the origin of a handle value: "read", "write", "unknown".
func openedForWrite(p *load.Program, v ssa.Value, depth int) string {
	if depth > 8 || v == nil {
		return "unknown"
	}
	switch x := v.(type) {
	case *ssa.Extract:
		c, ok := x.Tuple.(*ssa.Call)
		if !ok {
			return "unknown"
		}
		name := ""
		var args []ssa.Value
		if c.Call.IsInvoke() {
			name, args = c.Call.Method.Name(), c.Call.Args
		} else if callee := ssax.StaticCallee(c); callee != nil {
			name = callee.Name()
			args = c.Call.Args
			if callee.Signature.Recv() != nil || (len(args) > 0 && isFSType(args[0].Type())) {
				args = args[1:]
			}
		}
		switch name {
		case "Open":
			return "read"
		case "OpenFile":
			// args: name, flag, perm
			if len(args) >= 2 {
				if k, ok := ssax.ConstInt(args[1]); ok {
					if k&writeFlagMask(p) != 0 {
						return "write"
					}
					return "read"
				}
			}
			return "write"
		case "Create":
			return "write"
		}
		return "unknown"
	case *ssa.TypeAssert:
		// r.(io.Closer) of a reader parameter
		if n, ok := x.X.Type().(*types.Named); ok && n.Obj().Pkg() != nil && n.Obj().Pkg().Path() == "io" && n.Obj().Name() == "Reader" {
			return "read"
		}
		return openedForWrite(p, x.X, depth+1)
	case *ssa.MakeInterface:
		return openedForWrite(p, x.X, depth+1)
	case *ssa.ChangeInterface:
		return openedForWrite(p, x.X, depth+1)
	case *ssa.Phi:
		res := ""
		for _, e := range x.Edges {
			r := openedForWrite(p, e, depth+1)
			if res == "" {
				res = r
			} else if res != r {
				return "unknown"
			}
		}
		return res
	case *ssa.UnOp:
		if x.Op == token.MUL {
			switch a := x.X.(type) {
			case *ssa.Alloc:
				stores, esc := ssax.CellStores(a)
				if esc || len(stores) == 0 {
					return "unknown"
				}
				res := ""
				for _, st := range stores {
					r := openedForWrite(p, st.Val, depth+1)
					if res == "" {
						res = r
					} else if res != r {
						return "unknown"
					}
				}
				return res
			case *ssa.FreeVar:
				if b := ssax.ResolveFreeVar(a); b != nil {
					if al, ok := b.(*ssa.Alloc); ok {
						stores, esc := ssax.CellStores(al)
						if esc || len(stores) == 0 {
							return "unknown"
						}
						res := ""
						for _, st := range stores {
							r := openedForWrite(p, st.Val, depth+1)
							if res == "" {
								res = r
							} else if res != r {
								return "unknown"
							}
						}
						return res
					}
				}
			}
		}
	case *ssa.FreeVar:
		if b := ssax.ResolveFreeVar(x); b != nil {
			return openedForWrite(p, b, depth+1)
		}
	}
	return "unknown"
}

func isFSType(t types.Type) bool {
	it, ok := t.Underlying().(*types.Interface)
	if !ok {
		return false
	}
	for i := 0; i < it.NumMethods(); i++ {
		if it.Method(i).Name() == "Open" {
			return true
		}
	}
	return false
}

// isErrorsIs returns (errValue, sentinelName) for a call errors.Is(e, <global>).
func isErrorsIs(v ssa.Value) (ssa.Value, string, bool) {
	c, ok := v.(*ssa.Call)
	if !ok || !ssax.CalleeIs(c, "errors", "Is") || len(c.Call.Args) != 2 {
		return nil, "", false
	}
	s := ""
	if g := ssax.GlobalLoad(ssax.Unwrap(c.Call.Args[1])); g != nil {
		s = sentinelOfGlobal(g)
	}
	return c.Call.Args[0], s, true
}

// escapingUse: instruction ins uses value e in a way that hands it on (store, send, call argument, return…).
func escapingUse(ins ssa.Instruction, e ssa.Value, s *ssax.PathState) bool {
	same := func(v ssa.Value) bool {
		if v == nil {
			return false
		}
		r := s.Resolve(v)
		return r == e || ssax.Unwrap(r) == e
	}
	switch x := ins.(type) {
	case *ssa.Store:
		if same(x.Val) {
			// a store into a plain local cell is only a copy; the path state tracks it
			if _, ok := x.Addr.(*ssa.Alloc); ok {
				a := x.Addr.(*ssa.Alloc)
				_, esc := ssax.CellStores(a)
				// named result cell / captured variable counts as handing on only if a closure or return reads it;
				// we treat stores to cells as neutral and rely on Resolve for later loads.
				_ = esc
				return false
			}
			return true
		}
	case *ssa.Send:
		return same(x.X)
	case *ssa.MapUpdate:
		return same(x.Value)
	case *ssa.Panic:
		return same(x.X)
	case ssa.CallInstruction:
		cc := x.Common()
		if fn := cc.StaticCallee(); fn != nil && fn.Pkg != nil && fn.Pkg.Pkg.Path() == "errors" {
			return false
		}
		for _, a := range cc.Args {
			if same(a) {
				return true
			}
		}
		if cc.IsInvoke() && same(cc.Value) {
			return false // e.Error(): reading, not handing on
		}
	}
	return false
}

// dropCheck analyses all fallible calls of fn.
func dropCheck(p *load.Program, fn *ssa.Function, opts dropOpts) (bad []dropFinding, good []dropOK) {
	ord := ordinals{}
	fnErrIdx := ssax.ErrorResultIndex(fn.Signature)
	for _, b := range fn.Blocks {
		for idx, ins := range b.Instrs {
			ci, ok := ins.(ssa.CallInstruction)
			if !ok {
				continue
			}
			if _, isB := ci.Common().Value.(*ssa.Builtin); isB {
				continue
			}
			sig := ci.Common().Signature()
			eidx := ssax.ErrorResultIndex(sig)
			if eidx < 0 {
				continue
			}
			if opts.only != nil && !opts.only(ci) {
				continue
			}
			cname := ssax.CallName(ci)
			key := fname(fn) + "|" + ord.next("call:"+cname)
			pos := p.Pos(ci.Pos())
			if pos == "-" {
				pos = p.Pos(fn.Pos())
			}
			call, isCall := ci.(*ssa.Call)
			var e ssa.Value
			if isCall {
				e = ssax.ErrorValueOf(call)
			}
			if e == nil || !ssax.HasRealReferrers(e) {
				// discarded (includes `defer x.Close()` and `go f()`)
				if ok, why := acceptDiscard(p, fn, ci); ok {
					good = append(good, dropOK{key + "|discarded", pos, "discarded, accepted idiom: " + why})
				} else {
					bad = append(bad, dropFinding{Key: key + "|discarded", Pos: pos, Kind: "discarded", Call: ci,
						Msg: fmt.Sprintf("%s: the error of %s is discarded (%s)", fname(fn), cname, why)})
				}
				continue
			}
			// companion value (pointer/interface result #0 of a (T, error) call)
			var companion ssa.Value
			if sig.Results().Len() == 2 && eidx == 1 {
				t0 := sig.Results().At(0).Type()
				switch t0.Underlying().(type) {
				case *types.Pointer, *types.Interface:
					companion = ssax.ExtractOf(call, 0)
				}
			}
			init := ssax.NewPathState()
			// facts established by the branches that dominate the call
			for _, f := range ssax.FactsAtInstr(ci) {
				if x, eq, ok := ssax.NilTest(f.Cond); ok {
					if eq == f.Val {
						init.SetNil(x, ssax.IsNil)
					} else {
						init.SetNil(x, ssax.NonNil)
					}
				}
				init.SetBool(f.Cond, f.Val)
			}
			init.SetNil(e, ssax.NonNil)
			var dropped, valueUse, valueStored string
			complete := ssax.EnumPaths(fn, b, idx+1, init, ssax.PathHooks{
				Instr: func(s *ssax.PathState, in2 ssa.Instruction) {
					// the error is still non-nil on this path, whether or not it was tolerated or handed on: the value that
					// came with it must not be put into a collection (a listing with a nil entry panics in the caller)
					if companion != nil && valueStored == "" && s.Counts["cleared"] == 0 && s.Counts["handed"] == 0 {
						if st, ok := in2.(*ssa.Store); ok && st.Val != nil && (s.Resolve(st.Val) == companion || s.Resolve(ssax.Unwrap(st.Val)) == companion) {
							if _, isElem := st.Addr.(*ssa.IndexAddr); isElem {
								valueStored = p.Pos(in2.Pos())
							}
						}
					}
					if s.Counts["done"] > 0 {
						return
					}
					if escapingUse(in2, e, s) {
						s.Counts["done"] = 1
						s.Counts["handed"] = 1
						return
					}
					if companion != nil && valueUse == "" && s.Counts["cleared"] == 0 {
						if usesDeref(in2, companion, s) {
							valueUse = p.Pos(in2.Pos())
						}
					}
				},
				EvalCond: func(s *ssax.PathState, cond ssa.Value) (bool, bool) {
					if ev, _, ok := isErrorsIs(cond); ok {
						if s.NilOf(ev) == ssax.IsNil {
							return false, true // errors.Is(nil, x) is false
						}
					}
					return false, false
				},
				Branch: func(s *ssax.PathState, cond ssa.Value, taken bool) {
					cnd, val := ssax.StripNot(cond, taken)
					if ev, sent, ok := isErrorsIs(cnd); ok && val && s.Resolve(ev) == e {
						if (opts.acceptSentinel != nil && opts.acceptSentinel(sent)) || (opts.acceptSentinelFor != nil && opts.acceptSentinelFor(sent, ci)) {
							s.Counts["done"] = 1
						}
					}
					// e == io.EOF (if or switch form)
					if bo, ok := cnd.(*ssa.BinOp); ok && bo.Op == token.EQL && val {
						x, y := s.Resolve(bo.X), s.Resolve(bo.Y)
						if (x == e && ssax.IsGlobalLoad(y, "io", "EOF")) || (y == e && ssax.IsGlobalLoad(x, "io", "EOF")) {
							s.Counts["done"] = 1
						}
					}
				},
				End: func(s *ssax.PathState, last ssa.Instruction) {
					if s.Counts["done"] > 0 || dropped != "" {
						return
					}
					r := last.(*ssa.Return)
					// the error fills every slot of a per-input error slice that is returned (for i := range errs
					// { errs[i] = err }): the zero-iteration path only exists when there are no inputs to answer
					if fillsReturnedSlice(e, r, s) {
						return
					}
					if fnErrIdx < 0 {
						dropped = p.Pos(r.Pos()) + " (function has no error result and the error was not handed on)"
						return
					}
					rv := s.Resolve(resolveSpilledOnPath(r.Results[fnErrIdx], r, s))
					if rv == e || ssax.Unwrap(rv) == e {
						return
					}
					if s.NilOf(rv) == ssax.NonNil && !opts.noOverride {
						return // another, definitely non-nil error takes precedence
					}
					// … also through a wrapper that returns non-nil whenever its error argument is non-nil
					if wc, ok := rv.(*ssa.Call); ok {
						if callee := ssax.StaticCallee(wc); callee != nil && p.InModule(callee) {
							for ai, a := range wc.Call.Args {
								if ssax.IsErrorType(a.Type()) && s.NilOf(a) == ssax.NonNil && nonNilWhenArgNonNil(callee, ai) {
									return
								}
							}
						}
					}
					what := "a value that may be nil"
					if ssax.IsNilConst(rv) || s.NilOf(rv) == ssax.IsNil {
						what = "nil"
					}
					dropped = p.Pos(r.Pos()) + " returns " + what
				},
			})
			switch {
			case !complete:
				bad = append(bad, dropFinding{Key: key + "|undecided", Pos: pos, Kind: "undecided", Call: ci, Msg: fmt.Sprintf("%s: path cap exceeded while following the error of %s", fname(fn), cname)})
			case dropped != "":
				bad = append(bad, dropFinding{Key: key + "|dropped", Pos: pos, Kind: "dropped", Call: ci,
					Msg: fmt.Sprintf("%s: when %s fails, a path reaches %s without the error having been returned, wrapped or handed on", fname(fn), cname, dropped)})
			default:
				good = append(good, dropOK{key + "|propagates", pos, "error propagates on every failing path"})
			}
			if valueStored != "" {
				bad = append(bad, dropFinding{Key: key + "|value-kept-with-error", Pos: pos, Kind: "value-used-with-error", Call: ci,
					Msg: fmt.Sprintf("%s: on a path where %s returned a non-nil error (tolerated by a sentinel test), its other result — nil — is put into a collection at %s: the caller receives a nil element and panics on its first method call", fname(fn), cname, valueStored)})
			}
			if valueUse != "" {
				bad = append(bad, dropFinding{Key: key + "|value-used-with-error", Pos: pos, Kind: "value-used-with-error", Call: ci,
					Msg: fmt.Sprintf("%s: on the path where %s returned a non-nil error, its other result is dereferenced/invoked at %s (nil pointer panic)", fname(fn), cname, valueUse)})
			}
		}
	}
	return
}

// resolveSpilledOnPath: like resolveSpilled but prefers the path state's knowledge of cells.
func resolveSpilledOnPath(v ssa.Value, at ssa.Instruction, s *ssax.PathState) ssa.Value {
	r := s.Resolve(v)
	if r != v {
		return r
	}
	return resolveSpilled(v, at)
}

func usesDeref(ins ssa.Instruction, v ssa.Value, s *ssax.PathState) bool {
	same := func(x ssa.Value) bool { return x != nil && s.Resolve(x) == v }
	switch x := ins.(type) {
	case ssa.CallInstruction:
		cc := x.Common()
		if cc.IsInvoke() && same(cc.Value) {
			return true
		}
		if fn := cc.StaticCallee(); fn != nil && fn.Signature.Recv() != nil && len(cc.Args) > 0 && same(cc.Args[0]) {
			if _, isPtr := fn.Signature.Recv().Type().(*types.Pointer); isPtr {
				return false // pointer-receiver method on nil pointer is legal until it dereferences; not judged here
			}
		}
	case *ssa.FieldAddr:
		return same(x.X)
	case *ssa.UnOp:
		if x.Op == token.MUL && same(x.X) {
			return true
		}
	}
	return false
}

// acceptDiscard: accepted shapes of a discarded error result.
func acceptDiscard(p *load.Program, fn *ssa.Function, ci ssa.CallInstruction) (bool, string) {
	cc := ci.Common()
	name := ""
	var recv ssa.Value
	if cc.IsInvoke() {
		name, recv = cc.Method.Name(), cc.Value
	} else if callee := cc.StaticCallee(); callee != nil {
		name = callee.Name()
		if callee.Signature.Recv() != nil && len(cc.Args) > 0 {
			recv = cc.Args[0]
		}
	}
	switch name {
	case "Close":
		switch openedForWrite(p, recv, 0) {
		case "read":
			return true, "closing a handle that was opened read-only"
		case "write":
			return false, "the handle was opened for writing: a failing Close means the data may not have been stored"
		default:
			return false, "origin of the closed handle cannot be determined"
		}
	case "Abort":
		return true, "aborting a transaction on an error path"
	case "Remove":
		// cleanup of a partial destination while a primary error is being returned
		for _, f := range ssax.FactsAtInstr(ci) {
			if x, eq, ok := ssax.NilTest(f.Cond); ok && eq != f.Val && ssax.IsErrorType(x.Type()) {
				return true, "cleanup while returning a primary error"
			}
		}
		return false, "Remove's error ignored outside an error-cleanup path"
	}
	if strings.HasPrefix(name, "Fprint") || strings.HasPrefix(name, "Print") {
		return true, "diagnostic output"
	}
	return false, "no accepted idiom"
}

// fillsReturnedSlice: e is stored into an element of a slice that this return hands back, inside a loop bounded by
// that slice's length, and the path passed that loop's header.
func fillsReturnedSlice(e ssa.Value, r *ssa.Return, s *ssax.PathState) bool {
	if e.Referrers() == nil {
		return false
	}
	for _, ref := range *e.Referrers() {
		st, ok := ref.(*ssa.Store)
		if !ok || st.Val != e {
			continue
		}
		ia, ok := st.Addr.(*ssa.IndexAddr)
		if !ok {
			continue
		}
		returned := false
		for _, rv := range r.Results {
			if rv == ia.X {
				returned = true
			}
		}
		if !returned {
			continue
		}
		// the loop bound: len(slice) evaluated in a block on this path
		if ia.X.Referrers() == nil {
			continue
		}
		for _, lr := range *ia.X.Referrers() {
			cl, ok := lr.(*ssa.Call)
			if !ok {
				continue
			}
			if b, ok := cl.Call.Value.(*ssa.Builtin); !ok || b.Name() != "len" {
				continue
			}
			for _, pb := range s.Blocks {
				if pb == cl.Block() {
					return true
				}
			}
		}
	}
	return false
}

// nonNilWhenArgNonNil: every return of callee hands back a definitely non-nil error, except returns that are
// dominated by "parameter ai == nil" (the wrapper idiom: if err == nil { return nil }; return &T{…, Err: err}).
func nonNilWhenArgNonNil(callee *ssa.Function, ai int) bool {
	if callee == nil || callee.Blocks == nil || ai >= len(callee.Params) {
		return false
	}
	eidx := ssax.ErrorResultIndex(callee.Signature)
	if eidx < 0 {
		return false
	}
	prm := ssa.Value(callee.Params[ai])
	for _, r := range ssax.Returns(callee) {
		e := r.Results[eidx]
		if definitelyNonNilErr(e) {
			continue
		}
		if e == prm {
			continue // returns the argument itself
		}
		underNil := false
		for _, f := range ssax.FactsAtInstr(r) {
			if x, eq, ok := ssax.NilTest(f.Cond); ok && x == prm && eq == f.Val {
				underNil = true
			}
		}
		if !underNil {
			return false
		}
	}
	return true
}
